/-
C10 — no request or response can make validation of a valid document panic.

Full-strength goal (DESIGN §4):
    valid_doc_no_panic : DocValid d → ∀ traffic, outcome d traffic ≠ panic ∧ outcome d traffic ≠ diverge
One deviation is left on the current tree, so what is proved is `valid_doc_no_panic_partial` under the decidable
exclusion `ExclC10` (a property of the document):
  F-C10-1  UnguardedRecursion  (DESIGN §7 #6, open)  `A: {allOf:[{$ref:A}]}` → unbounded recursion
Three classes of round 3 are repaired (theorems below at full strength again, witnesses kept as regression theorems
and corpus cases):
  F-C10-6 (2104468, ccc6020) `SchemaError.Error` panicked on a value JSON cannot encode → `errorText_no_panic_partial`
  F-C10-7 (ca97fab) deepcopy panicked on a YAML null/NaN mapping key under oneOf/anyOf  → the YAML decoder rejects such bodies
  F-C10-8 (ab8c63f) `sliceMapToSlice` built every element up to a huge index            → the decoder returns an error
Four more classes were found while this check was built and have since been repaired in the repository;
their theorems are now at full strength and their witness inputs are regression cases in corpus/C10:
  F-C10-2 (8654816) legacy router, request path spells a non-matching template → `legacyFindRoute_no_panic`
  F-C10-3 (a0fa632) gorillamux NewRouter, `:{` without `}`                     → `gorillaPortBranch_no_panic`
  F-C10-4 (b569d4d) parameter described by `content: {application/json: {}}`   → `validateParameter_no_panic_partial` without that exclusion
  F-C10-5 (08457da) `L: {items: {$ref: L}}`, IsEmpty followed the cycle         → `guarded_recursion_terminates` for schemas without own keywords too
plus the translator obligation `all_sites_discharged` over the regenerated panic-site table.
-/
import KinModel.PanicSites
import KinModel.Gen.PanicSites
import KinModel.MapRanges
import KinModel.Gen.MapRanges
import KinModel.SchemaSites
import KinModel.Gen.SubSchemaFields
import KinModel.Gen.SchemaErrorSites
import KinModel.NoPanic.Server
import KinModel.NoPanic.Router
import KinModel.NoPanic.Recursion
import KinModel.NoPanic.Traffic
import KinModel.NoPanic.PatternCache
import KinModel.Gen.C10CacheSites

namespace KinModel.Props.C10
open KinModel.NoPanic KinModel.NoPanic.Traffic KinModel.NoPanic.Router

/-! ## T: the regenerated panic-site table -/

/-- every potentially panicking operation reachable from the traffic entry points is either guarded
    syntactically or discharged by a named lemma / library contract / open finding with the same
    (file, function, kind, count). A new unguarded site, or a guard that disappears, breaks this. -/
theorem all_sites_discharged_table : PanicSites.allDischarged PanicSites.expectations Gen.panicSites = true := by decide

theorem all_sites_discharged : ∀ r ∈ Gen.panicSites, r.discharged PanicSites.expectations = true :=
  PanicSites.discharged_of_all all_sites_discharged_table

/-- the extractor could read every code shape it met (an `unrecognised` row is never discharged) -/
theorem all_sites_recognised : ∀ r ∈ Gen.panicSites, PanicSites.recognised r = true :=
  fun r hr => PanicSites.recognised_of_discharged (all_sites_discharged r hr)

/-- no stale expectation: every hand-written entry still discharges a row of the regenerated table -/
theorem all_expectations_used : PanicSites.allUsed PanicSites.expectations Gen.panicSites = true := by decide

/-- no row is discharged as an open finding (the `panic(err)` of `SchemaError.Error`, F-C10-6, is gone since 2104468;
    the rows of F-C10-3 and F-C10-4 are guarded in the code since their repair) -/
theorem open_finding_rows :
    PanicSites.openFindingRows PanicSites.expectations Gen.panicSites = [] := by decide

/-! ## T2: the regenerated map-range table (map iteration order) -/

/-- every `range` over a map in the functions reachable from the traffic entry points is sorted first, of an
    order-free shape, or explained by hand with the same (file, function, count). A new unsorted loop breaks this. -/
theorem all_map_ranges_discharged_table :
    MapRanges.allDischarged MapRanges.expectations Gen.mapRanges = true := by decide

theorem all_map_ranges_discharged : ∀ r ∈ Gen.mapRanges, r.discharged MapRanges.expectations = true :=
  MapRanges.discharged_of_all all_map_ranges_discharged_table

theorem all_map_ranges_recognised : ∀ r ∈ Gen.mapRanges, MapRanges.recognised r = true :=
  fun r hr => MapRanges.recognised_of_discharged (all_map_ranges_discharged r hr)

theorem all_map_range_expectations_used : MapRanges.allUsed MapRanges.expectations Gen.mapRanges = true := by decide

/-- no loop's order decides between a panic and a normal return (DESIGN #35 is repaired) -/
theorem no_order_dependent_panic :
    MapRanges.openFindingRows MapRanges.expectations Gen.mapRanges = [] := by decide

/-- the loops whose order is visible in the verdict, the route or the error text (not in panics): exactly these -/
theorem order_visible_rows :
    MapRanges.panicFreeRows MapRanges.expectations Gen.mapRanges =
      ["permutePart", "NewRouter", "UrlencodedBodyDecoder", "buildResObj", "makeObject", "notJSONData"] := by decide

/-! ## T3: `IsEmpty` is only evaluated where it terminates; enum errors carry their schema -/

/-- `Schema.IsEmpty` descends through Not, AdditionalProperties.Schema, Items, Properties, OneOf, AnyOf, AllOf without
    a visited set; `hasSubSchemas` tests every one of them and the only caller outside `IsEmpty` (`visitJSON`) stands
    behind `!schema.hasSubSchemas() &&`. A field dropped from `hasSubSchemas` (the seeded change C10-r3m2), a new
    field in `IsEmpty`, or a new unguarded caller breaks this. -/
theorem isEmpty_fields_all_guarded : SchemaSites.isEmptyGuarded Gen.subSchemaFields = true := by decide

/-- every `SchemaError` literal of openapi3 / openapi3filter whose `SchemaField` is "enum" (or is not a literal) sets
    `Schema`: the errors the library builds satisfy `ErrWF` -/
theorem enum_errors_carry_schema : SchemaSites.enumErrorsCarrySchema Gen.schemaErrorSites = true := by decide

/-! ## Server.MatchRawURL -/

/-- for every server pattern and every input, `MatchRawURL` does not index out of range -/
theorem matchRawURL_no_panic (pattern input : List Char) : Server.matchRawURL pattern input ≠ .panic :=
  Server.loop_ne_panic _ _ _ _

/-- the fuel of the model is enough: the loop ends because the pattern is consumed -/
theorem matchRawURL_total (pattern input : List Char) : Server.matchRawURL pattern input ≠ .outOfFuel :=
  Server.loop_fuel _ _ _ _ (Nat.lt_succ_self _)

theorem matchServers_no_panic (servers : List (List Char)) (input : List Char) :
    Server.matchServers servers input ≠ some .panic := Router.matchServers_ne_panic servers input

/-- non-vacuity: a trailing-slash server against the URL without it matches with remaining path "/" -/
example : Server.matchRawURL "http://h/v1/".toList "http://h/v1".toList = .matched [] ['/'] := by decide
example : Server.matchRawURL "http://{e}.h/".toList "http://qa.h/a".toList = .matched ["qa".toList] "/a".toList := by decide
example : Server.matchRawURL "http://h/v1".toList "http://h/v2".toList = .noMatch := by decide

/-! ## routers -/

/-- for every document and every request the legacy router's FindRoute does not panic (full strength since
    8654816: the fall-back after a failed match always ends in a route error) -/
theorem legacyFindRoute_no_panic (servers : List Str) (paths : List PathM) (method rawURL urlPath : Str) :
    ∀ site, legacyFindRoute servers paths method rawURL urlPath ≠ .panic site := by
  intro site
  unfold legacyFindRoute
  split
  · simp
  · split
    · exact legacyAfterServer_no_panic _ _ _ site
    · have hp := Router.matchServers_ne_panic servers rawURL
      split
      · simp
      · exact legacyAfterServer_no_panic _ _ _ site
      · rename_i h; exact absurd h hp
      · simp

def pathsW : List PathM := [⟨"/a/{x}.json".toList, ["GET".toList]⟩]

/-- regression of F-C10-2: the request that spells the template is "path not found" -/
theorem legacy_literal_template_regression :
    legacyFindRoute [] pathsW "GET".toList "http://h/a/%7Bx%7D.json".toList "/a/{x}.json".toList = .pathNotFound := by decide

example : legacyFindRoute [] pathsW "GET".toList [] "/a/5.json".toList = .pathNotFound := by decide
example : legacyFindRoute ["http://h/v1/".toList] [⟨"/a/{x}".toList, ["GET".toList]⟩] "GET".toList
      "http://h/v1/a/7".toList "/v1/a/7".toList = .found := by decide
example : legacyFindRoute [] [⟨"/a".toList, ["GET".toList]⟩] "PROPFIND".toList [] "/a".toList = .methodNotAllowed := by decide

/-- MuxMatchedMethod: when gorilla/mux keeps its `Methods(...)` contract, `GetOperation` neither panics
    nor returns nil, for every request method whatsoever -/
theorem gorilla_getOperation_no_panic (routes : List (List Str)) (muxMatch : Option Nat) (method : Str)
    (hdecl : ∀ ms ∈ routes, DeclaredOK ms) (hmux : MuxContract routes muxMatch method) :
    gorillaFindRoute routes muxMatch method = .inr () ∨ gorillaFindRoute routes muxMatch method = .inl .op := by
  unfold gorillaFindRoute
  cases muxMatch with
  | none => left; rfl
  | some i =>
    right
    obtain ⟨ms, hget, hin⟩ := hmux i rfl
    simp only [hget]
    have hmem : ms ∈ routes := List.mem_of_getElem? hget
    have hk := hdecl ms hmem method hin
    have hk' : method ∈ knownMethods := List.contains_iff_mem.mp hk
    have hin' : method ∈ ms := List.contains_iff_mem.mp hin
    simp [getOperation, hk', hin']

/-- without the contract (a path item with no operations matching every method) the panic is reachable:
    this is what the `Methods(methods...)` call protects -/
theorem getOperation_unknown_method_panics : getOperation [] "PROPFIND".toList = .panic := by decide

/-- the port-variable branch of gorillamux `makeServers` never slices out of range (full strength since a0fa632) -/
theorem gorillaPortBranch_no_panic (u : Str) : gorillaPortBranch u ≠ .panic := Router.gorillaPortBranch_no_panic u

/-- regression of F-C10-3: the unclosed port variable is a router-construction error -/
theorem port_unclosed_regression : gorillaPortBranch "http://h/{{}}}:{".toList = .routerError := by decide

example : gorillaPortBranch "http://h:{port}/v1".toList = .port "port".toList := by decide
example : gorillaPortBranch "{server}".toList = .noPort := by decide

/-! ## stage-2 recursion (finding #6) -/

/-- more fuel never changes a decided result -/
theorem fuel_monotone (Γ : Recursion.Env) (k fuel : Nat) (s : Recursion.S) (v : Recursion.J) (b : Bool)
    (h : Recursion.visit Γ fuel s v = .ok b) : Recursion.visit Γ (fuel + k) s v = .ok b :=
  (Recursion.visit_mono_k Γ k).1 fuel s v b h

/-- witness F-C10-1: `A: {allOf: [{$ref: A}]}`, with or without own keywords, is undecided for every amount
    of fuel and every value -/
theorem unguarded_recursion_diverges (own : Bool) (v : Recursion.J) (fuel : Nat) :
    Recursion.visit (Recursion.Γ6 own) fuel (.ref 0) v = .diverge := (Recursion.unguarded_diverges own v fuel).1

/-- a recursive schema whose cycle passes through `items` is decided for every value — also when it has no
    keyword of its own (`L: {items: {$ref: L}}`, F-C10-5 before 08457da) -/
theorem guarded_recursion_terminates (own : Bool) (v : Recursion.J) :
    Recursion.visit (Recursion.ΓL own) (Recursion.fuelFor v) (.ref 0) v = .ok true := Recursion.guarded_terminates own v

/-- `Schema.IsEmpty` as a function still follows that cycle without end; `visitJSON` no longer evaluates it
    on schemas with sub-schemas, and on the others it answers at once -/
theorem isEmpty_still_diverges (fuel : Nat) : Recursion.isEmpty (Recursion.ΓL false) fuel (.ref 0) = .diverge :=
  (Recursion.isEmpty_diverges fuel).1
theorem isEmpty_without_subschemas_answers (Γ : Recursion.Env) (own : Bool) (fuel : Nat) :
    Recursion.isEmpty Γ (fuel + 1) (.node own none [] [] none [] none) = .ok (!own) := Recursion.isEmpty_no_sub Γ own fuel

/-- `Labels: {additionalProperties: {$ref: Labels}}` is decided on every value although `Schema.IsEmpty` does not
    terminate on it: `visitJSON` only evaluates `IsEmpty` on schemas without sub-schemas (obligation
    `isEmpty_fields_all_guarded` over the regenerated table `SubSchemaFields`) -/
theorem addl_cycle_decided (s : Recursion.S) (v : Recursion.J) :
    ∃ n b, ∀ m, n ≤ m → Recursion.visit (Recursion.envOf [.node false none [] [] none [] (some (.ref 0))]) m s v = .ok b :=
  Recursion.guardedB_sound _ (by decide) v s

theorem isEmpty_addl_cycle_diverges (fuel : Nat) : Recursion.isEmpty Recursion.ΓP fuel (.ref 0) = .diverge :=
  (Recursion.isEmpty_addl_diverges fuel).1

/-- the same defect through the other unguarded positions: `A: {not: {$ref: A}}`, `A: {anyOf: [{$ref: A}]}` -/
theorem unguarded_not_diverges (v : Recursion.J) (fuel : Nat) :
    Recursion.visit Recursion.ΓN fuel (.ref 0) v = .diverge := (Recursion.not_cycle_diverges v fuel).1
theorem unguarded_anyOf_diverges (v : Recursion.J) (fuel : Nat) :
    Recursion.visit Recursion.ΓY fuel (.ref 0) v = .diverge := (Recursion.anyOf_cycle_diverges v fuel).1

/-- GENERAL (every environment, every schema, every value): when the unguarded references — those not under
    `items` — can be ranked, i.e. form no cycle, the validator decides, and the decision is the same for every
    larger amount of fuel: no unbounded recursion outside F-C10-1 -/
theorem guarded_recursion_decided (Γ : Recursion.Env) (rk : Nat → Nat) (hR : Recursion.Ranked Γ rk)
    (s : Recursion.S) (v : Recursion.J) : ∃ n b, ∀ m, n ≤ m → Recursion.visit Γ m s v = .ok b :=
  Recursion.ranked_never_diverges Γ rk hR v s

/-- the decidable form the driver evaluates: `guardedB defs` (ranks computed by relaxation and then checked) is a
    sufficient condition; `ExclRec defs := !guardedB defs` is the exclusion of F-C10-1 on this fragment -/
def ExclRec (defs : List Recursion.S) : Bool := !Recursion.guardedB defs

theorem guarded_recursion_decided_partial (defs : List Recursion.S) (hx : ExclRec defs = false)
    (s : Recursion.S) (v : Recursion.J) : ∃ n b, ∀ m, n ≤ m → Recursion.visit (Recursion.envOf defs) m s v = .ok b :=
  Recursion.guardedB_sound defs (by simpa [ExclRec] using hx) v s

/-- the check separates the witnesses: the three unguarded self-references are excluded, the guarded ones and a
    two-definition chain are not; the depth-bounded cycle search of the driver agrees on them -/
theorem unguarded_cycle_detected :
    ExclRec [.node true none [] [.ref 0] none [] none] = true ∧ ExclRec [.node false none [] [.ref 0] none [] none] = true ∧
    ExclRec [.node false (some (.ref 0)) [] [] none [] none] = true ∧ ExclRec [.node false none [.leaf true, .ref 0] [] none [] none] = true ∧
    ExclRec [.node false none [] [] (some (.ref 0)) [] none] = false ∧
    ExclRec [.node false none [] [.ref 1] (some (.ref 0)) [] none, .node true (some (.leaf false)) [.leaf true] [] (some (.ref 0)) [] none] = false ∧
    Recursion.hasUnguardedCycle [.node true none [] [.ref 0] none [] none] = true ∧
    Recursion.hasUnguardedCycle [.node false none [] [.ref 0] none [] none] = true ∧
    Recursion.hasUnguardedCycle [.node false none [] [] (some (.ref 0)) [] none] = false ∧
    -- cycles through additionalProperties / properties are guarded (the class of C10-r3m2: Labels, Node)
    ExclRec [.node false none [] [] none [] (some (.ref 0))] = false ∧
    ExclRec [.node false none [] [] none [(1, .ref 0)] none] = false ∧
    ExclRec [.node false none [] [] none [(1, .node false none [] [.ref 0] none [] none)] (some (.ref 0))] = false := by decide

/-- non-vacuity of the general theorem: a two-definition environment with a guarded cycle and an unguarded chain -/
example : ∃ n b, ∀ m, n ≤ m → Recursion.visit
    (Recursion.envOf [.node false none [] [.ref 1] (some (.ref 0)) [] none, .node true (some (.leaf false)) [.leaf true] [] (some (.ref 0)) [] none])
    m (.ref 0) (.arr [.num 1, .arr [.num 2]]) = .ok b :=
  guarded_recursion_decided_partial _ (by decide) _ _

/-! ## request, response, error conversion -/

theorem validateParameter_no_panic_partial (p : ParamM) (b : Bits) (hwf : p.wf = true)
    (hu1 : ∀ s, p.schema = some s → s.unguarded = false)
    (hu2 : ∀ m s, p.jsonMedia = some m → m.schema = some s → s.unguarded = false)
    :
    (validateParameter p b).bad = false := by
  unfold ParamM.wf at hwf
  simp only [Bool.and_eq_true, Bool.not_eq_true'] at hwf
  obtain ⟨⟨hv, hs⟩, hm⟩ := hwf
  unfold validateParameter
  simp only [hv, Bool.false_eq_true, if_false]
  split
  · rfl
  · split
    · rename_i hc
      split
      · split
        · rfl
        · exact afterDecode_not_bad _ _ _ (by simp)
      · split
        · rfl
        · split
          · rfl
          · rename_i hlen
            cases hj : p.jsonMedia with
            | none => rfl
            | some mt =>
              simp only
              cases hms : mt.schema with
              | none =>
                simp only
                split
                · rfl
                · exact afterDecode_not_bad _ _ _ (by simp)
              | some s =>
                simp only
                have hres : s.resolved = true := by simpa [hj, MediaM.wf, hms, SchemaM.wf] using hm
                have hung := hu2 mt s hj hms
                simp only [hres, Bool.not_true, Bool.false_eq_true, if_false]
                split
                · rfl
                · exact afterDecode_not_bad _ _ _ (by intro x hx'; cases hx'; exact ⟨hres, hung⟩)
    · cases hsc : p.schema with
      | none => rfl
      | some s =>
        simp only
        have hres : s.resolved = true := by simpa [hsc, SchemaM.wf] using hs
        have hung := hu1 s hsc
        simp only [hres, Bool.not_true, Bool.false_eq_true, if_false]
        split
        · rfl
        · exact afterDecode_not_bad _ _ _ (by intro x hx'; cases hx'; exact ⟨hres, hung⟩)

theorem validateBody_no_panic_partial (rb : BodyM) (b : BodyBits) (hwf : rb.wf = true)
    (hu : rb.content.any MediaM.unguarded = false) : (validateBody rb b).bad = false := by
  unfold BodyM.wf at hwf
  simp only [Bool.and_eq_true, Bool.not_eq_true'] at hwf
  obtain ⟨hv, hc⟩ := hwf
  unfold validateBody
  simp only [hv, Bool.false_eq_true, if_false]
  split
  · split <;> rfl
  · split
    · rfl
    · cases hm : b.ctMatch.bind (rb.content[·]?) with
      | none => rfl
      | some mt =>
        simp only
        have hmem : mt ∈ rb.content := by
          cases hct : b.ctMatch with
          | none => simp [hct] at hm
          | some i => simp [hct] at hm; exact List.mem_of_getElem? hm
        cases hs : mt.schema with
        | none => rfl
        | some s =>
          simp only
          have hres : s.resolved = true := by
            have := List.all_eq_true.mp hc mt hmem
            simpa [MediaM.wf, hs, SchemaM.wf] using this
          have hung : s.unguarded = false := by
            have := (List.any_eq_false.mp hu) mt hmem
            simpa [MediaM.unguarded, hs] using this
          simp only [hres, Bool.not_true, Bool.false_eq_true, if_false]
          split
          · rfl
          · exact visit_not_bad _ _ hres hung

theorem validateHeader_no_panic_partial (h : HeaderM) (b : Bits) (hwf : h.wf = true)
    (hu : ∀ s, h.schema = some s → s.unguarded = false) : (validateHeader h b).bad = false := by
  unfold HeaderM.wf at hwf
  simp only [Bool.and_eq_true, Bool.not_eq_true'] at hwf
  obtain ⟨hv, hs⟩ := hwf
  unfold validateHeader
  simp only [hv, Bool.false_eq_true, if_false]
  cases hsc : h.schema with
  | none => simp only; split <;> rfl
  | some s =>
    simp only
    have hres : s.resolved = true := by simpa [hsc, SchemaM.wf] using hs
    simp only [hres, Bool.not_true, Bool.false_eq_true, if_false]
    split
    · rfl
    · split
      · exact visit_not_bad _ _ hres (hu s hsc)
      · split <;> rfl

/-- the decidable exclusion of the request/response part -/
def ExclOp (op : OpM) : Bool := UnguardedRecursion op

/-- `ValidateRequest` on a valid document outside the exclusion: for ALL traffic (all decoder and
    validator answers) the outcome is success or an error, never a panic or unbounded recursion -/
theorem validateRequest_no_panic_partial (op : OpM) (t : ReqTraffic) (hv : DocValid op = true)
    (hx : ExclOp op = false) : (validateRequest op t).bad = false := by
  unfold DocValid at hv
  simp only [Bool.and_eq_true] at hv
  obtain ⟨⟨hp, hb⟩, _⟩ := hv
  unfold ExclOp at hx
  have hu := hx
  unfold UnguardedRecursion at hu
  simp only [Bool.or_eq_false_iff] at hu
  obtain ⟨⟨hup, hub⟩, _⟩ := hu
  unfold validateRequest
  apply seq_not_bad
  intro o ho
  simp only [List.mem_append, List.mem_map] at ho
  rcases ho with ⟨ip, hip, rfl⟩ | ho
  · have hmem := mem_zipIdx _ _ _ hip
    have hwf := List.all_eq_true.mp hp ip.2 hmem
    have hun := Bool.eq_false_iff.mpr ((List.any_eq_false.mp hup) ip.2 hmem)
    simp only [Bool.or_eq_false_iff] at hun
    apply validateParameter_no_panic_partial _ _ hwf
    · intro s hs; simpa [hs] using hun.1
    · intro m s hm hs; simpa [hm, MediaM.unguarded, hs] using hun.2
  · cases hbody : op.body with
    | none => simp [hbody] at ho
    | some rb =>
      simp only [hbody, List.mem_singleton] at ho
      subst ho
      apply validateBody_no_panic_partial
      · simpa [hbody] using hb
      · simpa [hbody] using hub

theorem validateResponse_no_panic_partial (op : OpM) (t : RespTraffic) (hv : DocValid op = true)
    (hx : ExclOp op = false) : (validateResponse op t).bad = false := by
  unfold DocValid at hv
  simp only [Bool.and_eq_true] at hv
  obtain ⟨_, hr⟩ := hv
  unfold ExclOp at hx
  have hu := hx
  unfold UnguardedRecursion at hu
  simp only [Bool.or_eq_false_iff] at hu
  obtain ⟨_, hur⟩ := hu
  unfold validateResponse
  split
  · rfl
  · split
    · rfl
    · cases hm : t.chosen.bind (op.responses[·]?) with
      | none => rfl
      | some r =>
        simp only
        have hmem : r ∈ op.responses := by
          cases hct : t.chosen with
          | none => simp [hct] at hm
          | some i => simp [hct] at hm; exact List.mem_of_getElem? hm
        have hwf := List.all_eq_true.mp hr r hmem
        have hun := Bool.eq_false_iff.mpr ((List.any_eq_false.mp hur) r hmem)
        unfold ResponseM.wf at hwf
        simp only [Bool.and_eq_true] at hwf
        simp only [Bool.or_eq_false_iff] at hun
        split
        · rfl
        · have hh : (seq false ((zipIdx r.headers 0).map (fun ih => validateHeader ih.2 (t.headerBits ih.1)))).bad = false := by
            apply seq_not_bad
            intro o ho
            simp only [List.mem_map] at ho
            obtain ⟨ih, hih, rfl⟩ := ho
            have hmemh := mem_zipIdx _ _ _ hih
            apply validateHeader_no_panic_partial _ _ (List.all_eq_true.mp hwf.1 ih.2 hmemh)
            intro s hs
            have := (List.any_eq_false.mp hun.1) ih.2 hmemh
            simpa [hs] using this
          split
          · split
            · rfl
            · split
              · rfl
              · cases hm2 : t.body.ctMatch.bind (r.content[·]?) with
                | none => rfl
                | some mt =>
                  simp only
                  have hmem2 : mt ∈ r.content := by
                    cases hct : t.body.ctMatch with
                    | none => simp [hct] at hm2
                    | some i => simp [hct] at hm2; exact List.mem_of_getElem? hm2
                  cases hs : mt.schema with
                  | none => rfl
                  | some s =>
                    simp only
                    have hres : s.resolved = true := by
                      have := List.all_eq_true.mp hwf.2 mt hmem2
                      simpa [MediaM.wf, hs, SchemaM.wf] using this
                    have hung : s.unguarded = false := by
                      have := (List.any_eq_false.mp hun.2) mt hmem2
                      simpa [MediaM.unguarded, hs] using this
                    simp only [hres, Bool.not_true, Bool.false_eq_true, if_false]
                    split
                    · rfl
                    · exact visit_not_bad _ _ hres hung
          · exact hh

/-- `ConvertErrors` never panics on the errors the validators build (enum errors carry their schema) -/
theorem convertErrors_no_panic (e : ReqErrM) (h : ErrWF e = true) : (convertErrors e).bad = false := by
  unfold convertErrors
  unfold ErrWF at h
  cases hc : e.cause with
  | schema chain => simp only [hc] at h; exact convertSchema_not_bad _ _ h
  | none => rfl
  | required => rfl
  | emptyValue => rfl
  | parse a b c => rfl
  | other => rfl

/-- what one literal of the table builds, as `ConvertErrors` sees it -/
def builtBy (r : SchemaSites.ErrRow) : SchemaErrM := ⟨r.enumLike, !r.schemaSet⟩

/-- `ErrWF` is not an assumption about the library's own errors: a request error whose schema-error chain consists
    of errors built by the literals of the regenerated table `SchemaErrorSites` is well-formed, so `ConvertErrors`
    does not panic on it -/
theorem convertErrors_no_panic_of_library_errors (paramNil : Bool) (chain : List SchemaErrM)
    (h : ∀ x ∈ chain, ∃ r ∈ Gen.schemaErrorSites, x = builtBy r) :
    (convertErrors ⟨paramNil, .schema chain⟩).bad = false := by
  apply convertErrors_no_panic
  unfold ErrWF
  simp only [List.all_eq_true]
  intro x hx
  obtain ⟨r, hr, rfl⟩ := h x hx
  have hall := enum_errors_carry_schema
  unfold SchemaSites.enumErrorsCarrySchema at hall
  simp only [Bool.and_eq_true, List.all_eq_true] at hall
  have := hall.1 r hr
  simp only [builtBy]
  cases he : r.enumLike <;> cases hs : r.schemaSet <;> simp_all

/-- the whole modelled path: route (either router) → request → response → error conversion -/
structure Scenario where
  servers : List Str
  paths : List PathM
  method : Str
  rawURL : Str
  urlPath : Str
  op : OpM                   -- the operation the route selects
  req : ReqTraffic
  resp : RespTraffic
  errs : List ReqErrM        -- the request errors handed to ConvertErrors

def ExclC10 (s : Scenario) : Bool := ExclOp s.op

/-- the text of the error `ValidateRequest` / `ValidateResponse` returned (`err.Error()`, also what
    `http.Error(w, err.Error(), 400)`, `DefaultErrorEncoder` and `ValidationHandler` write) can always be produced:
    since 2104468 `SchemaError.Error` has no panic left (table `PanicSites`: the row is gone, `open_finding_rows`) -/
theorem errorText_no_panic_partial (op : OpM) (t : ReqTraffic) (r : RespTraffic) (hv : DocValid op = true)
    (hx : ExclOp op = false) :
    (errorText (validateRequest op t)).bad = false ∧ (errorText (validateResponse op r)).bad = false :=
  ⟨validateRequest_no_panic_partial op t hv hx, validateResponse_no_panic_partial op r hv hx⟩

/-- C10 on the model, partial: a valid document without an unguarded reference cycle (F-C10-1, the one open
    finding) cannot be made to panic or recurse without bound by any traffic through the legacy router, the
    gorilla router's port branch, ValidateRequest, ValidateResponse, the text of their errors and ConvertErrors -/
theorem valid_doc_no_panic_partial (s : Scenario) (hv : DocValid s.op = true) (hx : ExclC10 s = false)
    (herr : ∀ e ∈ s.errs, ErrWF e = true) :
    (∀ site, legacyFindRoute s.servers s.paths s.method s.rawURL s.urlPath ≠ .panic site) ∧
    (∀ u ∈ s.servers, gorillaPortBranch u ≠ .panic) ∧
    (validateRequest s.op s.req).bad = false ∧
    (validateResponse s.op s.resp).bad = false ∧
    (errorText (validateRequest s.op s.req)).bad = false ∧
    (errorText (validateResponse s.op s.resp)).bad = false ∧
    (∀ e ∈ s.errs, (convertErrors e).bad = false) :=
  ⟨legacyFindRoute_no_panic _ _ _ _ _, fun u _ => gorillaPortBranch_no_panic u,
   validateRequest_no_panic_partial _ _ hv hx, validateResponse_no_panic_partial _ _ hv hx,
   validateRequest_no_panic_partial _ _ hv hx, validateResponse_no_panic_partial _ _ hv hx,
   fun e he => convertErrors_no_panic e (herr e he)⟩

/-! ## witnesses inside the exclusion, non-vacuity outside -/

def sOK : SchemaM := ⟨true, false⟩
def bitsAny : Bits := ⟨true, false, false, false, false⟩

/-- regression of F-C10-4: content parameter whose media type has no schema, parameter present in the request:
    decoded, not validated -/
theorem content_param_no_schema_regression :
    let p : ParamM := ⟨false, true, false, false, none, true, 1, some ⟨none⟩⟩
    p.wf = true ∧ validateParameter p bitsAny = .ok := by decide

/-- witness F-C10-1 on the traffic model: a resolved schema with an unguarded cycle diverges when visited -/
theorem unguarded_body_witness :
    let op : OpM := ⟨[], some ⟨false, false, [⟨some ⟨true, true⟩⟩]⟩, []⟩
    DocValid op = true ∧ ExclOp op = true ∧
    validateRequest op ⟨false, fun _ => bitsAny, ⟨false, some 0, bitsAny⟩⟩ = .diverge := by decide

/-- regression of F-C10-6: `GET /a?q=NaN&q=1`, q an array of numbers with maxItems 1 — now a parse error
    (ccc6020) whose text is produced (2104468) -/
theorem unencodable_value_regression :
    let op : OpM := ⟨[⟨false, true, false, false, some sOK, false, 0, none⟩], none, []⟩
    let t : ReqTraffic := ⟨false, fun _ => ⟨true, true, true, false, false⟩, ⟨true, none, bitsAny⟩⟩
    DocValid op = true ∧ ExclOp op = false ∧ errorText (validateRequest op t) = .err := by decide

/-- regression of F-C10-8: `GET /a?p[b][2000000000]=1` — the decoder returns an error (ab8c63f) -/
theorem huge_index_regression :
    let op : OpM := ⟨[⟨false, true, false, false, some sOK, false, 0, none⟩], none, []⟩
    let t : ReqTraffic := ⟨false, fun _ => ⟨true, false, true, false, false⟩, ⟨true, none, bitsAny⟩⟩
    DocValid op = true ∧ ExclOp op = false ∧ validateRequest op t = .err := by decide

/-- regression of F-C10-7: `POST /a`, `Content-Type: application/yaml`, body `~: 1` against `{oneOf: [{type: object}]}`
    — the YAML decoder returns a format error (ca97fab) -/
theorem uncopyable_key_regression :
    let op : OpM := ⟨[], some ⟨false, false, [⟨some sOK⟩]⟩, []⟩
    let t : ReqTraffic := ⟨false, fun _ => bitsAny, ⟨false, some 0, ⟨true, false, true, false, false⟩⟩⟩
    DocValid op = true ∧ ExclOp op = false ∧ validateRequest op t = .err := by decide

/-- what the document gate is needed for: an unresolved reference panics -/
theorem unresolved_ref_panics :
    (validateParameter ⟨false, true, false, false, some ⟨false, false⟩, false, 0, none⟩ bitsAny).bad = true := by decide

def opEx : OpM :=
  ⟨[⟨false, true, true, false, some sOK, false, 0, none⟩,                    -- styled query parameter
    ⟨false, false, false, false, none, true, 1, some ⟨some sOK⟩⟩,            -- header parameter by content
    ⟨false, true, false, false, none, false, 0, none⟩],                       -- parameter with neither
   some ⟨false, true, [⟨some sOK⟩, ⟨none⟩]⟩,
   [⟨false, [⟨false, true, none⟩, ⟨false, false, some sOK⟩], [⟨some sOK⟩]⟩]⟩

/-- non-vacuity: a non-trivial operation (styled, content-defined and schema-less parameters, a body with
    two media types, a response with a content-defined and a schema-defined header) satisfies the hypotheses -/
example : DocValid opEx = true ∧ ExclOp opEx = false := by decide
example : validateRequest opEx ⟨false, fun _ => bitsAny, ⟨false, some 0, bitsAny⟩⟩ = .err := by decide
example : validateResponse opEx ⟨false, some 0, fun _ => ⟨true, false, false, false, true⟩, false,
    ⟨false, some 0, ⟨true, false, false, false, true⟩⟩⟩ = .ok := by decide
example : ErrWF ⟨true, .schema [⟨true, false⟩, ⟨false, true⟩]⟩ = true := by decide
theorem convert_enum_without_schema_panics : (convertErrors ⟨true, .schema [⟨true, true⟩]⟩).bad = true := by decide

/-! ## state kept between calls: the process-wide cache of compiled patterns (table C10CacheSites)

A validation can leave a value in `openapi3.compiledPatterns` that a later validation of the same pattern text uses
without compiling again; "no panic" is therefore a statement about histories of calls in one process. -/

/-- table obligation: every storing call on a process-wide sync.Map of openapi3 / openapi3filter stands behind
    `if err != nil { …; return }` (or inside `if err == nil`), every use of such a variable was read, and the cache's
    Load and storing call were found. A store that becomes reachable after a failed compile breaks this. -/
theorem cache_stores_err_guarded : PatternCache.storesGuarded Gen.c10CacheSites = true := by decide

/-- every history of document validations and string validations in one process — any pattern texts, each call with
    its own compiler and its own answer — from any cache whose entries are usable matchers: no call panics. The
    configuration of the model is the one computed from the current source. -/
theorem pattern_cache_history_no_panic (ops : List PatternCache.Op) (c : PatternCache.Cache) (hc : PatternCache.Inv c) :
    PatternCache.Out.panic ∉ PatternCache.run (PatternCache.cfgOf Gen.c10CacheSites) c ops :=
  PatternCache.run_no_panic _ (PatternCache.cfgOf_guarded _ cache_stores_err_guarded) ops c hc

/-- … in particular from process start (empty cache) -/
theorem pattern_cache_history_no_panic_from_start (ops : List PatternCache.Op) :
    PatternCache.Out.panic ∉ PatternCache.run (PatternCache.cfgOf Gen.c10CacheSites) [] ops :=
  pattern_cache_history_no_panic ops [] (fun _ h => absurd h (by simp))

/-- the history dimension on the traffic model: any sequence of exchanges against one valid document in one process,
    each with the pattern-cache operations its validations perform (any texts, any compilers): every request and
    response validation returns and no cache operation panics. The traffic model keeps no state of its own (its
    functions take the operation and the traffic only), the cache is the state; outside F-C10-1 as above. -/
theorem valid_doc_history_no_panic_partial (op : OpM) (hv : DocValid op = true) (hx : ExclOp op = false)
    (h : List (ReqTraffic × RespTraffic × List PatternCache.Op)) :
    (∀ e ∈ h, (validateRequest op e.1).bad = false ∧ (validateResponse op e.2.1).bad = false) ∧
    PatternCache.Out.panic ∉ PatternCache.run (PatternCache.cfgOf Gen.c10CacheSites) [] (h.map (·.2.2)).flatten :=
  ⟨fun e _ => ⟨validateRequest_no_panic_partial op e.1 hv hx, validateResponse_no_panic_partial op e.2.1 hv hx⟩,
   pattern_cache_history_no_panic_from_start _⟩

/-- witness that the table obligation is what the theorem needs: with an effective store that is also reached after a
    failed compile, the second validation of one uncompilable pattern panics (the first reports the compile error) -/
theorem store_on_error_poisons_cache :
    PatternCache.run ⟨true, true⟩ [] [.visit 0 false, .visit 0 false] = [.compileErr, .panic] := by decide

/-- witness that the invariant is needed: a cached nil matcher panics on the next use, whatever the configuration -/
theorem poisoned_cache_panics :
    PatternCache.run ⟨false, false⟩ [(0, .nilMatcher)] [.visit 0 true] = [.panic] := by decide

/-- non-vacuity: a history with compilable and uncompilable patterns under the configuration of the current source -/
example : PatternCache.run (PatternCache.cfgOf Gen.c10CacheSites) []
    [.gate 0 true, .visit 0 true, .visit 1 false, .visit 1 false, .gate 1 false, .visit 1 true] =
    [.normal, .normal, .compileErr, .compileErr, .compileErr, .normal] := by decide

/-- non-vacuity for a cache that really stores (a repaired `Store` behind the error return): the second validation
    uses the cached matcher — whatever its own compiler would have said — and nothing panics -/
example : PatternCache.run ⟨false, true⟩ [] [.visit 0 true, .visit 0 false, .visit 1 false, .visit 1 false] =
    [.normal, .normal, .compileErr, .compileErr] := by decide

end KinModel.Props.C10
