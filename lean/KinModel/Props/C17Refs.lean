/-
C17 — ToV3 proper (`toV3` = `toV3Raw` followed by the modelled ResolveRefsIn check): on the document fragment of
`api3_toV3_inputs` no schema-position reference is left in its OpenAPI 2 form, so `ResolveRefsIn` has nothing to
fail on and the document-level theorems hold of `toV3` itself. Theorems only.
-/
import KinModel.Props.C17Form
namespace KinModel.Conv

theorem noV2_nil : noV2 [] := by intro kn h; simp at h

theorem noV2_append {a b : List (RK × String)} (ha : noV2 a) (hb : noV2 b) : noV2 (a ++ b) := by
  intro kn h
  simp only [List.mem_append] at h
  rcases h with h | h
  · exact ha kn h
  · exact hb kn h

theorem noV2_flatMap {α : Type} (f : α → List (RK × String)) (l : List α) (h : ∀ a ∈ l, noV2 (f a)) :
    noV2 (l.flatMap f) := by
  intro kn hk
  simp only [List.mem_flatMap] at hk
  obtain ⟨a, ha, hka⟩ := hk
  exact h a ha kn hka

/-! ### schemas -/

theorem docRefs_addlToV3 {V : Type} (s : Sch V) (hw : v2Refs s = true) :
    noV2 (docRefs (addlToV3 s)) := by
  refine (Sch.induct (P := fun s => v2Refs s = true → noV2 (docRefs (addlToV3 s)))
    (Q := fun ks => v2RefsKids ks = true → noV2 (docRefsKids (addlKids ks)))
    ?_ ?_ ?_ ?_).1 s hw
  · intro k n hw kn hk
    simp only [addlToV3, docRefs, List.mem_singleton] at hk
    subst hk
    cases k <;> simp_all [toV3RK, v2Refs, RK.isV2]
  · intro hd kids ih hw
    simp only [v2Refs, Bool.and_eq_true] at hw
    simpa [addlToV3, docRefs] using ih hw.2
  · intro _; simpa [addlKids, docRefsKids] using noV2_nil
  · intro sl c rest ihc ihr hw
    simp only [v2RefsKids, Bool.and_eq_true] at hw
    simp only [addlKids, docRefsKids]
    exact noV2_append (ihc hw.1) (ihr hw.2)

/-- **ToV3SchemaRef leaves no reference in OpenAPI 2 form** (inside the fragment of `toV3S_preserves_partial`) -/
theorem docRefs_toV3S {V : Type} (s : Sch V) (h : addlImpure s = false) (hw : v2Refs s = true) :
    noV2 (docRefs (toV3S s)) := by
  refine (Sch.induct (P := fun s => addlImpure s = false → v2Refs s = true → noV2 (docRefs (toV3S s)))
    (Q := fun ks => addlImpureKids ks = false → v2RefsKids ks = true → noV2 (docRefsKids (toV3Kids ks)))
    ?_ ?_ ?_ ?_).1 s h hw
  · intro k n _ hw kn hk
    simp only [toV3S, docRefs, List.mem_singleton] at hk
    subst hk
    cases k <;> simp_all [toV3RK, v2Refs, RK.isV2]
  · intro hd kids ih h hw
    simp only [addlImpure] at h
    simp only [v2Refs, Bool.and_eq_true] at hw
    simpa [toV3S, docRefs] using ih h hw.2
  · intro _ _; simpa [toV3Kids, docRefsKids] using noV2_nil
  · intro sl c rest ihc ihr h hw
    simp only [addlImpureKids, Bool.or_eq_false_iff] at h
    simp only [v2RefsKids, Bool.and_eq_true] at hw
    by_cases hs : sl = Slot.addl
    · simp only [hs, if_true, Bool.not_eq_false'] at h
      simp only [toV3Kids, hs, if_true, docRefsKids]
      exact noV2_append (docRefs_addlToV3 c hw.1) (ihr h.2 hw.2)
    · simp only [hs, if_false] at h
      simp only [toV3Kids, hs, if_false, docRefsKids]
      exact noV2_append (ihc h.1 hw.1) (ihr h.2 hw.2)

theorem paramSchema2_ok {V : Type} (p : Param2 V) (hi : itemsOK3 p.items = true) :
    addlImpure (paramSchema2 p) = false ∧ v2Refs (paramSchema2 p) = true := by
  unfold paramSchema2
  cases hit : p.items with
  | none => simp [itemsKids, addlImpure, addlImpureKids, v2Refs, v2RefsKids]
  | some s =>
    simp only [itemsOK3, hit, Option.all_some, Bool.and_eq_true, Bool.not_eq_true'] at hi
    simp [itemsKids, addlImpure, addlImpureKids, v2Refs, v2RefsKids, hi.1, hi.2]

theorem refs_toV3Param {V : Type} (p : Param2 V) (hi : itemsOK3 p.items = true) :
    noV2 (docRefs (toV3Param p).schema) := by
  have := paramSchema2_ok p hi
  exact docRefs_toV3S (paramSchema2 p) this.1 this.2

theorem refs_toV3FormProp {V : Type} (p : Param2 V) (hi : itemsOK3 p.items = true) :
    noV2 (docRefs (clearReq (toV3FormProp p))) := by
  unfold toV3FormProp
  cases hit : p.items with
  | none => simpa [clearReq, docRefs, docRefsKids] using noV2_nil
  | some s =>
    simp only [itemsOK3, hit, Option.all_some, Bool.and_eq_true, Bool.not_eq_true'] at hi
    simpa [clearReq, docRefs, docRefsKids] using docRefs_toV3S s hi.1 hi.2

theorem refs_toV3Resp {V : Type} (produces : List String) (r : RRef2 V) (h : respOK3 r = true) :
    noV2 (rrRefs3 (toV3Resp produces r)) := by
  cases r with
  | ref k n => simpa [toV3Resp, rrRefs3] using noV2_nil
  | val x =>
    simp only [respOK3, Bool.and_eq_true] at h
    simp only [toV3Resp, rrRefs3]
    apply noV2_append
    · cases hs : x.schema with
      | none => simpa using noV2_nil
      | some s =>
        have := h.2
        simp only [schemaOK3, hs, Option.all_some, Bool.and_eq_true, Bool.not_eq_true'] at this
        simpa using docRefs_toV3S s this.1 this.2
    · apply noV2_flatMap
      intro nh hnh
      simp only [List.mem_map] at hnh
      obtain ⟨y, hy, rfl⟩ := hnh
      have := List.all_eq_true.mp h.1 y hy
      exact refs_toV3Param { y.2 with name := "", loc := "" } (by simpa [headerOK3] using this)

/-! ### request inputs -/

/-- what ToV3Parameter makes of a request input of the fragment carries no OpenAPI 2 reference -/
theorem toV3P_refs {V : Type} (env : Env3 V) (cs : List String) (q : PRef2 V) (h : inputOKF cs q = true) :
    match toV3P env cs q with
    | .param x => noV2 (prRefs3 x)
    | .body b => noV2 (brRefs3 b)
    | .form _ s => noV2 (docRefs (clearReq s)) := by
  cases q with
  | ref k n =>
    by_cases hk : k = RK.par2
    · by_cases hb : (alookup n env.cbodies).isSome = true
      · simp [toV3P, hk, hb, brRefs3, noV2]
      · cases hc : alookup n env.cschemas with
        | some c => simp [toV3P, hk, hb, hc, clearReq, docRefs, noV2, RK.isV2]
        | none => simp [toV3P, hk, hb, hc, prRefs3, noV2]
    · simp [toV3P, hk, prRefs3, noV2]
  | val p =>
    simp only [inputOKF, inputOK3, Bool.or_eq_true] at h
    by_cases hl : p.loc = "body"
    · have hb : bodyOK3 cs (.val p) = true := by
        rcases h with (h | h) | h
        · simp [paramSimple, hl] at h
        · exact h
        · simp [formOK3, hl] at h
      simp only [bodyOK3, Bool.and_eq_true] at hb
      simp only [toV3P, hl, if_true, brRefs3]
      cases hs : p.schema with
      | none => simpa using noV2_nil
      | some s =>
        have := hb.1.2
        simp only [schemaOK3, hs, Option.all_some, Bool.and_eq_true, Bool.not_eq_true'] at this
        simpa using docRefs_toV3S s this.1 this.2
    · by_cases hf : p.loc = "formData"
      · have hfo : formOK3 (.val p) = true := by
          rcases h with (h | h) | h
          · simp [paramSimple, hf] at h
          · simp [bodyOK3, hf] at h
          · exact h
        simp only [formOK3, Bool.and_eq_true] at hfo
        simp only [toV3P, hf, if_true]
        exact refs_toV3FormProp p hfo.2
      · have hs : paramSimple (.val p) = true := by
          rcases h with (h | h) | h
          · exact h
          · simp [bodyOK3, hl] at h
          · simp [formOK3, hf] at h
        simp only [paramSimple, Bool.and_eq_true] at hs
        simp only [toV3P, hl, hf, if_false, prRefs3]
        exact refs_toV3Param p hs.2

theorem splitP3_refs {V : Type} (env : Env3 V) (cs : List String) (l : List (PRef2 V))
    (h : l.all (inputOKF cs) = true) :
    noV2 ((splitP3 (l.map (toV3P env cs))).1.flatMap prRefs3) ∧
    noV2 ((splitP3 (l.map (toV3P env cs))).2.1.flatMap brRefs3) ∧
    (∀ ns ∈ (splitP3 (l.map (toV3P env cs))).2.2, noV2 (docRefs (clearReq ns.2))) := by
  induction l with
  | nil => simp [splitP3, noV2]
  | cons q rest ih =>
    simp only [List.all_cons, Bool.and_eq_true] at h
    obtain ⟨i1, i2, i3⟩ := ih h.2
    have hq := toV3P_refs env cs q h.1
    simp only [List.map_cons]
    cases hx : toV3P env cs q with
    | param x =>
      rw [hx] at hq
      simp only [splitP3, List.flatMap_cons]
      exact ⟨noV2_append hq i1, i2, i3⟩
    | body b =>
      rw [hx] at hq
      simp only [splitP3, List.flatMap_cons]
      exact ⟨i1, noV2_append hq i2, i3⟩
    | form n s =>
      rw [hx] at hq
      simp only [splitP3]
      refine ⟨i1, i2, ?_⟩
      intro ns hns
      simp only [List.mem_cons] at hns
      rcases hns with rfl | hns
      · exact hq
      · exact i3 ns hns

/-! ### operations, path items, documents -/

theorem docRefsKids_props {V : Type} (fps : List (Param2 V)) :
    docRefsKids (fps.map (fun p => (Slot.prop p.name, clearReq (toV3FormProp p)))) =
    fps.flatMap (fun p => docRefs (clearReq (toV3FormProp p))) := by
  induction fps with
  | nil => rfl
  | cons p rest ih => simp [docRefsKids, ih]

theorem refs_responses {V : Type} (produces : List String) (l : List (String × RRef2 V))
    (h : l.all (fun kr => respOK3 kr.2) = true) :
    noV2 ((l.map (fun (kr : String × RRef2 V) => (kr.1, toV3Resp produces kr.2))).flatMap (fun kr => rrRefs3 kr.2)) := by
  apply noV2_flatMap
  intro kr hkr
  simp only [List.mem_map] at hkr
  obtain ⟨y, hy, rfl⟩ := hkr
  exact refs_toV3Resp produces y.2 (List.all_eq_true.mp h y hy)

/-- a converted operation of the fragment carries no OpenAPI 2 reference -/
theorem toV3Op_refs {V : Type} (cbs : List (String × BRef3 V)) (bks : List String)
    (hcb : ∀ n, (alookup n cbs).isSome = bks.contains n) (dc : List String) (o : Op2 V) (o3 : Op3 V)
    (h : opInputsOK bks dc o = true) (he : toV3Op { cbodies := cbs, cschemas := [] } dc o = .ok o3) :
    noV2 (opRefs3 o3) := by
  simp only [opInputsOK, Bool.and_eq_true, Bool.or_eq_true, decide_eq_true_eq] at h
  obtain ⟨⟨hin, hshape⟩, hresp⟩ := h
  obtain ⟨s1, s2, _, s4⟩ := inputs_split3 cbs bks hcb (effConsumes dc o) o.params hin
  obtain ⟨r1, r2, _⟩ := splitP3_refs ({ cbodies := cbs, cschemas := [] } : Env3 V) (effConsumes dc o) o.params hin
  have hrs := refs_responses o.produces o.responses hresp
  unfold toV3Op at he
  simp only [effConsumes] at s1 s2 s4 r1 r2 hshape he
  generalize hsp : splitP3 (o.params.map (toV3P { cbodies := cbs, cschemas := [] } (if o.consumes.isEmpty then dc else o.consumes))) = sp at s1 s2 r1 r2 he
  obtain ⟨ps, bodies, forms⟩ := sp
  simp only at s1 s2 r1 r2 he
  subst s1
  rcases hshape with ⟨hnf, hone⟩ | ⟨⟨hnb, hnd⟩, _⟩
  · have hfv : formVals o.params = [] := by simpa using hnf
    simp only [hfv, List.map_nil] at he
    have hlen : bodies.length ≤ 1 := by omega
    cases bodies with
    | nil =>
      simp only [List.length_nil, gt_iff_lt, Nat.not_lt_zero, if_false, ne_eq, not_true_eq_false, false_and,
        List.isEmpty_nil, if_true, Res.ok.injEq] at he
      subst he
      simp only [opRefs3, Option.map_none, Option.getD_none, List.append_nil]
      exact noV2_append r1 hrs
    | cons b rest =>
      cases rest with
      | cons _ _ => simp at hlen
      | nil =>
        simp only [List.length_cons, List.length_nil, Nat.zero_add, gt_iff_lt, Nat.lt_irrefl, if_false, ne_eq,
          not_true_eq_false, and_false, Res.ok.injEq] at he
        subst he
        simp only [opRefs3, Option.map_some, Option.getD_some]
        simp only [List.flatMap_cons, List.flatMap_nil, List.append_nil] at r2
        exact noV2_append (noV2_append r1 r2) hrs
  · have hb0 : bodies = [] := by
      have : (o.params.filter (isBodyIn bks)) = [] := by simpa using hnb
      rw [this] at s2
      simpa using s2
    subst hb0
    cases hfv : formVals o.params with
    | nil =>
      simp only [hfv, List.map_nil, List.length_nil, gt_iff_lt, Nat.not_lt_zero, if_false, ne_eq, not_true_eq_false,
        false_and, List.isEmpty_nil, if_true, Res.ok.injEq] at he
      subst he
      simp only [opRefs3, Option.map_none, Option.getD_none, List.append_nil]
      exact noV2_append r1 hrs
    | cons f fs =>
      obtain ⟨_, hsc, _⟩ := formBody_shape ({ cbodies := cbs, cschemas := [] } : Env3 V)
        (if o.consumes.isEmpty then dc else o.consumes) (formVals o.params) hnd
      rw [hfv] at hsc
      simp only [hfv, List.map_cons, List.length_nil, gt_iff_lt, Nat.not_lt_zero, if_false, ne_eq, not_true_eq_false,
        false_and, List.isEmpty_cons, Bool.false_eq_true, Res.ok.injEq] at he
      subst he
      simp only [opRefs3, Option.map_some, Option.getD_some, brRefs3]
      refine noV2_append (noV2_append r1 ?_) hrs
      simp only [List.map_cons] at hsc
      rw [hsc]
      simp only [Option.map_some, Option.getD_some, docRefs]
      have := docRefsKids_props (f :: fs)
      simp only [List.map_cons] at this
      rw [this]
      apply noV2_flatMap
      intro p hp
      exact refs_toV3FormProp p (s4 p (by rw [hfv]; exact hp)).2

theorem toV3Path_refs {V : Type} (cbs : List (String × BRef3 V)) (bks : List String)
    (hcb : ∀ n, (alookup n cbs).isSome = bks.contains n) (dc : List String) (p : Path2 V) (p3 : Path3 V)
    (h : pathInputsOK bks dc p = true) (he : toV3Path { cbodies := cbs, cschemas := [] } dc p = .ok p3) :
    noV2 (pathRefs3 p3) := by
  simp only [pathInputsOK, Bool.and_eq_true] at h
  unfold toV3Path at he
  split at he
  · simp at he
  · rename_i ops hops
    have hp : mapRes (pathParam3 { cbodies := cbs, cschemas := [] } dc) p.params = .ok (p.params.map toV3PS) :=
      mapRes_ok _ _ _ (fun q hq => pathParam_body cbs bks hcb dc q (List.all_eq_true.mp h.1 q hq))
    rw [hp] at he
    simp only [Res.ok.injEq] at he
    subst he
    simp only [pathRefs3]
    apply noV2_append
    · apply noV2_flatMap
      intro x hx
      simp only [List.mem_map] at hx
      obtain ⟨q, hq, rfl⟩ := hx
      have hq' := List.all_eq_true.mp h.1 q hq
      simp only [pathParamOK, Bool.and_eq_true] at hq'
      cases q with
      | ref k n => simp [toV3PS, prRefs3, noV2]
      | val pp =>
        have := hq'.1
        simp only [paramSimple, Bool.and_eq_true] at this
        simpa [toV3PS, prRefs3] using refs_toV3Param pp this.2
    · apply noV2_flatMap
      intro o3 ho3
      obtain ⟨o2, ho2, hoe⟩ := mapRes_mem _ p.ops ops hops o3 ho3
      exact toV3Op_refs cbs bks hcb dc o2 o3 (List.all_eq_true.mp h.2 o2 ho2) hoe

theorem sharedP3_refs {V : Type} (dc : List String) (l : List (String × PRef2 V))
    (h : l.all (fun kp => sharedOK3 dc kp.2) = true) :
    noV2 ((sharedP3 dc l).1.flatMap (fun kp => prRefs3 kp.2)) ∧
    noV2 ((sharedP3 dc l).2.1.flatMap (fun kb => brRefs3 kb.2)) := by
  induction l with
  | nil => simp [sharedP3, noV2]
  | cons kp rest ih =>
    obtain ⟨k, q⟩ := kp
    simp only [List.all_cons, Bool.and_eq_true] at h
    obtain ⟨i1, i2⟩ := ih h.2
    have hq : inputOKF dc q = true := by
      have := h.1
      simp only [sharedOK3, Bool.or_eq_true] at this
      rcases this with hs | hb
      · cases q with
        | ref _ _ => simp [sharedSimple] at hs
        | val p =>
          have : paramSimple (PRef2.val p) = true := by simpa [paramSimple, sharedSimple] using hs
          simp [inputOKF, inputOK3, this]
      · simp [inputOKF, inputOK3, hb]
    have hr := toV3P_refs ({ cbodies := [], cschemas := [] } : Env3 V) dc q hq
    unfold sharedP3
    generalize hsp : sharedP3 dc rest = sp at i1 i2
    obtain ⟨a, b, c⟩ := sp
    simp only at i1 i2 ⊢
    cases hx : toV3P ({ cbodies := [], cschemas := [] } : Env3 V) dc q with
    | param x =>
      rw [hx] at hr
      simp only [List.flatMap_cons]
      exact ⟨noV2_append hr i1, i2⟩
    | body y =>
      rw [hx] at hr
      simp only [List.flatMap_cons]
      exact ⟨i1, noV2_append hr i2⟩
    | form n s => exact ⟨i1, i2⟩

/-- **ResolveRefsIn has nothing to fail on**: on the fragment of `api3_toV3_inputs`, ToV3 leaves no schema-position
    reference in its OpenAPI 2 form, so `toV3` (ToV3 with the modelled ResolveRefsIn check) is `toV3Raw` -/
theorem toV3_resolves {V : Type} (d : Doc2 V) (h : docInputs d = true) : toV3 d = toV3Raw d := by
  obtain ⟨d3, hd3, _⟩ := api3_toV3_inputs d h
  have hall : noV2 (schemaRefs3 d3) := by
    simp only [docInputs, Bool.and_eq_true] at h
    obtain ⟨⟨⟨⟨⟨⟨hparams, hpaths⟩, hresps⟩, hnodup⟩, hdefs⟩, _⟩, _⟩ := h
    obtain ⟨sh1, sh2, _⟩ := sharedP3_body d.consumes d.params hparams
    obtain ⟨q1, q2⟩ := sharedP3_refs d.consumes d.params hparams
    have hmerge : mergeSchemas ([] : List (String × CSchema V)) d.defs =
        d.defs.map (fun ks => (ks.1, ({ formName := none, schema := toV3S ks.2 } : CSchema V))) := by
      have := mergeSchemas_nodup d.defs [] hnodup (by intro kv _; rfl)
      simpa [mergeSchemas] using this
    unfold toV3Raw at hd3
    generalize hsp : sharedP3 d.consumes d.params = sp at sh1 sh2 q1 q2 hd3
    obtain ⟨cps, cbs, cfs⟩ := sp
    simp only at sh1 sh2 q1 q2 hd3
    subst sh1
    split at hd3
    · simp at hd3
    · rename_i paths hpaths3
      split at hd3
      · simp at hd3
      · rename_i secs hsecs
        simp only [Res.ok.injEq] at hd3
        subst hd3
        simp only [schemaRefs3, hmerge]
        refine noV2_append (noV2_append (noV2_append (noV2_append q1 q2) ?_) (refs_responses d.produces d.responses hresps)) ?_
        · apply noV2_flatMap
          intro kc hkc
          simp only [List.mem_map] at hkc
          obtain ⟨ks, hks, rfl⟩ := hkc
          have := List.all_eq_true.mp hdefs ks hks
          simp only [Bool.and_eq_true, Bool.not_eq_true'] at this
          exact docRefs_toV3S ks.2 this.1 this.2
        · apply noV2_flatMap
          intro p3 hp3
          obtain ⟨p2, hp2, hpe⟩ := mapRes_mem _ d.paths paths hpaths3 p3 hp3
          exact toV3Path_refs cbs (bodyKeys d.params) sh2 d.consumes p2 p3 (List.all_eq_true.mp hpaths p2 hp2) hpe
  unfold toV3
  rw [hd3]
  have : (schemaRefs3 d3).any (fun (kn : RK × String) => kn.1.isV2) = false := by
    rw [List.any_eq_false]
    intro kn hkn
    simp [hall kn hkn]
  simp only [this, Bool.false_eq_true, if_false]

/-- **Document level, ToV3 itself** (the modelled ResolveRefsIn included): the document converts and the converted
    document describes the same API -/
theorem api3_toV3 {V : Type} (d : Doc2 V) (h : docInputs d = true) :
    ∃ d3, toV3 d = .ok d3 ∧ Api.sim (api3 d3) (api2 d) := by
  rw [toV3_resolves d h]
  exact api3_toV3_inputs d h

/-! ### the body fragment is inside the fragment with forms -/

theorem formVals_none {V : Type} (cs : List String) (l : List (PRef2 V)) (h : l.all (inputOK3 cs) = true) :
    formVals l = [] := by
  induction l with
  | nil => rfl
  | cons q rest ih =>
    simp only [List.all_cons, Bool.and_eq_true] at h
    rw [formVals_cons_notForm cs q rest h.1]
    exact ih h.2

theorem docBody_sub {V : Type} (d : Doc2 V) (h : docBody d = true) : docInputs d = true := by
  simp only [docBody, Bool.and_eq_true] at h
  obtain ⟨⟨⟨⟨⟨⟨hparams, hpaths⟩, hresps⟩, hnodup⟩, hdefs⟩, hsecs⟩, hloc⟩ := h
  simp only [docInputs, Bool.and_eq_true]
  refine ⟨⟨⟨⟨⟨⟨hparams, ?_⟩, hresps⟩, hnodup⟩, hdefs⟩, hsecs⟩, hloc⟩
  apply List.all_eq_true.mpr
  intro p hp
  have hpb := List.all_eq_true.mp hpaths p hp
  simp only [pathBodyOK, Bool.and_eq_true] at hpb
  simp only [pathInputsOK, Bool.and_eq_true]
  refine ⟨hpb.1, ?_⟩
  apply List.all_eq_true.mpr
  intro o ho
  have hob := List.all_eq_true.mp hpb.2 o ho
  simp only [opBodyOK, Bool.and_eq_true, decide_eq_true_eq] at hob
  obtain ⟨⟨hin, hone⟩, hresp⟩ := hob
  simp only [opInputsOK, Bool.and_eq_true, Bool.or_eq_true, decide_eq_true_eq]
  refine ⟨⟨?_, Or.inl ⟨?_, hone⟩⟩, hresp⟩
  · apply List.all_eq_true.mpr
    intro q hq
    simp [inputOKF, List.all_eq_true.mp hin q hq]
  · rw [formVals_none _ o.params hin]; rfl

theorem docBodyBack_sub {V : Type} (d : Doc2 V) (h : docBodyBack d = true) : docInputsBack d = true := by
  simp only [docBodyBack, Bool.and_eq_true] at h
  obtain ⟨⟨⟨⟨⟨⟨hbody, hparamsB⟩, hpnodup⟩, hpathsB⟩, hrespsB⟩, hdefsB⟩, hloc⟩ := h
  simp only [docInputsBack, Bool.and_eq_true]
  refine ⟨⟨⟨⟨⟨⟨docBody_sub d hbody, hparamsB⟩, hpnodup⟩, ?_⟩, hrespsB⟩, hdefsB⟩, hloc⟩
  apply List.all_eq_true.mpr
  intro p hp
  have hpb := List.all_eq_true.mp hpathsB p hp
  simp only [pathBodyBack, Bool.and_eq_true] at hpb
  simp only [pathInputsBack, Bool.and_eq_true]
  refine ⟨hpb.1, ?_⟩
  apply List.all_eq_true.mpr
  intro o ho
  have hob := List.all_eq_true.mp hpb.2 o ho
  simp only [opBodyBack, Bool.and_eq_true] at hob
  simp only [opInputsBack, Bool.and_eq_true]
  refine ⟨?_, hob.2⟩
  apply List.all_eq_true.mpr
  intro q hq
  simp [inputOKFBack, List.all_eq_true.mp hob.1.1 q hq]

/-- **Document level, round trip, of ToV3 itself** (body and form parameters): `api2_roundtrip_inputs` with `toV3`
    (ResolveRefsIn included) in place of `toV3Raw` -/
theorem api2_roundtrip_toV3 {V : Type} (d : Doc2 V) (h : docInputsBack d = true) :
    ∃ d3 d2, toV3 d = .ok d3 ∧ fromV3 d3 = some d2 ∧
      rel2 OpA.sim (api2 d2).ops (api2 d).ops ∧ (api2 d2).pathParams = (api2 d).pathParams ∧
      (api2 d2).shared.Perm (api2 d).shared ∧ (api2 d2).sharedResponses = (api2 d).sharedResponses ∧
      (api2 d2).defs = (api2 d).defs ∧ (api2 d2).security = (api2 d).security ∧
      (api2 d2).securityReq = (api2 d).securityReq ∧
      (∀ x, x ∈ (api2 d2).servers ↔ x ∈ (api2 d).servers) := by
  have hb : docInputs d = true := by
    simp only [docInputsBack, Bool.and_eq_true] at h
    exact h.1.1.1.1.1.1
  rw [toV3_resolves d hb]
  exact api2_roundtrip_inputs d h

/-! ### the property, assembled -/

theorem bodiesOK_of_back {V : Type} (d : Doc2 V) (h : docInputsBack d = true) : bodiesOK d = true := by
  simp only [docInputsBack, Bool.and_eq_true] at h
  obtain ⟨⟨⟨⟨⟨⟨_, hparamsB⟩, _⟩, hpathsB⟩, _⟩, _⟩, _⟩ := h
  have hin : ∀ cs (q : PRef2 V), inputOKFBack cs q = true → bodyParamOK q = true := by
    intro cs q hq
    cases q with
    | ref _ _ => rfl
    | val p =>
      simp only [inputOKFBack, inputOKBack, Bool.or_eq_true] at hq
      rcases hq with (hq | hq) | hq
      · simp only [paramSimpleBack, Bool.and_eq_true, bne_iff_ne, ne_eq] at hq
        simp [bodyParamOK, hq.1.1.1]
      · simp only [bodyOKBack, Bool.and_eq_true] at hq
        cases hs : p.schema with
        | none => simp [hs] at hq
        | some s => simp [bodyParamOK, hs]
      · simp only [formOKBack, Bool.and_eq_true, beq_iff_eq] at hq
        simp [bodyParamOK, hq.1.1.1]
  simp only [bodiesOK, Bool.and_eq_true]
  constructor
  · apply List.all_eq_true.mpr
    intro kp hkp
    have := List.all_eq_true.mp hparamsB kp hkp
    simp only [sharedOKBack, Bool.or_eq_true, Bool.and_eq_true] at this
    rcases this with hs | ⟨hb, _⟩
    · cases hq : kp.2 with
      | ref _ _ => rfl
      | val p =>
        simp only [hq, sharedSimpleBack, Bool.and_eq_true, bne_iff_ne, ne_eq] at hs
        simp [bodyParamOK, hs.1.1.1]
    · exact hin d.consumes kp.2 (by simp [inputOKFBack, inputOKBack, hb])
  · apply List.all_eq_true.mpr
    intro p hp
    have hpb := List.all_eq_true.mp hpathsB p hp
    simp only [pathInputsBack, Bool.and_eq_true] at hpb
    apply List.all_eq_true.mpr
    intro o ho
    have hob := List.all_eq_true.mp hpb.2 o ho
    simp only [opInputsBack, Bool.and_eq_true] at hob
    apply List.all_eq_true.mpr
    intro q hq
    exact hin _ q (List.all_eq_true.mp hob.1 q hq)

/-- **C17 on the document fragment with body and form parameters, in one statement** (full statement of the header
    of Props/C17.lean, outside the open finding classes and up to the order of request inputs / shared parameters):
    the document converts (ResolveRefsIn included), the converted document passes the modelled part of Validate
    and describes the same API, converting back does not panic and yields a document that describes that API again. -/
theorem conversion_correct {V : Type} (d : Doc2 V) (h : docInputsBack d = true) (hn : namesOK d = true) :
    ∃ d3 d2, toV3 d = .ok d3 ∧ validates3 d3 = true ∧ Api.sim (api3 d3) (api2 d) ∧ fromV3 d3 = some d2 ∧
      rel2 OpA.sim (api2 d2).ops (api2 d).ops ∧ (api2 d2).pathParams = (api2 d).pathParams ∧
      (api2 d2).shared.Perm (api2 d).shared ∧ (api2 d2).sharedResponses = (api2 d).sharedResponses ∧
      (api2 d2).defs = (api2 d).defs ∧ (api2 d2).security = (api2 d).security ∧
      (api2 d2).securityReq = (api2 d).securityReq ∧
      (∀ x, x ∈ (api2 d2).servers ↔ x ∈ (api2 d).servers) := by
  have hb : docInputs d = true := by
    simp only [docInputsBack, Bool.and_eq_true] at h
    exact h.1.1.1.1.1.1
  obtain ⟨d3, d2, h1, h2, hrest⟩ := api2_roundtrip_toV3 d h
  obtain ⟨d3', h1', hsim⟩ := api3_toV3 d hb
  have he : d3' = d3 := by
    rw [h1] at h1'
    simp only [Res.ok.injEq] at h1'
    exact h1'.symm
  subst he
  have hraw : toV3Raw d = .ok d3' := by rw [← toV3_resolves d hb]; exact h1
  exact ⟨d3', d2, h1, toV3_validates_partial d d3' hraw hn (bodiesOK_of_back d h), hsim, h2, hrest⟩

/-- non-vacuity of `conversion_correct`: shared header and body parameters, an operation mixing an inline body with
    a query parameter and a reference, another one taking the shared body -/
example :
    let q : Param2 Nat := { name := "q", loc := "query", required := false, cons := { ty := some "integer", sc := [("minimum", 1)] },
                            items := none, schema := none }
    let hd : Param2 Nat := { name := "X-H", loc := "header", required := true, cons := { ty := some "string" }, items := none, schema := none }
    let bd : Param2 Nat := { name := "payload", loc := "body", required := true, cons := {}, items := none,
                             schema := some (.node { ty := some "object", disc := some "kind", req := ["kind"] }
                               [(Slot.prop "kind", .node { ty := some "string" } []), (Slot.addl, .ref RK.def2 "A")]) }
    let ok : RRef2 Nat := .val { desc := "ok", headers := [("X-Rate", { hd with name := "", loc := "" })], schema := some (.ref RK.def2 "A") }
    let d : Doc2 Nat := {
      loc := { host := "h", basePath := "/v1", schemes := ["https", "http"] }, consumes := ["application/json"], produces := [],
      params := [("hp", .val hd), ("bp", .val bd)], responses := [("r", ok)],
      defs := [("A", .node { ty := some "object" } [(Slot.prop "n", .node { ty := some "integer", xnull := true } [])])],
      secs := [("o", { type := "oauth2", flow := "password", tokenUrl := "https://a/t" })], security := some 1,
      paths := [{ path := "/p", params := [.ref RK.par2 "hp"],
                  ops := [{ method := "post", opId := "a", consumes := ["application/xml"], produces := [],
                            params := [.val bd, .val q], responses := [("200", ok), ("404", .ref RK.resp2 "r")],
                            info := [("summary", 3)], security := some 0 },
                          { method := "put", opId := "b", consumes := [], produces := [],
                            params := [.val q, .ref RK.par2 "bp"], responses := [("200", ok)] }] }] }
    docBodyBack d = true ∧ docInputsBack d = true ∧ namesOK d = true := by
  decide

/-! ### FromV3Operation's search for a body parameter name (F-C17-15, fixed by c26cd6a + bfa9f46) -/

/-- regression (F-C17-15, body-parameter half, fixed by c26cd6a; the input of corpus f15): an operation with a body
    parameter and query parameters named `body` and `requestBody` converts back -/
theorem nameClash_regression_body :
    let b : Param2 Nat := { name := "payload", loc := "body", required := false, cons := {}, items := none,
                            schema := some (.node { ty := some "object" } []) }
    let q (n : String) : Param2 Nat := { name := n, loc := "query", required := false, cons := { ty := some "string" },
                                          items := none, schema := none }
    let d : Doc2 Nat := { loc := { host := "", basePath := "", schemes := [] }, consumes := [], produces := [],
                          params := [], responses := [], defs := [], secs := [],
                          paths := [{ path := "/x", params := [],
                                      ops := [{ method := "post", opId := "p", consumes := [], produces := [],
                                                params := [.val b, .val (q "body"), .val (q "requestBody")], responses := [] }] }] }
    (match toV3 d with | .ok d3 => (match fromV3Full d3 with | .ok _ => true | _ => false) | .error _ => false) = true := by
  decide

/-- regression (F-C17-15, form half, fixed by bfa9f46; formerly `nameClash_witness_form`, the input of corpus f15b):
    the request body formDataBody builds carries no `x-originalParamName`, but under a form media type its form
    fields have their own names — the operation converts back -/
theorem nameClash_regression_form :
    let f : Param2 Nat := { name := "f", loc := "formData", required := false, cons := { ty := some "string" },
                            items := none, schema := none }
    let q (n : String) : Param2 Nat := { name := n, loc := "query", required := false, cons := { ty := some "string" },
                                          items := none, schema := none }
    let d : Doc2 Nat := { loc := { host := "", basePath := "", schemes := [] }, consumes := [], produces := [],
                          params := [], responses := [], defs := [], secs := [],
                          paths := [{ path := "/x", params := [],
                                      ops := [{ method := "post", opId := "p", consumes := ["multipart/form-data"], produces := [],
                                                params := [.val f, .val (q "body"), .val (q "requestBody")], responses := [] }] }] }
    (match toV3 d with | .ok d3 => (match fromV3Full d3 with | .ok _ => true | _ => false) | .error _ => false) = true := by
  decide

/-- **FromV3 never fails for want of a body parameter name** when every inline request body either carries its
    original name or has form media types only (references and operations without a body need no name):
    `fromV3Full` is `fromV3`. Full strength: the hypothesis is exactly "needsBodyName is false". -/
theorem fromV3Full_no_error {V : Type} (d3 : Doc3 V)
    (h : ∀ p ∈ d3.paths, ∀ o ∈ p.ops, needsBodyName o.body = false) :
    fromV3Full d3 = (match fromV3 d3 with | some d2 => .ok d2 | none => .panic) := by
  have : d3.paths.any (fun p => p.ops.any (opNameClash d3.cparams)) = false := by
    rw [List.any_eq_false]
    intro p hp
    rw [Bool.not_eq_true, List.any_eq_false]
    intro o ho
    simp [opNameClash, h p hp o ho]
  simp only [fromV3Full, this, Bool.false_eq_true, if_false]
  cases fromV3 d3 <;> rfl

/-- what ToV3 builds never needs the name: a body parameter with a name carries it, a form body under form media
    types only has none to give -/
theorem needsBodyName_toV3BodyS {V : Type} (cs : List String) (p : Param2 V) (hn : p.name ≠ "") :
    needsBodyName (some (toV3BodyS cs p)) = false := by
  simp [needsBodyName, toV3BodyS, hn]

theorem needsBodyName_formBody {V : Type} (env : Env3 V) (cs : List String) (forms : List (String × Sch V))
    (hcs : cs ≠ []) (hall : cs.all isFormMime = true) :
    needsBodyName (some (.val (formBody env cs forms))) = false := by
  have hne : cs.isEmpty = false := by cases cs <;> simp_all
  simp only [needsBodyName, formBody, hne, Bool.false_eq_true, if_false, Bool.not_false, Bool.true_and]
  rw [List.any_eq_false]
  intro m hm
  simp [List.all_eq_true.mp hall m hm]

/-- the branch that remains in the code (and in the model) is outside the valid OpenAPI 2 documents: a body
    parameter without a name, next to parameters named `body` and `requestBody` -/
theorem nameClash_remaining_branch :
    let b : Param2 Nat := { name := "", loc := "body", required := false, cons := {}, items := none,
                            schema := some (.node { ty := some "object" } []) }
    let q (n : String) : Param2 Nat := { name := n, loc := "query", required := false, cons := { ty := some "string" },
                                          items := none, schema := none }
    let d : Doc2 Nat := { loc := { host := "", basePath := "", schemes := [] }, consumes := [], produces := [],
                          params := [], responses := [], defs := [], secs := [],
                          paths := [{ path := "/x", params := [],
                                      ops := [{ method := "post", opId := "p", consumes := [], produces := [],
                                                params := [.val b, .val (q "body"), .val (q "requestBody")], responses := [] }] }] }
    (match toV3 d with | .ok d3 => (match fromV3Full d3 with | .error => true | _ => false) | .error _ => false) = true := by
  decide

end KinModel.Conv
