/-
C14 — the closure of `Validator.Middleware`, read off the source statement by statement (table MiddlewareFlow,
regenerated on every run), IS the model `middleware`: the statements parse to `middlewareProgram`
(`decide` over the table) and the interpreter of KinModel/MiddlewareFlow.lean runs that program to exactly
`middleware cfg env ops`, for every configuration, every verdict environment and every handler call sequence.
Golden obligations for the other serving functions (ValidationHandler, the wrappers' methods, isInformational):
their statement lists are the ones `vhandler`, `Strict.step`, `Warn.step`, `Strict.flushOut`, `isInfo` are written from.
-/
import KinModel.MiddlewareFlow
import KinModel.Props.C14
import KinModel.Gen.MiddlewareFlow
namespace KinModel.Middleware
open KinModel.MiddlewareSrc KinModel.Gen

theorem flow_table_recognised :
    fUnrecognised middlewareFlow = [] ∧
    flowFns middlewareFlow =
      ["Validator.Middleware", "ValidationHandler.ServeHTTP", "ValidationHandler.Middleware", "ValidationHandler.before",
       "ValidationHandler.validateRequest",
       "strictResponseWrapper.Write", "strictResponseWrapper.WriteHeader", "strictResponseWrapper.Header",
       "strictResponseWrapper.flushBodyContents", "strictResponseWrapper.statusCode", "strictResponseWrapper.bodyContents",
       "warnResponseWrapper.Write", "warnResponseWrapper.WriteHeader", "warnResponseWrapper.Header", "warnResponseWrapper.Flush",
       "warnResponseWrapper.flushBodyContents", "warnResponseWrapper.statusCode", "warnResponseWrapper.bodyContents",
       "isInformational"] := by decide

set_option maxRecDepth 8000 in
/-- **middleware_source_program.** Every statement of the closure of Validator.Middleware has a meaning in the
model's instruction set, and the statement list is `middlewareProgram`. -/
theorem middleware_source_program :
    (flowOf middlewareFlow "Validator.Middleware").mapM parseStmt = some middlewareProgram := by decide

set_option linter.unusedSimpArgs false in
/-- **middleware_program_is_model.** Running the statement list of the source — `if` / `else` blocks, the three
`return`s, the unwinding of a handler panic — gives exactly the model's outcome: handler invoked or not, everything
the client's writer received, the ErrFunc and LogFunc calls; for every configuration, verdict environment, transport
and handler call sequence. -/
theorem middleware_program_is_model (cfg : Cfg) (env : Env) (ops : List Op) :
    exec cfg env ops middlewareProgram = middleware cfg env ops := by
  simp only [exec, execRows, middlewareProgram, List.foldl_cons, List.foldl_nil]
  cases hr : env.routeFound <;> cases hq : env.reqOK <;> cases hs : cfg.strict
  case true.true.false =>
    cases hp : (Warn.run { client := Client.init env.server } ops).client.panicked
    · by_cases h0 : (Warn.run { client := Client.init env.server } ops).status = 0
      · cases hv : env.respOK 200 (Warn.run { client := Client.init env.server } ops).client.hdr
            (Warn.run { client := Client.init env.server } ops).buf <;>
          simp [stepRow, runInstr, middleware, FState.outcome, Wr.client, Wr.onRaw, Wr.status, Wr.buf, validatedStatus, hr, hq, hs, hp, h0, hv]
      · cases hv : env.respOK (Warn.run { client := Client.init env.server } ops).status
            (Warn.run { client := Client.init env.server } ops).client.hdr
            (Warn.run { client := Client.init env.server } ops).buf <;>
          simp [stepRow, runInstr, middleware, FState.outcome, Wr.client, Wr.onRaw, Wr.status, Wr.buf, validatedStatus, hr, hq, hs, hp, h0, hv]
    · simp [stepRow, runInstr, middleware, FState.outcome, Wr.client, Wr.onRaw, Wr.status, Wr.buf, validatedStatus, hr, hq, hs, hp]
  case true.true.true =>
    cases hp : (Strict.run { client := Client.init env.server } ops).client.panicked
    · by_cases h0 : (Strict.run { client := Client.init env.server } ops).status = 0
      · cases hv : env.respOK 200 (Strict.run { client := Client.init env.server } ops).client.hdr
            (Strict.run { client := Client.init env.server } ops).buf <;>
          simp [stepRow, runInstr, middleware, FState.outcome, Wr.client, Wr.onRaw, Wr.status, Wr.buf, validatedStatus, hr, hq, hs, hp, h0, hv]
      · cases hv : env.respOK (Strict.run { client := Client.init env.server } ops).status
            (Strict.run { client := Client.init env.server } ops).client.hdr
            (Strict.run { client := Client.init env.server } ops).buf <;>
          simp [stepRow, runInstr, middleware, FState.outcome, Wr.client, Wr.onRaw, Wr.status, Wr.buf, validatedStatus, hr, hq, hs, hp, h0, hv]
    · simp [stepRow, runInstr, middleware, FState.outcome, Wr.client, Wr.onRaw, Wr.status, Wr.buf, validatedStatus, hr, hq, hs, hp]
  all_goals
    simp [stepRow, runInstr, middleware, FState.outcome, Wr.client, Wr.onRaw, Wr.status, Wr.buf, validatedStatus, hr, hq, hs]

/-- **middleware_source_is_model.** The statement list regenerated from the source, run by the interpreter, is the
model — for all inputs. A statement added to, removed from or reordered in the closure of Validator.Middleware (a
dropped `return`, the handler called before a gate, ErrFunc handed the wrapper, a deferred call, a loop) breaks
either the parse (`middleware_source_program`) or this equality. -/
theorem middleware_source_is_model (cfg : Cfg) (env : Env) (ops : List Op) :
    execSource cfg env ops (flowOf middlewareFlow "Validator.Middleware") = some (middleware cfg env ops) := by
  simp only [execSource, middleware_source_program, Option.map_some, middleware_program_is_model]

/-- **source_meets_spec.** What the statements of the source compute meets the specification of the property (total
reading), for every configuration, environment, transport and handler call sequence. -/
theorem source_meets_spec (cfg : Cfg) (env : Env) (ops : List Op) :
    ∃ o, execSource cfg env ops (flowOf middlewareFlow "Validator.Middleware") = some o ∧ MeetsT o (spec cfg env ops) :=
  ⟨_, middleware_source_is_model cfg env ops, middleware_meets_spec_total cfg env ops⟩

/-- **source_history_meets_spec.** A history of requests through ONE middleware instance, each served by running the
source's statement list (the closure starts from its parameters alone: `Validator` keeps nothing between requests —
`validator_keeps_no_state`, and the program creates its wrapper itself, `newStrict` / `newWarn`): the list of outcomes
is the model's `serveSeq`, and every request of the history is answered as the property prescribes. -/
theorem source_history_meets_spec (cfg : Cfg) (reqs : List Req) :
    reqs.map (fun r => exec cfg r.env r.ops middlewareProgram) = serveSeq cfg reqs ∧
    MeetsSeq cfg reqs (reqs.map (fun r => exec cfg r.env r.ops middlewareProgram)) := by
  have h : reqs.map (fun r => exec cfg r.env r.ops middlewareProgram) = serveSeq cfg reqs := by
    rw [serveSeq_pointwise]
    exact List.map_congr_left (fun r _ => middleware_program_is_model cfg r.env r.ops)
  exact ⟨h, h ▸ every_request_of_a_history_meets_spec cfg reqs⟩

set_option linter.unusedSimpArgs false in
/-- the interpreter never reaches the statement it has no meaning for (the log call under a failed client write) -/
theorem source_never_stuck (cfg : Cfg) (env : Env) (ops : List Op) :
    (execRows cfg env ops middlewareProgram).stuck = false := by
  simp only [execRows, middlewareProgram, List.foldl_cons, List.foldl_nil]
  cases hr : env.routeFound <;> cases hq : env.reqOK <;> cases hs : cfg.strict
  case true.true.false =>
    cases hp : (Warn.run { client := Client.init env.server } ops).client.panicked
    · by_cases h0 : (Warn.run { client := Client.init env.server } ops).status = 0
      · cases hv : env.respOK 200 (Warn.run { client := Client.init env.server } ops).client.hdr
            (Warn.run { client := Client.init env.server } ops).buf <;>
          simp [stepRow, runInstr, Wr.client, Wr.status, Wr.buf, hr, hq, hs, hp, h0, hv]
      · cases hv : env.respOK (Warn.run { client := Client.init env.server } ops).status
            (Warn.run { client := Client.init env.server } ops).client.hdr
            (Warn.run { client := Client.init env.server } ops).buf <;>
          simp [stepRow, runInstr, Wr.client, Wr.status, Wr.buf, hr, hq, hs, hp, h0, hv]
    · simp [stepRow, runInstr, Wr.client, hr, hq, hs, hp]
  case true.true.true =>
    cases hp : (Strict.run { client := Client.init env.server } ops).client.panicked
    · by_cases h0 : (Strict.run { client := Client.init env.server } ops).status = 0
      · cases hv : env.respOK 200 (Strict.run { client := Client.init env.server } ops).client.hdr
            (Strict.run { client := Client.init env.server } ops).buf <;>
          simp [stepRow, runInstr, Wr.client, Wr.status, Wr.buf, hr, hq, hs, hp, h0, hv]
      · cases hv : env.respOK (Strict.run { client := Client.init env.server } ops).status
            (Strict.run { client := Client.init env.server } ops).client.hdr
            (Strict.run { client := Client.init env.server } ops).buf <;>
          simp [stepRow, runInstr, Wr.client, Wr.status, Wr.buf, hr, hq, hs, hp, h0, hv]
    · simp [stepRow, runInstr, Wr.client, hr, hq, hs, hp]
  all_goals simp [stepRow, runInstr, Wr.client, Wr.onRaw, hr, hq, hs]

/-! ### the interpreter tells changed statement lists apart (kernel-checked witnesses: the equality above is not
vacuous — each of these one-statement changes of the program gives another outcome on a concrete input) -/


/-- without the `return` of the request gate the handler runs for an invalid request -/
theorem witness_dropped_return :
    (exec cfgS envBadReq [.write ['x']] (middlewareProgram.eraseIdx 11)).handlerRan = true ∧
    (middleware cfgS envBadReq [.write ['x']]).handlerRan = false := by decide

/-- without the `return` of the response branch a rejected body is flushed behind the server error -/
theorem witness_flush_after_rejection :
    (exec cfgS envBadResp [.write ['x']] (middlewareProgram.eraseIdx 26)).client.body = "server error\nx".toList ∧
    (middleware cfgS envBadResp [.write ['x']]).client.body = "server error\n".toList := by decide

/-- with the wrapper selection inverted strict mode leaks the rejected body -/
theorem witness_wrong_wrapper :
    (exec cfgS envBadResp [.write ['x']]
        ((middlewareProgram.set 14 (1, .newWarn)).set 16 (1, .newStrict))).client.body.take 1 = ['x'] := by decide

example : middlewareProgram[11]? = some (1, .ret) ∧ middlewareProgram[26]? = some (1, .ret) ∧
    middlewareProgram[14]? = some (1, .newStrict) ∧ middlewareProgram[16]? = some (1, .newWarn) := by decide

/-! ### the other serving functions: the statement lists the model is written from -/

/-- ValidationHandler: `before` runs validateRequest, on an error calls the ErrorEncoder on the raw writer and reports
`handled`; ServeHTTP and Middleware return on `handled` and otherwise call the wrapped handler on the RAW writer
(`vhandler`: request-only gate, then transparent); validateRequest = FindRoute, then ValidateRequest with
`Options{AuthenticationFunc}`, each error returned as it is -/
theorem vhandler_flow_as_modelled :
    flowOf middlewareFlow "ValidationHandler.ServeHTTP" =
      [(0, "assign", "handled := h.before(w, r)"), (0, "if", "handled"), (1, "return", "return"),
       (0, "call", "h.Handler.ServeHTTP(w, r)")] ∧
    flowOf middlewareFlow "ValidationHandler.Middleware" =
      [(0, "assign", "handled := h.before(w, r)"), (0, "if", "handled"), (1, "return", "return"),
       (0, "call", "next.ServeHTTP(w, r)")] ∧
    flowOf middlewareFlow "ValidationHandler.before" =
      [(0, "assign", "err := h.validateRequest(r)"), (0, "if", "err != nil"),
       (1, "call", "h.ErrorEncoder(r.Context(), err, w)"), (1, "return", "return true"), (0, "return", "return false")] ∧
    flowOf middlewareFlow "ValidationHandler.validateRequest" =
      [(0, "assign", "route, pathParams, err := h.router.FindRoute(r)"), (0, "if", "err != nil"), (1, "return", "return err"),
       (0, "assign", "options := &Options{AuthenticationFunc: h.AuthenticationFunc}"),
       (0, "assign", "requestValidationInput := &RequestValidationInput{Request: r, PathParams: pathParams, Route: route, Options: options}"),
       (0, "assign", "err = ValidateRequest(r.Context(), requestValidationInput)"), (0, "if", "err != nil"),
       (1, "return", "return err"), (0, "return", "return nil")] := by decide

set_option maxRecDepth 8000 in
/-- the four serving functions of ValidationHandler parse completely; ServeHTTP and the closure of Middleware are the
same program -/
theorem vhandler_source_programs :
    vProg (flowOf middlewareFlow "ValidationHandler.ServeHTTP") = some vServeProg ∧
    vProg (flowOf middlewareFlow "ValidationHandler.Middleware") = some vServeProg ∧
    vProg (flowOf middlewareFlow "ValidationHandler.before") = some vBeforeProg ∧
    vProg (flowOf middlewareFlow "ValidationHandler.validateRequest") = some vValidateProg := by decide

/-- **vhandler_source_is_model.** ServeHTTP / Middleware → before → validateRequest, run statement by statement, is
the model `vhandler`: for every failure kind of the request, every ErrorEncoder behaviour, handler and transport the
wrapped handler runs iff the request has no failure, on the raw writer, and otherwise the encoder alone answers. -/
theorem vhandler_source_is_model (encOps : ReqFail → List Op) (fail : ReqFail) (ops : List Op) (server : Bool) :
    vexec encOps fail ops server vServeProg vBeforeProg vValidateProg = vhandler encOps fail ops server := by
  cases fail <;>
    simp [vexec, vexecRows, vstep, vrun, vServeProg, vBeforeProg, vValidateProg, vhandler, routeErr, requestErr]

/-- without the `return` under `if handled` the handler runs behind the encoder's answer -/
theorem witness_vhandler_dropped_return :
    (vexec (fun _ => []) .invalid [] false (vServeProg.eraseIdx 2) vBeforeProg vValidateProg).handlerRan = true ∧
    (vhandler (fun _ => []) .invalid [] false).handlerRan = false := by decide

/-- the strict wrapper's methods, conditions included: `Strict.step` (.writeHeader: nothing while a header is
recorded; an informational code dropped; else record), (.write: implied WriteHeader(200), then buffer),
`Strict.flushOut` (forward the status only when one was recorded, then write the buffer), `validatedStatus`'s input -/
theorem strict_flow_as_modelled :
    flowOf middlewareFlow "strictResponseWrapper.WriteHeader" =
      [(0, "if", "!wr.headerWritten && isInformational(status)"), (1, "return", "return"),
       (0, "if", "!wr.headerWritten"), (1, "assign", "wr.status = status"), (1, "assign", "wr.headerWritten = true")] ∧
    flowOf middlewareFlow "strictResponseWrapper.Write" =
      [(0, "if", "!wr.headerWritten"), (1, "call", "wr.WriteHeader(http.StatusOK)"), (0, "return", "return wr.body.Write(b)")] ∧
    flowOf middlewareFlow "strictResponseWrapper.Header" = [(0, "return", "return wr.w.Header()")] ∧
    flowOf middlewareFlow "strictResponseWrapper.flushBodyContents" =
      [(0, "if", "wr.headerWritten"), (1, "call", "wr.w.WriteHeader(wr.status)"),
       (0, "assign", "_, err := wr.w.Write(wr.body.Bytes())"), (0, "return", "return err")] ∧
    flowOf middlewareFlow "strictResponseWrapper.statusCode" = [(0, "return", "return wr.status")] ∧
    flowOf middlewareFlow "strictResponseWrapper.bodyContents" = [(0, "return", "return wr.body.Bytes()")] := by decide

/-- the warn wrapper's methods, conditions included (`Warn.writeHeader`, `Warn.step`) -/
theorem warn_flow_as_modelled :
    flowOf middlewareFlow "warnResponseWrapper.WriteHeader" =
      [(0, "if", "!wr.headerWritten && isInformational(status)"), (1, "call", "wr.w.WriteHeader(status)"), (1, "return", "return"),
       (0, "if", "!wr.headerWritten"), (1, "assign", "wr.status = status"), (1, "assign", "wr.headerWritten = true"),
       (0, "call", "wr.w.WriteHeader(wr.status)")] ∧
    flowOf middlewareFlow "warnResponseWrapper.Write" =
      [(0, "if", "!wr.headerWritten"), (1, "call", "wr.WriteHeader(http.StatusOK)"), (0, "return", "return wr.tee.Write(b)")] ∧
    flowOf middlewareFlow "warnResponseWrapper.Header" = [(0, "return", "return wr.w.Header()")] ∧
    flowOf middlewareFlow "warnResponseWrapper.Flush" =
      [(0, "assign", "fl, ok := wr.w.(http.Flusher)"), (0, "if", "ok"), (1, "call", "fl.Flush()")] ∧
    flowOf middlewareFlow "warnResponseWrapper.flushBodyContents" = [(0, "return", "return nil")] ∧
    flowOf middlewareFlow "warnResponseWrapper.statusCode" = [(0, "return", "return wr.status")] ∧
    flowOf middlewareFlow "warnResponseWrapper.bodyContents" = [(0, "return", "return wr.body.Bytes()")] := by decide

/-! ### the wrapper methods run as programs -/

/-- every statement of the six state-changing wrapper methods has a meaning, and these are their programs -/
theorem wrapper_source_programs :
    wProg (flowOf middlewareFlow "strictResponseWrapper.WriteHeader") = some strictWH ∧
    wProg (flowOf middlewareFlow "strictResponseWrapper.Write") = some strictW ∧
    wProg (flowOf middlewareFlow "strictResponseWrapper.flushBodyContents") = some strictFl ∧
    wProg (flowOf middlewareFlow "warnResponseWrapper.WriteHeader") = some warnWH ∧
    wProg (flowOf middlewareFlow "warnResponseWrapper.Write") = some warnW ∧
    wProg (flowOf middlewareFlow "warnResponseWrapper.Flush") = some warnF := by decide

/-- **strict_wrapper_source_is_model.** The statement lists of strictResponseWrapper.WriteHeader / Write /
flushBodyContents run to exactly `Strict.step` / `Strict.flushOut`, for every wrapper state and argument. -/
theorem strict_wrapper_source_is_model (w : Strict) (n : Nat) (bs : Bytes) :
    (wexec noSelf strictWH { WSt.ofStrict w with arg := n }).toStrict = w.step (.writeHeader n) ∧
    (wexec (selfCall strictWH) strictW { WSt.ofStrict w with bs := bs }).toStrict = w.step (.write bs) ∧
    (wexec noSelf strictFl (WSt.ofStrict w)).client = w.flushOut := by
  obtain ⟨hw, st, buf, c⟩ := w
  refine ⟨?_, ?_, ?_⟩
  · cases hw <;> cases hi : isInfo n <;>
      simp [wexec, wstep, wrun, strictWH, WSt.ofStrict, WSt.toStrict, Strict.step, hi]
  · cases hw <;>
      simp [wexec, wstep, wrun, strictW, strictWH, selfCall, WSt.ofStrict, WSt.toStrict, Strict.step, isInfo]
  · cases hw <;>
      simp [wexec, wstep, wrun, strictFl, WSt.ofStrict, Strict.flushOut]

/-- **warn_wrapper_source_is_model.** The same for warnResponseWrapper.WriteHeader / Write / Flush and `Warn.step`. -/
theorem warn_wrapper_source_is_model (w : Warn) (n : Nat) (bs : Bytes) :
    (wexec noSelf warnWH { WSt.ofWarn w with arg := n }).toWarn = w.step (.writeHeader n) ∧
    (wexec (selfCall warnWH) warnW { WSt.ofWarn w with bs := bs }).toWarn = w.step (.write bs) ∧
    (wexec noSelf warnF (WSt.ofWarn w)).toWarn = w.step .flush := by
  obtain ⟨hw, st, buf, c⟩ := w
  refine ⟨?_, ?_, ?_⟩
  · cases hw <;> cases hi : isInfo n <;>
      simp [wexec, wstep, wrun, warnWH, WSt.ofWarn, WSt.toWarn, Warn.step, Warn.writeHeader, hi]
  · cases hw <;>
      simp [wexec, wstep, wrun, warnW, warnWH, selfCall, WSt.ofWarn, WSt.toWarn, Warn.step, Warn.writeHeader, isInfo]
  · simp [wexec, wstep, wrun, warnF, WSt.ofWarn, WSt.toWarn, Warn.step]

/-- **wrapper_runs_are_source_runs.** For EVERY sequence of handler calls (the history dimension of the wrapper state
machines: Write before WriteHeader, several WriteHeader calls, writes in pieces, …) running the methods' statement
lists call after call gives the wrapper state the model's `Strict.run` / `Warn.run` give. -/
theorem wrapper_runs_are_source_runs (ops : List Op) :
    (∀ w : Strict, ops.foldl Strict.srcStep w = Strict.run w ops) ∧
    (∀ w : Warn, ops.foldl Warn.srcStep w = Warn.run w ops) := by
  have hs : ∀ (w : Strict) (op : Op), Strict.srcStep w op = w.step op := by
    intro w op
    cases op with
    | writeHeader n => exact (strict_wrapper_source_is_model w n []).1
    | write bs => exact (strict_wrapper_source_is_model w 0 bs).2.1
    | _ => rfl
  have hw : ∀ (w : Warn) (op : Op), Warn.srcStep w op = w.step op := by
    intro w op
    cases op with
    | writeHeader n => exact (warn_wrapper_source_is_model w n []).1
    | write bs => exact (warn_wrapper_source_is_model w 0 bs).2.1
    | flush => exact (warn_wrapper_source_is_model w 0 []).2.2
    | _ => rfl
  constructor
  · induction ops with
    | nil => intro w; rfl
    | cons op ops ih => intro w; simp only [List.foldl_cons, Strict.run, hs] at *; exact ih _
  · induction ops with
    | nil => intro w; rfl
    | cons op ops ih => intro w; simp only [List.foldl_cons, Warn.run, hw] at *; exact ih _

/-- `isInformational` is the expression `isInfo` transcribes (http.StatusSwitchingProtocols = 101) -/
theorem isInformational_as_modelled :
    flowOf middlewareFlow "isInformational" =
      [(0, "return", "return status >= 100 && status <= 199 && status != http.StatusSwitchingProtocols")] ∧
    (∀ n, isInfo n = (decide (n ≥ 100) && decide (n ≤ 199) && (n != 101))) := by
  refine ⟨by decide, fun n => rfl⟩

end KinModel.Middleware
