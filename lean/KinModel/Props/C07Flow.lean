/-
C07 — a request passes iff security, every effective parameter and the body pass.
Property theorems only (opened model and spec: KinModel/RequestFlow.lean; interpreter lemmas: KinModel/Lemmas/C07.lean;
composition with the parameter and body models of C05 / C06: KinModel/Props/C07Compose.lean).

The main theorem holds at full strength (`accept_iff`). Finding F-C07-1 (no authentication callback configured, an empty
requirement offered: rejected) is repaired in the repository (`if len(securityRequirement) == 0 { return nil }` at the head
of validateSecurityRequirement, read by the translator as the row `.emptyReqOk`); its exclusion class is deleted and its
witness is the regression theorem `nilAuth_emptyRequirement_regression`.
-/
import KinModel.RequestFlow
import KinModel.Lemmas.C07
import KinModel.Gen.C07Flow
namespace KinModel.RequestFlow
open KinModel.Request (In Param Opts Part overridden skipQuery)

/-! ## (T) the programs the model interprets are the code of the working tree -/

def srcOfGen : Gen.C07Src → Option Src
  | .pathItem => some .pathItem | .operation => some .operation | .other _ => none
def secSrcOfGen : Gen.C07SecSrc → Option SecSrc
  | .operation => some .operation | .document => some .document | .other _ => none
def fieldOfGen : Gen.C07Field → Option Field
  | .loc => some .loc | .name => some .name | .other _ => none
def exitOfGen : Gen.C07Exit → Option Exit
  | .cont => some .cont | .brk => some .brk | .ret => none
def actOfGen : Gen.C07ErrAct → ErrAct
  | .retUnlessMulti => .retUnlessMulti | .ret => .ret | .append => .append

def guardOfGen : Gen.C07Guard → Option Guard
  | .exQuery e => (exitOfGen e).map .exQuery
  | .overridden l ng a1 a2 e =>
    match srcOfGen l, fieldOfGen a1, fieldOfGen a2, exitOfGen e with
    | some l, some a1, some a2, some e => some (.overridden l ng a1 a2 e)
    | _, _, _, _ => none

def allSome {α : Type} : List (Option α) → Option (List α)
  | [] => some []
  | none :: _ => none
  | some a :: r => (allSome r).map (a :: ·)

def condOfGen : Gen.C07BodyCond → BodyCond
  | .declared => .declared | .notExcluded => .notExcluded

def reqStepOfGen : Gen.C07Row → Option ReqStep
  | .optionsDefault => some .optionsDefault
  | .security f fb h =>
    (match secSrcOfGen f, secSrcOfGen fb with
     | some f, some fb => some (.security f fb (actOfGen h))
     | _, _ => none)
  | .paramLoop s gs h =>
    (match srcOfGen s, allSome (gs.map guardOfGen) with
     | some s, some gs => some (.paramLoop s gs (actOfGen h))
     | _, _ => none)
  | .body cs h => some (.body (cs.map condOfGen) (actOfGen h))
  | .retMeIfAny => some .retMeIfAny
  | .retNil => some .retNil
  | _ => none

def secStepOfGen : Gen.C07Row → Option SecStep
  | .emptyOk => some .emptyOk
  | .tryEach e => (exitOfGen e).map .tryEach
  | .failAll => some .failAll
  | _ => none

def nameStepOfGen : Gen.C07NameStep → Option NameStep
  | .lookupScheme => some .lookupScheme
  | .undeclaredFails => some .undeclaredFails
  | .scopesOf => some .scopesOf
  | .bodyIO => some .bodyIO
  | .callAuth .ret => some (.callAuth none)
  | .callAuth .cont => some (.callAuth (some .cont))
  | .callAuth .brk => some (.callAuth (some .brk))
  | .unrecognised _ => none

def oneStepOfGen : Gen.C07Row → Option OneStep
  | .emptyReqOk => some .emptyReqOk
  | .sortedNames => some .sortedNames
  | .optionsDefault => some .optionsDefault
  | .needAuthFunc => some .needAuthFunc
  | .schemesFromComponents => some .schemesFromComponents
  | .bodyIO => some .bodyIO
  | .forNames st => (allSome (st.map nameStepOfGen)).map .forNames
  | .retNil => some .retNil
  | _ => none

def lookStepOfGen : Gen.C07Row → Option LookStep
  | .findFirst cs => (allSome (cs.map (fun c => (fieldOfGen c.1).map (·, c.2)))).map .findFirst
  | .retNil => some .retNil
  | _ => none

def rowRecognised : Gen.C07Row → Bool
  | .unrecognised _ => false
  | .forNames st => st.all (fun s => match s with | .unrecognised _ => false | _ => true)
  | _ => true

/-- the translator could read every statement of `ValidateRequest`, `ValidateSecurityRequirements`,
`validateSecurityRequirement` and `Parameters.GetByInAndName` -/
theorem flow_table_recognised :
    (Gen.c07ValidateRequest ++ Gen.c07SecurityRequirements ++ Gen.c07SecurityRequirement ++ Gen.c07GetByInAndName).all
      rowRecognised = true := by decide

/-- **the programs the model interprets are, statement by statement and in order, the code of the working tree**
(regenerated on every run): the order of the steps, the option guard in front of each, what happens to the error of
each step, the override lookup with its argument order, the loop exits, the final `if len(me) > 0 { return me }`;
the OR-loop over requirements; the AND-loop over sorted scheme names with the nil-callback exit, the undeclared-scheme
exit and the callback's arguments; `GetByInAndName`'s comparison. -/
theorem programs_are_source :
    Gen.c07ValidateRequest.map reqStepOfGen = thePrograms.request.map some ∧
    Gen.c07SecurityRequirements.map secStepOfGen = thePrograms.secAll.map some ∧
    Gen.c07SecurityRequirement.map oneStepOfGen = thePrograms.secOne.map some ∧
    Gen.c07GetByInAndName.map lookStepOfGen = thePrograms.lookup.map some := by decide

/-- **the model is the meaning of these programs**: for every operation, option set, declaration set and callback,
interpreting them yields the loop-free formulation `validateRequestD` and the callback log `authLogD` -/
theorem validateRequest_eq_direct (o : Opts) (op : Op) (env : Env) :
    validateRequest o op env = validateRequestD o op env ∧ authLog o op env = authLogD env op := by
  unfold validateRequest authLog
  rw [run_eq_direct]
  exact ⟨rfl, rfl⟩

/-- the interpreter never gets stuck on the source's programs -/
theorem never_stuck (o : Opts) (op : Op) (env : Env) : validateRequest o op env ≠ .stuck := by
  rw [(validateRequest_eq_direct o op env).1]
  unfold validateRequestD
  cases failing o op env with
  | nil => simp [finish]
  | cons p ps => cases o.multiError <;> simp [finish]

/-! ## security -/

theorem runReq_fst (d : String → Bool) (a : String → List String → Bool) (k : Nat) (l : List SchemeUse) :
    (runReq d a k l).1 = l.all (fun u => d u.scheme && a u.scheme u.scopes) := by
  induction l with
  | nil => simp [runReq]
  | cons u rest ih =>
    unfold runReq
    cases hd : d u.scheme <;> cases ha : a u.scheme u.scopes <;> simp [hd, ha, ih]

theorem mem_insertUse (x u : SchemeUse) (l : List SchemeUse) : u ∈ insertUse x l ↔ u = x ∨ u ∈ l := by
  induction l with
  | nil => simp [insertUse]
  | cons y ys ih =>
    unfold insertUse
    split
    · simp
    · simp only [List.mem_cons, ih]
      constructor
      · rintro (h | h | h) <;> simp [h]
      · rintro (h | h | h) <;> simp [h]

/-- sorting the scheme names loses and adds no entry (scopes stay with their scheme) -/
theorem mem_sortUses (r : Requirement) (u : SchemeUse) : u ∈ sortUses r ↔ u ∈ r := by
  unfold sortUses
  induction r with
  | nil => simp
  | cons x xs ih => simp [List.foldr, mem_insertUse, ih]

theorem runReqs_fst (d : String → Bool) (a : String → List String → Bool) (k : Nat) (rs : List Requirement) :
    (runReqs d a k rs).1 = rs.any (fun r => r.all (fun u => d u.scheme && a u.scheme u.scopes)) := by
  induction rs generalizing k with
  | nil => simp [runReqs]
  | cons r rest ih =>
    unfold runReqs
    have h1 : (runReq d a k (sortUses r)).1 = r.all (fun u => d u.scheme && a u.scheme u.scopes) := by
      rw [runReq_fst]
      apply Bool.eq_iff_iff.mpr
      simp only [List.all_eq_true, mem_sortUses]
    cases hb : (runReq d a k (sortUses r)).1 with
    | true =>
      have : (r.all fun u => d u.scheme && a u.scheme u.scopes) = true := by rw [← h1]; exact hb
      simp [hb, this]
    | false =>
      have : (r.all fun u => d u.scheme && a u.scheme u.scopes) = false := by rw [← h1]; exact hb
      simp only [hb, List.any_cons, this, Bool.false_or]
      exact ih (k + 1)

/-- the code's security verdict is the specification's — with or without a callback -/
theorem runSecurity_eq_secSpecB (env : Env) (op : Op) :
    (runSecurity env op).1 = secSpecB env op := by
  unfold runSecurity secSpecB
  cases h : securityList op with
  | nil => simp
  | cons r rs =>
    cases ha : env.auth with
    | some a =>
      have hacc : accepted env = fun u => env.declared u.scheme && a u.scheme u.scopes := by
        funext u; simp [accepted, ha]
      simp only [runReqs_fst, List.isEmpty_cons, Bool.false_or, hacc]
    | none =>
      have hacc : ∀ u, accepted env u = false := by intro u; simp [accepted, ha]
      have hall : ∀ q : Requirement, q.all (accepted env) = q.isEmpty := by
        intro q; cases q <;> simp [hacc]
      simp only [List.isEmpty_cons, Bool.false_or]
      congr 1
      funext q
      exact (hall q).symm

theorem secSpecB_iff (env : Env) (op : Op) : secSpecB env op = true ↔ SecSpec env op := by
  simp [secSpecB, SecSpec, List.isEmpty_iff]

/-- Security succeeds exactly when the applicable list is empty or some requirement has all its scheme uses
accepted — declared and accepted by the callback with the scopes this requirement lists (an empty requirement needs
nothing, not even a callback). -/
theorem security_iff (env : Env) (op : Op) :
    (runSecurity env op).1 = true ↔ SecSpec env op := by
  rw [runSecurity_eq_secSpecB env op]; exact secSpecB_iff env op

/-- **regression of F-C07-1** (kernel-checked): no callback, `security: [{}]` at document level — nothing needs to be
authenticated, the request passes and no call is made; a non-empty requirement in front of the empty one is skipped. -/
theorem nilAuth_emptyRequirement_regression :
    let op : Op := { opParams := none, pathParams := [], opSecurity := none, docSecurity := [[]], hasBody := false, bodyOK := true }
    let env : Env := { declared := fun _ => true, auth := none }
    validateRequest {} op env = .ok ∧ acceptB {} op env = true ∧ authLog {} op env = [] ∧
    validateRequest {} { op with docSecurity := [[⟨"a", []⟩], []] } env = .ok ∧
    validateRequest {} { op with docSecurity := [[⟨"a", []⟩]] } env = .single .security := by decide

/-- without a callback a non-empty list passes iff it offers an empty requirement; no call is made -/
theorem nil_auth_passes_iff_empty_requirement (env : Env) (op : Op) (ha : env.auth = none) (hne : securityList op ≠ []) :
    runSecurity env op = ((securityList op).any (·.isEmpty), []) := by
  unfold runSecurity
  cases h : securityList op with
  | nil => exact absurd h hne
  | cons r rs => simp [ha]

/-! ## the verdict -/

theorem isOk_iff_failing_nil (o : Opts) (op : Op) (env : Env) :
    (validateRequest o op env).isOk = true ↔ failing o op env = [] := by
  rw [(validateRequest_eq_direct o op env).1]
  unfold validateRequestD
  cases h : failing o op env with
  | nil => simp [finish, Res.isOk]
  | cons p ps => cases o.multiError <;> simp [finish, Res.isOk]

theorem mem_visited_iff_effective (o : Opts) (op : Op) (p : Param) :
    p ∈ visitedParams o op ↔ p ∈ effective o op := by
  unfold visitedParams effective skipQuery
  simp only [List.mem_append, List.mem_filter, Bool.and_eq_true, Bool.not_eq_true']
  constructor
  · rintro (⟨h1, h2, h3⟩ | ⟨h1, h2⟩)
    · exact ⟨Or.inr ⟨h1, h3⟩, h2⟩
    · exact ⟨Or.inl h1, h2⟩
  · rintro ⟨h1 | ⟨h1, h3⟩, h2⟩
    · exact Or.inr ⟨h1, h2⟩
    · exact Or.inl ⟨h1, h2, h3⟩

/-- **C07 main theorem.** Request validation — the meaning of the programs read from the source — succeeds exactly
when security passes, every parameter in effect validates, and the body (when declared and not excluded) validates:
for every operation (parameter lists of any shape at both levels, nil or empty, with duplicates, security lists of any
shape at both levels with scopes), every option combination, every set of declared schemes and every callback verdict
per (scheme, scopes), with or without a callback. -/
theorem accept_iff (o : Opts) (op : Op) (env : Env) :
    (validateRequest o op env).isOk = true ↔ Accept o op env := by
  rw [isOk_iff_failing_nil]
  unfold failing Accept bodyChecked
  simp only [List.append_eq_nil_iff, List.map_eq_nil_iff, List.filter_eq_nil_iff]
  constructor
  · rintro ⟨⟨hs, hp⟩, hb⟩
    refine ⟨?_, ?_, ?_⟩
    · apply (security_iff env op).mp
      cases hc : (runSecurity env op).1 with
      | true => rfl
      | false => simp [hc] at hs
    · intro p hpm
      have := hp p ((mem_visited_iff_effective o op p).mpr hpm)
      simpa using this
    · intro h1 h2
      cases hc : op.bodyOK with
      | true => rfl
      | false => simp [h1, h2, hc] at hb
  · rintro ⟨hs, hp, hb⟩
    refine ⟨⟨?_, ?_⟩, ?_⟩
    · have := (security_iff env op).mpr hs; simp [this]
    · intro p hpm
      have := hp p ((mem_visited_iff_effective o op p).mp hpm)
      simp [this]
    · cases h1 : op.hasBody <;> cases h2 : o.excludeBody <;> simp
      exact hb h1 h2

theorem acceptB_iff (o : Opts) (op : Op) (env : Env) :
    acceptB o op env = true ↔ Accept o op env := by
  unfold acceptB Accept
  simp only [Bool.and_eq_true, Bool.or_eq_true, Bool.not_eq_true', List.all_eq_true, secSpecB_iff]
  constructor
  · rintro ⟨⟨h1, h2⟩, h3⟩
    refine ⟨h1, h2, ?_⟩
    intro hb he
    rcases h3 with h3 | h3
    · simp [hb, he] at h3
    · exact h3
  · rintro ⟨h1, h2, h3⟩
    refine ⟨⟨h1, h2⟩, ?_⟩
    cases hb : op.hasBody <;> cases he : o.excludeBody <;> simp
    exact h3 hb he

/-- The verdict does not depend on the multi-error option. -/
theorem verdict_mode_independent (o : Opts) (op : Op) (env : Env) (m : Bool) :
    (validateRequest { o with multiError := m } op env).isOk = (validateRequest o op env).isOk := by
  apply Bool.eq_iff_iff.mpr
  rw [isOk_iff_failing_nil, isOk_iff_failing_nil]
  have : failing { o with multiError := m } op env = failing o op env := by
    unfold failing visitedParams skipQuery bodyChecked; rfl
  rw [this]

/-- In multi-error mode the value returned is nil or a MultiError holding exactly the failing parts, in the order
security, path-level parameters, operation parameters, body. -/
theorem multi_reports_exactly_failing (o : Opts) (op : Op) (env : Env) (hm : o.multiError = true) :
    validateRequest o op env = (match failing o op env with | [] => .ok | ps => .multi ps) := by
  rw [(validateRequest_eq_direct o op env).1]
  unfold validateRequestD; cases failing o op env <;> simp [finish, hm]

/-- Fail-first mode returns the first failing part as a bare error. -/
theorem failfast_reports_first (o : Opts) (op : Op) (env : Env) (hm : o.multiError = false) :
    validateRequest o op env = (match failing o op env with | [] => .ok | p :: _ => .single p) := by
  rw [(validateRequest_eq_direct o op env).1]
  unfold validateRequestD; cases failing o op env <;> simp [finish, hm]

/-- The failing parts reported are, as a set, exactly the parts the property names: security when no
requirement is met, each parameter in effect that does not validate, the body when checked and invalid. -/
theorem failing_mem_iff_spec (o : Opts) (op : Op) (env : Env) (x : Part) :
    x ∈ failing o op env ↔ x ∈ failingSpec o op env := by
  unfold failing failingSpec bodyChecked
  rw [runSecurity_eq_secSpecB env op]
  simp only [List.mem_append, List.mem_map, List.mem_filter, mem_visited_iff_effective]

/-- what is returned holds exactly the parts the property names (multi-error) or one of them (fail-first) -/
theorem returned_parts_are_spec (o : Opts) (op : Op) (env : Env) :
    (o.multiError = true → ∀ x, x ∈ (validateRequest o op env).parts ↔ x ∈ failingSpec o op env) ∧
    (o.multiError = false → ∀ x ∈ (validateRequest o op env).parts, x ∈ failingSpec o op env) := by
  constructor
  · intro hm x
    rw [multi_reports_exactly_failing o op env hm, ← failing_mem_iff_spec o op env]
    cases failing o op env <;> simp [Res.parts]
  · intro hm x
    rw [failfast_reports_first o op env hm, ← failing_mem_iff_spec o op env]
    cases failing o op env with
    | nil => simp [Res.parts]
    | cons p ps => intro h; simp [Res.parts] at h; simp [h]

/-- ExcludeRequestQueryParams removes exactly the query parameters from the parameters visited. -/
theorem exclude_query_removes_exactly_query (o : Opts) (op : Op) :
    visitedParams { o with excludeQuery := true } op =
      (visitedParams { o with excludeQuery := false } op).filter (fun p => p.loc ≠ In.query) := by
  unfold visitedParams skipQuery
  simp only [List.filter_append, List.filter_filter]
  congr 1 <;> (apply List.filter_congr; intro p _; cases p.loc <;> simp)

/-- ExcludeRequestBody removes exactly the body check. -/
theorem exclude_body_removes_exactly_body (o : Opts) (op : Op) (env : Env) :
    failing { o with excludeBody := true } op env =
      (failing { o with excludeBody := false } op env).filter (fun x => x ≠ Part.body) := by
  unfold failing bodyChecked visitedParams skipQuery
  simp only [List.filter_append, Bool.not_true, Bool.and_false, Bool.false_and]
  have h1 : ∀ l : List Part, (∀ x ∈ l, x ≠ Part.body) → l.filter (fun x => x ≠ Part.body) = l := by
    intro l h; apply List.filter_eq_self.mpr; intro x hx; simpa using h x hx
  rw [h1, h1]
  · cases op.hasBody <;> cases op.bodyOK <;> simp
  · intro x hx; simp only [List.mem_map] at hx; obtain ⟨p, _, rfl⟩ := hx; simp
  · intro x hx; split at hx <;> simp_all

/-- a nil `operation.Parameters` and an empty one behave alike: the `operationParameters != nil` guard in front of
the override lookup changes nothing -/
theorem nil_operation_parameters_is_empty (o : Opts) (op : Op) (env : Env) (h : op.opParams = none) :
    validateRequest o op env = validateRequest o { op with opParams := some [] } env := by
  rw [(validateRequest_eq_direct o op env).1, (validateRequest_eq_direct o _ env).1]
  unfold validateRequestD failing visitedParams opList runSecurity securityList bodyChecked
  simp [h]

/-! ## the calls the callback receives -/

theorem runReq_log_sub (d : String → Bool) (a : String → List String → Bool) (k : Nat) (l : List SchemeUse) :
    ∀ c ∈ (runReq d a k l).2, c.req = k ∧ ⟨c.scheme, c.scopes⟩ ∈ l ∧ d c.scheme = true := by
  induction l with
  | nil => simp [runReq]
  | cons x rest ih =>
    unfold runReq
    cases hd : d x.scheme <;> cases ha : a x.scheme x.scopes <;> simp
    · exact hd
    · constructor
      · exact hd
      · intro c hc; exact ⟨(ih c hc).1, Or.inr (ih c hc).2.1, (ih c hc).2.2⟩

def nth? {α : Type} : List α → Nat → Option α
  | [], _ => none
  | a :: _, 0 => some a
  | _ :: r, n + 1 => nth? r n

theorem runReqs_log_sub (d : String → Bool) (a : String → List String → Bool) (rs : List Requirement) :
    ∀ (k : Nat), ∀ c ∈ (runReqs d a k rs).2,
      k ≤ c.req ∧ (∃ r, nth? rs (c.req - k) = some r ∧ ⟨c.scheme, c.scopes⟩ ∈ r) ∧ d c.scheme = true := by
  induction rs with
  | nil => simp [runReqs]
  | cons r rest ih =>
    intro k c hc
    unfold runReqs at hc
    have h0 : ∀ c ∈ (runReq d a k (sortUses r)).2,
        k ≤ c.req ∧ (∃ r', nth? (r :: rest) (c.req - k) = some r' ∧ ⟨c.scheme, c.scopes⟩ ∈ r') ∧ d c.scheme = true := by
      intro c hc
      obtain ⟨h1, h2, h3⟩ := runReq_log_sub d a k (sortUses r) c hc
      refine ⟨by omega, ⟨r, ?_, (mem_sortUses r _).mp h2⟩, h3⟩
      simp [h1, nth?]
    cases hb : (runReq d a k (sortUses r)).1 with
    | true =>
      simp only [hb, if_true] at hc
      exact h0 c hc
    | false =>
      simp only [hb, Bool.false_eq_true, if_false, List.mem_append] at hc
      rcases hc with hc | hc
      · exact h0 c hc
      · obtain ⟨h1, ⟨r', hr', hm⟩, h3⟩ := ih (k + 1) c hc
        refine ⟨by omega, ⟨r', ?_, hm⟩, h3⟩
        have : c.req - k = (c.req - (k + 1)) + 1 := by omega
        rw [this]; simpa [nth?] using hr'

/-- **what the callback is asked.** Every call is made for a declared scheme, and carries the scheme name and
exactly the scopes of an entry of the requirement it is made for — a requirement of the applicable list (the
operation's when the operation has one, else the document's); a scheme used by several requirements with different
scopes is asked once per occurrence, each time with that occurrence's scopes. -/
theorem auth_called_only_for_declared_listed (o : Opts) (op : Op) (env : Env) :
    ∀ c ∈ authLog o op env,
      (∃ r, nth? (securityList op) c.req = some r ∧ ⟨c.scheme, c.scopes⟩ ∈ r) ∧ env.declared c.scheme = true := by
  rw [(validateRequest_eq_direct o op env).2]
  unfold authLogD runSecurity
  cases h : securityList op with
  | nil => simp
  | cons r rs =>
    cases ha : env.auth with
    | none => simp
    | some a =>
      intro c hc
      have := runReqs_log_sub env.declared a (r :: rs) 0 c hc
      simpa using this.2

theorem runReq_log_req (d : String → Bool) (a : String → List String → Bool) (k : Nat) (l : List SchemeUse) :
    ∀ c ∈ (runReq d a k l).2, c.req = k := fun c hc => (runReq_log_sub d a k l c hc).1

/-- a requirement is only tried after every earlier one has failed: when a call for requirement `k` is in the log,
no requirement before `k` is satisfied -/
theorem runReqs_later_only_after_failure (d : String → Bool) (a : String → List String → Bool) (rs : List Requirement) :
    ∀ (k : Nat), ∀ c ∈ (runReqs d a k rs).2, ∀ j, j < c.req - k → ∀ r, nth? rs j = some r →
      r.all (fun u => d u.scheme && a u.scheme u.scopes) = false := by
  induction rs with
  | nil => simp [runReqs]
  | cons r rest ih =>
    intro k c hc j hj r' hr'
    unfold runReqs at hc
    cases hb : (runReq d a k (sortUses r)).1 with
    | true =>
      simp only [hb, if_true] at hc
      have := runReq_log_req d a k _ c hc
      omega
    | false =>
      simp only [hb, Bool.false_eq_true, if_false, List.mem_append] at hc
      have hr : r.all (fun u => d u.scheme && a u.scheme u.scopes) = false := by
        rw [runReq_fst] at hb
        rw [← hb]
        apply Bool.eq_iff_iff.mpr
        simp only [List.all_eq_true, mem_sortUses]
      rcases hc with hc | hc
      · have := runReq_log_req d a k _ c hc
        omega
      · cases j with
        | zero => simp [nth?] at hr'; subst hr'; exact hr
        | succ j =>
          have hk := (runReqs_log_sub d a rest (k + 1) c hc).1
          exact ih (k + 1) c hc j (by omega) r' (by simpa [nth?] using hr')

/-- An empty applicable security list, or an operation-level empty list overriding a non-empty document
list, needs no authentication: the callback is never invoked and security passes — with or without a callback. -/
theorem empty_list_needs_no_auth (env : Env) (op : Op) (h : securityList op = []) :
    runSecurity env op = (true, []) := by
  unfold runSecurity; rw [h]

theorem op_security_overrides_doc (op : Op) (rs : List Requirement) (h : op.opSecurity = some rs) :
    securityList op = rs := by
  unfold securityList; rw [h]

theorem doc_security_when_absent (op : Op) (h : op.opSecurity = none) : securityList op = op.docSecurity := by
  unfold securityList; rw [h]

/-- the log does not depend on the options (parameters, body and the multi-error mode never reach the callback) -/
theorem auth_log_option_independent (o o' : Opts) (op : Op) (env : Env) :
    authLog o op env = authLog o' op env := by
  rw [(validateRequest_eq_direct o op env).2, (validateRequest_eq_direct o' op env).2]

/-! ## the closed formulation of `KinModel/Request.lean` (the one property C14 composes with) is an instance -/

def liftReq (r : Request.Requirement) : Requirement := r.map (fun s => ⟨s, []⟩)

def liftOp (op : Request.Op) : Op :=
  { opParams := some op.opParams, pathParams := op.pathParams,
    opSecurity := op.opSecurity.map (·.map liftReq), docSecurity := op.docSecurity.map liftReq,
    hasBody := op.hasBody, bodyOK := op.bodyOK }

def liftEnv (d a : String → Bool) : Env := ⟨d, some (fun s _ => a s)⟩

def toLegacy : Res → Request.Res
  | .ok => .ok | .single p => .err [p] | .multi ps => .err ps | .stuck => .err []

theorem insertUse_lift (s : String) (l : List String) :
    insertUse ⟨s, []⟩ (liftReq l) = liftReq (Request.insertName s l) := by
  induction l with
  | nil => rfl
  | cons x xs ih =>
    simp only [liftReq, List.map_cons, insertUse, Request.insertName] at ih ⊢
    split
    · simp
    · simp [ih]

theorem sortUses_lift (r : Request.Requirement) : sortUses (liftReq r) = liftReq (Request.sortNames r) := by
  induction r with
  | nil => rfl
  | cons x xs ih =>
    have : sortUses (liftReq (x :: xs)) = insertUse ⟨x, []⟩ (sortUses (liftReq xs)) := rfl
    rw [this, ih, insertUse_lift]
    rfl

theorem runReq_lift (d a : String → Bool) (k : Nat) (l : List String) :
    runReq d (fun s _ => a s) k (liftReq l) =
      ((Request.runReq d a l).1, (Request.runReq d a l).2.map (fun s => ⟨k, s, []⟩)) := by
  induction l with
  | nil => rfl
  | cons s rest ih =>
    simp only [liftReq, List.map_cons] at ih ⊢
    unfold runReq Request.runReq
    cases d s <;> cases a s <;> simp [ih]

theorem runReqs_lift (d a : String → Bool) (rs : List Request.Requirement) :
    ∀ k, (runReqs d (fun s _ => a s) k (rs.map liftReq)).1 = (Request.runReqs d a rs).1 ∧
         (runReqs d (fun s _ => a s) k (rs.map liftReq)).2.map (·.scheme) = (Request.runReqs d a rs).2 := by
  induction rs with
  | nil => intro k; exact ⟨rfl, rfl⟩
  | cons r rest ih =>
    intro k
    simp only [List.map_cons]
    unfold runReqs Request.runReqs
    rw [sortUses_lift, runReq_lift]
    cases hb : (Request.runReq d a (Request.sortNames r)).1 with
    | true => simp [List.map_map, Function.comp_def, hb]
    | false =>
      obtain ⟨h1, h2⟩ := ih (k + 1)
      simp [List.map_map, Function.comp_def, h1, h2, hb]

theorem securityList_lift (op : Request.Op) : securityList (liftOp op) = (Request.securityList op).map liftReq := by
  unfold securityList Request.securityList liftOp
  cases op.opSecurity <;> rfl

theorem runSecurity_lift (d a : String → Bool) (op : Request.Op) :
    (runSecurity (liftEnv d a) (liftOp op)).1 = (Request.runSecurity d a op).1 ∧
    (runSecurity (liftEnv d a) (liftOp op)).2.map (·.scheme) = (Request.runSecurity d a op).2 := by
  unfold runSecurity Request.runSecurity
  rw [securityList_lift]
  cases h : Request.securityList op with
  | nil => exact ⟨rfl, rfl⟩
  | cons r rs => exact runReqs_lift d a (r :: rs) 0

/-- **the first model is this model** restricted to requirements without scopes, a configured callback whose verdict
depends on the scheme name only (for a validator without callback see `legacy_model_covers_nil_callback`), and a non-nil operation parameter list: same result (a bare error and a one-element
MultiError are not told apart by the first model), same sequence of schemes offered to the callback. What property
C14 proves about the middleware in terms of `Request.validateRequest` is therefore about the meaning of the programs
read from the source. -/
theorem legacy_model_is_instance (o : Opts) (op : Request.Op) (d a : String → Bool) :
    Request.validateRequest o op d a = toLegacy (validateRequest o (liftOp op) (liftEnv d a)) ∧
    Request.authLog d a op = (authLog o (liftOp op) (liftEnv d a)).map (·.scheme) := by
  obtain ⟨hv, hl⟩ := validateRequest_eq_direct o (liftOp op) (liftEnv d a)
  obtain ⟨hs1, hs2⟩ := runSecurity_lift d a op
  rw [hv, hl]
  constructor
  · have hf : failing o (liftOp op) (liftEnv d a) = Request.failing o op d a := by
      unfold failing Request.failing
      rw [hs1]
      rfl
    unfold validateRequestD Request.validateRequest
    rw [hf]
    cases Request.failing o op d a with
    | nil => rfl
    | cons p ps => cases o.multiError <;> rfl
  · unfold authLogD Request.authLog
    exact hs2.symm

/-- since the repair of F-C07-1, a missing callback decides like a callback that rejects everything: same result, same
failing parts (only the call log differs: no call at all) -/
theorem nil_callback_is_rejecting_callback (o : Opts) (op : Op) (d : String → Bool) :
    validateRequest o op ⟨d, none⟩ = validateRequest o op ⟨d, some (fun _ _ => false)⟩ := by
  rw [(validateRequest_eq_direct o op ⟨d, none⟩).1, (validateRequest_eq_direct o op ⟨d, some (fun _ _ => false)⟩).1]
  unfold validateRequestD failing
  have h : (runSecurity ⟨d, none⟩ op).1 = (runSecurity ⟨d, some (fun _ _ => false)⟩ op).1 := by
    rw [runSecurity_eq_secSpecB, runSecurity_eq_secSpecB]
    unfold secSpecB
    have ha : accepted ⟨d, none⟩ = accepted ⟨d, some (fun _ _ => false)⟩ := by
      funext u; simp [accepted]
    rw [ha]
  rw [h]

/-- … hence the first model also describes a validator WITHOUT authentication callback (`Options.AuthenticationFunc ==
nil`, or nil `Options`): take the callback that accepts nothing. (Before the repair this was false: `security: [{}]`
was rejected without a callback and accepted with any.) Property C14 may model a nil `AuthenticationFunc` this way. -/
theorem legacy_model_covers_nil_callback (o : Opts) (op : Request.Op) (d : String → Bool) :
    Request.validateRequest o op d (fun _ => false) = toLegacy (validateRequest o (liftOp op) ⟨d, none⟩) := by
  rw [nil_callback_is_rejecting_callback]
  exact (legacy_model_is_instance o op d (fun _ => false)).1

/-! ## one level below the bits -/

theorem paramFacts_ok_iff (f : ParamFacts) : f.ok = true ↔ f.Validates := by
  unfold ParamFacts.ok ParamFacts.Validates
  cases f.sent <;> cases f.valid <;> cases f.required <;> simp

theorem bodyFacts_ok_iff (f : BodyFacts) : f.ok = true ↔ f.Validates := by
  unfold BodyFacts.ok BodyFacts.Validates
  cases f.sent <;> cases f.valid <;> cases f.required <;> cases f.declaredType <;> simp

/-! ### Non-vacuity and worked examples: both directions of `accept_iff` are exercised -/

def exOp : Op :=
  { opParams := some [⟨"q", .query, true⟩, ⟨"h", .header, true⟩],
    pathParams := [⟨"q", .query, false⟩, ⟨"id", .path, true⟩],
    opSecurity := none, docSecurity := [[⟨"k", []⟩, ⟨"j", []⟩], []], hasBody := true, bodyOK := true }

def exEnv : Env := { declared := fun _ => true, auth := some (fun s _ => s == "k") }

example : (validateRequest {} exOp exEnv).isOk = true := by decide
example : Accept {} exOp exEnv := (accept_iff _ _ _).mp (by decide)
example : (validateRequest {} { exOp with docSecurity := [[⟨"k", []⟩, ⟨"j", []⟩]] } exEnv).isOk = false := by decide
example : authLog {} { exOp with docSecurity := [[⟨"k", []⟩, ⟨"j", []⟩]] } exEnv = [⟨0, "j", []⟩] := by decide

/-- the same scheme under two requirements with different scopes: the callback is asked per occurrence, with that
occurrence's scopes; a verdict that depends on the scopes decides (seeded change C07-r3m1 memoised by name) -/
theorem same_scheme_different_scopes :
    let op : Op := { exOp with docSecurity := [[⟨"oauth", ["admin"]⟩], [⟨"oauth", ["read"]⟩]] }
    let env : Env := { declared := fun _ => true, auth := some (fun _ sc => sc == ["read"]) }
    validateRequest {} op env = .ok ∧
    authLog {} op env = [⟨0, "oauth", ["admin"]⟩, ⟨1, "oauth", ["read"]⟩] := by decide

/-- same name in another location is no override; same name and location is; parameters listed after an overridden
one are still checked (seeded changes C07-m1, C07-r2m4, C07-r3m2) -/
theorem override_examples :
    let op : Op := { opParams := some [⟨"id", .header, true⟩, ⟨"id", .query, true⟩],
                     pathParams := [⟨"id", .query, false⟩, ⟨"id", .cookie, false⟩, ⟨"z", .header, false⟩],
                     opSecurity := none, docSecurity := [], hasBody := false, bodyOK := true }
    validateRequest { multiError := true } op exEnv =
      .multi [.param ⟨"id", .cookie, false⟩, .param ⟨"z", .header, false⟩] := by decide

/-! ### The interpreter is semantic: neighbouring programs mean something else

Each of these programs differs from the source's in one row (they are the shapes the translator can also read); on the
given operation the interpreter returns what that code would return — not what the property demands. The theorems
above are therefore statements about the programs read from the source, not about the interpreter alone. -/

def exOp2 : Op :=
  { opParams := some [⟨"id", .header, true⟩, ⟨"id", .query, true⟩],
    pathParams := [⟨"id", .query, false⟩, ⟨"id", .cookie, false⟩, ⟨"z", .header, false⟩],
    opSecurity := none, docSecurity := [[⟨"k", []⟩]], hasBody := true, bodyOK := false }

def runWith (request : List ReqStep) (lookup : List LookStep) (o : Opts) (op : Op) (env : Env) : Res :=
  (runRequest { thePrograms with request := request, lookup := lookup } o op env request [] []).1

def reqProgWith (guard : Guard) (secAct : ErrAct) (body : List ReqStep) : List ReqStep :=
  [.optionsDefault, .security .operation .document secAct,
   .paramLoop .pathItem [.exQuery .cont, guard] .retUnlessMulti,
   .paramLoop .operation [.exQuery .cont] .retUnlessMulti] ++ body ++ [.retMeIfAny, .retNil]

theorem neighbouring_programs_differ :
    let srcGuard := Guard.overridden .operation true .loc .name .cont
    let srcBody := [ReqStep.body [.declared, .notExcluded] .retUnlessMulti]
    let multi : Opts := { multiError := true }
    let deny : Env := { declared := fun _ => true, auth := some (fun _ _ => false) }
    -- the source's program: the overridden `id` in query is skipped, the two others and the body are reported
    runWith (reqProgWith srcGuard .retUnlessMulti srcBody) thePrograms.lookup multi exOp2 exEnv =
      .multi [.param ⟨"id", .cookie, false⟩, .param ⟨"z", .header, false⟩, .body] ∧
    -- `break` instead of `continue` after an override: everything after the overridden parameter is lost
    runWith (reqProgWith (.overridden .operation true .loc .name .brk) .retUnlessMulti srcBody) thePrograms.lookup multi exOp2 exEnv =
      .multi [.body] ∧
    -- the two arguments of GetByInAndName swapped: nothing is ever overridden
    runWith (reqProgWith (.overridden .operation true .name .loc .cont) .retUnlessMulti srcBody) thePrograms.lookup multi exOp2 exEnv =
      .multi [.param ⟨"id", .query, false⟩, .param ⟨"id", .cookie, false⟩, .param ⟨"z", .header, false⟩, .body] ∧
    -- a lookup that compares the name only: a parameter of the same name in another location counts as overridden
    runWith (reqProgWith srcGuard .retUnlessMulti srcBody) [.findFirst [(.name, 1)], .retNil] multi exOp2 exEnv =
      .multi [.param ⟨"z", .header, false⟩, .body] ∧
    -- an unconditional `return err` after the security step: in multi-error mode the other failing parts are lost
    runWith (reqProgWith srcGuard .ret srcBody) thePrograms.lookup multi exOp2 deny = .single .security ∧
    -- the ExcludeRequestBody test moved in front of the body step as an early `return nil` is not a shape the
    -- translator reads; dropping the `.notExcluded` condition instead checks an excluded body
    runWith (reqProgWith srcGuard .retUnlessMulti [.body [.declared] .retUnlessMulti]) thePrograms.lookup
        { multiError := true, excludeBody := true } { exOp2 with pathParams := [] } exEnv = .multi [.body] ∧
    runWith (reqProgWith srcGuard .retUnlessMulti srcBody) thePrograms.lookup
        { multiError := true, excludeBody := true } { exOp2 with pathParams := [] } exEnv = .ok ∧
    -- a program that ends without `return`: not a Go function
    runWith [.optionsDefault, .retMeIfAny] thePrograms.lookup {} exOp2 exEnv = .stuck := by decide

/-- `break` instead of `continue` in the OR-loop over the requirements, or `continue` instead of `return err` after a
rejected scheme: other verdicts and other calls -/
theorem neighbouring_security_programs_differ :
    let rs : List Requirement := [[⟨"a", []⟩, ⟨"b", []⟩], [⟨"b", []⟩]]
    let env : Env := { declared := fun _ => true, auth := some (fun s _ => s == "b") }
    let oneWith (e : Option Exit) : List OneStep :=
      [.sortedNames, .optionsDefault, .needAuthFunc, .schemesFromComponents, .bodyIO,
       .forNames [.lookupScheme, .undeclaredFails, .scopesOf, .bodyIO, .callAuth e], .retNil]
    (match runSecAll thePrograms.secOne env thePrograms.secAll rs [] with
      | .ret b log => (b, log.map (·.scheme)) | .stuck => (false, ["stuck"])) = (true, ["a", "b"]) ∧
    (match runSecAll thePrograms.secOne env [.emptyOk, .tryEach .brk, .failAll] rs [] with
      | .ret b log => (b, log.map (·.scheme)) | .stuck => (false, ["stuck"])) = (false, ["a"]) ∧
    (match runSecAll (oneWith (some .cont)) env thePrograms.secAll rs [] with
      | .ret b log => (b, log.map (·.scheme)) | .stuck => (false, ["stuck"])) = (true, ["a", "b"]) ∧
    (match runSecAll (oneWith (some .cont)) env thePrograms.secAll [[⟨"a", []⟩]] [] with
      | .ret b log => (b, log.map (·.scheme)) | .stuck => (false, ["stuck"])) = (true, ["a"]) ∧
    (match runSecAll thePrograms.secOne env thePrograms.secAll [[⟨"a", []⟩]] [] with
      | .ret b log => (b, log.map (·.scheme)) | .stuck => (false, ["stuck"])) = (false, ["a"]) := by decide

end KinModel.RequestFlow
