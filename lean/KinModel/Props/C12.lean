/-
C12 — validation modes change the report, never the verdict; errors point at data.
Model: KinModel/Schema/Events.lean (mode-free event tree `events`, folds `firstErrL` / `collectL`).
-/
import KinModel.Schema.Events
import KinModel.Schema.Defaults
import KinModel.Props.C01
import KinModel.Gen.ValidationOptions
import KinModel.Gen.VisitSites
namespace KinModel.Schema

/-! ### T0 — the option space is the modelled one (regenerated tables) -/

/-- the SchemaValidationOption constructors of openapi3 and the settings fields each writes: FailFast / MultiErrors are
`Mode`; VisitAsRequest / VisitAsResponse, the two switch-offs, DisablePatternValidation and DefaultsSet are fields of
`Env`; SetSchemaRegexCompiler is `Env.regex` (and the history of Props/C01); SetSchemaErrorMessageCustomizer only feeds
`SchemaError.Error()`; EnableFormatValidation writes a field nobody reads (`format_switch_is_dead`). An option added
to the source, or one that writes another field, breaks this obligation. -/
theorem validation_options_are_the_modelled_ones :
    Gen.validationOptions =
      [⟨"FailFast", ["failfast=true"]⟩, ⟨"MultiErrors", ["multiError=true"]⟩,
       ⟨"VisitAsRequest", ["asreq=true", "asrep=false"]⟩, ⟨"VisitAsResponse", ["asreq=false", "asrep=true"]⟩,
       ⟨"EnableFormatValidation", ["formatValidationEnabled=true"]⟩,
       ⟨"DisablePatternValidation", ["patternValidationDisabled=true"]⟩,
       ⟨"DisableReadOnlyValidation", ["readOnlyValidationDisabled=true"]⟩,
       ⟨"DisableWriteOnlyValidation", ["writeOnlyValidationDisabled=true"]⟩,
       ⟨"DefaultsSet", ["defaultsSet=f"]⟩, ⟨"SetSchemaErrorMessageCustomizer", ["customizeMessageError=f"]⟩,
       ⟨"SetSchemaRegexCompiler", ["regexCompiler=c"]⟩] := by decide

/-- which visitor reads which setting: the mode flags are read by the visitors the event model covers and by nothing
else; the request/response reading and the defaults only by the object visitor and the composition visitor (the deep
copy per candidate); the customizer by every site that builds a SchemaError -/
theorem settings_readers_are_the_modelled_ones :
    Gen.settingsReads =
      [("failfast", ["expectedType", "visitEnumOperation", "visitJSONArray", "visitJSONNull", "visitJSONNumber", "visitJSONObject",
                     "visitJSONString", "visitNotOperation", "visitXOFOperations"]),
       ("multiError", ["visitJSONArray", "visitJSONNumber", "visitJSONObject", "visitJSONString"]),
       -- visitNotOperation: the deep copy of the value the `not` child validates (repair of F-C12-1)
       ("asreq", ["visitJSONObject", "visitNotOperation", "visitXOFOperations"]),
       ("asrep", ["visitJSONObject", "visitNotOperation", "visitXOFOperations"]),
       ("formatValidationEnabled", []),
       ("patternValidationDisabled", ["visitJSONString"]),
       ("readOnlyValidationDisabled", ["visitJSONObject"]), ("writeOnlyValidationDisabled", ["visitJSONObject"]),
       ("regexCompiler", ["visitJSONString"]), ("onceSettingDefaults", ["visitJSONObject"]), ("defaultsSet", ["visitJSONObject"]),
       -- 6a3f133: > 0 while a oneOf/anyOf candidate or a `not` child runs on its private copy; only gates the DefaultsSet CALLBACK (`callbackFires`)
       ("trial", ["visitJSONObject", "visitNotOperation", "visitXOFOperations"]),
       ("customizeMessageError", ["expectedType", "visitEnumOperation", "visitJSON", "visitJSONArray", "visitJSONNull", "visitJSONNumber",
                                  "visitJSONObject", "visitJSONString", "visitNotOperation", "visitXOFOperations"])] := by decide

/-- the settings record has exactly the fields the model accounts for (a new field must be placed before this holds again) -/
theorem settings_fields_are_the_modelled_ones :
    Gen.validationSettingsFields =
      ["failfast", "multiError", "asreq", "asrep", "formatValidationEnabled", "patternValidationDisabled",
       "readOnlyValidationDisabled", "writeOnlyValidationDisabled", "regexCompiler", "onceSettingDefaults", "defaultsSet",
       "trial", "customizeMessageError"] := by decide

/-- `EnableFormatValidation()` cannot influence a verdict: the field it sets is read nowhere in package openapi3 -/
theorem format_switch_is_dead : Gen.settingsReads.lookup "formatValidationEnabled" = some [] := by decide

/-- openapi3filter hands `MultiErrors()` to every schema visit exactly when `Options.MultiError` is set -/
theorem every_visit_gets_multi :
    Gen.visitSites.all (fun r => r.opts.contains "MultiErrors=if options.MultiError") = true := by decide

/-! ### T1 — for EVERY trace the three folds agree on the verdict -/

theorem folds_agree :
    (∀ ev : Ev, (ev.firstErr.isNone = ev.passes) ∧ (ev.collect.1.isEmpty = ev.passes) ∧ (ev.collect.2 = true → ev.collect.1 ≠ [])) ∧
    (∀ ts : List (List Ev), firstCount ts = passCount ts ∧ collectCount ts = passCount ts) ∧
    (∀ t : List Ev, ((firstErrL t).isNone = passesL t) ∧ ((collectL t).isEmpty = passesL t)) := by
  refine Ev.passes.mutual_induct
    (motive_1 := fun ev => (ev.firstErr.isNone = ev.passes) ∧ (ev.collect.1.isEmpty = ev.passes) ∧ (ev.collect.2 = true → ev.collect.1 ≠ []))
    (motive_2 := fun ts => firstCount ts = passCount ts ∧ collectCount ts = passCount ts)
    (motive_3 := fun t => ((firstErrL t).isNone = passesL t) ∧ ((collectL t).isEmpty = passesL t))
    ?f ?ch ?co ?nil ?cons ?nil2 ?cons2
  case f => intro e fatal; simp [Ev.firstErr, Ev.collect, Ev.passes]
  case ch =>
    intro tok sub ih
    refine ⟨?_, ?_, ?_⟩
    · simp only [Ev.firstErr, Ev.passes, ← ih.1]; cases firstErrL sub <;> simp
    · simp only [Ev.collect, Ev.passes, ← ih.2]; cases collectL sub <;> simp
    · simp [Ev.collect]
  case co =>
    intro k e subs ih
    simp only [Ev.firstErr, Ev.collect, Ev.passes, ih.1, ih.2]
    cases compOK k (passCount subs) subs.length <;> simp
  case nil => simp [firstErrL, collectL, passesL]
  case cons =>
    intro e es ih1 ih2
    obtain ⟨h1, h2, h3⟩ := ih1
    refine ⟨?_, ?_⟩
    · simp only [firstErrL, passesL, ← h1, ← ih2.1]
      cases e.firstErr <;> simp
    · simp only [collectL, passesL, ← h2, ← ih2.2]
      cases hs : e.collect.2 with
      | true =>
        have := h3 hs
        cases hc : e.collect.1 with
        | nil => exact absurd hc this
        | cons x xs => simp
      | false => cases e.collect.1 <;> simp
  case nil2 => simp [firstCount, collectCount, passCount]
  case cons2 =>
    intro t ts ih1 ih2
    simp only [firstCount, collectCount, passCount, ih1.1, ih1.2, ih2.1, ih2.2, and_self]

/-- the general fold reports an error iff the trace fails, WHATEVER the stop policy: no choice of which failing
checks return at once (no placement of `if settings.failfast`, no `fatal` flag) can change a verdict -/
theorem run_agrees (π : Policy) :
    (∀ ev : Ev, ((ev.run π).1.isEmpty = ev.passes) ∧ ((ev.run π).2 = true → (ev.run π).1 ≠ [])) ∧
    (∀ ts : List (List Ev), runCount π ts = passCount ts) ∧
    (∀ t : List Ev, (runL π t).1.isEmpty = passesL t) := by
  refine Ev.passes.mutual_induct
    (motive_1 := fun ev => ((ev.run π).1.isEmpty = ev.passes) ∧ ((ev.run π).2 = true → (ev.run π).1 ≠ []))
    (motive_2 := fun ts => runCount π ts = passCount ts)
    (motive_3 := fun t => (runL π t).1.isEmpty = passesL t)
    ?f ?ch ?co ?nil ?cons ?nil2 ?cons2
  case f => intro e fatal; simp [Ev.run, Ev.passes]
  case ch =>
    intro tok sub ih
    refine ⟨?_, ?_⟩
    · simp only [Ev.run, Ev.passes, ← ih]; cases (runL π sub).1 <;> simp
    · simp only [Ev.run]; cases (runL π sub).1 <;> simp
  case co =>
    intro k e subs ih
    simp only [Ev.run, Ev.passes, ih]
    cases compOK k (passCount subs) subs.length <;> simp
  case nil => simp [runL, passesL]
  case cons =>
    intro e es ih1 ih2
    obtain ⟨h1, h3⟩ := ih1
    simp only [runL, passesL, ← h1, ← ih2]
    cases hs : (e.run π).2 with
    | true =>
      have hne := h3 hs
      simp only [if_true]
      cases hc : (e.run π).1 with
      | nil => exact absurd hc hne
      | cons x xs => simp
    | false => simp only [Bool.false_eq_true, if_false]; cases (e.run π).1 <;> simp
  case nil2 => simp [runCount, passCount]
  case cons2 =>
    intro t ts ih1 ih2
    simp only [runCount, passCount, ih1, ih2]

/-- **Modes change the report, never the verdict** — on every trace whatsoever. -/
theorem mode_independent (t : List Ev) (m : Mode) : (report m t).isOk = passesL t := by
  obtain ⟨h1, h2⟩ := folds_agree.2.2 t
  cases m with
  | dflt => simp only [report]; rw [← h1]; cases firstErrL t <;> simp [Res.isOk]
  | failfast => simp only [report]; rw [← h1]; cases firstErrL t <;> simp [Res.isOk]
  | multi => simp only [report]; rw [← h2]; cases collectL t <;> simp [Res.isOk]
  | ffmulti => simp only [report]; rw [← (run_agrees _).2.2 t]; cases (runL Mode.ffmulti.policy t).1 <;> simp [Res.isOk]

/-! ### the trace generator follows the verdict-level model -/

theorem passesL_append (a b : List Ev) : passesL (a ++ b) = (passesL a && passesL b) := by
  induction a with
  | nil => simp [passesL]
  | cons e es ih => simp [passesL, ih, Bool.and_assoc]

theorem passesL_chk (bad : Bool) (e : Err) (f : Bool) : passesL (chk bad e f) = !bad := by
  cases bad <;> simp [chk, passesL, Ev.passes]

theorem enumEvsQ_passes (kw : Kw) (v q : J) : passesL (enumEvsQ kw v q) = enumOK kw v := by
  simp [enumEvsQ, passesL_chk]
theorem enumEvs_passes (kw : Kw) (v : J) : passesL (enumEvs kw v) = enumOK kw v := enumEvsQ_passes kw v v

theorem checkEvs_passes (cs : List Check) : passesL (checkEvs cs) = cs.all (fun c => !c.1) := by
  induction cs with
  | nil => simp [checkEvs, passesL]
  | cons c cs ih =>
    have : checkEvs (c :: cs) = chk c.1 c.2.1 c.2.2 ++ checkEvs cs := by simp [checkEvs]
    rw [this, passesL_append, passesL_chk, ih]; simp

theorem minOK_eq (kw : Kw) (q : Rat) : minOK kw q = (!exclMinBad kw q && !minBad kw q) := by
  unfold minOK exclMinBad minBad
  cases kw.minimum <;> cases kw.exclMin <;> simp
theorem maxOK_eq (kw : Kw) (q : Rat) : maxOK kw q = (!exclMaxBad kw q && !maxBad kw q) := by
  unfold maxOK exclMaxBad maxBad
  cases kw.maximum <;> cases kw.exclMax <;> simp
theorem multipleOK_eq (kw : Kw) (q : Rat) : multipleOK kw q = !multBad kw q := by
  unfold multipleOK multBad
  cases kw.multipleOf <;> simp

theorem numEvs_passes (kw : Kw) (q : Rat) : passesL (numEvs kw q) = numOK kw q := by
  simp only [numEvs, checkEvs_passes, numChecks, List.all_cons, List.all_nil, Bool.not_not, Bool.and_true]
  unfold numOK numBoundsOK
  rw [minOK_eq, maxOK_eq, multipleOK_eq]
  cases numTypeOK kw q <;> cases numFormatOK kw q <;> cases exclMinBad kw q <;> cases exclMaxBad kw q <;>
    cases minBad kw q <;> cases maxBad kw q <;> cases multBad kw q <;> rfl

theorem nat_min_bridge (a n : Nat) : (!(a != 0 && decide (n < a))) = (a == 0 || decide (a ≤ n)) := by
  by_cases h0 : a = 0
  · subst h0; simp
  · have e1 : (a != 0) = true := by simp [h0]
    have e2 : (a == 0) = false := by simp [h0]
    rw [e1, e2]
    by_cases h1 : n < a
    · have : ¬ a ≤ n := by omega
      simp [h1, this]
    · have : a ≤ n := by omega
      simp [h1, this]

theorem not_decide_lt (m n : Nat) : (!decide (m < n)) = decide (n ≤ m) := by
  by_cases h : m < n
  · have : ¬ n ≤ m := by omega
    simp [h, this]
  · have : n ≤ m := by omega
    simp [h, this]

theorem strEvs_passes (env : Env) (kw : Kw) (s : String) : passesL (strEvs env kw s) = strOK env kw s := by
  simp only [strEvs, checkEvs_passes, strChecks, List.all_cons, List.all_nil, Bool.not_not, Bool.and_true]
  have hp : (!patCompileBad env kw s && !patBad env kw s) = (env.patOff || kw.pattern == "" || env.regex kw.pattern s == some true) := by
    unfold patCompileBad patBad
    cases env.patOff
    case true => simp
    simp only [Bool.not_false, Bool.true_and, Bool.false_or]
    by_cases h : kw.pattern = ""
    · simp [h]
    · have e1 : (kw.pattern != "") = true := by simp [h]
      have e2 : (kw.pattern == "") = false := by simp [h]
      rw [e1, e2]
      cases env.regex kw.pattern s with
      | none => simp
      | some b => cases b <;> simp
  have hf : (!strFormatBad env kw s) = (kw.format == "" || env.strFormat kw.format s != some false) := by
    unfold strFormatBad
    by_cases h : kw.format = ""
    · simp [h]
    · have e1 : (kw.format != "") = true := by simp [h]
      have e2 : (kw.format == "") = false := by simp [h]
      rw [e1, e2]
      cases env.strFormat kw.format s with
      | none => simp
      | some b => cases b <;> simp
  unfold strOK minLenBad maxLenBad
  rw [← hp, ← hf, nat_min_bridge]
  cases hm : kw.maxLength <;> simp only [not_decide_lt, Bool.not_false, Bool.and_assoc, Bool.true_and]

theorem reqChecks_all (env : Env) (p : List (String × S)) (v : J) (kvs : List (String × J)) (ks : List String) :
    (reqChecks env p v kvs ks).all (fun c => !c.1) = ks.all (reqOK env p kvs) := by
  induction ks with
  | nil => simp [reqChecks]
  | cons k ks ih =>
    simp only [reqChecks, List.map_cons, List.all_cons] at ih ⊢
    rw [ih]; simp

theorem arrEvsQ_passes (kw : Kw) (xs : List J) (q : J) (ch : List Ev) : passesL (arrEvsQ kw xs q ch) = (arrOK kw xs && passesL ch) := by
  simp only [arrEvsQ, passesL_append, checkEvs_passes, arrChecksQ, List.all_cons, List.all_nil, Bool.not_not, Bool.and_true]
  have hu : (!(kw.uniqueItems && !uniqueB xs)) = (!kw.uniqueItems || uniqueB xs) := by
    cases kw.uniqueItems <;> simp
  unfold arrOK minItemsBad maxItemsBad
  rw [hu, nat_min_bridge]
  cases hm : kw.maxItems <;> simp only [not_decide_lt, Bool.not_false, Bool.and_assoc, Bool.true_and]

theorem arrEvs_passes (kw : Kw) (xs : List J) (ch : List Ev) : passesL (arrEvs kw xs ch) = (arrOK kw xs && passesL ch) :=
  arrEvsQ_passes kw xs _ ch

theorem objEvsQ_passes (env : Env) (kw : Kw) (p : List (String × S)) (kvs : List (String × J)) (q : J) (ch : List Ev) :
    passesL (objEvsQ env kw p kvs q ch) = (objOK env kw p kvs && passesL ch) := by
  simp only [objEvsQ, passesL_append, checkEvs_passes, objChecksQ, List.all_cons, List.all_nil, Bool.not_not, Bool.and_true,
    reqChecks_all, passesL_chk]
  unfold objOK minPropsBad maxPropsBad
  rw [nat_min_bridge]
  cases hm : kw.maxProps <;> simp only [not_decide_lt, Bool.not_false, Bool.and_assoc, Bool.true_and, Bool.and_true] <;>
    cases kw.permits "object" <;> cases (kw.minProps == 0 || decide (kw.minProps ≤ kvs.length)) <;>
    cases passesL ch <;> cases (kw.required.all (reqOK env p kvs)) <;> cases roBad env p kvs <;> simp

theorem objEvs_passes (env : Env) (kw : Kw) (p : List (String × S)) (kvs : List (String × J)) (ch : List Ev) :
    passesL (objEvs env kw p kvs ch) = (objOK env kw p kvs && passesL ch) := objEvsQ_passes env kw p kvs _ ch

theorem ownEvsQ_passes (env : Env) (kw : Kw) (p : List (String × S)) (v q : J) (ch : List Ev) :
    passesL (ownEvsQ env kw p v q ch) = ownOK env kw p v (passesL ch) := by
  cases v with
  | null => simp [ownEvsQ, ownOK, passesL, Ev.passes]
  | bool b => simp [ownEvsQ, ownOK, passesL_chk]
  | num x => simp [ownEvsQ, ownOK, numEvs_passes]
  | str x => simp [ownEvsQ, ownOK, strEvs_passes]
  | arr xs => simp [ownEvsQ, ownOK, arrEvsQ_passes]
  | obj kvs => simp [ownEvsQ, ownOK, objEvsQ_passes]

theorem ownEvs_passes (env : Env) (kw : Kw) (p : List (String × S)) (v : J) (ch : List Ev) :
    passesL (ownEvs env kw p v ch) = ownOK env kw p v (passesL ch) := ownEvsQ_passes env kw p v v ch

theorem selOK_empty (s : S) : selOK "" s = true := by simp [selOK]

theorem countOK_le (env : Env) (ss : List S) (v : J) : countOK env "" ss v ≤ ss.length := by
  induction ss with
  | nil => simp [countOK]
  | cons s ss ih => rw [countOK, selOK_empty]; cases visit env s v <;> simp <;> omega

theorem visitAll_eq_count (env : Env) (ss : List S) (v : J) :
    visitAll env ss v = (countOK env "" ss v == ss.length) := by
  induction ss with
  | nil => simp [visitAll, countOK]
  | cons s ss ih =>
    rw [visitAll, countOK, ih, selOK_empty]
    have := countOK_le env ss v
    cases visit env s v
    · simp; omega
    · simp only [Bool.true_and, if_true, List.length_cons]
      by_cases h : countOK env "" ss v = ss.length
      · simp [h]; omega
      · have h2 : ¬ (1 + countOK env "" ss v = ss.length + 1) := by omega
        rw [beq_eq_false_iff_ne.mpr h, beq_eq_false_iff_ne.mpr h2]

theorem visitAny_eq_count (env : Env) (ss : List S) (v : J) :
    visitAny env ss v = decide (1 ≤ countOK env "" ss v) := by
  induction ss with
  | nil => simp [visitAny, countOK]
  | cons s ss ih =>
    rw [visitAny, countOK, ih, selOK_empty]
    cases visit env s v <;> simp

theorem discEvs_passes (kw : Kw) (v : J) : passesL (discEvs kw v) = (discCheck kw v).pass := by
  unfold discEvs
  cases discCheck kw v <;> simp [passesL, Ev.passes, DiscRes.pass]

theorem evCombine_passes (env : Env) (kw : Kw) (a b c : List S) (p : List (String × S)) (sc : Bool) (v : J)
    (notEvs : List Ev) (oneSubs anySubs allSubs : List (List Ev)) (childEvs : List Ev)
    (rNot rAny rAll rChild : Bool)
    (hNot : passesL notEvs = rNot)
    (hAny : b ≠ [] → rAny = decide (1 ≤ passCount anySubs))
    (hAll : (a = [] → rAll = true) ∧ (a ≠ [] → rAll = (passCount allSubs == allSubs.length)))
    (hChild : passesL childEvs = rChild) :
    passesL (evCombine env kw a b c p sc v notEvs oneSubs anySubs allSubs childEvs) =
      combine env kw a b c p sc v rNot (passCount oneSubs) rAny rAll rChild := by
  subst hNot hChild
  unfold evCombine combine
  by_cases h1 : (v.isNull && kw.permitsNull) = true
  · simp [h1, passesL]
  · simp only [h1, Bool.false_eq_true, if_false]
    by_cases hs : sc = true
    · simp only [hs, if_true]
      cases v.isNull <;> simp [passesL, Ev.passes]
    · simp only [hs, Bool.false_eq_true, if_false, passesL_append]
      have e2 : passesL (if c.isEmpty = true then [] else
          discEvs kw v ++ [Ev.comp CompKind.oneOf (here "oneOf" v (oneOfReason oneSubs)) oneSubs]) =
          (c.isEmpty || ((discCheck kw v).pass && passCount oneSubs == 1)) := by
        cases c.isEmpty <;> simp [passesL, passesL_append, Ev.passes, compOK, discEvs_passes]
      have e3 : passesL (if b.isEmpty = true then [] else
          [Ev.comp CompKind.anyOf (here "anyOf" v [Frag.lit "doesn't match any schema from \"anyOf\""]) anySubs]) =
          (b.isEmpty || rAny) := by
        cases hb : b.isEmpty with
        | true => simp [passesL]
        | false =>
          have : b ≠ [] := by intro h; simp [h] at hb
          simp [passesL, Ev.passes, compOK, hAny this]
      have e4 : passesL (if a.isEmpty = true then [] else
          [Ev.comp CompKind.allOf (here "allOf" v [Frag.lit "doesn't match all schemas from \"allOf\""]) allSubs]) = rAll := by
        cases ha : a.isEmpty with
        | true =>
          have : a = [] := by simpa using ha
          simp [passesL, hAll.1 this]
        | false =>
          have : a ≠ [] := by intro h; simp [h] at ha
          simp [passesL, Ev.passes, compOK, hAll.2 this]
      rw [e2, e3, e4]
      congr 1
      cases (v.isNull && (!c.isEmpty || !b.isEmpty || !a.isEmpty)) <;>
        simp [passesL, passesL_append, enumEvs_passes, ownEvs_passes]

theorem notEvs_passes (env : Env) (n : Option S) (v : J) :
    (match n with | none => True | some s => passesL (events env s v) = visit env s v) →
    passesL (match n with | none => [] | some s => [Ev.comp CompKind.not (here "not" v [.lit "Doesn't match schema \"not\""]) [events env s v]]) =
      (match n with | none => true | some s => !visit env s v) := by
  intro ihn
  cases n with
  | none => simp [passesL]
  | some t =>
    simp only at ihn
    cases hv : visit env t v <;> simp [passesL, Ev.passes, compOK, passCount, ihn, hv]

theorem childEvs_passes (env : Env) (kw : Kw) (i : Option S) (p : List (String × S)) (ad : Option S) (v : J) :
    (match v with
      | .arr xs => (match i with | none => True | some s => passesL (itemsEvs env s xs 0) = visitItems env s xs)
      | .obj kvs => passesL (propsEvs env p ad kw.addHas v kvs) = visitProps env p ad kw.addHas kvs
      | _ => True) →
    passesL (match v with
          | .arr xs => (match i with | none => [] | some s => itemsEvs env s xs 0)
          | .obj kvs => propsEvs env p ad kw.addHas v kvs
          | _ => []) =
        (match v with
          | .arr xs => (match i with | none => true | some s => visitItems env s xs)
          | .obj kvs => visitProps env p ad kw.addHas kvs
          | _ => true) := by
  intro ihch
  cases v with
  | arr xs => cases i with
    | none => simp [passesL]
    | some t => simpa using ihch
  | obj kvs => simpa using ihch
  | null => simp [passesL]
  | bool x => simp [passesL]
  | num q => simp [passesL]
  | str x => simp [passesL]

theorem propEv_passes (whole : J) (has : Option Bool) (k : String) (rProp rAdd : Option (List Ev)) :
    passesL (propEv whole has k rProp rAdd) = propRes has (rProp.map passesL) (rAdd.map passesL) := by
  unfold propEv propRes
  cases rProp with
  | some t => simp [passesL, Ev.passes]
  | none =>
    cases hh : (has != some false) with
    | true => cases rAdd <;> simp [passesL, Ev.passes]
    | false => simp [passesL, Ev.passes]

theorem eventsEach_length (env : Env) (ss : List S) (v : J) : (eventsEach env ss v).length = ss.length := by
  induction ss with
  | nil => simp [eventsEach]
  | cons s ss ih => rw [eventsEach]; simp [ih]

/-- the verdict of the event tree is the verdict-level model `visit` -/
theorem events_passes_all (env : Env) :
    (∀ s v, passesL (events env s v) = visit env s v) ∧
    (∀ p ad has whole kvs, passesL (propsEvs env p ad has whole kvs) = visitProps env p ad has kvs) ∧
    (∀ s xs i, passesL (itemsEvs env s xs i) = visitItems env s xs) ∧
    (∀ ss v, passCount (eventsEach env ss v) = countOK env "" ss v) ∧
    (∀ dr ss v, passCount (eventsSel env dr ss v) = countOK env dr ss v) := by
  refine events.mutual_induct
    (motive1 := fun s v => passesL (events env s v) = visit env s v)
    (motive2 := fun p ad has whole kvs => passesL (propsEvs env p ad has whole kvs) = visitProps env p ad has kvs)
    (motive3 := fun s xs i => passesL (itemsEvs env s xs i) = visitItems env s xs)
    (motive4 := fun ss v => passCount (eventsEach env ss v) = countOK env "" ss v)
    (motive5 := fun dr ss v => passCount (eventsSel env dr ss v) = countOK env dr ss v)
    ?node ?pnil ?pcons ?inil ?icons ?enil ?econs ?snil ?scons
  case node =>
    intro kw a b c n i p ad v ihn ihc ihb iha ihch
    rw [events.eq_def, visit.eq_def]
    simp only
    rw [← ihc]
    apply evCombine_passes
    · exact notEvs_passes env n v ihn
    · intro _; rw [ihb, visitAny_eq_count]
    · constructor
      · intro ha; subst ha; simp [visitAll]
      · intro _; rw [iha, eventsEach_length, visitAll_eq_count]
    · exact childEvs_passes env kw i p ad v ihch
  case pnil => intro p ad has whole; simp [propsEvs, visitProps, passesL]
  case pcons =>
    intro p ad has whole k x r ih1 ih2 ih3
    rw [propsEvs.eq_def, visitProps.eq_def]
    simp only [passesL_append, propEv_passes, ih3]
    congr 1
    cases hl : lookup k p with
    | some s =>
      cases ad with
      | none => simp [ih1 s]
      | some t => simp only at ih2; simp [ih1 s, ih2]
    | none =>
      cases ad with
      | none => simp
      | some t => simp only at ih2; simp [ih2]
  case inil => intro s i; simp [itemsEvs, visitItems, passesL]
  case icons =>
    intro s x xs i ih1 ih2
    rw [itemsEvs, visitItems]
    simp [passesL, Ev.passes, ih1, ih2]
  case enil => intro v; simp [eventsEach, passCount, countOK]
  case econs =>
    intro s ss v ih1 ih2
    rw [eventsEach, countOK]
    simp [passCount, ih1, ih2, selOK]
  case snil => intro dr v; simp [eventsSel, passCount, countOK]
  case scons =>
    intro dr s ss v ih1 ih2
    rw [eventsSel, countOK]
    cases hsel : selOK dr s <;> simp [passCount, ih1, ih2, skipped, passesL, Ev.passes]

theorem events_passes (env : Env) (s : S) (v : J) : passesL (events env s v) = visit env s v :=
  (events_passes_all env).1 s v

/-- **C12, first sentence.** For every schema and value the accept/reject verdict is the same in default,
fail-fast and multi-error mode, and it is the verdict of C01: the value satisfies the schema. -/
theorem verdict_same_in_all_modes (m : Mode) (env : Env) (s : S) (v : J) :
    (validate m env s v).isOk = visit env s v := by
  unfold validate; rw [mode_independent, events_passes]

theorem verdict_iff_sat (m : Mode) (env : Env) (s : S) (v : J) :
    (validate m env s v).isOk = true ↔ Sat env s v := by
  rw [verdict_same_in_all_modes, visit_iff_sat]

theorem modes_agree (m m' : Mode) (env : Env) (s : S) (v : J) :
    (validate m env s v).isOk = (validate m' env s v).isOk := by
  rw [verdict_same_in_all_modes, verdict_same_in_all_modes]

/-- a rejection in default mode carries exactly one error; in multi-error mode at least one -/
theorem reject_has_error (env : Env) (s : S) (v : J) (h : visit env s v = false) :
    (∃ e, validate .dflt env s v = .rej [e]) ∧ (∃ e es, validate .multi env s v = .rej (e :: es)) := by
  have h1 := verdict_same_in_all_modes .dflt env s v
  have h2 := verdict_same_in_all_modes .multi env s v
  rw [h] at h1 h2
  unfold validate report at h1 h2 ⊢
  constructor
  · cases hf : firstErrL (events env s v) with
    | none => simp [hf, Res.isOk] at h1
    | some e => exact ⟨e, by simp⟩
  · cases hc : collectL (events env s v) with
    | nil => simp [hc, Res.isOk] at h2
    | cons e es => exact ⟨e, es, by simp⟩

/-! ### T2 — every reported error points at the value it quotes -/

def resolve1 (v : J) (t : Tok) : Option J :=
  match v, t with
  | .obj kvs, .key k => lookup k kvs
  | .arr xs, .idx i => xs[i]?
  | _, _ => none

/-- follow a JSON pointer inside a value -/
def resolve : J → List Tok → Option J
  | v, [] => some v
  | v, t :: ts => (resolve1 v t).bind (fun x => resolve x ts)

/-- located: the pointer resolves inside `v` and the quoted value (if the error quotes one) is the value found
there; or — a missing required property — the pointer minus its last token resolves to the quoted enclosing object -/
def Loc (v : J) (e : Err) : Prop :=
  (∃ x, resolve v e.pointer = some x ∧ (∀ q, e.value = some q → q = x)) ∨
  (e.field = "required" ∧ ∃ init last x, e.pointer = init ++ [last] ∧ resolve v init = some x ∧ e.value = some x)

mutual
def Ev.located (v : J) : Ev → Prop
  | .fail e _ => Loc v e
  | .child tok sub => ∃ x, resolve1 v tok = some x ∧ locatedL x sub
  | .comp _ e _ => Loc v e
def locatedL (v : J) : List Ev → Prop
  | [] => True
  | e :: es => e.located v ∧ locatedL v es
end

theorem pointer_mark (tok : Tok) (e : Err) : (mark tok e).pointer = tok :: e.pointer := by
  simp [mark, Err.pointer]

theorem loc_mark {v x : J} {tok : Tok} {e : Err} (hx : resolve1 v tok = some x) (h : Loc x e) :
    Loc v (mark tok e) := by
  rcases h with ⟨y, hy, hq⟩ | ⟨hf, init, last, y, hp, hr, hv⟩
  · left
    refine ⟨y, ?_, by simpa [mark] using hq⟩
    rw [pointer_mark]
    simp only [resolve, hx, Option.bind_some]
    exact hy
  · right
    refine ⟨by simpa [mark] using hf, tok :: init, last, y, ?_, ?_, by simpa [mark] using hv⟩
    · simp [pointer_mark, hp]
    · simp only [resolve, hx, Option.bind_some]; exact hr

theorem located_folds :
    (∀ ev : Ev, ∀ v, ev.located v → (∀ e, ev.firstErr = some e → Loc v e) ∧ (∀ e ∈ ev.collect.1, Loc v e)) ∧
    (∀ _ts : List (List Ev), True) ∧
    (∀ t : List Ev, ∀ v, locatedL v t → (∀ e, firstErrL t = some e → Loc v e) ∧ (∀ e ∈ collectL t, Loc v e)) := by
  refine Ev.passes.mutual_induct
    (motive_1 := fun ev => ∀ v, ev.located v → (∀ e, ev.firstErr = some e → Loc v e) ∧ (∀ e ∈ ev.collect.1, Loc v e))
    (motive_2 := fun _ => True)
    (motive_3 := fun t => ∀ v, locatedL v t → (∀ e, firstErrL t = some e → Loc v e) ∧ (∀ e ∈ collectL t, Loc v e))
    ?f ?ch ?co ?nil ?cons ?nil2 ?cons2
  case f =>
    intro e fatal v h
    simp only [Ev.located] at h
    simp only [Ev.firstErr, Ev.collect]
    exact ⟨fun e' he' => by cases he'; exact h, fun e' he' => by simp at he'; subst he'; exact h⟩
  case ch =>
    intro tok sub ih v h
    simp only [Ev.located] at h
    obtain ⟨x, hx, hsub⟩ := h
    obtain ⟨h1, h2⟩ := ih x hsub
    simp only [Ev.firstErr, Ev.collect]
    constructor
    · intro e he
      cases hf : firstErrL sub with
      | none => simp [hf] at he
      | some e0 => simp [hf] at he; subst he; exact loc_mark hx (h1 e0 hf)
    · intro e he
      simp only [List.mem_map] at he
      obtain ⟨e0, he0, rfl⟩ := he
      exact loc_mark hx (h2 e0 he0)
  case co =>
    intro k e subs _ v h
    simp only [Ev.located] at h
    simp only [Ev.firstErr, Ev.collect]
    constructor
    · intro e' he'; split at he' <;> simp at he'; subst he'; exact h
    · intro e' he'; split at he' <;> simp at he'; subst he'; exact h
  case nil => intro v _; simp [firstErrL, collectL]
  case cons =>
    intro ev es ih1 ih2 v h
    simp only [locatedL] at h
    obtain ⟨a1, a2⟩ := ih1 v h.1
    obtain ⟨b1, b2⟩ := ih2 v h.2
    constructor
    · intro e he
      simp only [firstErrL] at he
      cases hf : ev.firstErr with
      | none => simp [hf] at he; exact b1 e he
      | some e0 => simp [hf] at he; subst he; exact a1 e0 hf
    · intro e he
      simp only [collectL] at he
      split at he
      · exact a2 e he
      · rcases List.mem_append.mp he with he | he
        · exact a2 e he
        · exact b2 e he
  case nil2 => trivial
  case cons2 => intros; trivial

/-- **C12, second sentence, on traces.** In every mode, every error reported for a located trace carries a
pointer that resolves inside the value (to the enclosing object for a missing required property) and quotes
the value found there. -/
theorem pointers_located (v : J) (t : List Ev) (h : locatedL v t) (m : Mode) :
    ∀ e ∈ (report m t).errs, Loc v e := by
  obtain ⟨h1, h2⟩ := located_folds.2.2 t v h
  cases m with
  | dflt =>
    simp only [report]
    cases hf : firstErrL t with
    | none => simp [Res.errs]
    | some e0 => simp only [Res.errs, List.mem_singleton]; intro e he; rw [he]; exact h1 e0 hf
  | failfast =>
    simp only [report]
    cases firstErrL t <;> simp [Res.errs]
  | multi =>
    simp only [report]
    cases hc : collectL t with
    | nil => simp [Res.errs]
    | cons a b => simp only [Res.errs]; intro e he; exact h2 e (by rw [hc]; exact he)
  | ffmulti =>
    simp only [report]
    cases (runL Mode.ffmulti.policy t).1 <;> simp [Res.errs]

/-! ### the trace of a schema visit is located in the visited value -/

theorem loc_here (field : String) (v : J) (r : List Frag) : Loc v (here field v r) := by
  left; exact ⟨v, by simp [here, Err.pointer, resolve], by intro q hq; simp [here] at hq; exact hq.symm⟩

theorem loc_hereSoft (field : String) (v : J) (r : List Frag) : Loc v (hereSoft field v r) := by
  left; exact ⟨v, by simp [hereSoft, Err.pointer, resolve], by simp [hereSoft]⟩

theorem loc_noValue (v : J) (e : Err) (h1 : e.rpath = []) (h2 : e.value = none) : Loc v e := by
  left; exact ⟨v, by simp [Err.pointer, h1, resolve], by intro q hq; simp [h2] at hq⟩

theorem loc_required (k : String) (v : J) (r : List Frag) : Loc v (mark (.key k) (here "required" v r)) := by
  right
  exact ⟨by simp [mark, here], [], .key k, v, by simp [mark, here, Err.pointer], by simp [resolve], by simp [mark, here]⟩

theorem locatedL_append {v : J} {a b : List Ev} (ha : locatedL v a) (hb : locatedL v b) : locatedL v (a ++ b) := by
  induction a with
  | nil => simpa using hb
  | cons e es ih => simp only [List.cons_append, locatedL] at *; exact ⟨ha.1, ih ha.2⟩

theorem chk_located (v : J) (bad : Bool) (e : Err) (f : Bool) (h : Loc v e) : locatedL v (chk bad e f) := by
  unfold chk; split <;> simp [locatedL, Ev.located, h]

theorem checkEvs_located (v : J) (cs : List Check) (h : ∀ c ∈ cs, Loc v c.2.1) : locatedL v (checkEvs cs) := by
  induction cs with
  | nil => simp [checkEvs, locatedL]
  | cons c cs ih =>
    have : checkEvs (c :: cs) = chk c.1 c.2.1 c.2.2 ++ checkEvs cs := by simp [checkEvs]
    rw [this]
    exact locatedL_append (chk_located v _ _ _ (h c (by simp))) (ih (fun c' hc' => h c' (by simp [hc'])))

theorem typeErr_loc (kw : Kw) (v : J) : Loc v (typeErr kw v) := loc_here _ _ _

/-- `q` may stand for `v` in quotes: a scalar is quoted as it is, a container as the node it is (`q` = its final content) -/
def Quotes (v q : J) : Prop :=
  match v with
  | .arr _ => True
  | .obj _ => True
  | _ => q = v

theorem quotes_self (v : J) : Quotes v v := by cases v <;> simp [Quotes]

theorem ownEvsQ_located (env : Env) (kw : Kw) (p : List (String × S)) (v q : J) (ch : List Ev) (hq : Quotes v q)
    (hch : locatedL q ch) : locatedL q (ownEvsQ env kw p v q ch) := by
  cases v with
  | null => simp [ownEvsQ, locatedL, Ev.located]; exact loc_noValue _ _ rfl rfl
  | bool b => simp only [Quotes] at hq; subst hq; exact chk_located _ _ _ _ (typeErr_loc _ _)
  | num x =>
    simp only [Quotes] at hq; subst hq
    apply checkEvs_located
    intro c hc
    simp only [numChecks, List.mem_cons, List.mem_nil_iff, or_false] at hc
    rcases hc with rfl | rfl | rfl | rfl | rfl | rfl | rfl
    · simp only; split <;> exact loc_here _ _ _
    all_goals first | exact loc_here _ _ _ | exact loc_hereSoft _ _ _
  | str x =>
    simp only [Quotes] at hq; subst hq
    apply checkEvs_located
    intro c hc
    simp only [strChecks, List.mem_cons, List.mem_nil_iff, or_false] at hc
    rcases hc with rfl | rfl | rfl | rfl | rfl | rfl
    · exact loc_here _ _ _
    · exact loc_here _ _ _
    · exact loc_here _ _ _
    · exact loc_noValue _ _ rfl rfl
    · exact loc_hereSoft _ _ _
    · exact loc_hereSoft _ _ _
  | arr xs =>
    refine locatedL_append (checkEvs_located _ _ ?_) hch
    intro c hc
    simp only [arrChecksQ, List.mem_cons, List.mem_nil_iff, or_false] at hc
    rcases hc with rfl | rfl | rfl | rfl <;> exact loc_here _ _ _
  | obj kvs =>
    refine locatedL_append (locatedL_append (locatedL_append (checkEvs_located _ _ ?_) hch) (checkEvs_located _ _ ?_))
      (chk_located _ _ _ _ (loc_noValue _ _ rfl rfl))
    · intro c hc
      simp only [objChecksQ, List.mem_cons, List.mem_nil_iff, or_false] at hc
      rcases hc with rfl | rfl | rfl <;> exact loc_here _ _ _
    · intro c hc
      simp only [reqChecks, List.mem_map] at hc
      obtain ⟨k, _, rfl⟩ := hc
      exact loc_required _ _ _

theorem ownEvs_located (env : Env) (kw : Kw) (p : List (String × S)) (v : J) (ch : List Ev) (hch : locatedL v ch) :
    locatedL v (ownEvs env kw p v ch) := ownEvsQ_located env kw p v v ch (quotes_self v) hch

theorem loc_keyed (kvs : List (String × J)) (pn : String) (x : J) (e : Err)
    (hl : lookup pn kvs = some x) (he : e.rpath = [.key pn]) (hv : e.value = some x) : Loc (.obj kvs) e := by
  left
  refine ⟨x, ?_, ?_⟩
  · simp [Err.pointer, he, resolve, resolve1, hl]
  · intro q hq; rw [hv] at hq; cases hq; rfl

theorem discEvs_located (kw : Kw) (v : J) : locatedL v (discEvs kw v) := by
  unfold discEvs
  cases hd : discCheck kw v with
  | all => simp [locatedL]
  | sel r => simp [locatedL]
  | missing => simp [locatedL, Ev.located]; exact loc_noValue _ _ rfl rfl
  | notString x =>
    simp only [locatedL, Ev.located, and_true]
    unfold discCheck at hd
    split at hd
    · cases hd
    · cases v with
      | obj kvs =>
        simp only at hd
        cases hl : lookup kw.discProp kvs with
        | none => simp [hl] at hd
        | some y =>
          cases y with
          | str t => simp only [hl] at hd; split at hd <;> (try split at hd) <;> cases hd
          | null => simp [hl] at hd; subst hd; exact loc_keyed kvs _ _ _ hl (by simp [discNotStringErr, mark, here]) (by simp [discNotStringErr, mark, here])
          | bool b => simp [hl] at hd; subst hd; exact loc_keyed kvs _ _ _ hl (by simp [discNotStringErr, mark, here]) (by simp [discNotStringErr, mark, here])
          | num q' => simp [hl] at hd; subst hd; exact loc_keyed kvs _ _ _ hl (by simp [discNotStringErr, mark, here]) (by simp [discNotStringErr, mark, here])
          | arr xs => simp [hl] at hd; subst hd; exact loc_keyed kvs _ _ _ hl (by simp [discNotStringErr, mark, here]) (by simp [discNotStringErr, mark, here])
          | obj o => simp [hl] at hd; subst hd; exact loc_keyed kvs _ _ _ hl (by simp [discNotStringErr, mark, here]) (by simp [discNotStringErr, mark, here])
      | null => simp at hd
      | bool b => simp at hd
      | num q => simp at hd
      | str t => simp at hd
      | arr xs => simp at hd
  | unmapped x =>
    simp only [locatedL, Ev.located, and_true]
    unfold discCheck at hd
    split at hd
    · cases hd
    · cases v with
      | obj kvs =>
        simp only at hd
        cases hl : lookup kw.discProp kvs with
        | none => simp [hl] at hd
        | some y =>
          cases y with
          | str t =>
            simp only [hl] at hd
            split at hd
            · cases hd
            · split at hd
              · cases hd
              · cases hd
                exact loc_keyed kvs _ _ _ hl (by simp [discUnmappedErr, mark, here]) (by simp [discUnmappedErr, mark, here])
          | null => simp [hl] at hd
          | bool b => simp [hl] at hd
          | num q' => simp [hl] at hd
          | arr xs => simp [hl] at hd
          | obj o => simp [hl] at hd
      | null => simp at hd
      | bool b => simp at hd
      | num q => simp at hd
      | str t => simp at hd
      | arr xs => simp at hd

theorem evCombine_located (env : Env) (kw : Kw) (a b c : List S) (p : List (String × S)) (sc : Bool) (v : J)
    (notEvs : List Ev) (oneSubs anySubs allSubs : List (List Ev)) (childEvs : List Ev)
    (hNot : locatedL v notEvs) (hch : locatedL v childEvs) :
    locatedL v (evCombine env kw a b c p sc v notEvs oneSubs anySubs allSubs childEvs) := by
  unfold evCombine
  split
  · simp [locatedL]
  · split
    · split
      · simp [locatedL, Ev.located]; exact loc_noValue _ _ rfl rfl
      · simp [locatedL]
    · refine locatedL_append (locatedL_append (locatedL_append (locatedL_append hNot ?_) ?_) ?_) ?_
      · split
        · simp [locatedL]
        · exact locatedL_append (discEvs_located kw v) (by simp [locatedL, Ev.located, loc_here])
      · split <;> simp [locatedL, Ev.located, loc_here]
      · split <;> simp [locatedL, Ev.located, loc_here]
      · split
        · simp [locatedL]
        · exact locatedL_append (chk_located _ _ _ _ (loc_here _ _ _)) (ownEvs_located env kw p v childEvs hch)

def keysOf : List (String × J) → List String
  | [] => []
  | (k, _) :: r => k :: keysOf r

theorem lookup_of_mem_nodup : ∀ (kvs : List (String × J)) (k : String) (x : J),
    (keysOf kvs).Nodup → (k, x) ∈ kvs → lookup k kvs = some x
  | [], _, _, _, h => by simp at h
  | (k', x') :: r, k, x, hn, h => by
    simp only [keysOf, List.nodup_cons] at hn
    simp only [List.mem_cons, Prod.mk.injEq] at h
    rcases h with ⟨rfl, rfl⟩ | h
    · simp [lookup]
    · have hne : k ≠ k' := by
        intro e; subst e
        apply hn.1
        clear hn
        induction r with
        | nil => simp at h
        | cons kv r ih =>
          obtain ⟨a, b⟩ := kv
          simp only [List.mem_cons, Prod.mk.injEq] at h
          rcases h with ⟨rfl, rfl⟩ | h
          · simp [keysOf]
          · simp [keysOf, ih h]
      simp [lookup, hne, lookup_of_mem_nodup r k x hn.2 h]

mutual
/-- object keys are distinct at every level (values decoded from JSON into Go maps) -/
def WFJ : J → Prop
  | .arr xs => WFJL xs
  | .obj kvs => (keysOf kvs).Nodup ∧ WFJP kvs
  | _ => True
def WFJL : List J → Prop
  | [] => True
  | x :: xs => WFJ x ∧ WFJL xs
def WFJP : List (String × J) → Prop
  | [] => True
  | (_, x) :: r => WFJ x ∧ WFJP r
end

theorem wfjl_mem {xs : List J} (h : WFJL xs) : ∀ x ∈ xs, WFJ x := by
  induction xs with
  | nil => simp
  | cons a r ih => simp only [WFJL] at h; intro x hx; simp at hx; rcases hx with rfl | hx; exact h.1; exact ih h.2 x hx

theorem wfjp_mem {kvs : List (String × J)} (h : WFJP kvs) : ∀ kx ∈ kvs, WFJ kx.2 := by
  induction kvs with
  | nil => simp
  | cons a r ih =>
    obtain ⟨k, x⟩ := a
    simp only [WFJP] at h
    intro kx hkx; simp at hkx; rcases hkx with rfl | hkx
    · exact h.1
    · exact ih h.2 kx hkx

theorem notEvs_located (env : Env) (n : Option S) (v : J) :
    locatedL v (match n with | none => [] | some s => [Ev.comp CompKind.not (here "not" v [.lit "Doesn't match schema \"not\""]) [events env s v]]) := by
  cases n <;> simp [locatedL, Ev.located, loc_here]

theorem childEvs_located (env : Env) (kw : Kw) (i : Option S) (p : List (String × S)) (ad : Option S) (v : J) :
    (match v with
      | .arr xs => (match i with
          | none => True
          | some s => ∀ (all : List J), (∀ j, xs[j]? = all[0 + j]?) → (∀ x ∈ xs, WFJ x) → locatedL (.arr all) (itemsEvs env s xs 0))
      | .obj kvs => ∀ (all : List (String × J)), v = .obj all → (∀ kx ∈ kvs, lookup kx.1 all = some kx.2) → (∀ kx ∈ kvs, WFJ kx.2) →
          locatedL (.obj all) (propsEvs env p ad kw.addHas v kvs)
      | _ => True) →
    WFJ v →
    locatedL v (match v with
          | .arr xs => (match i with | none => [] | some s => itemsEvs env s xs 0)
          | .obj kvs => propsEvs env p ad kw.addHas v kvs
          | _ => []) := by
  intro ihch hwf
  cases v with
  | arr xs =>
    cases i with
    | none => simp [locatedL]
    | some s =>
      simp only at ihch ⊢
      exact ihch xs (by intro j; simp) (wfjl_mem (by simpa [WFJ] using hwf))
  | obj kvs =>
    simp only at ihch ⊢
    have hw : (keysOf kvs).Nodup ∧ WFJP kvs := by simpa [WFJ] using hwf
    exact ihch kvs rfl (fun kx hkx => lookup_of_mem_nodup kvs kx.1 kx.2 hw.1 (by simpa using hkx)) (wfjp_mem hw.2)
  | null => simp [locatedL]
  | bool b => simp [locatedL]
  | num q => simp [locatedL]
  | str x => simp [locatedL]

theorem events_located_all (env : Env) :
    (∀ s v, WFJ v → locatedL v (events env s v)) ∧
    (∀ p ad has whole r, ∀ (all : List (String × J)), whole = .obj all → (∀ kx ∈ r, lookup kx.1 all = some kx.2) →
        (∀ kx ∈ r, WFJ kx.2) → locatedL (.obj all) (propsEvs env p ad has whole r)) ∧
    (∀ s xs i, ∀ (all : List J), (∀ j, xs[j]? = all[i + j]?) → (∀ x ∈ xs, WFJ x) →
        locatedL (.arr all) (itemsEvs env s xs i)) ∧
    (∀ (_ss : List S) (_v : J), True) ∧ (∀ (_dr : String) (_ss : List S) (_v : J), True) := by
  refine events.mutual_induct
    (motive1 := fun s v => WFJ v → locatedL v (events env s v))
    (motive2 := fun p ad has whole r => ∀ (all : List (String × J)), whole = .obj all → (∀ kx ∈ r, lookup kx.1 all = some kx.2) →
        (∀ kx ∈ r, WFJ kx.2) → locatedL (.obj all) (propsEvs env p ad has whole r))
    (motive3 := fun s xs i => ∀ (all : List J), (∀ j, xs[j]? = all[i + j]?) → (∀ x ∈ xs, WFJ x) →
        locatedL (.arr all) (itemsEvs env s xs i))
    (motive4 := fun _ _ => True)
    (motive5 := fun _ _ _ => True)
    ?node ?pnil ?pcons ?inil ?icons ?enil ?econs ?snil ?scons
  case node =>
    intro kw a b c n i p ad v _ _ _ _ ihch hwf
    rw [events.eq_def]
    simp only
    exact evCombine_located env kw a b c p _ v _ _ _ _ _ (notEvs_located env n v) (childEvs_located env kw i p ad v ihch hwf)
  case pnil => intro p ad has whole all _ _ _; simp [propsEvs, locatedL]
  case pcons =>
    intro p ad has whole k x r ih1 ih2 ih3 all hw hall hwf
    rw [propsEvs.eq_def]
    refine locatedL_append ?_ (ih3 all hw (fun kx h => hall kx (by simp [h])) (fun kx h => hwf kx (by simp [h])))
    have hx : resolve1 (.obj all) (.key k) = some x := by simpa [resolve1] using hall (k, x) (by simp)
    have hwx : WFJ x := hwf (k, x) (by simp)
    unfold propEv
    cases hl : lookup k p with
    | some s => simp only [locatedL, Ev.located]; exact ⟨⟨x, hx, ih1 s hwx⟩, trivial⟩
    | none =>
      simp only
      split
      · cases ad with
        | none => simp [locatedL]
        | some t => simp only at ih2; simp only [locatedL, Ev.located]; exact ⟨⟨x, hx, ih2 hwx⟩, trivial⟩
      · subst hw; simp [locatedL, Ev.located, loc_here]
  case inil => intro s i all _ _; simp [itemsEvs, locatedL]
  case icons =>
    intro s x xs i ih1 ih2 all hall hwf
    rw [itemsEvs.eq_def]
    simp only [locatedL, Ev.located]
    refine ⟨⟨x, ?_, ih1 (hwf x (by simp))⟩, ih2 all ?_ (fun y hy => hwf y (by simp [hy]))⟩
    · have := hall 0; simp at this; simp [resolve1, ← this]
    · intro j; have := hall (j + 1); simp at this; rw [this]; congr 1; omega
  case enil => intros; trivial
  case econs => intros; trivial
  case snil => intros; trivial
  case scons => intros; trivial

theorem events_located (env : Env) (s : S) (v : J) (h : WFJ v) : locatedL v (events env s v) :=
  (events_located_all env).1 s v h

/-- **C12, second sentence.** For every schema, every well-formed value (object keys distinct, as in Go maps) and
every mode: each schema error returned — directly or as a member of the multi-error — carries a JSON pointer that
resolves inside the validated value (to the enclosing object for a missing required property), and the value it
quotes is the value found at that location. -/
theorem errors_point_at_data (m : Mode) (env : Env) (s : S) (v : J) (h : WFJ v) :
    ∀ e ∈ (validate m env s v).errs, Loc v e :=
  pointers_located v _ (events_located env s v h) m

end KinModel.Schema
