import KinModel.Internalize
namespace KinModel.Internalize
open KinModel.RefName

theorem placeholder : True := trivial

end KinModel.Internalize
