/-
C16 — internalising refs yields a self-contained, equivalent document.
Property theorems only (models: KinModel/RefName.lean — the name resolver; KinModel/Internalize.lean — the descent of
InternalizeRefs on the abstraction of a loaded document; helper lemmas: Lemmas/C16Descent.lean, C16Inv.lean, C16Table.lean,
concrete heaps: Lemmas/C16Heaps.lean).
Sections: resolver loops / totality / alphabet / injectivity (partial) and collision witnesses; translator tables;
the flag; the document after internalisation — (i) all_refs_internal, (ii) rewritten_refs_resolve_partial,
(iii) positions_outside_external_unchanged + root_components_kept, spec_holds_partial and the completeness of the
exclusion classes; witnesses of every open finding, regressions of the repaired ones, non-vacuity examples.
-/
import KinModel.Internalize
import KinModel.Lemmas.C16Table
import KinModel.Lemmas.C16Inv
import KinModel.Lemmas.C16Heaps
import KinModel.Lemmas.C16Rerun
namespace KinModel.RefName

/-! ### the resolver's loops end for every input (the repair of #18 made this provable) -/

theorem length_dropWhile_le_str (q : Char → Bool) : ∀ l : Str, (l.dropWhile q).length ≤ l.length
  | [] => by simp
  | a :: t => by
    simp only [List.dropWhile]
    split
    · have := length_dropWhile_le_str q t; simp; omega
    · simp

theorem uptoLastSlash_length_le (p : Str) : (uptoLastSlash p).length ≤ p.length := by
  unfold uptoLastSlash
  have h := length_dropWhile_le_str (fun c => c != '/') p.reverse
  simpa using h

/-- path.Dir on clean paths ends at "." or at its fixed point "/", or strictly shortens the path -/
theorem dirC_cases (d : Str) : dirC d = ['.'] ∨ dirC d = d ∨ (dirC d).length < d.length := by
  unfold dirC
  have hle := uptoLastSlash_length_le d
  by_cases h1 : (uptoLastSlash d).isEmpty
  · simp [h1]
  · by_cases h2 : uptoLastSlash d == ['/']
    · simp only [h1, h2, if_true, Bool.false_eq_true, if_false]
      have h2' : uptoLastSlash d = ['/'] := by simpa using h2
      rw [h2'] at hle
      by_cases hd : d = ['/']
      · right; left; exact hd.symm
      · right; right
        have : 1 ≤ d.length := by simpa using hle
        cases d with
        | nil => simp at this
        | cons a t =>
          cases t with
          | nil =>
            exfalso
            -- d = [a] and uptoLastSlash [a] = ['/'] forces a = '/'
            have : a = '/' := by
              by_cases ha : a = '/'
              · exact ha
              · simp [uptoLastSlash, List.dropWhile, ha] at h2'
            exact hd (by rw [this])
          | cons b t' => simp
    · simp only [h1, h2, Bool.false_eq_true, if_false]
      right; right
      have hne : uptoLastSlash d ≠ [] := by simpa using h1
      have : (uptoLastSlash d).dropLast.length < (uptoLastSlash d).length := by
        cases hu : uptoLastSlash d with
        | nil => exact absurd hu hne
        | cons a t => simp
      omega

theorem trimLoop_dot (n : Nat) (f : Str) : trimLoop (n + 1) f ['.'] = some f := by
  simp [trimLoop]

/-- **the common-directory loop of DefaultRefNameResolver ends** for every file path and every (clean) root
directory, absolute or relative — also when the file is the root document itself (finding #18, repaired) -/
theorem trimLoop_terminates (f : Str) : ∀ (n : Nat) (d : Str), d.length + 2 ≤ n → trimLoop n f d ≠ none := by
  intro n
  induction n with
  | zero => intro d h; omega
  | succ n ih =>
    intro d h
    unfold trimLoop
    by_cases hdot : (d == ['.']) = true
    · simp [hdot]
    · simp only [hdot, Bool.false_eq_true, if_false]
      cases hc : cutDirectories f d with
      | mk p found =>
        cases found with
        | true => simp
        | false =>
          simp only
          by_cases hfix : (dirC d == d) = true
          · simp [hfix]
          · simp only [hfix, Bool.false_eq_true, if_false]
            rcases dirC_cases d with h1 | h2 | h3
            · rw [h1]
              cases n with
              | zero => omega
              | succ m => rw [trimLoop_dot]; simp
            · exfalso; apply hfix; simp [h2]
            · exact ih (dirC d) (by omega)

theorem pathExt_nil : pathExt [] = [] := by simp [pathExt, extRev]

/-- **the extension-stripping loop ends** for every file path -/
theorem extLoop_terminates : ∀ (n : Nat) (f : Str), f.length + 1 ≤ n → extLoop n f ≠ none := by
  intro n
  induction n with
  | zero => intro f h; omega
  | succ n ih =>
    intro f h
    unfold extLoop
    by_cases he : (pathExt f).isEmpty = true
    · simp [he]
    · simp only [he, Bool.false_eq_true, if_false]
      apply ih
      have hne : pathExt f ≠ [] := by simpa using he
      have hf : f ≠ [] := by
        intro hf; apply hne; rw [hf]; exact pathExt_nil
      have h1 : 1 ≤ (pathExt f).length := by
        cases hp : pathExt f with
        | nil => exact absurd hp hne
        | cons a t => simp
      have h2 : 1 ≤ f.length := by
        cases f with
        | nil => exact absurd rfl hf
        | cons a t => simp
      have : (f.take (f.length - (pathExt f).length)).length ≤ f.length - (pathExt f).length := by
        simp [List.length_take]
      omega

theorem trimCommon_total (root : RootInfo) (f : Str) : trimCommon root f ≠ none := by
  unfold trimCommon
  cases root.url with
  | none => simp
  | some u => exact trimLoop_terminates f _ _ (Nat.le_refl _)

theorem fileNamePart_total (root : RootInfo) (p : Str) : fileNamePart root p ≠ none := by
  unfold fileNamePart
  by_cases hp : p.isEmpty = true
  · simp [hp]
  · simp only [hp, Bool.false_eq_true, if_false]
    cases he : extLoop ((sameAsRoot root p).length + 1) (sameAsRoot root p) with
    | none => exact absurd he (extLoop_terminates _ _ (Nat.le_refl _))
    | some f2 => exact trimCommon_total root f2

theorem nameOf_total (root : RootInfo) (coll : Str) (amb : Bool) (nm : Option (Str × Str)) :
    nameOf root coll amb nm ≠ .fuel := by
  unfold nameOf
  cases nm with
  | none => simp
  | some fc =>
    obtain ⟨filePath, componentPath⟩ := fc
    simp only
    cases hfp : fileNamePart root filePath with
    | none => exact absurd hfp (fileNamePart_total root filePath)
    | some fp => simp

/-- **DefaultRefNameResolver never loops**: for every root document and every reference the model returns a name
or the documented panic, never `fuel` -/
theorem defaultName_total (root : RootInfo) (r : RefInfo) : defaultName root r ≠ .fuel := by
  unfold defaultName
  by_cases h1 : r.ref.isEmpty = true
  · simp [h1]
  · simp only [h1, Bool.false_eq_true, if_false]
    cases r.refPath with
    | none => simp
    | some rp => exact nameOf_total _ _ _ _

/-! ### the generated name only contains identifier characters (contract of RefNameResolver) -/

theorem sanitize_ident (s : Str) : ∀ c ∈ sanitize s, identChar c = true := by
  intro c hc
  unfold sanitize at hc
  rw [List.mem_map] at hc
  obtain ⟨a, _, ha⟩ := hc
  by_cases h : identChar a = true
  · simp [h] at ha; rw [← ha]; exact h
  · simp [h] at ha; rw [← ha]; decide

theorem assemble_ident (f c : Str) : ∀ x ∈ assemble f c, identChar x = true := by
  unfold assemble
  exact sanitize_ident _

theorem nameOf_ident (root : RootInfo) (coll : Str) (amb amb' : Bool) (nm : Option (Str × Str)) (s : Str)
    (h : nameOf root coll amb nm = .name s amb') : ∀ x ∈ s, identChar x = true := by
  unfold nameOf at h
  cases nm with
  | none => simp at h
  | some fc =>
    obtain ⟨filePath, componentPath⟩ := fc
    simp only at h
    cases hfp : fileNamePart root filePath with
    | none => simp [hfp] at h
    | some fp =>
      simp only [hfp] at h
      injection h with hs _
      rw [← hs]
      exact assemble_ident _ _

/-- every name the resolver returns consists of characters allowed in component names -/
theorem defaultName_ident (root : RootInfo) (r : RefInfo) (s : Str) (amb : Bool)
    (h : defaultName root r = .name s amb) : ∀ x ∈ s, identChar x = true := by
  unfold defaultName at h
  by_cases h1 : r.ref.isEmpty = true
  · simp [h1] at h
  · simp only [h1, Bool.false_eq_true, if_false] at h
    cases hrp : r.refPath with
    | none => simp [hrp] at h
    | some rp =>
      simp only [hrp] at h
      exact nameOf_ident _ _ _ _ _ _ h

/-! ### "distinct external targets are never merged under one component name" — FALSE of the default resolver

Full-strength statement (not provable, the witnesses below refute it):
  `∀ root r₁ r₂, r₁.refPath ≠ r₂.refPath → defaultName root r₁ ≠ defaultName root r₂`.
What holds is stated for the file-name part under the explicit exclusion `Unplain` (see `joinUnderscore_injective_partial`). -/

/-- exclusion predicate of the injectivity theorem: a character other than a letter, digit, '.', '-' or the
    separator '/' — i.e. an underscore or a character the resolver replaces by an underscore -/
def plainChar (c : Char) : Bool := (identChar c && c != '_') || c == '/'
def Unplain (s : Str) : Bool := s.any (fun c => !plainChar c)

theorem sanitize_char_injective (a b : Char) (ha : plainChar a = true) (hb : plainChar b = true)
    (h : (if identChar a then a else '_') = (if identChar b then b else '_')) : a = b := by
  unfold plainChar at ha hb
  by_cases ia : identChar a = true <;> by_cases ib : identChar b = true
  · simpa [ia, ib] using h
  · simp only [ia, ib, if_true, Bool.false_eq_true, if_false] at h
    simp [h] at ha
  · simp only [ia, ib, if_true, Bool.false_eq_true, if_false] at h
    simp [← h] at hb
  · have ea : a = '/' := by simpa [ia] using ha
    have eb : b = '/' := by simpa [ib] using hb
    rw [ea, eb]

/-- replacing invalid characters is injective on strings without underscores and invalid characters -/
theorem sanitize_injective_partial : ∀ (a b : Str), Unplain a = false → Unplain b = false →
    sanitize a = sanitize b → a = b
  | [], [], _, _, _ => rfl
  | [], _ :: _, _, _, h => by simp [sanitize] at h
  | _ :: _, [], _, _, h => by simp [sanitize] at h
  | x :: xs, y :: ys, ha, hb, h => by
    simp only [Unplain, List.any_cons, Bool.or_eq_false_iff, Bool.not_eq_false'] at ha hb
    simp only [sanitize, List.map_cons, List.cons.injEq] at h
    have hxy := sanitize_char_injective x y ha.1 hb.1 h.1
    have := sanitize_injective_partial xs ys (by simpa [Unplain] using ha.2) (by simpa [Unplain] using hb.2)
      (by simpa [sanitize] using h.2)
    rw [hxy, this]

/-- **name_injective_partial.** Two file-name parts (root-relative, extensions stripped) that contain no underscore
and no character the resolver replaces, and do not start with '.' or '/', get different component names unless they
are equal. Outside the exclusion the three collision witnesses below show that the statement fails. -/
theorem name_injective_partial (f g : Str) (hf : Unplain f = false) (hg : Unplain g = false)
    (hf0 : trimLeft f dotSlash = f) (hg0 : trimLeft g dotSlash = g)
    (h : assemble f [] = assemble g []) : f = g := by
  unfold assemble at h
  by_cases ef : f.isEmpty = true <;> by_cases eg : g.isEmpty = true
  · have : f = [] := by simpa using ef
    have : g = [] := by simpa using eg
    simp_all
  · have e1 : f = [] := by simpa using ef
    simp only [ef, eg, hg0, if_true, Bool.false_eq_true, if_false, List.isEmpty_nil] at h
    have := sanitize_injective_partial [] g rfl hg (by simpa using h)
    rw [e1, this]
  · have e1 : g = [] := by simpa using eg
    simp only [ef, eg, hf0, if_true, Bool.false_eq_true, if_false, List.isEmpty_nil] at h
    have := sanitize_injective_partial f [] hf rfl (by simpa using h)
    rw [e1, this]
  · simp only [ef, eg, hf0, hg0, if_true, Bool.false_eq_true, if_false, List.isEmpty_nil] at h
    exact sanitize_injective_partial f g hf hg h

/-- non-vacuity: plain nested paths satisfy the hypotheses; the #17 witness is inside the exclusion -/
example : Unplain "schemas/sub/record.v1".toList = false ∧ trimLeft "schemas/sub/record".toList dotSlash = "schemas/sub/record".toList := by decide
theorem witness_unplain : Unplain "s/a_b".toList = true ∧ assemble "s/a_b".toList [] = assemble "s/a/b".toList [] ∧ "s/a_b".toList ≠ "s/a/b".toList := by decide

def rootAt (u : String) : RootInfo := { url := some u.toList, hasComponents := true, comps := [] }
def wholeFile (coll ref path : String) : RefInfo := { ref := ref.toList, refPath := some (path.toList, []), coll := coll.toList }
def element (coll ref path frag : String) : RefInfo := { ref := ref.toList, refPath := some (path.toList, frag.toList), coll := coll.toList }

/-- finding #17: `s/a_b.json` and `s/a/b.json` are both named `s_a_b` -/
theorem witness_collision_underscore_slash :
    defaultName (rootAt "openapi.json") (wholeFile "schemas" "s/a_b.json" "s/a_b.json") = .name "s_a_b".toList false ∧
    defaultName (rootAt "openapi.json") (wholeFile "schemas" "s/a/b.json" "s/a/b.json") = .name "s_a_b".toList false := by
  decide

/-- the "common directory" is removed as a STRING prefix: under the root `a/openapi.json` the files `ab/x.json` and
`b/x.json` are both named `b_x` -/
theorem witness_collision_prefix_trim :
    defaultName (rootAt "a/openapi.json") (wholeFile "schemas" "../ab/x.json" "ab/x.json") = .name "b_x".toList false ∧
    defaultName (rootAt "a/openapi.json") (wholeFile "schemas" "../b/x.json" "b/x.json") = .name "b_x".toList false := by
  decide

/-- a file and an element of another file: `a/b/C.json` and `a/b.json#/components/schemas/C` are both named `a_b_C` -/
theorem witness_collision_file_vs_fragment :
    defaultName (rootAt "openapi.json") (wholeFile "schemas" "a/b/C.json" "a/b/C.json") = .name "a_b_C".toList false ∧
    defaultName (rootAt "openapi.json") (element "schemas" "a/b.json#/components/schemas/C" "a/b.json" "/components/schemas/C")
      = .name "a_b_C".toList false := by
  decide

/-- a root component that is a whole-document reference matches ITSELF in ReferencesComponentInRootDocument and is
given its own name: for collections whose top level is not dereferenced it becomes `X: {$ref: #/components/…/X}` -/
theorem witness_self_match :
    defaultName { url := some "openapi.json".toList, hasComponents := true,
                  comps := [("T1".toList, "ext.json".toList, some ("ext.json".toList, []))] }
      (wholeFile "responses" "ext.json" "ext.json") = .name "T1".toList false := by
  decide

/-- a reference whose recorded RefPath is the root document itself, without fragment, is given the EMPTY name. Until
0a3c233 the loader recorded exactly that for whole-document link/example/securityScheme references made in the root
(former finding F-C16-4; `regression_whole_document_link_name` below); the resolver itself is unchanged -/
theorem resolver_empty_name_for_root_path :
    defaultName (rootAt "openapi.json") (wholeFile "links" "common/l.json" "openapi.json") = .name [] false := by
  decide

/-- after the repair of #18: a reference back into the root document loaded from an ABSOLUTE path is named -/
theorem regression_absolute_root_backref :
    defaultName (rootAt "/r/a/openapi.json")
      (element "schemas" "openapi.json#/components/schemas/R" "/r/a/openapi.json" "/components/schemas/R") = .name "R".toList false := by
  decide

/-- non-vacuity of the totality theorems: a relative and an absolute layout, nested directories, double extension -/
example : defaultName (rootAt "/r/a/openapi.json") (wholeFile "schemas" "sub/deep/x.v1.json" "/r/a/sub/deep/x.v1.json")
    = .name "sub_deep_x".toList false := by decide
example : defaultName (rootAt "a/openapi.json") (element "parameters" "defs.json#/components/parameters/P" "a/defs.json" "/components/parameters/P")
    = .name "defs_P".toList false := by decide

/-! ### translator tie: the descent written in openapi3/internalize_refs.go is the one the model implements -/

/-- every call the extractor met had the shape it can read -/
theorem internalized_all_recognised : KinModel.Gen.internalized.all (fun r => !KinModel.Gen.isUnrecognised r) = true := by
  decide

/-- the regenerated call table (order, arguments, flag expressions) equals the table the model was written from -/
theorem internalized_matches_model : KinModel.Gen.internalized = KinModel.Gen.modelDescent := by
  decide

/-- **each of the nine add…ToSpec methods looks the name up in, creates, and stores into its OWN kind's map of
`doc.Components`, and writes its own kind's `#/components/<kind>/` text** (regenerated on every run; the model's single
`addCore` does exactly this for the cell's collection). A lookup in a neighbouring kind's map (seeded C16-r3m2) breaks it. -/
theorem add_uses_own_kind_map : KinModel.Gen.internalizedAdd.all KinModel.Gen.addRowOK = true := by
  decide

/-- every add…ToSpec has exactly the steps the model's `addCore` has, in that order; all nine are there -/
theorem add_steps_as_modelled : KinModel.Gen.addShapeOK KinModel.Gen.internalizedAdd = true := by
  decide

/-- **every field of the document types through which a reference position can be reached from `openapi3.T` is read by
the descent of InternalizeRefs** — except `Parameter.Examples` (finding F-C16-7). The table is regenerated from the type
declarations and from internalize_refs.go on every run: a new ref-bearing field the descent does not visit, or a visit
dropped from the descent, breaks this obligation. -/
theorem ref_fields_all_read_partial : KinModel.Gen.c16RefFields.all KinModel.Gen.rfOK = true := by
  decide

/-- F-C16-7 in the table: the field is there, and not read -/
theorem witness_ref_field_not_read :
    KinModel.Gen.c16RefFields.contains (KinModel.Gen.RFRow.field "Parameter" "Examples" false) = true := by
  decide

/-! ### the parent-is-external flag -/
section Flag
open KinModel.Internalize

/-- with the parent-is-external flag every non-empty reference is treated as external -/
theorem isExternalRef_parent (r : Str) : isExternalRef r true = !r.isEmpty := by
  simp [isExternalRef]

/-- an empty $ref is never external, WHATEVER the flag: `derefPaths` computes
`pathIsExternal := isExternalRef(ops.Ref, parentIsExternal)` and thereby drops the flag for every inline path item of
an external callback (finding F-C16-5) -/
theorem witness_flag_dropped : isExternalRef [] true = false := by
  simp [isExternalRef]

/-- a reference that is not under `#/components/` is external also without the flag (e.g. `#/paths/~1x/…`, `x.json`) -/
theorem isExternalRef_foreign (r : Str) (p : Bool) (h1 : r ≠ []) (h2 : hasCompPrefix r = false) :
    isExternalRef r p = true := by
  simp [isExternalRef, h1, h2]

end Flag

/-! ### the document after internalisation (model `KinModel.Internalize`, for ALL loaded documents)

`internalize h = .done s`: `h` is the abstraction of a loaded document, `s` the final state of the descent — the `$ref` text
of every reference cell (`s.refs`), of every path item (`s.pirefs`), the components (`s.comps`) and the log of what each
add<Kind>ToSpec call did. Every finished run is a sequence of primitive steps (`internalize_reach`,
Lemmas/C16Descent.lean); the theorems below are invariants of those steps (Lemmas/C16Inv.lean). -/
section Document
open KinModel.Internalize

theorem run_invText (h : Heap) (s : St) (hd : internalize h = .done s) : InvText h s :=
  Reach.invariant (InvText h) (invText_step h) (internalize_reach h s hd) (invText_init h)
theorem run_invEmpty (h : Heap) (s : St) (hd : internalize h = .done s) : InvEmpty h s :=
  Reach.invariant (InvEmpty h) (invEmpty_step h) (internalize_reach h s hd) (invEmpty_init h)
theorem run_invShape (h : Heap) (s : St) (hd : internalize h = .done s) : InvShape h s :=
  Reach.invariant (InvShape h) (invShape_step h) (internalize_reach h s hd) (invShape_init h)
theorem run_invNames (h : Heap) (s : St) (hd : internalize h = .done s) : InvNames h s :=
  Reach.invariant (InvNames h) (invNames_step h) (internalize_reach h s hd) (invNames_init h)
theorem run_invIdent (h : Heap) (s : St) (hd : internalize h = .done s) : InvIdent s :=
  Reach.invariant InvIdent (invIdent_step h defaultName_ident) (internalize_reach h s hd) (invIdent_init h)

/-- **(i) no reference text points outside the document.** After internalisation every reference cell an
add<Kind>ToSpec call was made on, and that has a value, holds the empty text (the value is written in place) or a text
under `#/components/`. No hypothesis on the run. (Cells no call is made on — the Examples of parameters and headers — are finding F-C16-7.) -/
theorem all_refs_internal (h : Heap) (s : St) (hd : internalize h = .done s) :
    ∀ c ∈ touched s, 0 ≤ valOf h c → intText s.refs[c]! = true := run_invText h s hd

/-- a reference the loader left WITHOUT value is left alone (05c5875): never given a name, its text is as loaded (or
cleared). Such a text may point outside the document — class `Unresolved`, F-C16-10. -/
theorem unresolved_refs_left_alone (h : Heap) (s : St) (hd : internalize h = .done s) (c : Nat) (hv : valOf h c < 0) :
    s.refs[c]! = origRef h c ∨ s.refs[c]! = [] :=
  Reach.invariant (InvNil h) (invNil_step h) (internalize_reach h s hd) (invNil_init h) c hv

/-- every path item the descent entered is inlined (`$ref` cleared) -/
theorem visited_path_items_inlined (h : Heap) (s : St) (hd : internalize h = .done s) :
    ∀ p ∈ s.visP, s.pirefs[p]! = [] :=
  Reach.invariant InvPI (invPI_step h) (internalize_reach h s hd) (invPI_init h)

/-- every text is what was loaded, empty, or `#/components/<collection>/<name>` for a name the resolver returned for
exactly this cell -/
theorem final_text_shape (h : Heap) (s : St) (hd : internalize h = .done s) (c : Nat) :
    s.refs[c]! = [] ∨ s.refs[c]! = origRef h c ∨
    ∃ ev ∈ s.log, ev.cell = c ∧ ∃ nm, ev.name? = some nm ∧ s.refs[c]! = mkRef (cellOf h c).k nm :=
  run_invShape h s hd c

/-- **(ii) every rewritten reference resolves to a component holding what the external reference designated.**
Hypotheses: no name collision was met (¬F-C16-1: whenever the resolver returned a name under which a component existed,
that component held content of the same class), and the original root components lead to their own values
(¬F-C16-3). Then for EVERY cell whose text was rewritten, following the new text through the final components ends at
content of the class the loader had resolved the reference to. -/
theorem rewritten_refs_resolve_partial (h : Heap) (s : St) (hd : internalize h = .done s) (hk : kindsPlain h = true)
    (hnc : NameCollision s = false) (hself : SelfRefComponent h s = false)
    (c : Nat) (hne : s.refs[c]! ≠ []) (hch : s.refs[c]! ≠ origRef h c) :
    resolvesTo h s 64 s.refs[c]! (valOf h c) = true := by
  rcases run_invShape h s hd c with h0 | h1 | ⟨ev, hev, hc, nm, hn, hr⟩
  · exact absurd h0 hne
  · exact absurd h1 hch
  · exact named_resolves h s hk (run_invNames h s hd) (run_invIdent h s hd) hnc hself c ev hev hc nm hn hr

/-- under the same hypothesis every name handed out still holds content of the right class in the final document:
the component table only grows, an entry is overwritten (callbacks) only by content of the same class -/
theorem names_hold_partial (h : Heap) (s : St) (hd : internalize h = .done s) (hnc : NameCollision s = false)
    (ev : Ev) (hev : ev ∈ s.log) (nm : Str) (hn : ev.name? = some nm) :
    Holds h s (cellOf h ev.cell).k nm (valOf h ev.cell) := run_invNames h s hd hnc ev hev nm hn

/-- **distinct targets are not merged** (the last sentence of the property), under the hypothesis that excludes F-C16-1:
two references that were given the same component name designate content of the same class -/
theorem same_name_same_content_partial (h : Heap) (s : St) (hd : internalize h = .done s) (hnc : NameCollision s = false)
    (e1 e2 : Ev) (h1 : e1 ∈ s.log) (h2 : e2 ∈ s.log) (nm : Str) (hn1 : e1.name? = some nm) (hn2 : e2.name? = some nm)
    (hk : (cellOf h e1.cell).k = (cellOf h e2.cell).k) :
    ccOf h (valOf h e1.cell) = ccOf h (valOf h e2.cell) := by
  obtain ⟨a, ha, hca⟩ := run_invNames h s hd hnc e1 h1 nm hn1
  obtain ⟨b, hb, hcb⟩ := run_invNames h s hd hnc e2 h2 nm hn2
  rw [hk, hb] at ha
  cases ha
  rw [← hca, ← hcb]

/-- **(iii) positions not behind an external reference are unchanged.** A cell that add<Kind>ToSpec never met with the
parent-is-external flag and whose own text is not external keeps its text (or is cleared: the top level of a root
component is always written in place). -/
theorem positions_outside_external_unchanged (h : Heap) (s : St) (hd : internalize h = .done s) (c : Nat)
    (hq : ∀ ev ∈ s.log, ev.cell = c → ev.pext = false) (hx : isExternalRef (origRef h c) false = false) :
    s.refs[c]! = origRef h c ∨ s.refs[c]! = [] := by
  have := Reach.invariant (InvQuiet h) (invQuiet_step h) (internalize_reach h s hd) (invQuiet_init h) c hq
  rcases this with h0 | h1 | h2
  · exact Or.inl h0
  · exact Or.inr h1
  · rw [hx] at h2; cases h2

/-- (iii) every component the root document had outside `callbacks` is still there, the same entry -/
theorem root_components_kept (h : Heap) (s : St) (hd : internalize h = .done s) (k nm : Str) (e : Comp)
    (hk : k ≠ callbacksK) (hl : lookup (initSt h) k nm = some e) : lookup s k nm = some e :=
  Reach.invariant (InvKept h) (invKept_step h) (internalize_reach h s hd) (invKept_init h) k nm e hk hl

/-- **the nine component collections are kept apart**: an entry of collection `k` differs from what the root document had
only if a reference OF COLLECTION `k` was given that name — internalising a response named `common_Item` neither creates
nor hides a request body `common_Item` (seeded C16-r3m2 is the code-side violation of this) -/
theorem components_changed_only_by_own_kind (h : Heap) (s : St) (hd : internalize h = .done s) (k nm : Str) :
    lookup s k nm = lookup (initSt h) k nm ∨ ∃ ev ∈ s.log, (cellOf h ev.cell).k = k ∧ ev.name? = some nm :=
  Reach.invariant (InvOwn h) (invOwn_step h) (internalize_reach h s hd) (invOwn_init h) k nm

/-- a reference cell the loader left empty stays empty -/
theorem empty_refs_stay_empty (h : Heap) (s : St) (hd : internalize h = .done s) (c : Nat) (h0 : origRef h c = []) :
    s.refs[c]! = [] := run_invEmpty h s hd c h0

/-! ### reuse: a second call on the same document, and documents without external references
(Lemmas/C16Rerun.lean: one mutual fuel induction that follows the FLOW of the parent-is-external flag — on texts that are
all internal every add<Kind>ToSpec call returns false and every `isExternalRef(ops.Ref, false)` is false, so the flag
handed down stays false) -/

/-- **A second call changes nothing.** `s` is ANY state (in particular the final state of a first call) in which every
reference text and every path-item text is internal — part (i) of the property, executable as `allIntB`. A further call of
InternalizeRefs (visited sets reset by `doc.resetVisited()`, any fuel) that finishes adds no component, replaces none
and renames nothing: every text is what it was, or cleared (a top-level component written in place). No hypothesis on
the heap. -/
theorem second_call_changes_nothing (h : Heap) (s : St) (hi : allIntB s = true) (n : Nat) (s2 : St)
    (hr : internalizeM h n (rerunSt h s) = .ok ((), s2)) :
    s2.comps = s.comps ∧ s2.hasComp = s.hasComp ∧ (∀ c : Nat, s2.refs[c]! = s.refs[c]! ∨ s2.refs[c]! = []) ∧
    (∀ p : Nat, s2.pirefs[p]! = s.pirefs[p]! ∨ s2.pirefs[p]! = []) := by
  have ha : AllInt (rerunSt h s) := allInt_of_B s hi
  exact (quiet_internalizeM h n (rerunSt h s) () s2 ha hr).2

/-- after the second call the texts are still all internal (so the statement iterates to any number of calls) -/
theorem second_call_keeps_internal (h : Heap) (s : St) (hi : allIntB s = true) (n : Nat) (s2 : St)
    (hr : internalizeM h n (rerunSt h s) = .ok ((), s2)) : AllInt s2 := by
  have ha : AllInt (rerunSt h s) := allInt_of_B s hi
  exact ha.of_rel (quiet_internalizeM h n (rerunSt h s) () s2 ha hr).2

/-- **A document without external references is only inlined.** If every text of the loaded document is internal, the
call adds no component and every text stays as loaded or is cleared. -/
theorem internal_document_only_inlined (h : Heap) (s : St) (hd : internalize h = .done s)
    (hi : allIntB (initSt h) = true) :
    s.comps = (initSt h).comps ∧ ∀ c : Nat, s.refs[c]! = origRef h c ∨ s.refs[c]! = [] := by
  unfold internalize at hd
  split at hd
  · rename_i u s' hrun
    cases hd
    have r := (quiet_internalizeM h _ (initSt h) u s (allInt_of_B _ hi) hrun).2
    exact ⟨r.1, r.2.2.1⟩
  · cases hd
  · cases hd

/-- **The executable spec holds on the final state of every run outside the exclusion classes.** Full-strength statement
(false: the witnesses below): `internalize h = .done s → specB h s = true`. What holds: if none of the decidable exclusion
predicates — NameCollision (F-C16-1), SelfRefComponent (F-C16-3), StaleInternalRef (F-C16-5), UnwalkedExample (F-C16-7),
DiscriminatorMapping (F-C16-8), InlinedCycle (F-C16-9), Unresolved (F-C16-10), and the three that no known input
satisfies: PathItemLeft, EmptyName, a collection name with a slash — holds, then every reference cell is internal and
resolves to content of the class it had, every path item is inlined, every discriminator mapping still selects its
alternative, the document is a finite tree and no component has the empty name. Hence a run on which `specB` fails is in
at least one class: the classes are complete for the model. -/
theorem spec_holds_partial (h : Heap) (s : St) (hd : internalize h = .done s)
    (hk : kindsPlain h = true) (h1 : NameCollision s = false) (h3 : SelfRefComponent h s = false)
    (h5 : StaleInternalRef h s = false) (h7 : UnwalkedExample h s = false) (h8 : DiscriminatorMapping h s = false)
    (h9 : InlinedCycle h s = false) (h10 : Unresolved h = false) (hp : PathItemLeft h s = false)
    (hn : EmptyName h s = false) : specB h s = true := by
  have hcells : (List.range h.cells.size).all (cellOK h s) = true := by
    rw [List.all_eq_true]
    intro c hc
    have hc' : c < h.cells.size := List.mem_range.mp hc
    -- what internalisation left unchanged is right already
    have hun : unchangedBad h s c = false := by
      by_cases hpx : (pexCells h).contains c = true
      · unfold UnwalkedExample at h7
        rw [List.any_eq_false] at h7
        have := h7 c (by simpa using hpx)
        simpa using this
      · unfold StaleInternalRef at h5
        rw [List.any_eq_false] at h5
        have := h5 c hc
        have hpx' : ¬ c ∈ pexCells h := by simpa using hpx
        have := (by simpa using this : ¬c ∈ pexCells h → unchangedBad h s c = false)
        exact this hpx'
    unfold cellOK
    by_cases hv : (cellOf h c).val < 0
    · -- never resolved: by ¬Unresolved the text was empty, and stays empty
      simp only [hv, if_true]
      have hr0 : (cellOf h c).ref = [] := by
        unfold Unresolved at h10
        rw [List.any_eq_false] at h10
        have := h10 (cellOf h c) (cellOf_mem h c hc')
        simp only [hv, decide_true, Bool.true_or, Bool.and_true, Bool.not_eq_true', Bool.not_eq_false,
          List.isEmpty_iff] at this
        simpa using this
      have ho : origRef h c = [] := by rw [origRef_eq h c hc']; exact hr0
      rw [run_invEmpty h s hd c ho, ho]
      rfl
    · simp only [hv, if_false]
      rcases run_invShape h s hd c with h0 | h1' | ⟨ev, hev, hce, nm, hnm, hr⟩
      · rw [h0]; simp [intText, resolvesTo_nil]
      · by_cases ho : origRef h c = []
        · rw [h1', ho]; simp [intText, resolvesTo_nil]
        · unfold unchangedBad at hun
          have hoe : (origRef h c).isEmpty = false := by
            cases hq : origRef h c with
            | nil => exact absurd hq ho
            | cons a t => rfl
          simp only [h1', beq_self_eq_true, hoe, Bool.not_false, Bool.and_self, Bool.true_and, Bool.not_eq_false'] at hun
          unfold cellOK at hun
          simp only [hv, if_false] at hun
          rw [h1'] at hun ⊢
          exact hun
      · have := named_resolves h s hk (run_invNames h s hd) (run_invIdent h s hd) h1 h3 c ev hev hce nm hnm hr
        have hvc : valOf h c = (cellOf h c).val := rfl
        rw [hvc] at this
        rw [this, hr, intText_mkRef]
        rfl
  have hpis : pisOK h s = true := by simpa [PathItemLeft] using hp
  have hmap : mapOK h s = true := by simpa [DiscriminatorMapping] using h8
  have hfin : finiteB h s = true := by simpa [InlinedCycle] using h9
  have hnames : (namesOK s || !h.validBefore) = true := by
    unfold EmptyName at hn
    cases hq : namesOK s <;> cases hw : h.validBefore <;> simp [hq, hw] at hn ⊢
  unfold specB
  rw [hcells, hpis, hmap, hfin, hnames]
  rfl

/-- the same with the hypotheses as one executable predicate (what the driver evaluates) -/
theorem spec_of_hyps_partial (h : Heap) (s : St) (hd : internalize h = .done s) (hh : hypsB h s = true) :
    specB h s = true := by
  unfold hypsB at hh
  simp only [Bool.and_eq_true, Bool.not_eq_true', Bool.not_eq_eq_eq_not, Bool.not_true] at hh
  obtain ⟨⟨⟨⟨⟨⟨⟨⟨⟨a1, a2⟩, a3⟩, a4⟩, a5⟩, a6⟩, a7⟩, a8⟩, a9⟩, a10⟩ := hh
  exact spec_holds_partial h s hd a1 a2 a3 a4 a5 a6 a7 a8 a9 a10

/-- the arrays of texts keep the sizes of the heap's tables: `specB` speaks of every text of the final state -/
theorem run_invSize (h : Heap) (s : St) (hd : internalize h = .done s) : InvSize h s :=
  Reach.invariant (InvSize h) (invSize_step h) (internalize_reach h s hd) (invSize_init h)

/-- where the property holds after the first call, every text of the final state is internal -/
theorem spec_implies_all_internal (h : Heap) (s : St) (hd : internalize h = .done s) (hs : specB h s = true) :
    allIntB s = true := allIntB_of_spec h s (run_invSize h s hd) hs

/-- **Where the property holds after the first call, a second call changes nothing** (adds no component, replaces none,
renames nothing; `second_call_changes_nothing` with its hypothesis discharged by the spec). -/
theorem second_call_after_spec (h : Heap) (s : St) (hd : internalize h = .done s) (hs : specB h s = true)
    (n : Nat) (s2 : St) (hr : internalizeM h n (rerunSt h s) = .ok ((), s2)) :
    s2.comps = s.comps ∧ s2.hasComp = s.hasComp ∧ (∀ c : Nat, s2.refs[c]! = s.refs[c]! ∨ s2.refs[c]! = []) ∧
    (∀ p : Nat, s2.pirefs[p]! = s.pirefs[p]! ∨ s2.pirefs[p]! = []) :=
  second_call_changes_nothing h s (spec_implies_all_internal h s hd hs) n s2 hr

/-- the exclusion classes are complete for the model: a finished run on which the spec fails is in one of them -/
theorem spec_fails_only_in_a_class (h : Heap) (s : St) (hd : internalize h = .done s) (hf : specB h s = false) :
    hypsB h s = false := by
  cases hh : hypsB h s with
  | false => rfl
  | true => rw [spec_of_hyps_partial h s hd hh] at hf; cases hf

end Document

/-! ### witnesses (inside each exclusion the model differs from the spec), regressions, non-vacuity

The heaps are the abstractions of the loaded documents of `corpus/C16/*.json` (Lemmas/C16Heaps.lean, generated; the driver
compares each with what the harness extracts from the real loader on every run). `decide +kernel`: the kernel evaluates
the model, no axiom. -/
section Witnesses
open KinModel.Internalize KinModel.Internalize.Heaps

/-- F-C16-1 at document level: `s/a_b.json` and `s/a/b.json` both become `#/components/schemas/s_a_b`; the second cell
resolves to the first one's content -/
theorem witness_document_name_collision :
    doneB hCollision (fun s => NameCollision s && !specB hCollision s) = true := by decide +kernel

/-- F-C16-3: `components.responses.ext: {$ref: ext.json}` becomes `{$ref: #/components/responses/ext}` -/
theorem witness_self_ref_component :
    doneB hSelfResponse (fun s => SelfRefComponent hSelfResponse s && !specB hSelfResponse s &&
      s.refs[0]! == "#/components/responses/ext".toList) = true := by decide +kernel

/-- F-C16-3 for a whole-document link under components.links (a position the loader resolves since cbb0d05) -/
theorem witness_self_ref_component_link :
    doneB hSelfLink (fun s => SelfRefComponent hSelfLink s && !specB hSelfLink s) = true := by decide +kernel

/-- F-C16-5: the inline path item of an external callback is entered without the flag; its `#/components/schemas/N8`
stays and points into the root document -/
theorem witness_stale_internal_ref_flag_dropped :
    doneB hFlagDropped (fun s => StaleInternalRef hFlagDropped s && !specB hFlagDropped s && !NameCollision s) = true := by
  decide +kernel

/-- F-C16-5: an imported schema first reached through an internal reference of a component that sorts earlier -/
theorem witness_stale_internal_ref_visited_first :
    doneB hFirstReachedInternally (fun s => StaleInternalRef hFirstReachedInternally s && !specB hFirstReachedInternally s) = true := by
  decide +kernel

/-- F-C16-7: `parameters[0].examples.e: {$ref: ex.json}` is never visited: the text stays external -/
theorem witness_unwalked_example :
    doneB hParamExample (fun s => UnwalkedExample hParamExample s && !specB hParamExample s &&
      s.refs[3]! == "ex.json".toList) = true := by decide +kernel

/-- F-C16-7: the example reference inside an imported header keeps its `#/components/examples/E` -/
theorem witness_unwalked_example_imported :
    doneB hHeaderExampleImported (fun s => UnwalkedExample hHeaderExampleImported s && !specB hHeaderExampleImported s) = true := by
  decide +kernel

/-- F-C16-8: the oneOf alternatives are renamed, `discriminator.mapping` keeps `dog.json` / `cat.json` -/
theorem witness_discriminator_mapping :
    doneB hDiscriminator (fun s => DiscriminatorMapping hDiscriminator s && !specB hDiscriminator s &&
      !NameCollision s && !SelfRefComponent hDiscriminator s) = true := by decide +kernel

/-- F-C16-9: `paths./x.post.callbacks.cb.{expr}: {$ref: #/paths/~1x}` — the descent ends (1c81ad5) and leaves an
infinite tree -/
theorem witness_inlined_cycle :
    doneB hInlineCycle (fun s => InlinedCycle hInlineCycle s && !specB hInlineCycle s) = true := by decide +kernel

/-- F-C16-10: the loader left `openapi.json#/components/links/L8` without value; InternalizeRefs leaves it alone (05c5875)
and the text that points to another file stays in the result -/
theorem witness_loader_unresolved :
    doneB hLoaderUnresolved (fun s => Unresolved hLoaderUnresolved && !specB hLoaderUnresolved s &&
      s.refs[2]! == "openapi.json#/components/links/L8".toList) = true := by decide +kernel

/-- regression of F-C16-2 (cbb0d05, b68fdca): a header reference in an encoding entry — internal … -/
theorem regression_encoding_header_internal :
    doneB hEncHeaderInternal (fun s => specB hEncHeaderInternal s && hypsB hEncHeaderInternal s) = true := by decide +kernel

/-- … and external: it is resolved by the loader and internalised as `#/components/headers/h` -/
theorem regression_encoding_header_external :
    doneB hEncHeaderExternal (fun s => specB hEncHeaderExternal s && hypsB hEncHeaderExternal s &&
      s.refs[3]! == "#/components/headers/h".toList) = true := by decide +kernel

/-- regression of F-C16-4 (0a3c233): a whole-document link reference is named after the file it designates -/
theorem regression_whole_document_link_name :
    doneB hLinkWholeFile (fun s => specB hLinkWholeFile s && hypsB hLinkWholeFile s &&
      s.refs[1]! == "#/components/links/common_lin5".toList) = true := by decide +kernel

theorem regression_whole_document_link_resolver :
    defaultName (rootAt "openapi.json") (wholeFile "links" "./common/lin5.json" "common/lin5.json")
      = .name "common_lin5".toList false := by decide

/-- regression of F-C16-6 (1c81ad5): a callback that leads back to itself — the descent ends within its fuel and the
result is right -/
theorem regression_callback_cycle :
    doneB hCallbackCycle (fun s => specB hCallbackCycle s && hypsB hCallbackCycle s) = true := by decide +kernel

theorem regression_callback_cycle_via_paths :
    doneB hCallbackCycleViaPaths (fun s => specB hCallbackCycleViaPaths s && hypsB hCallbackCycleViaPaths s) = true := by
  decide +kernel

/-- a response and a request body that are both named `common_Item`, the response internalised first: both components
exist, each reference leads to its own (the input of seeded C16-r3m2) -/
theorem regression_same_name_two_kinds :
    doneB hSameName (fun s => hypsB hSameName s &&
      (lookup s "responses".toList "common_Item".toList).isSome &&
      (lookup s "requestBodies".toList "common_Item".toList).isSome &&
      s.refs[1]! == "#/components/requestBodies/common_Item".toList) = true := by decide +kernel

/-- a media type without schema: its example and its encoding header are internalised (the input of seeded C16-r3m1) -/
theorem regression_media_type_without_schema :
    doneB hNoSchemaMT (fun s => hypsB hNoSchemaMT s && s.refs[3]! == "#/components/examples/ex".toList &&
      s.refs[1]! == "#/components/headers/h".toList) = true := by decide +kernel

/-- a path item file that is itself a reference (376b90f): the operations arrive, the response below is internalised -/
example : doneB hPathItemFileChain (fun s => hypsB hPathItemFileChain s &&
    s.refs[0]! == "#/components/responses/sub_r".toList) = true := by decide +kernel

/-- non-vacuity of `spec_holds_partial` / of (i)–(iii): documents with external references of several styles satisfy
every hypothesis (and components were added, cells rewritten) -/
example : doneB hWholeAndElement (fun s => hypsB hWholeAndElement s && s.log.any (fun e => e.name?.isSome) &&
    s.refs[1]! == "#/components/schemas/schemas_record_properties_id".toList) = true := by decide +kernel
example : doneB hSharedHeader (fun s => hypsB hSharedHeader s && s.refs[1]! == s.refs[4]! &&
    s.refs[1]! == "#/components/headers/common_h_RL".toList) = true := by decide +kernel
example : doneB hAbsoluteBackref (fun s => hypsB hAbsoluteBackref s && s.refs[2]! == "#/components/schemas/R".toList) = true := by
  decide +kernel
example : doneB hPathItemChain (fun s => hypsB hPathItemChain s && s.visP.length == 3 &&
    s.refs[0]! == "#/components/responses/r".toList) = true := by decide +kernel

/-- non-vacuity of `second_call_changes_nothing`: after the first call on a document with external references (components
were added) all texts are internal, the second call finishes, and leaves texts and components exactly as they were -/
example : doneB hSharedHeader (fun s => allIntB s && s.log.any (fun e => e.name?.isSome) &&
    (match internalizeM hSharedHeader (budget hSharedHeader) (rerunSt hSharedHeader s) with
     | .ok (_, s2) => s2.refs.toList == s.refs.toList && s2.comps.map (·.2.1) == s.comps.map (·.2.1)
     | .error _ => false)) = true := by decide +kernel
example : doneB hPathItemChain (fun s => allIntB s &&
    (match internalizeM hPathItemChain (budget hPathItemChain) (rerunSt hPathItemChain s) with
     | .ok (_, s2) => s2.refs.toList == s.refs.toList && s2.pirefs.toList == s.pirefs.toList
     | .error _ => false)) = true := by decide +kernel
/-- the hypothesis of `second_call_changes_nothing` is needed: started from a state with an external text (here: the
loaded document itself), the call adds components and renames -/
theorem witness_call_on_external_texts_changes :
    allIntB (initSt hSharedHeader) = false ∧
    doneB hSharedHeader (fun s => s.comps.length != (initSt hSharedHeader).comps.length &&
      s.refs[1]! != (initSt hSharedHeader).refs[1]! && !(s.refs[1]!).isEmpty) = true := by decide +kernel
/-- and it is not implied by the first call having finished: where that call leaves an external text (F-C16-7, the example
of a parameter), `allIntB` fails on its final state (and `specB` with it) -/
theorem witness_second_call_hypothesis : doneB hParamExample (fun s => !allIntB s && !specB hParamExample s) = true := by
  decide +kernel
/-- non-vacuity of `second_call_after_spec`: the spec holds after the first call and the second call finishes -/
example : doneB hSharedHeader (fun s => specB hSharedHeader s &&
    (match internalizeM hSharedHeader (budget hSharedHeader) (rerunSt hSharedHeader s) with
     | .ok _ => true | .error _ => false)) = true := by decide +kernel
/-- non-vacuity of `internal_document_only_inlined`: a document whose only reference is internal -/
example : allIntB (initSt hEncHeaderInternal) = true ∧ doneB hEncHeaderInternal (fun _ => true) = true := by decide +kernel

end Witnesses

end KinModel.RefName
