/-
C16 — internalising refs yields a self-contained, equivalent document.
Property theorems only (models: KinModel/RefName.lean, KinModel/Internalize.lean).
-/
import KinModel.Internalize
import KinModel.Lemmas.C16Table
namespace KinModel.RefName

/-! ### the resolver's loops end for every input (the repair of #18 made this provable) -/

theorem length_dropWhile_le_str (q : Char → Bool) : ∀ l : Str, (l.dropWhile q).length ≤ l.length
  | [] => by simp
  | a :: t => by
    simp only [List.dropWhile]
    split
    · have := length_dropWhile_le_str q t; simp; omega
    · simp

theorem uptoLastSlash_length_le (p : Str) : (uptoLastSlash p).length ≤ p.length := by
  unfold uptoLastSlash
  have h := length_dropWhile_le_str (fun c => c != '/') p.reverse
  simpa using h

/-- path.Dir on clean paths ends at "." or at its fixed point "/", or strictly shortens the path -/
theorem dirC_cases (d : Str) : dirC d = ['.'] ∨ dirC d = d ∨ (dirC d).length < d.length := by
  unfold dirC
  have hle := uptoLastSlash_length_le d
  by_cases h1 : (uptoLastSlash d).isEmpty
  · simp [h1]
  · by_cases h2 : uptoLastSlash d == ['/']
    · simp only [h1, h2, if_true, Bool.false_eq_true, if_false]
      have h2' : uptoLastSlash d = ['/'] := by simpa using h2
      rw [h2'] at hle
      by_cases hd : d = ['/']
      · right; left; exact hd.symm
      · right; right
        have : 1 ≤ d.length := by simpa using hle
        cases d with
        | nil => simp at this
        | cons a t =>
          cases t with
          | nil =>
            exfalso
            -- d = [a] and uptoLastSlash [a] = ['/'] forces a = '/'
            have : a = '/' := by
              by_cases ha : a = '/'
              · exact ha
              · simp [uptoLastSlash, List.dropWhile, ha] at h2'
            exact hd (by rw [this])
          | cons b t' => simp
    · simp only [h1, h2, Bool.false_eq_true, if_false]
      right; right
      have hne : uptoLastSlash d ≠ [] := by simpa using h1
      have : (uptoLastSlash d).dropLast.length < (uptoLastSlash d).length := by
        cases hu : uptoLastSlash d with
        | nil => exact absurd hu hne
        | cons a t => simp
      omega

theorem trimLoop_dot (n : Nat) (f : Str) : trimLoop (n + 1) f ['.'] = some f := by
  simp [trimLoop]

/-- **the common-directory loop of DefaultRefNameResolver ends** for every file path and every (clean) root
directory, absolute or relative — also when the file is the root document itself (finding #18, repaired) -/
theorem trimLoop_terminates (f : Str) : ∀ (n : Nat) (d : Str), d.length + 2 ≤ n → trimLoop n f d ≠ none := by
  intro n
  induction n with
  | zero => intro d h; omega
  | succ n ih =>
    intro d h
    unfold trimLoop
    by_cases hdot : (d == ['.']) = true
    · simp [hdot]
    · simp only [hdot, Bool.false_eq_true, if_false]
      cases hc : cutDirectories f d with
      | mk p found =>
        cases found with
        | true => simp
        | false =>
          simp only
          by_cases hfix : (dirC d == d) = true
          · simp [hfix]
          · simp only [hfix, Bool.false_eq_true, if_false]
            rcases dirC_cases d with h1 | h2 | h3
            · rw [h1]
              cases n with
              | zero => omega
              | succ m => rw [trimLoop_dot]; simp
            · exfalso; apply hfix; simp [h2]
            · exact ih (dirC d) (by omega)

theorem pathExt_nil : pathExt [] = [] := by simp [pathExt, extRev]

/-- **the extension-stripping loop ends** for every file path -/
theorem extLoop_terminates : ∀ (n : Nat) (f : Str), f.length + 1 ≤ n → extLoop n f ≠ none := by
  intro n
  induction n with
  | zero => intro f h; omega
  | succ n ih =>
    intro f h
    unfold extLoop
    by_cases he : (pathExt f).isEmpty = true
    · simp [he]
    · simp only [he, Bool.false_eq_true, if_false]
      apply ih
      have hne : pathExt f ≠ [] := by simpa using he
      have hf : f ≠ [] := by
        intro hf; apply hne; rw [hf]; exact pathExt_nil
      have h1 : 1 ≤ (pathExt f).length := by
        cases hp : pathExt f with
        | nil => exact absurd hp hne
        | cons a t => simp
      have h2 : 1 ≤ f.length := by
        cases f with
        | nil => exact absurd rfl hf
        | cons a t => simp
      have : (f.take (f.length - (pathExt f).length)).length ≤ f.length - (pathExt f).length := by
        simp [List.length_take]
      omega

theorem trimCommon_total (root : RootInfo) (f : Str) : trimCommon root f ≠ none := by
  unfold trimCommon
  cases root.url with
  | none => simp
  | some u => exact trimLoop_terminates f _ _ (Nat.le_refl _)

theorem fileNamePart_total (root : RootInfo) (p : Str) : fileNamePart root p ≠ none := by
  unfold fileNamePart
  by_cases hp : p.isEmpty = true
  · simp [hp]
  · simp only [hp, Bool.false_eq_true, if_false]
    cases he : extLoop ((sameAsRoot root p).length + 1) (sameAsRoot root p) with
    | none => exact absurd he (extLoop_terminates _ _ (Nat.le_refl _))
    | some f2 => exact trimCommon_total root f2

theorem nameOf_total (root : RootInfo) (coll : Str) (amb : Bool) (nm : Option (Str × Str)) :
    nameOf root coll amb nm ≠ .fuel := by
  unfold nameOf
  cases nm with
  | none => simp
  | some fc =>
    obtain ⟨filePath, componentPath⟩ := fc
    simp only
    cases hfp : fileNamePart root filePath with
    | none => exact absurd hfp (fileNamePart_total root filePath)
    | some fp => simp

/-- **DefaultRefNameResolver never loops**: for every root document and every reference the model returns a name
or the documented panic, never `fuel` -/
theorem defaultName_total (root : RootInfo) (r : RefInfo) : defaultName root r ≠ .fuel := by
  unfold defaultName
  by_cases h1 : r.ref.isEmpty = true
  · simp [h1]
  · simp only [h1, Bool.false_eq_true, if_false]
    cases r.refPath with
    | none => simp
    | some rp => exact nameOf_total _ _ _ _

/-! ### the generated name only contains identifier characters (contract of RefNameResolver) -/

theorem sanitize_ident (s : Str) : ∀ c ∈ sanitize s, identChar c = true := by
  intro c hc
  unfold sanitize at hc
  rw [List.mem_map] at hc
  obtain ⟨a, _, ha⟩ := hc
  by_cases h : identChar a = true
  · simp [h] at ha; rw [← ha]; exact h
  · simp [h] at ha; rw [← ha]; decide

theorem assemble_ident (f c : Str) : ∀ x ∈ assemble f c, identChar x = true := by
  unfold assemble
  exact sanitize_ident _

theorem nameOf_ident (root : RootInfo) (coll : Str) (amb amb' : Bool) (nm : Option (Str × Str)) (s : Str)
    (h : nameOf root coll amb nm = .name s amb') : ∀ x ∈ s, identChar x = true := by
  unfold nameOf at h
  cases nm with
  | none => simp at h
  | some fc =>
    obtain ⟨filePath, componentPath⟩ := fc
    simp only at h
    cases hfp : fileNamePart root filePath with
    | none => simp [hfp] at h
    | some fp =>
      simp only [hfp] at h
      injection h with hs _
      rw [← hs]
      exact assemble_ident _ _

/-- every name the resolver returns consists of characters allowed in component names -/
theorem defaultName_ident (root : RootInfo) (r : RefInfo) (s : Str) (amb : Bool)
    (h : defaultName root r = .name s amb) : ∀ x ∈ s, identChar x = true := by
  unfold defaultName at h
  by_cases h1 : r.ref.isEmpty = true
  · simp [h1] at h
  · simp only [h1, Bool.false_eq_true, if_false] at h
    cases hrp : r.refPath with
    | none => simp [hrp] at h
    | some rp =>
      simp only [hrp] at h
      exact nameOf_ident _ _ _ _ _ _ h

/-! ### "distinct external targets are never merged under one component name" — FALSE of the default resolver

Full-strength statement (not provable, the witnesses below refute it):
  `∀ root r₁ r₂, r₁.refPath ≠ r₂.refPath → defaultName root r₁ ≠ defaultName root r₂`.
What holds is stated for the file-name part under the explicit exclusion `Unplain` (see `joinUnderscore_injective_partial`). -/

/-- exclusion predicate of the injectivity theorem: a character other than a letter, digit, '.', '-' or the
    separator '/' — i.e. an underscore or a character the resolver replaces by an underscore -/
def plainChar (c : Char) : Bool := (identChar c && c != '_') || c == '/'
def Unplain (s : Str) : Bool := s.any (fun c => !plainChar c)

theorem sanitize_char_injective (a b : Char) (ha : plainChar a = true) (hb : plainChar b = true)
    (h : (if identChar a then a else '_') = (if identChar b then b else '_')) : a = b := by
  unfold plainChar at ha hb
  by_cases ia : identChar a = true <;> by_cases ib : identChar b = true
  · simpa [ia, ib] using h
  · simp only [ia, ib, if_true, Bool.false_eq_true, if_false] at h
    simp [h] at ha
  · simp only [ia, ib, if_true, Bool.false_eq_true, if_false] at h
    simp [← h] at hb
  · have ea : a = '/' := by simpa [ia] using ha
    have eb : b = '/' := by simpa [ib] using hb
    rw [ea, eb]

/-- replacing invalid characters is injective on strings without underscores and invalid characters -/
theorem sanitize_injective_partial : ∀ (a b : Str), Unplain a = false → Unplain b = false →
    sanitize a = sanitize b → a = b
  | [], [], _, _, _ => rfl
  | [], _ :: _, _, _, h => by simp [sanitize] at h
  | _ :: _, [], _, _, h => by simp [sanitize] at h
  | x :: xs, y :: ys, ha, hb, h => by
    simp only [Unplain, List.any_cons, Bool.or_eq_false_iff, Bool.not_eq_false'] at ha hb
    simp only [sanitize, List.map_cons, List.cons.injEq] at h
    have hxy := sanitize_char_injective x y ha.1 hb.1 h.1
    have := sanitize_injective_partial xs ys (by simpa [Unplain] using ha.2) (by simpa [Unplain] using hb.2)
      (by simpa [sanitize] using h.2)
    rw [hxy, this]

/-- **name_injective_partial.** Two file-name parts (root-relative, extensions stripped) that contain no underscore
and no character the resolver replaces, and do not start with '.' or '/', get different component names unless they
are equal. Outside the exclusion the three collision witnesses below show that the statement fails. -/
theorem name_injective_partial (f g : Str) (hf : Unplain f = false) (hg : Unplain g = false)
    (hf0 : trimLeft f dotSlash = f) (hg0 : trimLeft g dotSlash = g)
    (h : assemble f [] = assemble g []) : f = g := by
  unfold assemble at h
  by_cases ef : f.isEmpty = true <;> by_cases eg : g.isEmpty = true
  · have : f = [] := by simpa using ef
    have : g = [] := by simpa using eg
    simp_all
  · have e1 : f = [] := by simpa using ef
    simp only [ef, eg, hg0, if_true, Bool.false_eq_true, if_false, List.isEmpty_nil] at h
    have := sanitize_injective_partial [] g rfl hg (by simpa using h)
    rw [e1, this]
  · have e1 : g = [] := by simpa using eg
    simp only [ef, eg, hf0, if_true, Bool.false_eq_true, if_false, List.isEmpty_nil] at h
    have := sanitize_injective_partial f [] hf rfl (by simpa using h)
    rw [e1, this]
  · simp only [ef, eg, hf0, hg0, if_true, Bool.false_eq_true, if_false, List.isEmpty_nil] at h
    exact sanitize_injective_partial f g hf hg h

/-- non-vacuity: plain nested paths satisfy the hypotheses; the #17 witness is inside the exclusion -/
example : Unplain "schemas/sub/record.v1".toList = false ∧ trimLeft "schemas/sub/record".toList dotSlash = "schemas/sub/record".toList := by decide
theorem witness_unplain : Unplain "s/a_b".toList = true ∧ assemble "s/a_b".toList [] = assemble "s/a/b".toList [] ∧ "s/a_b".toList ≠ "s/a/b".toList := by decide

def rootAt (u : String) : RootInfo := { url := some u.toList, hasComponents := true, comps := [] }
def wholeFile (coll ref path : String) : RefInfo := { ref := ref.toList, refPath := some (path.toList, []), coll := coll.toList }
def element (coll ref path frag : String) : RefInfo := { ref := ref.toList, refPath := some (path.toList, frag.toList), coll := coll.toList }

/-- finding #17: `s/a_b.json` and `s/a/b.json` are both named `s_a_b` -/
theorem witness_collision_underscore_slash :
    defaultName (rootAt "openapi.json") (wholeFile "schemas" "s/a_b.json" "s/a_b.json") = .name "s_a_b".toList false ∧
    defaultName (rootAt "openapi.json") (wholeFile "schemas" "s/a/b.json" "s/a/b.json") = .name "s_a_b".toList false := by
  decide

/-- the "common directory" is removed as a STRING prefix: under the root `a/openapi.json` the files `ab/x.json` and
`b/x.json` are both named `b_x` -/
theorem witness_collision_prefix_trim :
    defaultName (rootAt "a/openapi.json") (wholeFile "schemas" "../ab/x.json" "ab/x.json") = .name "b_x".toList false ∧
    defaultName (rootAt "a/openapi.json") (wholeFile "schemas" "../b/x.json" "b/x.json") = .name "b_x".toList false := by
  decide

/-- a file and an element of another file: `a/b/C.json` and `a/b.json#/components/schemas/C` are both named `a_b_C` -/
theorem witness_collision_file_vs_fragment :
    defaultName (rootAt "openapi.json") (wholeFile "schemas" "a/b/C.json" "a/b/C.json") = .name "a_b_C".toList false ∧
    defaultName (rootAt "openapi.json") (element "schemas" "a/b.json#/components/schemas/C" "a/b.json" "/components/schemas/C")
      = .name "a_b_C".toList false := by
  decide

/-- a root component that is a whole-document reference matches ITSELF in ReferencesComponentInRootDocument and is
given its own name: for collections whose top level is not dereferenced it becomes `X: {$ref: #/components/…/X}` -/
theorem witness_self_match :
    defaultName { url := some "openapi.json".toList, hasComponents := true,
                  comps := [("T1".toList, "ext.json".toList, some ("ext.json".toList, []))] }
      (wholeFile "responses" "ext.json" "ext.json") = .name "T1".toList false := by
  decide

/-- when the recorded RefPath is the root document itself and the reference has no fragment (what the loader records
for whole-document link/example/securityScheme references made in the root), the generated name is EMPTY -/
theorem witness_empty_name :
    defaultName (rootAt "openapi.json") (wholeFile "links" "common/l.json" "openapi.json") = .name [] false := by
  decide

/-- after the repair of #18: a reference back into the root document loaded from an ABSOLUTE path is named -/
theorem regression_absolute_root_backref :
    defaultName (rootAt "/r/a/openapi.json")
      (element "schemas" "openapi.json#/components/schemas/R" "/r/a/openapi.json" "/components/schemas/R") = .name "R".toList false := by
  decide

/-- non-vacuity of the totality theorems: a relative and an absolute layout, nested directories, double extension -/
example : defaultName (rootAt "/r/a/openapi.json") (wholeFile "schemas" "sub/deep/x.v1.json" "/r/a/sub/deep/x.v1.json")
    = .name "sub_deep_x".toList false := by decide
example : defaultName (rootAt "a/openapi.json") (element "parameters" "defs.json#/components/parameters/P" "a/defs.json" "/components/parameters/P")
    = .name "defs_P".toList false := by decide

/-! ### translator tie: the descent written in openapi3/internalize_refs.go is the one the model implements -/

/-- every call the extractor met had the shape it can read -/
theorem internalized_all_recognised : KinModel.Gen.internalized.all (fun r => !KinModel.Gen.isUnrecognised r) = true := by
  decide

/-- the regenerated call table (order, arguments, flag expressions) equals the table the model was written from -/
theorem internalized_matches_model : KinModel.Gen.internalized = KinModel.Gen.modelDescent := by
  decide

/-! ### the parent-is-external flag -/
section Flag
open KinModel.Internalize

/-- with the parent-is-external flag every non-empty reference is treated as external -/
theorem isExternalRef_parent (r : Str) : isExternalRef r true = !r.isEmpty := by
  simp [isExternalRef]

/-- an empty $ref is never external, WHATEVER the flag: `derefPaths` computes
`pathIsExternal := isExternalRef(ops.Ref, parentIsExternal)` and thereby drops the flag for every inline path item of
an external callback (finding F-C16-5) -/
theorem witness_flag_dropped : isExternalRef [] true = false := by
  simp [isExternalRef]

/-- a reference that is not under `#/components/` is external also without the flag (e.g. `#/paths/~1x/…`, `x.json`) -/
theorem isExternalRef_foreign (r : Str) (p : Bool) (h1 : r ≠ []) (h2 : hasCompPrefix r = false) :
    isExternalRef r p = true := by
  simp [isExternalRef, h1, h2]

end Flag

end KinModel.RefName
