/-
C06 — request bodies: media-type match, decoding, request-side rules.
Property theorems only (model and spec: KinModel/Body.lean; helper lemmas: KinModel/Lemmas/C06.lean).
-/
import KinModel.Body
import KinModel.Lemmas.C06
import KinModel.Lemmas.C06Text
import KinModel.Lemmas.C06Dflt
import KinModel.Gen.BodyDecoders
import KinModel.Gen.MediaTypeMatch
namespace KinModel.Body

/-! ## (T) the decoder registry of the model is the one the source builds -/

/-- the translator could read every registry statement of the source -/
theorem registry_table_recognised :
    Gen.bodyDecoders.all (fun r => match r with | .unrecognised _ => false | .reg _ _ => true) = true := by decide

/-- the model's registry is, entry by entry and in order, the list of `RegisterBodyDecoder` calls of
`openapi3filter`'s `init` (regenerated from the working tree on every run) -/
theorem registry_matches_source :
    Gen.bodyDecoders.map (fun r => match r with | .reg k d => (k, d) | .unrecognised s => (s, "")) = registrySrc := by
  decide

/-- every registered decoder name is one the model knows (no entry is silently dropped by `registryOf`) -/
theorem registry_complete : (registryOf registrySrc).length = registrySrc.length := by decide

/-- the four media types the property names are routed to the four decoders the model describes, and the
registry has no two entries for one media type (it is a Go map) -/
theorem registry_routes :
    lookup "application/json".toList registry = some .json ∧
    lookup "application/x-www-form-urlencoded".toList registry = some .urlencoded ∧
    lookup "multipart/form-data".toList registry = some .multipart ∧
    lookup "text/plain".toList registry = some .plain ∧
    (keys registry).Nodup := by decide

/-! ## (T2) the media-type matching code of the model is the code of the source -/

def stepOfGen : Gen.MatchStep → Option Step
  | .emptyRet k => some (.emptyRet k.toList)
  | .tryMime => some .tryMime
  | .cutFirst c => some (.cutFirst c)
  | .cutFirstOrNil c s => some (.cutFirstOrNil c s.toList)
  | .retKey k => some (.retKey k.toList)
  | .prefixBefore c => some (.prefixBefore c)
  | .unrecognised _ => none

/-- every statement of `Content.Get` and of `parseMediaType` was read (no `unrecognised` row), and statement by
statement they are the programs the model was written from -/
theorem matching_code_is_source :
    Gen.contentGetSteps.map stepOfGen = contentGetProgram.map some ∧
    Gen.parseMediaTypeSteps.map stepOfGen = parseMediaTypeProgram.map some := by decide

theorem majorType_eq_cut (m : Str) : majorType m = if m.contains '/' then some (cutAt '/' m) else none := by
  induction m with
  | nil => rfl
  | cons c cs ih =>
    unfold majorType cutAt
    by_cases hc : c = '/'
    · simp [hc]
    · have hc' : ('/' == c) = false := by simpa using fun h => hc h.symm
      simp only [hc, if_false, ih, List.contains_cons, hc', Bool.false_or, ne_eq, not_false_eq_true, decide_true,
        List.takeWhile_cons_of_pos]
      cases cs.contains '/' <;> simp [cutAt]

/-- **the model of `Content.Get` is the meaning of that program**, for every content map and every header text;
and `base` (the model of `parseMediaType`) is the meaning of the one-step program -/
theorem contentGet_is_program {α : Type} (c : List (Str × α)) (mime : Str) :
    runSteps c contentGetProgram mime = contentGet c mime := by
  unfold contentGetProgram contentGet
  simp only [runSteps]
  by_cases hm : mime = []
  · simp [hm]
  · simp only [hm, if_false]
    cases lookup mime c with
    | some v => rfl
    | none =>
      simp only
      have hb : cutAt ';' mime = base mime := rfl
      rw [hb]
      cases lookup (base mime) c with
      | some v => rfl
      | none =>
        simp only
        rw [majorType_eq_cut]
        cases (base mime).contains '/' with
        | false => simp
        | true => simp only [if_true]

theorem base_is_program (m : Str) : base m = cutAt ';' m := rfl

/-! ## (a) media-type selection -/

/-- **C06(a).** The media type chosen by `Content.Get` is the first declared one in the documented precedence
order: the exact header text, then the text without parameters, then `type/*`, then `*/*`; an empty header
only matches `*/*`; a header without `/` never matches a wildcard. -/
theorem contentGet_spec {α : Type} (c : List (Str × α)) (mime : Str) :
    contentGet c mime = firstSome c (candidates mime) := by
  unfold contentGet candidates
  by_cases h : mime = []
  · simp [h, firstSome]; cases lookup star c <;> rfl
  · simp only [h, if_false]
    cases h1 : lookup mime c with
    | some v => cases majorType (base mime) <;> simp [firstSome, h1]
    | none =>
      cases h2 : lookup (base mime) c with
      | some v => cases majorType (base mime) <;> simp [firstSome, h1, h2]
      | none =>
        cases h3 : majorType (base mime) with
        | none => simp [firstSome, h1, h2]
        | some t =>
          cases h4 : lookup (t ++ slashStar) c with
          | some v => simp [firstSome, h1, h2, h4]
          | none => simp [firstSome, h1, h2, h4]; cases lookup star c <;> rfl

/-- an entry declared under exactly the header text (parameters included) wins over every other entry -/
theorem exact_wins {α : Type} (c : List (Str × α)) (mime : Str) (v : α) (hne : mime ≠ [])
    (h : lookup mime c = some v) : contentGet c mime = some v := by
  simp [contentGet, hne, h]

/-- without an exact entry, the entry for the text before the first ';' is used -/
theorem params_fall_back_to_base {α : Type} (c : List (Str × α)) (mime : Str) (v : α) (hne : mime ≠ [])
    (h1 : lookup mime c = none) (h2 : lookup (base mime) c = some v) : contentGet c mime = some v := by
  simp [contentGet, hne, h1, h2]

/-- an empty Content-Type is only ever matched by `*/*` -/
theorem empty_mime_only_star {α : Type} (c : List (Str × α)) : contentGet c [] = lookup star c := by
  simp [contentGet]

/-- a header text without '/' is never matched by a wildcard entry -/
theorem no_slash_no_wildcard {α : Type} (c : List (Str × α)) (mime : Str) (hne : mime ≠ [])
    (h1 : lookup mime c = none) (h2 : lookup (base mime) c = none) (h3 : majorType (base mime) = none) :
    contentGet c mime = none := by
  simp [contentGet, hne, h1, h2, h3]

/-- nothing declared under any of the four candidate keys ⇒ the content type is undeclared -/
theorem undeclared_iff {α : Type} (c : List (Str × α)) (mime : Str) :
    contentGet c mime = none ↔ ∀ k ∈ candidates mime, lookup k c = none := by
  rw [contentGet_spec]
  generalize candidates mime = l
  induction l with
  | nil => simp [firstSome]
  | cons k ks ih =>
    simp only [firstSome, List.mem_cons, forall_eq_or_imp]
    cases hk : lookup k c with
    | none => simpa using ih
    | some v => simp

/-- **C06(a), key by key.** Against the rank of every declared key (no search order involved): the entry chosen
by `Content.Get` is declared under a matching key, and **no other declared key matches more specifically** — for
every pair of declared keys that match the header, the one of lower rank wins; nothing is chosen iff no declared
key matches at all. (Keys of the content map are distinct.) -/
theorem contentGet_minimal_rank {α : Type} (c : List (Str × α)) (mime : Str) (v : α)
    (h : contentGet c mime = some v) :
    ∃ k r, (k, v) ∈ c ∧ rank mime k = some r ∧ ∀ k' v', (k', v') ∈ c → ∀ r', rank mime k' = some r' → r ≤ r' := by
  have nomem : ∀ k' (v' : α), (k', v') ∈ c → lookup k' c ≠ none := by
    intro k' v' hm hl
    obtain ⟨w, hw⟩ := lookup_isSome_of_mem_keys k' c (mem_keys_of_mem k' v' c hm)
    rw [hl] at hw; cases hw
  unfold contentGet at h
  by_cases hm : mime = []
  · simp only [hm, if_true] at h
    refine ⟨star, 3, lookup_some_mem _ _ _ h, by simp [rank, hm], ?_⟩
    intro k' v' _ r' hr
    simp only [rank, hm, if_true] at hr
    split at hr <;> simp_all
  · simp only [hm, if_false] at h
    cases h1 : lookup mime c with
    | some w =>
      simp only [h1, Option.some.injEq] at h; subst h
      exact ⟨mime, 0, lookup_some_mem _ _ _ h1, by simp [rank, hm], fun _ _ _ _ _ => Nat.zero_le _⟩
    | none =>
      simp only [h1] at h
      cases h2 : lookup (base mime) c with
      | some w =>
        simp only [h2, Option.some.injEq] at h; subst h
        have hne : base mime ≠ mime := by intro e; rw [e] at h2; rw [h1] at h2; cases h2
        refine ⟨base mime, 1, lookup_some_mem _ _ _ h2, by simp [rank, hm, hne], ?_⟩
        intro k' v' hk' r' hr
        simp only [rank, hm, if_false] at hr
        by_cases e0 : k' = mime
        · subst e0; exact absurd h1 (nomem _ _ hk')
        · simp only [e0, if_false] at hr
          by_cases e1 : k' = base mime
          · simp only [e1, if_true, Option.some.injEq] at hr; omega
          · simp only [e1, if_false] at hr
            cases hmt : majorType (base mime) with
            | none => simp [hmt] at hr
            | some t => simp only [hmt] at hr; split at hr <;> (try split at hr) <;> simp_all <;> omega
      | none =>
        simp only [h2] at h
        cases hmt : majorType (base mime) with
        | none => simp [hmt] at h
        | some t =>
          simp only [hmt] at h
          cases h3 : lookup (t ++ slashStar) c with
          | some w =>
            simp only [h3, Option.some.injEq] at h; subst h
            have hn0 : t ++ slashStar ≠ mime := by intro e; rw [e] at h3; rw [h1] at h3; cases h3
            have hn1 : t ++ slashStar ≠ base mime := by intro e; rw [e] at h3; rw [h2] at h3; cases h3
            refine ⟨t ++ slashStar, 2, lookup_some_mem _ _ _ h3, by simp [rank, hm, hn0, hn1, hmt], ?_⟩
            intro k' v' hk' r' hr
            simp only [rank, hm, if_false, hmt] at hr
            by_cases e0 : k' = mime
            · subst e0; exact absurd h1 (nomem _ _ hk')
            · by_cases e1 : k' = base mime
              · subst e1; exact absurd h2 (nomem _ _ hk')
              · simp only [e0, e1, if_false] at hr
                split at hr <;> (try split at hr) <;> simp_all <;> omega
          | none =>
            simp only [h3] at h
            have hn0 : star ≠ mime := by intro e; rw [← e] at h1; rw [h1] at h; cases h
            have hn1 : star ≠ base mime := by intro e; rw [← e] at h2; rw [h2] at h; cases h
            have hn2 : star ≠ t ++ slashStar := by intro e; rw [← e] at h3; rw [h3] at h; cases h
            refine ⟨star, 3, lookup_some_mem _ _ _ h, by simp [rank, hm, hn0, hn1, hn2, hmt], ?_⟩
            intro k' v' hk' r' hr
            simp only [rank, hm, if_false, hmt] at hr
            by_cases e0 : k' = mime
            · subst e0; exact absurd h1 (nomem _ _ hk')
            · by_cases e1 : k' = base mime
              · subst e1; exact absurd h2 (nomem _ _ hk')
              · by_cases e2 : k' = t ++ slashStar
                · subst e2; exact absurd h3 (nomem _ _ hk')
                · simp only [e0, e1, e2, if_false] at hr
                  split at hr <;> simp_all

/-- … and nothing is chosen exactly when no declared key matches the header at any level -/
theorem contentGet_none_iff_no_rank {α : Type} (c : List (Str × α)) (mime : Str) :
    contentGet c mime = none ↔ ∀ k v, (k, v) ∈ c → rank mime k = none := by
  rw [undeclared_iff]
  have key : ∀ k, rank mime k ≠ none ↔ k ∈ candidates mime := by
    intro k
    unfold rank candidates
    by_cases hm : mime = []
    · simp only [hm, if_true, List.mem_singleton]; split <;> simp_all
    · simp only [hm, if_false]
      by_cases e0 : k = mime
      · cases majorType (base mime) <;> simp [e0]
      · by_cases e1 : k = base mime
        · subst e1; cases majorType (base mime) <;> simp [e0]
        · cases hmt : majorType (base mime) with
          | none => simp [e0, e1]
          | some t =>
            simp only [e0, e1, if_false, List.mem_cons, false_or, List.not_mem_nil, or_false]
            split <;> (try split) <;> simp_all
  constructor
  · intro h k v hkv
    cases hr : rank mime k with
    | none => rfl
    | some r =>
      have hc := (key k).mp (by rw [hr]; simp)
      have := h k hc
      obtain ⟨w, hw⟩ := lookup_isSome_of_mem_keys k c (mem_keys_of_mem k v c hkv)
      rw [this] at hw; cases hw
  · intro h k hk
    cases hl : lookup k c with
    | none => rfl
    | some w =>
      have := h k w (lookup_some_mem k c w hl)
      exact absurd this ((key k).mpr hk)

example : contentGet [("application/json".toList, 1), ("application/*".toList, 2), (star, 3)]
    "application/json; charset=utf-8".toList = some 1 := by decide
example : contentGet [("application/json; charset=utf-8".toList, 0), ("application/json".toList, 1)]
    "application/json; charset=utf-8".toList = some 0 := by decide
example : contentGet [("application/*".toList, 2), (star, 3)] "application/xml".toList = some 2 := by decide
example : contentGet [("application/*".toList, 2), (star, 3)] "text/plain".toList = some 3 := by decide
example : contentGet [("application/*".toList, 2), (star, 3)] "application".toList = (none : Option Nat) := by decide

/-! ## (b) decision table of `ValidateRequestBody` -/

section decision
variable (reg : List (Str × DecK)) (rb : ReqBody) (ct : Str) (b : BodyIn) (exro : Bool)

/-- a missing body is rejected exactly when the body is required -/
theorem missing_iff : validateRequestBody reg rb ct b exro = .missing ↔ b.text = [] ∧ rb.required = true := by
  unfold validateRequestBody
  by_cases h : b.text = []
  · cases rb.required <;> simp [h]
  · simp only [h, if_false, false_and, iff_false]
    split
    · simp
    · split
      · simp
      · split
        · simp
        · split <;> (try simp) ; split <;> simp

/-- an empty body that is not required is accepted, whatever is declared and whatever the header says -/
theorem empty_optional_ok (h : b.text = []) (hr : rb.required = false) :
    validateRequestBody reg rb ct b exro = .ok := by
  simp [validateRequestBody, h, hr]

/-- a non-empty body whose content type is not declared (under none of the candidate keys) is rejected -/
theorem undeclared_rejected (h : b.text ≠ []) (hc : rb.content ≠ []) (hn : contentGet rb.content ct = none) :
    validateRequestBody reg rb ct b exro = .badCT := by
  simp [validateRequestBody, h, hc, hn]

/-- a selected media type without schema accepts every non-empty body -/
theorem no_schema_accepts (h : b.text ≠ []) (hc : rb.content ≠ []) (mt : MediaType)
    (hs : contentGet rb.content ct = some mt) (hn : mt.schema = none) :
    validateRequestBody reg rb ct b exro = .ok := by
  simp [validateRequestBody, h, hc, hs, hn]

/-- otherwise the body is decoded with the decoder registered for the request's media type and the verdict is
the request-side validation of the decoded value; a decoding error rejects -/
theorem decoded_then_validated (h : b.text ≠ []) (hc : rb.content ≠ []) (mt : MediaType) (s : RS)
    (hs : contentGet rb.content ct = some mt) (hn : mt.schema = some s) :
    validateRequestBody reg rb ct b exro =
      (match decodeBody reg ct s mt.encs b with
       | .err => .decodeErr | .panic => .panic | .unmodelled => .unmodelled
       | .val v => if visit exro s v then .ok else .schemaErr) := by
  simp only [validateRequestBody, h, hc, hs, hn, if_false]
  cases decodeBody reg ct s mt.encs b <;> rfl

/-- the decoder is chosen by the header without parameters; a media type without registered decoder is a
decoding error even when a wildcard entry declares it -/
theorem unregistered_type_rejected (s : RS) (encs : List (Str × Enc)) (h : lookup (base ct) reg = none) :
    decodeBody reg ct s encs b = .err := by
  simp [decodeBody, h]

end decision

/-! ## (c) request-side reading of schemas (own keywords and `not` / `oneOf` / `anyOf` / `allOf`) -/

/-- The code's control flow computes the clause-by-clause verdict: the null pre-check, the shortcut for empty
schemas and "null after a composition needs no own keywords" change nothing, at any depth of properties,
items and composition members, for both settings of the exclusion option. -/
theorem visit_eq_satReqB (exro : Bool) : ∀ (s : RS) (v : V), visit exro s v = satReqB exro s v := by
  have key := visitV.mutual_induct
    (motive_1 := fun v => visitV exro v = satVB exro v)
    (motive_2 := fun kvs => visitFields exro kvs = satFieldsB exro kvs)
    (motive_3 := fun xs => visitItems exro xs = satItemsB exro xs)
  have nonnull : ∀ (own : RS → Bool), (∀ s, isEmptyLeaf s = true → own s = true) →
      (fun s => comp false own s) = (fun s => satCB false own s) := by
    intro own hE
    funext s
    exact comp_eq_satCB false own own (fun _ _ => rfl) (fun _ => hE) (fun h => by cases h) s
  have h := (key ?null ?bool ?int ?half ?str ?arr ?obj ?inil ?icons ?fnil ?fcons).1
  · intro s v; unfold visit satReqB; rw [h v]
  case null =>
    unfold visitV satVB
    funext s
    exact comp_eq_satCB true _ _ (fun h => by cases h) (fun h => by cases h) (fun _ _ => rfl) s
  case bool => intro b; unfold visitV satVB; exact nonnull _ (fun s h => (own_of_emptyLeaf s h).1)
  case int => intro n; unfold visitV satVB; exact nonnull _ (fun s h => (own_of_emptyLeaf s h).2.1 n)
  case half => intro n; unfold visitV satVB; exact nonnull _ (fun s h => (own_of_emptyLeaf s h).2.2.1 n)
  case str => intro t; unfold visitV satVB; exact nonnull _ (fun s h => (own_of_emptyLeaf s h).2.2.2.1 t)
  case arr =>
    intro xs ih; unfold visitV satVB; rw [ih]
    exact nonnull _ (fun s h => (own_of_emptyLeaf s h).2.2.2.2.1 _)
  case obj =>
    intro kvs ih; unfold visitV satVB; rw [ih]
    exact nonnull _ (fun s h => (own_of_emptyLeaf s h).2.2.2.2.2 exro _)
  case inil => rfl
  case icons => intro v r ih1 ih2; unfold visitItems satItemsB; rw [ih1, ih2]
  case fnil => rfl
  case fcons => intro k v r ih1 ih2; unfold visitFields satFieldsB; rw [ih1, ih2]

/-- the executable oracle used in the correspondence run decides `SatReq` -/
theorem satReqB_iff (exro : Bool) : ∀ (s : RS) (v : V), satReqB exro s v = true ↔ SatReq exro s v := by
  have key := visitV.mutual_induct
    (motive_1 := fun v => ∀ s, satVB exro v s = true ↔ SatV exro v s)
    (motive_2 := fun kvs => keys (satFieldsB exro kvs) = keys (SatFields exro kvs) ∧
        ∀ s, fieldsOK s (satFieldsB exro kvs) = true ↔ FieldsSat s (SatFields exro kvs))
    (motive_3 := fun xs => ∀ it, ((satItemsB exro xs).all fun f => f it) = true ↔ ∀ F ∈ SatItems exro xs, F it)
  have h := (key ?null ?bool ?int ?half ?str ?arr ?obj ?inil ?icons ?fnil ?fcons).1
  · intro s v; exact h v s
  case null => intro s; unfold satVB SatV; exact satCB_iff true _ _ (by simp) s
  case bool => intro b s; unfold satVB SatV; exact satCB_iff false _ _ ownBool_iff s
  case int => intro n s; unfold satVB SatV; exact satCB_iff false _ _ (ownInt_iff n) s
  case half => intro n s; unfold satVB SatV; exact satCB_iff false _ _ (ownHalf_iff n) s
  case str => intro t s; unfold satVB SatV; exact satCB_iff false _ _ (ownStr_iff t) s
  case arr =>
    intro xs ih s; unfold satVB SatV
    refine satCB_iff false _ _ ?_ s
    intro s'
    unfold ownArr OwnArr
    rw [Bool.and_eq_true, permits_iff]
    apply and_congr Iff.rfl
    cases hi : s'.items with
    | none => simp
    | some it => simp only [Option.some.injEq, forall_eq']; exact ih it
  case obj =>
    intro kvs ih s; unfold satVB SatV
    refine satCB_iff false _ _ ?_ s
    intro s'
    unfold ownObj OwnObj
    have hlen : (satFieldsB exro kvs).length = (SatFields exro kvs).length := by
      have := congrArg List.length ih.1
      simpa [keys] using this
    rw [ih.1, hlen]
    simp only [Bool.and_eq_true, permits_iff, roLoopOK_iff, requiredOK_iff, countOK_iff, ih.2 s']
    constructor
    · rintro ⟨⟨⟨⟨h1, h2⟩, hc⟩, h3⟩, h4⟩; exact ⟨h1, h3, hc.1, hc.2, h4, h2⟩
    · rintro ⟨h1, h3, hc1, hc2, h4, h2⟩; exact ⟨⟨⟨⟨h1, h2⟩, ⟨hc1, hc2⟩⟩, h3⟩, h4⟩
  case inil => intro it; simp [satItemsB, SatItems]
  case icons =>
    intro v r ih1 ih2 it
    unfold satItemsB SatItems
    simp only [List.all_cons, Bool.and_eq_true, List.mem_cons, forall_eq_or_imp, ih1 it, ih2 it]
  case fnil => exact ⟨rfl, fun s => by simp [satFieldsB, SatFields, fieldsOK, FieldsSat]⟩
  case fcons =>
    intro k v r ih1 ih2
    unfold satFieldsB SatFields
    refine ⟨by simp only [keys, List.map_cons] at ih2 ⊢; rw [ih2.1], ?_⟩
    intro s
    have ihr := ih2.2 s
    unfold fieldsOK FieldsSat at ihr ⊢
    simp only [List.all_cons, Bool.and_eq_true, List.mem_cons, forall_eq_or_imp, ihr]
    apply and_congr _ Iff.rfl
    cases lookup k s.props with
    | none => simp
    | some p => exact ih1 p

/-- **C06(c), full strength.** The request-side validator accepts a value exactly when the value satisfies the
schema read as a request: types, nullable, minLength, maximum, items, properties, additionalProperties,
required, and `not` / `oneOf` (exactly one) / `anyOf` / `allOf` — where, in the schema itself **and in every
composition member at any depth**, a readOnly property need not be present even if required and must be
absent unless read-only validation is excluded, and writeOnly plays no role. For every schema of the
fragment, every value, both settings of the option; no bound on sizes. -/
theorem visit_asreq_iff (exro : Bool) (s : RS) (v : V) : visit exro s v = true ↔ SatReq exro s v := by
  rw [visit_eq_satReqB]; exact satReqB_iff exro s v

/-- under `ExcludeReadOnlyValidations` a readOnly property may be present, may be absent even if required, and
everything else is checked as usual (instance of `visit_asreq_iff`) -/
theorem visit_exro_iff (s : RS) (v : V) : visit true s v = true ↔ SatReq true s v :=
  visit_asreq_iff true s v

/-- regression of the repaired finding F-C06-2 (ReadOnlyNull, e80060c): property `a` is readOnly, nullable;
the request body `{"a": null}` carries the key; validator and request-side reading both reject it. -/
theorem readOnlyNull_regression :
    let pa := RS.leaf (some .string) true true false 0 none [] [] none none
    let s := RS.leaf (some .object) false false false 0 none [(['a'], pa)] [] none none
    let v := V.obj [(['a'], .null)]
    visit false s v = false ∧ satReqB false s v = false ∧ visit true s v = true ∧ satReqB true s v = true := by decide

/-- a non-null value that fails the own keywords of a schema is rejected whatever its composition keywords say -/
theorem own_false_rejects (own : RS → Bool) (s : RS) (h : own s = false) : satCB false own s = false := by
  cases s; unfold satCB; simp [h]

/-- a readOnly property of the schema itself that is present — with any value, null included — is rejected
(read-only validation on), whatever else the schema says -/
theorem readOnly_present_rejected (s : RS) (kvs : List (Str × V)) (k : Str) (v : V)
    (hro : isRO (lookup k s.props) = true) (hv : lookup k kvs = some v) :
    visit false s (.obj kvs) = false := by
  rw [visit_eq_satReqB]
  unfold satReqB satVB
  apply own_false_rejects
  have hk : k ∈ keys (satFieldsB false kvs) := by
    have hm := mem_keys_of_mem k v kvs (lookup_some_mem k kvs v hv)
    have : ∀ l : List (Str × V), keys (satFieldsB false l) = keys l := by
      intro l
      induction l with
      | nil => rfl
      | cons x r ih => obtain ⟨k', v'⟩ := x; unfold satFieldsB; simp only [keys, List.map_cons] at ih ⊢; rw [ih]
    rw [this]; exact hm
  have hl : roLoopOK false s.props (keys (satFieldsB false kvs)) = false := by
    apply Bool.eq_false_iff.mpr
    intro hall
    exact ((roLoopOK_iff false s _).mp hall) rfl k hro hk
  simp [ownObj, hl]

/-- a required readOnly property may be missing from a request: the `required` check of a schema exempts the
names it declares readOnly — with and without the exclusion option -/
theorem readOnly_required_may_be_absent (s : RS) (ks : List Str) :
    requiredOK s ks = true ↔ ∀ k ∈ s.required, k ∈ ks ∨ isRO (lookup k s.props) = true :=
  requiredOK_iff s ks

example :
    let pa := RS.leaf (some .string) false true false 0 none [] [] none none
    let s := RS.leaf (some .object) false false false 0 none [(['a'], pa)] [['a']] none none
    visit false s (.obj []) = true ∧ visit true s (.obj []) = true ∧
    visit false s (.obj [(['a'], .str ['x'])]) = false ∧ visit true s (.obj [(['a'], .str ['x'])]) = true := by decide

/-- the same rules inside composition members (the class of seeded change r2-m1): `a` is readOnly and required
inside a member of `anyOf` / `oneOf` / `allOf`; omitting it is accepted, sending it is rejected, the
exclusion option admits it -/
theorem readOnly_inside_members :
    let pa := RS.leaf (some .string) false true false 0 none [] [] none none
    let m := RS.leaf none false false false 0 none [(['a'], pa)] [['a']] none none
    let other := RS.leaf (some .string) false false false 0 none [] [] none none
    let sAny := RS.mk (some .object) false false false 0 none [] [] none none none [] [other, m] [] {}
    let sOne := RS.mk (some .object) false false false 0 none [] [] none none none [other, m] [] [] {}
    let sAll := RS.mk (some .object) false false false 0 none [] [] none none none [] [] [m] {}
    let sent := V.obj [(['a'], .str ['x'])]
    [sAny, sOne, sAll].all (fun s => visit false s (.obj []) && !visit false s sent && visit true s sent &&
      satReqB false s (.obj []) && !satReqB false s sent && satReqB true s sent) = true := by decide

/-- `null` against compositions: admitted by a nullable member of `anyOf`, not by `allOf` with a non-nullable
member, and a nullable schema admits it before any composition is looked at (the library's reading) -/
example :
    let strN := RS.leaf (some .string) true false false 0 none [] [] none none
    let str := RS.leaf (some .string) false false false 0 none [] [] none none
    visit false (RS.mk none false false false 0 none [] [] none none none [] [strN] [] {}) .null = true ∧
    visit false (RS.mk none false false false 0 none [] [] none none none [] [] [strN, str] {}) .null = false ∧
    visit false (RS.mk none true false false 0 none [] [] none none none [] [] [str] {}) .null = true ∧
    visit false (RS.mk none false false false 0 none [] [] none none (some strN) [] [strN] [] {}) .null = false := by decide

/-- **write-only properties are allowed in requests**: clearing every `writeOnly` flag of a schema (at any
depth of properties, items and composition members) never changes the request-side verdict, for either
setting of the exclusion option -/
theorem writeOnly_irrelevant (exro : Bool) : ∀ (s : RS) (v : V), visit exro s.clearWO v = visit exro s v := by
  have key := visitV.mutual_induct
    (motive_1 := fun v => ∀ s, satVB exro v s.clearWO = satVB exro v s)
    (motive_2 := fun kvs => ∀ kf ∈ satFieldsB exro kvs, ∀ s, kf.2 s.clearWO = kf.2 s)
    (motive_3 := fun xs => ∀ f ∈ satItemsB exro xs, ∀ s, f s.clearWO = f s)
  have h := (key ?null ?bool ?int ?half ?str ?arr ?obj ?inil ?icons ?fnil ?fcons).1
  · intro s v; rw [visit_eq_satReqB, visit_eq_satReqB]; exact h v s
  case null => intro s; unfold satVB; exact satCB_clearWO true _ (fun _ => rfl) s
  case bool => intro b s; unfold satVB; exact satCB_clearWO false _ (fun s => by simp [ownBool, clearWO_ty]) s
  case int => intro n s; unfold satVB; exact satCB_clearWO false _ (fun s => by simp [ownInt, clearWO_ty, clearWO_max]) s
  case half => intro n s; unfold satVB; exact satCB_clearWO false _ (fun s => by simp [ownHalf, clearWO_ty, clearWO_max]) s
  case str => intro t s; unfold satVB; exact satCB_clearWO false _ (fun s => by simp [ownStr, clearWO_ty, clearWO_minLen]) s
  case arr =>
    intro xs ih s; unfold satVB
    refine satCB_clearWO false _ ?_ s
    intro s'
    unfold ownArr
    rw [clearWO_ty, clearWO_items]
    cases s'.items with
    | none => rfl
    | some it =>
      simp only [clearWOOpt]
      congr 1
      apply all_congr_mem
      intro f hf
      exact ih f hf it
  case obj =>
    intro kvs ih s; unfold satVB
    exact satCB_clearWO false _ (fun s' => ownObj_clearWO exro _ s' ih) s
  case inil => intro f hf; simp [satItemsB] at hf
  case icons =>
    intro v r ih1 ih2 f hf
    unfold satItemsB at hf
    rcases List.mem_cons.mp hf with rfl | hf
    · exact ih1
    · exact ih2 f hf
  case fnil => intro kf hf; simp [satFieldsB] at hf
  case fcons =>
    intro k v r ih1 ih2 kf hf
    unfold satFieldsB at hf
    rcases List.mem_cons.mp hf with rfl | hf
    · exact ih1
    · exact ih2 kf hf

/-! ## (d) decoders -/

def exInt' : RS := RS.leaf (some .integer) false false false 0 none [] [] none none


/- Full-strength statement (does NOT hold of the code, see `formUnparsable_witness`): the same without `hu`. -/

/-- **C06(d), urlencoded.** Outside the class `FormFieldUnparsable` (and for well-formed per-property
encodings and a schema the decoder supports) the object built by `UrlencodedBodyDecoder` is exactly the
object the form fields encode under the declared types and serialization methods (explode / form,
spaceDelimited, pipeDelimited); absent and empty fields are absent from the object (repair 2621864). -/
theorem decodeForm_eq_spec_partial (fields : List (Str × List Str)) (encs : List (Str × Enc)) (props : List (Str × RS))
    (hu : formUnparsable fields encs props = false)
    (hwf : encsWF encs props = true) (hpre : ∀ kp ∈ props, declOK kp.2 = true) :
    specFormProps fields encs props = some (decodeFormProps fields encs props) :=
  formProps_agree fields encs props hu hwf (fun kp h => Or.inr (propPre_of_declOK kp.2 (hpre kp h)))

/-- inside `FormFieldUnparsable` the decoder really differs from what the fields encode: `a=x` for an integer
property encodes nothing, the decoder answers the empty object (finding #20 / F-C06-1) -/
theorem formUnparsable_witness :
    let props := [(['a'], RS.leaf (some .integer) false false false 0 none [] [] none none)]
    let fields := [(['a'], [['x']])]
    formUnparsable fields [] props = true ∧ (specFormProps fields [] props).isNone = true ∧
    (decodeFormProps fields [] props).isEmpty = true := by decide

/-- regression of the repaired finding F-C06-3 (FormNullForMissing, 2621864): the form `b=1` against optional
properties `a` (string) and `b` (integer) encodes the object with `b` only; the decoder now builds exactly
that object (one entry, no `a: null`) and the validator accepts it -/
theorem formMissing_regression :
    let pa := RS.leaf (some .string) false false false 0 none [] [] none none
    let pb := RS.leaf (some .integer) false false false 0 none [] [] none none
    let props := [(['a'], pa), (['b'], pb)]
    let s := RS.leaf (some .object) false false false 0 none props [] none none
    let fields := [(['b'], [['1']])]
    formUnparsable fields [] props = false ∧
    keys (decodeFormProps fields [] props) = [['b']] ∧
    (match specFormProps fields [] props with | some o => satReqB false s (.obj o) | none => false) = true ∧
    visit false s (.obj (decodeFormProps fields [] props)) = true := by decide

/-- **C06(d), round trip (spec side).** For every flat object of primitives and non-empty primitive arrays
written under the per-property encodings (exploded, or joined with the style's delimiter when no item text
contains it), the fields written encode exactly that object: decimal integers, `n.5` numbers, booleans
and strings parse back to themselves. Any number of properties, any values. -/
theorem specForm_roundtrip (encs : List (Str × Enc)) (val : Str → Option V) (props : List (Str × RS))
    (hnd : (keys props).Nodup) (hnc : ∀ kp ∈ props, hasCompP kp.2 = false)
    (henc : ∀ k p v, (k, p) ∈ props → val k = some v → FormEncodable p (lookup k encs) v) :
    specFormProps (encodeForm encs val props) encs props = some (objOf val props) := by
  have gen : ∀ ps : List (Str × RS), (∀ kp ∈ ps, kp ∈ props) →
      specFormProps (encodeForm encs val props) encs ps = some (objOf val ps) := by
    intro ps
    induction ps with
    | nil => intro _; rfl
    | cons x r ih =>
      intro hsub
      obtain ⟨k, p⟩ := x
      have hmem : (k, p) ∈ props := hsub (k, p) (by simp)
      have hl := lookup_encodeForm encs val props k (mem_keys_of_mem k p props hmem) hnd
      have ihr := ih (fun kp hkp => hsub kp (by simp [hkp]))
      unfold specFormProps
      rw [ihr]
      cases hv : val k with
      | none =>
        rw [hv] at hl
        have : specDecl (encodeForm encs val props) k p (lookup k encs) = some none := by
          unfold specDecl specFormProp
          simp only [Option.bind_none] at hl
          rw [hl]
          rw [hnc (k, p) hmem]
          rfl
        simp [this, objOf, hv]
      | some v =>
        have he := henc k p v hmem hv
        obtain ⟨ts, hts⟩ := encodeField_of_encodable p (lookup k encs) v he
        rw [hv] at hl
        simp only [Option.bind_some, hts] at hl
        have := specFormProp_encodeField _ k p (lookup k encs) v ts he hts hl
        simp [this, objOf, hv]
  exact gen props (fun _ h => h)

/-- **C06(d), round trip (decoder), full strength.** `decodeForm (encodeForm o) = o` for the model of
`UrlencodedBodyDecoder`: every flat object of primitives and non-empty primitive arrays written under the
per-property encodings is decoded to itself (properties the client leaves out stay out). -/
theorem decodeForm_roundtrip (encs : List (Str × Enc)) (val : Str → Option V) (props : List (Str × RS))
    (hnd : (keys props).Nodup)
    (henc : ∀ k p v, (k, p) ∈ props → val k = some v → FormEncodable p (lookup k encs) v)
    (hwf : encsWF encs props = true) (hpre : ∀ kp ∈ props, declOK kp.2 = true) :
    decodeFormProps (encodeForm encs val props) encs props = objOf val props := by
  have hs := specForm_roundtrip encs val props hnd (fun kp h => noComp_of_declOK kp.2 (hpre kp h)) henc
  have hu : formUnparsable (encodeForm encs val props) encs props = false := by
    generalize encodeForm encs val props = fields at hs
    generalize objOf val props = o at hs
    clear hpre hwf henc hnd
    induction props generalizing o with
    | nil => rfl
    | cons x r ih =>
      obtain ⟨k, p⟩ := x
      unfold specFormProps at hs
      simp only [formUnparsable, List.any_cons, Bool.or_eq_false_iff]
      cases h1 : specDecl fields k p (lookup k encs) with
      | none => simp [h1] at hs
      | some o1 =>
        cases h2 : specFormProps fields encs r with
        | none => cases o1 <;> simp [h1, h2] at hs
        | some l => exact ⟨by simp, ih l h2⟩
  have := formProps_agree _ encs props hu hwf (fun kp h => Or.inr (propPre_of_declOK kp.2 (hpre kp h)))
  rw [hs] at this
  exact (Option.some.inj this).symm

example :
    let val : Str → Option V := fun k => if k = ['a'] then some (.int (-12)) else if k = ['b'] then some (.arr [.half 1, .int 3]) else none
    let props := [(['a'], exInt'), (['b'], RS.leaf (some .array) false false false 0 none [] [] none (some (RS.leaf (some .number) false false false 0 none [] [] none none)))]
    let encs := [(['b'], ({ style := "pipeDelimited".toList, explode := some false } : Enc))]
    encodeForm encs val props = [(['a'], ["-12".toList]), (['b'], ["1.5|3".toList])] ∧
    formUnparsable (encodeForm encs val props) encs props = false ∧
    keys (decodeFormProps (encodeForm encs val props) encs props) = [['a'], ['b']] := by decide

/-! ### properties declared inside composition members (urlencoded, multipart) -/

/-- every property declared in the schema itself is a declaration the urlencoded decoder visits … -/
theorem props_sub_flatDecls (s : RS) : ∀ kp ∈ s.props, kp ∈ flatDecls s := by
  intro kp h
  cases s
  unfold flatDecls
  simp only [RS.props] at h
  simp [h]

theorem flatDeclsL_mem (l : List RS) (m : RS) (hm : m ∈ l) : ∀ kp ∈ flatDecls m, kp ∈ flatDeclsL l := by
  induction l with
  | nil => cases hm
  | cons x r ih =>
    intro kp hkp
    unfold flatDeclsL
    rcases List.mem_cons.mp hm with rfl | hm
    · simp [hkp]
    · simp [ih hm kp hkp]

/-- … and so is every declaration of every `allOf` / `anyOf` / `oneOf` member, at any depth (the class of seeded
change r2-m2). `decodeFormProps` decodes each of them with `lookup k encs`: the media type's encoding of a
name applies wherever the name is declared. -/
theorem member_decls_sub_flatDecls (s m : RS) (hm : m ∈ s.allOf ∨ m ∈ s.anyOf ∨ m ∈ s.oneOf) :
    ∀ kp ∈ flatDecls m, kp ∈ flatDecls s := by
  intro kp hkp
  cases s
  unfold flatDecls
  simp only [RS.allOf, RS.anyOf, RS.oneOf] at hm
  simp only [List.mem_append]
  rcases hm with h | h | h
  · exact Or.inl (Or.inl (Or.inl (flatDeclsL_mem _ m h kp hkp)))
  · exact Or.inl (Or.inl (Or.inr (flatDeclsL_mem _ m h kp hkp)))
  · exact Or.inl (Or.inr (flatDeclsL_mem _ m h kp hkp))

/-- a declaration kept by the property loop is decoded under the encoding registered for its name -/
theorem decodeFormProps_mem (fields : List (Str × List Str)) (encs : List (Str × Enc)) (decls : List (Str × RS))
    (k : Str) (v : V) (h : (k, v) ∈ decodeFormProps fields encs decls) :
    ∃ p, (k, p) ∈ decls ∧ decodePropC fields k (lookup k encs) p = some v := by
  induction decls with
  | nil => simp [decodeFormProps] at h
  | cons x r ih =>
    obtain ⟨k0, p0⟩ := x
    unfold decodeFormProps at h
    cases hd : decodePropC fields k0 (lookup k0 encs) p0 with
    | none =>
      simp only [hd] at h
      obtain ⟨p, hp, hv⟩ := ih h
      exact ⟨p, by simp [hp], hv⟩
    | some w =>
      cases w with
      | null =>
        simp only [hd] at h
        obtain ⟨p, hp, hv⟩ := ih h
        exact ⟨p, by simp [hp], hv⟩
      | bool _ | int _ | half _ | str _ | arr _ | obj _ =>
        simp only [hd, List.mem_cons, Prod.mk.injEq] at h
        rcases h with ⟨rfl, rfl⟩ | h
        · exact ⟨p0, by simp, hd⟩
        · obtain ⟨p, hp, hv⟩ := ih h
          exact ⟨p, by simp [hp], hv⟩

/-- names declared once are merged unchanged -/
theorem mergeKV_nodup (l : List (Str × V)) (h : (keys l).Nodup) : mergeKV l = some l := by
  induction l with
  | nil => rfl
  | cons x r ih =>
    obtain ⟨k, v⟩ := x
    simp only [keys, List.map_cons, List.nodup_cons] at h
    unfold mergeKV
    rw [ih h.2]
    simp only [lookup_none_of_not_mem_keys k r h.1]

/-- r2-m2 regression: `a` is an integer array declared inside an `allOf` member, the media type says
`pipeDelimited`, not exploded: `a=1|2` is the array [1, 2] for model and spec, and the same under `anyOf` -/
theorem encoding_applies_inside_members :
    let arrInt := RS.leaf (some .array) false false false 0 none [] [] none (some (RS.leaf (some .integer) false false false 0 none [] [] none none))
    let m := RS.leaf none false false false 0 none [(['a'], arrInt)] [] none none
    let sAll := RS.mk (some .object) false false false 0 none [] [] none none none [] [] [m] {}
    let sAny := RS.mk (some .object) false false false 0 none [] [] none none none [] [m] [] {}
    let encs := [(['a'], ({ style := "pipeDelimited".toList, explode := some false } : Enc))]
    let form := some [(['a'], ["1|2".toList])]
    [sAll, sAny].all (fun s =>
      (match decodeForm s encs form with
       | .val (.obj [(k, .arr [.int 1, .int 2])]) => k == ['a']
       | _ => false) &&
      (match (specFormProps [(['a'], ["1|2".toList])] encs (flatDecls s)).bind mergeKV with
       | some [(k, .arr [.int 1, .int 2])] => k == ['a']
       | _ => false)) = true := by decide

/-- multipart with `allOf`: a part is declared iff some member declares it; the schema's own properties and
additionalProperties are not consulted -/
theorem partDecl_allOf (s : RS) (name : Str) (h : s.allOf ≠ []) :
    partDecl s name = (if s.allOf.any (fun m => (lookup name m.props).isSome) then .found else .undefined) := by
  unfold partDecl
  have : s.allOf.isEmpty = false := by cases hl : s.allOf with | nil => exact absurd hl h | cons _ _ => rfl
  simp [this]

/-- multipart: properties without a part are absent from the object (not null) -/
theorem assemble_absent (vals : List (Str × V)) (props : List (Str × RS)) (k : Str)
    (h : valuesOf k vals = []) : lookup k (assemble vals props) = none := by
  induction props with
  | nil => simp [assemble, lookup]
  | cons x r ih =>
    obtain ⟨k', p'⟩ := x
    unfold assemble
    by_cases hk : k = k'
    · subst hk; simp only [h]; exact ih
    · cases hv : valuesOf k' vals with
      | nil => simp only; exact ih
      | cons w ws => simp only [lookup, hk, if_false]; exact ih

/-- multipart, second loop: a declared property gets all its parts when it is an array, else the first -/
theorem assemble_lookup (vals : List (Str × V)) (props : List (Str × RS)) (k : Str) (p : RS)
    (h : lookup k props = some p) :
    lookup k (assemble vals props) =
      (match valuesOf k vals with
       | [] => none
       | v :: vs => some (if tyIs p.ty .array then .arr (v :: vs) else v)) := by
  induction props with
  | nil => simp [lookup] at h
  | cons x r ih =>
    obtain ⟨k', p'⟩ := x
    unfold lookup at h
    by_cases hk : k = k'
    · subst hk
      simp only [if_true, Option.some.injEq] at h
      subst h
      unfold assemble
      cases hv : valuesOf k vals with
      | nil => simp only; exact assemble_absent vals r k hv
      | cons v vs => simp [lookup]
    · simp only [hk, if_false] at h
      unfold assemble
      cases hv : valuesOf k' vals with
      | nil => simp only; exact ih h
      | cons w ws => simp only [lookup, hk, if_false]; exact ih h

/-- **C06(d), multipart.** `MultipartBodyDecoder` builds exactly the object the parts encode — every part declared
(or ignorable) and decodable under its own Content-Type, array properties collect all their parts in order, other
properties take their first part, properties without a part are absent — and fails exactly when the parts encode
no object; the declarative reading (`specMultipart`) uses no loop of the decoder and no order of the checks -/
theorem multipart_decodes_what_parts_encode (reg : List (Str × DecK)) (s : RS) (ps : List Part)
    (h : tyIs s.ty .object = true) :
    (∀ v, decodeMultipart reg s (some ps) = .val v → specMultipart reg s ps = some v) ∧
    (decodeMultipart reg s (some ps) = .err → specMultipart reg s ps = none) :=
  ⟨(decodeMultipart_spec reg s ps h).1, (decodeMultipart_spec reg s ps h).2.1⟩

example :
    let strA := RS.leaf (some .array) false false false 0 none [] [] none (some (RS.leaf (some .string) false false false 0 none [] [] none none))
    let s := RS.leaf (some .object) false false false 0 none [(['a'], strA), (['b'], RS.leaf (some .integer) false false false 0 none [] [] none none)] [] (some true) none
    let ps : List Part := [⟨['a'], [], ['x'], none, none, none⟩, ⟨['z'], [], ['q'], none, none, none⟩,
      ⟨['b'], "application/json".toList, ['5'], some (.int 5), none, none⟩, ⟨['a'], [], ['y'], none, none, none⟩]
    (match specMultipart registry s ps with
     | some v => V.beq v (.obj [(['a'], .arr [.str ['x'], .str ['y']]), (['b'], .int 5)])
     | none => false) = true ∧
    (match decodeMultipart registry s (some ps) with
     | .val v => V.beq v (.obj [(['a'], .arr [.str ['x'], .str ['y']]), (['b'], .int 5)])
     | _ => false) = true := by decide

/-- JSON decoder: the decoded value is what `encoding/json` makes of the *whole* text; text that is not
exactly one JSON value (trailing data, finding #36 — now fixed) is a decoding error -/
theorem json_decoder (text : Str) (j : Option V) :
    decodeSimple .json text j = (match j with | some v => .val v | none => .err) := rfl

/-- text/plain and application/octet-stream: the body text itself, as a string -/
theorem plain_decoder (text : Str) (j : Option V) :
    decodeSimple .plain text j = .val (.str text) ∧ decodeSimple .file text j = .val (.str text) := ⟨rfl, rfl⟩

/-! ## the property as a whole -/

/-- model decoder vs the value the body encodes, for the selected media type -/
theorem decode_agrees (reg : List (Str × DecK)) (rb : ReqBody) (ct : Str) (b : BodyIn) (mt : MediaType) (s : RS)
    (h : b.text ≠ []) (hc : rb.content ≠ []) (hs : contentGet rb.content ct = some mt) (hn : mt.schema = some s)
    (h1 : exclFormUnparsable reg rb ct b = false)
    (h3 : formEncsWF reg rb ct b = true) :
    (∀ v, decodeBody reg ct s mt.encs b = .val v → specDecode reg ct s mt.encs b = some v) ∧
    (decodeBody reg ct s mt.encs b = .err → specDecode reg ct s mt.encs b = none) := by
  unfold decodeBody specDecode
  cases hreg : lookup (base ct) reg with
  | none => simp
  | some k =>
    cases k with
    | json => cases b.json <;> simp [decodeSimple]
    | plain => simp [decodeSimple]
    | file => simp [decodeSimple]
    | yaml => cases b.yaml <;> simp [decodeSimple]
    | csv => cases b.csv <;> simp [decodeSimple]
    | multipart =>
      simp only
      cases hty : tyIs s.ty .object with
      | false => simp [decodeMultipart, hty]
      | true =>
        cases hp : b.parts with
        | none => simp [decodeMultipart, hty]
        | some ps =>
          obtain ⟨m1, m2, _, _⟩ := decodeMultipart_spec reg s ps hty
          simp only [if_true, Option.bind_some]
          exact ⟨m1, m2⟩
    | urlencoded =>
      simp only
      unfold decodeForm
      cases hty : tyIs s.ty .object with
      | false => simp
      | true =>
        simp only [Bool.not_true, Bool.false_eq_true, if_false, Bool.true_and]
        cases hpre : formPre s.props with
        | err => simp
        | panic => simp
        | ok =>
          cases hf : b.form with
          | none => simp
          | some fields =>
            have hrun : formRun reg rb ct b = some (s, mt.encs, fields) := by
              unfold formRun
              have hc' : rb.content.isEmpty = false := by
                cases hcc : rb.content with
                | nil => exact absurd hcc hc
                | cons _ _ => rfl
              simp [h, hc', hs, hn, hreg, hf, hty, hpre]
            simp only [exclFormUnparsable, hrun] at h1
            simp only [formEncsWF, hrun] at h3
            cases hok : (!(flatDecls s).all fun kp => declOKC kp.snd) || numClash (flatDecls s) with
            | true => simp
            | false =>
              simp only [Bool.or_eq_false_iff, Bool.not_eq_false'] at hok
              have hdecl : ∀ kp ∈ flatDecls s, hasCompP kp.2 = true ∨ propPre kp.2 := by
                intro kp hkp
                exact declOKC_cases kp.2 (List.all_eq_true.mp hok.1 kp hkp)
              have := formProps_agree fields mt.encs (flatDecls s) h1 h3 hdecl
              simp only [this, Bool.false_eq_true, if_false, Option.bind_some, beq_self_eq_true, if_true]
              cases mergeKV (decodeFormProps fields mt.encs (flatDecls s)) <;> simp

/- Full-strength statement (does NOT hold of the code, see `witness_formFieldUnparsable`):
     accept_iff : (validateRequestBody reg rb ct b exro).isOk = true ↔ Accept reg rb ct b exro  -/

/-- **C06, main theorem.** Outside the one remaining exclusion class (FormFieldUnparsable, #20), request-body validation accepts exactly when
the property says so: an empty body iff not required; otherwise the media type is the first declared one in
the precedence order of the header text, an undeclared type is rejected, an entry without schema accepts, and
else the value the body encodes under the decoder registered for the header's media type must exist and
satisfy the entry's schema read as a request. For every declaration, header text, body, option value and
every decoder registry; hypotheses: the case is inside the model (`hmod`: no YAML/CSV/nested-form decoder,
no array property without `items` in a form schema) and form encodings are well-formed (`hwf`). -/
theorem accept_iff_partial (reg : List (Str × DecK)) (rb : ReqBody) (ct : Str) (b : BodyIn) (exro : Bool)
    (hmod : validateRequestBody reg rb ct b exro ≠ .panic ∧ validateRequestBody reg rb ct b exro ≠ .unmodelled)
    (hwf : formEncsWF reg rb ct b = true)
    (h1 : exclFormUnparsable reg rb ct b = false) :
    (validateRequestBody reg rb ct b exro).isOk = true ↔ Accept reg rb ct b exro := by
  unfold Accept
  by_cases ht : b.text = []
  · cases hr : rb.required <;> simp [validateRequestBody, ht, hr, Outcome.isOk]
  · by_cases hc : rb.content = []
    · simp [validateRequestBody, ht, hc, Outcome.isOk]
    · rw [← contentGet_spec]
      cases hs : contentGet rb.content ct with
      | none => simp [validateRequestBody, ht, hc, hs, Outcome.isOk]
      | some mt =>
        cases hn : mt.schema with
        | none => simp [validateRequestBody, ht, hc, hs, hn, Outcome.isOk]
        | some s =>
          have hd := decode_agrees reg rb ct b mt s ht hc hs hn h1 hwf
          have hout := decoded_then_validated reg rb ct b exro ht hc mt s hs hn
          rw [hout] at hmod ⊢
          cases hdec : decodeBody reg ct s mt.encs b with
          | err =>
            have := hd.2 hdec
            simp [Outcome.isOk, ht, hc, hn, this]
          | panic => simp [hdec] at hmod
          | unmodelled => simp [hdec] at hmod
          | val v =>
            have hsv := hd.1 v hdec
            have hv := visit_asreq_iff exro s v
            constructor
            · intro hok
              refine Or.inr ⟨ht, Or.inr ⟨mt, rfl, Or.inr ⟨s, v, hn, hsv, ?_⟩⟩⟩
              cases hvis : visit exro s v with
              | true => exact hv.mp hvis
              | false => simp [hvis, Outcome.isOk] at hok
            · rintro (⟨h0, _⟩ | ⟨_, h0 | ⟨mt', hmt', hsch | ⟨s', v', hs', hv', hsat⟩⟩⟩)
              · exact absurd h0 ht
              · exact absurd h0 hc
              · cases hmt'; rw [hn] at hsch; cases hsch
              · cases hmt'
                rw [hn] at hs'; cases hs'
                rw [hsv] at hv'; cases hv'
                have := hv.mpr hsat
                simp [this, Outcome.isOk]

/-- the executable oracle of the correspondence run decides the property -/
theorem acceptB_iff (reg : List (Str × DecK)) (rb : ReqBody) (ct : Str) (b : BodyIn) (exro : Bool) :
    acceptB reg rb ct b exro = true ↔ Accept reg rb ct b exro := by
  unfold acceptB Accept
  by_cases ht : b.text = []
  · cases hr : rb.required <;> simp [ht, hr]
  · by_cases hc : rb.content = []
    · simp [ht, hc]
    · rw [if_neg ht, if_neg hc]
      have hA : ∀ P : Prop, ((b.text = [] ∧ rb.required = false) ∨ (b.text ≠ [] ∧ (rb.content = [] ∨ P))) ↔ P := by
        intro P
        constructor
        · rintro (⟨h0, _⟩ | ⟨_, h0 | h0⟩)
          · exact absurd h0 ht
          · exact absurd h0 hc
          · exact h0
        · intro h; exact Or.inr ⟨ht, Or.inr h⟩
      rw [hA]
      cases hs : firstSome rb.content (candidates ct) with
      | none => simp
      | some mt =>
        cases hn : mt.schema with
        | none => simp only [hn, true_iff]; exact ⟨mt, rfl, Or.inl hn⟩
        | some s =>
          cases hd : specDecode reg ct s mt.encs b with
          | none =>
            simp only [hn, hd, Bool.false_eq_true, false_iff]
            rintro ⟨mt', hmt', hsch | ⟨s', v', hs', hv', _⟩⟩
            · cases hmt'; rw [hn] at hsch; cases hsch
            · cases hmt'; rw [hn] at hs'; cases hs'; rw [hd] at hv'; cases hv'
          | some v =>
            simp only [hn, hd]
            constructor
            · intro h; exact ⟨mt, rfl, Or.inr ⟨s, v, hn, hd, (satReqB_iff exro s v).mp h⟩⟩
            · rintro ⟨mt', hmt', hsch | ⟨s', v', hs', hv', hsat⟩⟩
              · cases hmt'; rw [hn] at hsch; cases hsch
              · cases hmt'; rw [hn] at hs'; cases hs'; rw [hd] at hv'; cases hv'
                exact (satReqB_iff exro s v).mpr hsat

/-! ### witnesses at the level of the whole decision, and non-vacuity -/

def exStr (s : String) : Str := s.toList
def exInt : RS := RS.leaf (some .integer) false false false 0 none [] [] none none
def exString : RS := RS.leaf (some .string) false false false 0 none [] [] none none
def exObj (props : List (Str × RS)) (req : List Str) : RS := RS.leaf (some .object) false false false 0 none props req none none
def exForm : Str := exStr "application/x-www-form-urlencoded"
def exBody (text : String) (json : Option V) (form : Option (List (Str × List Str))) : BodyIn :=
  { text := text.toList, json := json, form := form, parts := none }

/-- F-C06-1 (#20): `a=x` against `{a: integer}` — the field is dropped, the body accepted; the body encodes nothing -/
theorem witness_formFieldUnparsable :
    let rb : ReqBody := ⟨true, [(exForm, ⟨some (exObj [(exStr "a", exInt)] []), []⟩)]⟩
    let b := exBody "a=x" none (some [(exStr "a", [exStr "x"])])
    exclFormUnparsable registry rb exForm b = true ∧
    validateRequestBody registry rb exForm b false = .ok ∧ acceptB registry rb exForm b false = false := by decide

/-- regression of F-C06-3 (repaired, 2621864): `b=1` against optional `{a: string, b: integer}` is accepted, as the
property says; a missing *required* nullable property is rejected -/
theorem regression_formNullForMissing :
    let rb : ReqBody := ⟨true, [(exForm, ⟨some (exObj [(exStr "a", exString), (exStr "b", exInt)] []), []⟩)]⟩
    let sn := RS.leaf (some .string) true false false 0 none [] [] none none
    let rb2 : ReqBody := ⟨true, [(exForm, ⟨some (exObj [(exStr "a", sn), (exStr "b", exInt)] [exStr "a"]), []⟩)]⟩
    let b := exBody "b=1" none (some [(exStr "b", [exStr "1"])])
    exclFormUnparsable registry rb exForm b = false ∧
    validateRequestBody registry rb exForm b false = .ok ∧ acceptB registry rb exForm b false = true ∧
    validateRequestBody registry rb2 exForm b false = .schemaErr ∧ acceptB registry rb2 exForm b false = false := by decide

/-- regression of F-C06-2 (repaired, e80060c): JSON body `{"a": null}` against `{a: string, readOnly, nullable}`
is rejected, and accepted under ExcludeReadOnlyValidations -/
theorem regression_readOnlyNull :
    let pa := RS.leaf (some .string) true true false 0 none [] [] none none
    let rb : ReqBody := ⟨true, [(exStr "application/json", ⟨some (exObj [(exStr "a", pa)] []), []⟩)]⟩
    let b := exBody "{\"a\":null}" (some (.obj [(exStr "a", .null)])) none
    validateRequestBody registry rb (exStr "application/json") b false = .schemaErr ∧
    acceptB registry rb (exStr "application/json") b false = false ∧
    validateRequestBody registry rb (exStr "application/json") b true = .ok ∧
    acceptB registry rb (exStr "application/json") b true = true := by decide

/-- r2-m3 regression: a body of white space only is a body: it is not "missing" (so an optional body is not
waved through), it is decoded — blank JSON is a decoding error, blank text/plain is that string and is
validated — and an undeclared content type is still rejected -/
theorem blank_body_is_a_body :
    let js : ReqBody := ⟨false, [(exStr "application/json", ⟨some (exObj [(exStr "a", exInt)] []), []⟩)]⟩
    let tx : ReqBody := ⟨false, [(exStr "text/plain", ⟨some (RS.leaf (some .string) false false false 3 none [] [] none none), []⟩)]⟩
    let b := exBody "  " none (some [(exStr "  ", [[]])])
    validateRequestBody registry js (exStr "application/json") b false = .decodeErr ∧
    acceptB registry js (exStr "application/json") b false = false ∧
    validateRequestBody registry tx (exStr "text/plain") b false = .schemaErr ∧
    acceptB registry tx (exStr "text/plain") b false = false ∧
    validateRequestBody registry js (exStr "text/plain") b false = .badCT ∧
    validateRequestBody registry ⟨true, js.content⟩ (exStr "application/json") b false ≠ .missing := by decide

/-- #36 (fixed): a JSON body with trailing data is not one JSON value: the decoder's view is `none`, the
model rejects with a decoding error and so does the property -/
theorem trailing_data_rejected :
    let rb : ReqBody := ⟨true, [(exStr "application/json", ⟨some (exObj [(exStr "a", exInt)] []), []⟩)]⟩
    let b := exBody "{\"a\":1} trailing" none none
    validateRequestBody registry rb (exStr "application/json") b false = .decodeErr ∧
    acceptB registry rb (exStr "application/json") b false = false := by decide

/- non-vacuity of `accept_iff_partial`: every hypothesis holds on non-trivial inputs of each kind, with both verdicts -/
example :
    let rb : ReqBody := ⟨true, [(exStr "application/*", ⟨some (exObj [(exStr "a", exInt), (exStr "b", exString)] [exStr "a"]), []⟩)]⟩
    let ct := exStr "application/x-www-form-urlencoded; charset=utf-8"
    let b := exBody "a=7&b=x" none (some [(exStr "a", [exStr "7"]), (exStr "b", [exStr "x"])])
    formEncsWF registry rb ct b = true ∧ exclFormUnparsable registry rb ct b = false ∧
    validateRequestBody registry rb ct b false = .ok ∧ acceptB registry rb ct b false = true := by decide

example :
    let ro := RS.leaf (some .string) false true false 0 none [] [] none none
    let rb : ReqBody := ⟨false, [(exStr "application/json", ⟨some (exObj [(exStr "id", ro), (exStr "n", exInt)] [exStr "id", exStr "n"]), []⟩),
                                 (star, ⟨none, []⟩)]⟩
    let ct := exStr "application/json; charset=utf-8"
    let good := exBody "{\"n\":1}" (some (.obj [(exStr "n", .int 1)])) none
    let bad := exBody "{\"id\":\"x\",\"n\":1}" (some (.obj [(exStr "id", .str (exStr "x")), (exStr "n", .int 1)])) none
    validateRequestBody registry rb ct good false = .ok ∧ acceptB registry rb ct good false = true ∧
    validateRequestBody registry rb ct bad false = .schemaErr ∧ acceptB registry rb ct bad false = false ∧
    validateRequestBody registry rb ct bad true = .ok ∧ acceptB registry rb ct bad true = true ∧
    validateRequestBody registry rb (exStr "text/plain") good false = .ok ∧
    validateRequestBody registry ⟨false, [(exStr "application/json", ⟨none, []⟩)]⟩ (exStr "text/plain") good false = .badCT := by decide

/-! ## (e) default-setting (`Options.SkipSettingDefaults`; off = defaults ARE set, the default of openapi3filter)

The property text reads the schema as a request and says nothing about `default`: the specification (`SatReq`,
`Accept`) ignores the keyword. The code, with `DefaultsSet` installed, injects defaults *while* it validates
(`visD`). What is proved: with defaults skipped nothing changes (`skipDefaults_is_visit`); with defaults set the
verdict is still the property's wherever no default fires on the value — any schema, compositions included — or
the schema is composition-free and every injectable default conforms to its own schema and is not required
(`defaults_neutral`, `accept_iff_partial_D`); a read-only property never receives its default in a request
(`readOnly_default_never_injected`, the class of seeded change r3-m2). Where a default does decide the verdict
(a required property satisfied by its default, a default that violates its own schema, a default injected by one
`allOf` member and rejected by another, a second `oneOf` member that matches thanks to its default) the verdict
is the one of the COMPLETED value — that is what C13 demands ("the resulting request validates again") — and lies
outside the request-side reading of C06: witnesses below, compared model-vs-implementation only in the run. -/

/-- **SkipSettingDefaults = true.** Without `DefaultsSet` the value-threading validator `visD` is `visit`: same
verdict, value untouched — every schema (with or without `default` keywords), every value -/
theorem skipDefaults_is_visit (exro : Bool) (s : RS) (v : V) (hs : s.wf = true) (hv : v.wf = true) :
    visD false exro s v = (if visit exro s v then some v else none) :=
  visD_off exro v hv s hs

/-- the model of `ValidateRequestBody` with defaults skipped is the model without the option -/
theorem validateRequestBodyD_skip (reg : List (Str × DecK)) (rb : ReqBody) (ct : Str) (b : BodyIn) (exro : Bool) :
    validateRequestBodyD reg rb ct b exro false = validateRequestBody reg rb ct b exro := by
  unfold validateRequestBodyD validateRequestBody validateValue
  rfl

/-- **no default fires ⇒ nothing changes**, for every schema of the fragment (compositions included) -/
theorem no_fire_no_change (exro : Bool) (s : RS) (v : V) (h : firesD exro s v = false) :
    visD true exro s v = visD false exro s v :=
  visD_on_eq_off_of_not_fires exro s v h

/-- a schema without any `default` never fires -/
theorem no_default_no_fire (exro : Bool) : ∀ s v, hasDflt s = false → firesD exro s v = false := by
  apply rs_induct_full
  intro t n r w ml mx props req a items nt oneOf anyOf allOf dflt hp hi hn h1 h2 h3 v hd
  unfold hasDflt at hd
  simp only [Bool.or_eq_false_iff] at hd
  obtain ⟨⟨⟨⟨⟨⟨_, dp⟩, di⟩, dn⟩, d1⟩, d2⟩, d3⟩ := hd
  have hL : ∀ l : List RS, (∀ x ∈ l, ∀ v, hasDflt x = false → firesD exro x v = false) → hasDfltL l = false →
      ∀ v, firesAny exro l v = false ∧ firesUpto exro l v = false ∧ firesAll exro l v = false := by
    intro l hl
    induction l with
    | nil => intro _ _; exact ⟨rfl, rfl, rfl⟩
    | cons x r ih =>
      intro hd v
      unfold hasDfltL at hd
      simp only [Bool.or_eq_false_iff] at hd
      have hx := fun v => hl x (by simp) v hd.1
      have ihr := ih (fun y hy => hl y (by simp [hy])) hd.2
      unfold firesAny firesUpto firesAll firesAllStep
      refine ⟨by simp [hx v, (ihr v).1], by simp [hx v, (ihr v).2.1], ?_⟩
      rw [hx v]
      cases visD true exro x v with
      | none => rfl
      | some v' => simp [(ihr v').2.2]
  have hP : ∀ ps : List (Str × RS), (∀ kp ∈ ps, ∀ v, hasDflt kp.2 = false → firesD exro kp.2 v = false) →
      hasDfltP ps = false → ∀ kvs, firesProps exro ps kvs = false ∧ injects exro ps kvs = false := by
    intro ps hps
    induction ps with
    | nil => intro _ _; exact ⟨rfl, rfl⟩
    | cons e r ih =>
      obtain ⟨k, p⟩ := e
      intro hd kvs
      unfold hasDfltP at hd
      simp only [Bool.or_eq_false_iff] at hd
      have ihr := ih (fun y hy => hps y (by simp [hy])) hd.2
      have hpd : p.dflt = none := by
        cases p; unfold hasDflt at hd; simp only [Bool.or_eq_false_iff] at hd
        simpa [RS.dflt, RS.extra] using hd.1.1.1.1.1.1.1
      constructor
      · unfold firesProps firesPropStep
        cases hl : lookup k kvs with
        | none => simp only; exact (ihr kvs).1
        | some x =>
          simp only [hps (k, p) (by simp) x hd.1, Bool.false_or]
          cases visD true exro p x with
          | none => exact (ihr kvs).1
          | some x' => exact (ihr _).1
      · have := (ihr kvs).2
        unfold injects at this ⊢
        simp only [List.any_cons, this, Bool.or_false]
        simp [dfltFor, hpd]
  have c1 := hL oneOf h1 d1
  have c2 := hL anyOf h2 d2
  have c3 := hL allOf h3 d3
  have cp := hP props hp dp
  have cn : ∀ v, firesNot exro nt v = false := by
    intro v
    cases nt with
    | none => rfl
    | some x => unfold firesNot; unfold hasDfltO at dn; exact hn x rfl v dn
  have ci : ∀ xs, firesItems exro items xs = false := by
    intro xs
    cases items with
    | none => rfl
    | some it =>
      unfold firesItems; unfold hasDfltO at di
      apply List.any_eq_false.mpr
      intro x _
      simp [hi it rfl x di]
  have cown : ∀ v, firesOwn exro (RS.mk t n r w ml mx props req a items nt oneOf anyOf allOf dflt)
      (firesProps exro props) (firesItems exro items) v = false := by
    intro v
    cases v with
    | obj kvs => simp [firesOwn, RS.props, (cp kvs).2, (cp _).1]
    | arr xs => simp [firesOwn, ci xs]
    | null => rfl
    | bool _ => rfl
    | int _ => rfl
    | half _ => rfl
    | str _ => rfl
  unfold firesD firesK
  simp only [cn, (c1 _).1, (c2 _).2.1, (c3 _).2.2, cown, Bool.false_or, Bool.or_false]
  split
  · rfl
  · split
    · rfl
    · cases visNot true exro nt v with
      | false => rfl
      | true =>
        simp only [Bool.true_and]
        split
        · rfl
        · split
          · rfl
          · split
            · rfl
            · split <;> rfl

/-- **C06 under default-setting, schema level.** Where defaults are neutral — no default fires on this value (any
schema), or the schema is composition-free and its injectable defaults conform and are not required — the
validator with `DefaultsSet` accepts exactly when the value satisfies the schema read as a request. -/
theorem defaults_neutral (exro : Bool) (s : RS) (v : V) (hs : s.wf = true) (hv : v.wf = true)
    (hn : defaultsNeutral exro s v = true) : (visD true exro s v).isSome = true ↔ SatReq exro s v := by
  rw [visD_neutral exro s v hs hv hn]; exact visit_asreq_iff exro s v

/-- in particular for every schema that declares no default at all -/
theorem no_default_asreq_iff (exro : Bool) (s : RS) (v : V) (hs : s.wf = true) (hv : v.wf = true)
    (hd : hasDflt s = false) : (visD true exro s v).isSome = true ↔ SatReq exro s v :=
  defaults_neutral exro s v hs hv (by simp [defaultsNeutral, no_default_no_fire exro s v hd])

/-- **a read-only property never receives its default in a request** (read-only validation on): whatever the
other properties and the value are, the key stays absent after the injection loop — so the very next check
("readOnly property in request") cannot be provoked by the document's own default (class of seeded change r3-m2) -/
theorem readOnly_default_never_injected (props : List (Str × RS)) (kvs : List (Str × V)) (k : Str) (p : RS)
    (hn : (keys props).Nodup) (hm : (k, p) ∈ props) (hro : p.ro = true) (habs : lookup k kvs = none) :
    lookup k (inject false props kvs) = none := by
  rw [lookup_inject false props hn k kvs, habs, lookup_of_mem_nodup k p props hn hm]
  simp [dfltFor, reqRO, hro]

/-- … and the keys that were absent and are present afterwards are exactly those of the properties that are not
read-only-in-request and have a default; present keys (null included, repair c740938) keep their value -/
theorem inject_spec (exro : Bool) (props : List (Str × RS)) (kvs : List (Str × V)) (k : Str)
    (hn : (keys props).Nodup) :
    lookup k (inject exro props kvs) =
      (match lookup k kvs with
       | some x => some x
       | none => (match lookup k props with | some p => dfltFor exro p | none => none)) :=
  lookup_inject exro props hn k kvs

def exIntD (ro wo : Bool) (d : Option V) : RS := RS.mk (some .integer) false ro wo 0 none [] [] none none none [] [] [] { dflt := d }
def exObjD (props : List (Str × RS)) (req : List Str) : RS := RS.leaf (some .object) false false false 0 none props req none none

/-- r3-m2 regression: `{a: integer, readOnly, default 1}`; the request `{}` omits `a`: accepted with and without
default-setting, with and without the exclusion option; as a member of `allOf` / `anyOf` / `oneOf` too; sending
`a` is rejected as before -/
theorem readOnly_default_regression :
    let s := exObjD [(['a'], exIntD true false (some (.int 1)))] []
    let wrap := fun (k : Nat) => RS.mk (some .object) false false false 0 none [] [] none none none
      (if k = 0 then [s] else []) (if k = 1 then [s] else []) (if k = 2 then [s] else []) {}
    [s, wrap 0, wrap 1, wrap 2].all (fun s =>
      (visD true false s (.obj [])).isSome && (visD true true s (.obj [])).isSome && visit false s (.obj []) &&
      !firesD false s (.obj []) && firesD true s (.obj []) &&
      !(visD true false s (.obj [(['a'], .int 1)])).isSome && satReqB false s (.obj [])) = true := by decide

/-- regression of repair 197d46a (the schema below `not` is tried on a private copy): the defaults of a schema the
value must NOT match never reach the value. `{}` against `{type: object, additionalProperties: false,
not: {required: [b], properties: {a: {default: 1}}}}`: the `not` schema fails (no `b`), so `not` passes; its default
`a` is not written into the value (before the repair it was, and `a` was then an unsupported property): accepted,
value unchanged, for both settings of default-setting; and a `not` schema that matches only thanks to its own
default rejects under default-setting (the candidate is judged completed, like a oneOf/anyOf candidate) -/
theorem not_defaults_do_not_leak :
    let pa := RS.mk none false false false 0 none [] [] none none none [] [] [] { dflt := some (.int 1) }
    let n1 := RS.leaf none false false false 0 none [(['a'], pa)] [['b']] none none
    let s1 := RS.mk (some .object) false false false 0 none [] [] (some false) none (some n1) [] [] [] {}
    let n2 := RS.leaf none false false false 0 none [(['a'], pa)] [['a']] none none
    let s2 := RS.mk (some .object) false false false 0 none [] [] none none (some n2) [] [] [] {}
    (match visD true false s1 (.obj []) with | some v' => V.beq v' (.obj []) | none => false) = true ∧
    visit false s1 (.obj []) = true ∧ firesD false s1 (.obj []) = true ∧
    (visD true false s2 (.obj [])).isSome = false ∧ visit false s2 (.obj []) = true := by decide

/-- a write-only property and a plain property do receive their defaults; the completed value is what the rest of
the validation sees -/
example :
    let s := exObjD [(['a'], exIntD false true (some (.int 1))), (['b'], exIntD false false (some (.int 2)))] [['b']]
    (match visD true false s (.obj []) with
     | some v' => V.beq v' (.obj [(['a'], .int 1), (['b'], .int 2)])
     | none => false) = true ∧
    (visD false false s (.obj [])).isSome = false := by decide

/-- **witnesses: where a default decides the verdict** (outside `defaultsNeutral`; model ≠ request-side reading):
(1) a required property satisfied by its default — accepted, the value `{}` does not satisfy `required`;
(2) a default that violates its own schema — the valid request `{}` is rejected;
(3) `allOf`: the default injected by the first member is an undeclared key for the second (`additionalProperties:
    false`) — the valid request `{}` is rejected;
(4) `oneOf`: the second member matches only thanks to its default — "more than one" — the valid `{"a":5}` is rejected -/
theorem default_decides_witnesses :
    let pa := exIntD false false (some (.int 1))
    let s1 := exObjD [(['a'], pa)] [['a']]
    let s2 := exObjD [(['a'], exIntD false false (some (.str ['x'])))] []
    let m1 := RS.leaf none false false false 0 none [(['a'], pa)] [] none none
    let m2 := RS.leaf none false false false 0 none [] [] (some false) none
    let s3 := RS.mk (some .object) false false false 0 none [] [] none none none [] [] [m1, m2] {}
    let o1 := RS.leaf none false false false 0 none [(['a'], pa)] [['a']] none none
    let o2 := RS.leaf none false false false 0 none [(['b'], exIntD false false (some (.int 2)))] [['b']] none none
    let s4 := RS.mk (some .object) false false false 0 none [] [] none none none [o1, o2] [] [] {}
    ((visD true false s1 (.obj [])).isSome = true ∧ satReqB false s1 (.obj []) = false ∧ defaultsNeutral false s1 (.obj []) = false) ∧
    ((visD true false s2 (.obj [])).isSome = false ∧ satReqB false s2 (.obj []) = true ∧ defaultsNeutral false s2 (.obj []) = false) ∧
    ((visD true false s3 (.obj [])).isSome = false ∧ satReqB false s3 (.obj []) = true ∧ defaultsNeutral false s3 (.obj []) = false) ∧
    ((visD true false s4 (.obj [(['a'], .int 5)])).isSome = false ∧ satReqB false s4 (.obj [(['a'], .int 5)]) = true ∧
      defaultsNeutral false s4 (.obj [(['a'], .int 5)]) = false) := by decide

/-- (5) `maxProperties` exceeded only by the injected default — the valid request `{"b":1}` is rejected;
(6) `minProperties` reached only thanks to the injected default — `{}` is accepted though it has no member -/
theorem default_counts_witnesses :
    let pa := exIntD false false (some (.int 1))
    let pb := exIntD false false none
    let s5 := RS.mk (some .object) false false false 0 none [(['a'], pa), (['b'], pb)] [] none none none [] [] [] { maxProps := some 1 }
    let s6 := RS.mk (some .object) false false false 0 none [(['a'], pa)] [] none none none [] [] [] { minProps := 1 }
    ((visD true false s5 (.obj [(['b'], .int 1)])).isSome = false ∧ satReqB false s5 (.obj [(['b'], .int 1)]) = true ∧
      defaultsNeutral false s5 (.obj [(['b'], .int 1)]) = false ∧ (visD false false s5 (.obj [(['b'], .int 1)])).isSome = true) ∧
    ((visD true false s6 (.obj [])).isSome = true ∧ satReqB false s6 (.obj []) = false ∧
      defaultsNeutral false s6 (.obj []) = false) := by decide

/-- non-vacuity of `defaults_neutral`: a default fires and is neutral (optional property, conforming default,
nested completion) — both verdicts occur -/
example :
    let inner := exObjD [(['k'], exIntD false false none), (['m'], exIntD false false (some (.int 7)))] []
    let s := exObjD [(['o'], inner), (['n'], exIntD false false (some (.int 2)))] [['o']]
    s.wf = true ∧ firesD false s (.obj [(['o'], .obj [])]) = true ∧ defaultsNeutral false s (.obj [(['o'], .obj [])]) = true ∧
    (match visD true false s (.obj [(['o'], .obj [])]) with
     | some v' => V.beq v' (.obj [(['o'], .obj [(['m'], .int 7)]), (['n'], .int 2)])
     | none => false) = true ∧
    visit false s (.obj [(['o'], .obj [])]) = true ∧
    (visD true false s (.obj [])).isSome = false ∧ visit false s (.obj []) = false := by decide

/- The statement without `hn` does NOT hold of the code (see `default_decides_witnesses`, `default_counts_witnesses`):
where a default decides the verdict the reading is the two-phase one (`accept_iff_completed_partial`). -/

/-- **C06, main theorem with the option SkipSettingDefaults.** Outside the one exclusion class FormFieldUnparsable
(#20), inside the model, and where defaults are neutral for the decoded value (`caseNeutral`: defaults skipped, or
nothing fires, or composition-free with harmless defaults), request-body validation accepts exactly when the
property says so — for every media type, with or without a body encoder (F-C06-4 repaired, 4a27f6e). -/
theorem accept_iff_partial_D (reg : List (Str × DecK)) (rb : ReqBody) (ct : Str) (b : BodyIn) (exro ds : Bool)
    (hmod : validateRequestBodyD reg rb ct b exro ds ≠ .panic ∧ validateRequestBodyD reg rb ct b exro ds ≠ .unmodelled)
    (hwf : formEncsWF reg rb ct b = true)
    (h1 : exclFormUnparsable reg rb ct b = false)
    (hn : caseNeutral reg rb ct b exro ds = true) (hw : caseWF reg rb ct b = true) :
    (validateRequestBodyD reg rb ct b exro ds).isOk = true ↔ Accept reg rb ct b exro := by
  have e := validateRequestBodyD_eq reg rb ct b exro ds hmod.2 hn hw
  rw [e] at hmod ⊢
  exact accept_iff_partial reg rb ct b exro hmod hwf h1

/-- **two-phase reading, schema level.** For every composition-free schema (any defaults, conforming or not,
required or not, counted or not) the validator with `DefaultsSet` accepts exactly when the value COMPLETED by the
applicable defaults satisfies the schema read as a request. (`defaults_neutral` is the case where completing
changes nothing for the verdict.) -/
theorem completed_reading (exro : Bool) (s : RS) (v : V) (hc : compFree s = true) (hs : s.wf = true)
    (hv : v.wf = true) : (visD true exro s v).isSome = true ↔ SatReq exro s (complete exro s v) := by
  rw [visD_completed_visit exro s v hc hs hv]; exact visit_asreq_iff exro s _

/-- … and the value the validator hands on (the one re-encoded for the next handler) is exactly the completed
value: for composition-free schemas the one-pass validator with `DefaultsSet` IS "complete, then validate" -/
theorem visD_is_complete_then_validate (exro : Bool) (s : RS) (v : V) (hc : compFree s = true) (hs : s.wf = true)
    (hv : v.wf = true) :
    visD true exro s v = (if satReqB exro s (complete exro s v) then some (complete exro s v) else none) := by
  have h1 := visD_completed_visit exro s v hc hs hv
  rw [visit_eq_satReqB] at h1
  cases hx : visD true exro s v with
  | none => rw [hx] at h1; simp only [Option.isSome_none] at h1; simp [← h1]
  | some v' =>
    rw [hx] at h1
    simp only [Option.isSome_some] at h1
    rw [← h1, visD_value_compFree exro s hc v v' hx]
    rfl

/-- **allOf with defaults, composition-free members**: the sequential visit of the members IS the chain
"complete by the member, check the member, hand the completed value to the next member" — which is why a default
injected by an earlier member is seen by a later one (and can be rejected by it, `default_decides_witnesses` (3)),
while a later member's default is never seen by an earlier one -/
theorem allOf_is_chain (exro : Bool) (l : List RS) (hl : ∀ m ∈ l, compFree m = true ∧ m.wf = true) :
    ∀ v, v.wf = true → visAll true exro l v = chainComplete exro l v := by
  induction l with
  | nil => intro v _; rfl
  | cons m r ih =>
    intro v hv
    obtain ⟨hc, hs⟩ := hl m (by simp)
    unfold visAll chainComplete
    rw [visD_is_complete_then_validate exro m v hc hs hv]
    cases satReqB exro m (complete exro m v) with
    | false => rfl
    | true =>
      simp only [if_true, Option.bind_some]
      exact ih (fun x hx => hl x (by simp [hx])) _ (complete_wf exro m hs v hv)

example :
    let pa := exIntD false false (some (.int 1))
    let m1 := RS.leaf none false false false 0 none [(['a'], pa)] [] none none
    let m2 := RS.leaf none false false false 0 none [] [['a']] none none
    let m3 := RS.leaf none false false false 0 none [] [] (some false) none
    (match chainComplete false [m1, m2] (.obj []) with | some v => V.beq v (.obj [(['a'], .int 1)]) | none => false) = true ∧
    (chainComplete false [m2, m1] (.obj [])).isSome = false ∧
    (chainComplete false [m1, m3] (.obj [])).isSome = false ∧ (chainComplete false [m3, m1] (.obj [])).isSome = true := by decide

/-- harmless defaults: completing the value does not change whether it satisfies the schema -/
theorem harmless_completion (exro : Bool) (s : RS) (v : V) (hc : compFree s = true) (hs : s.wf = true)
    (hv : v.wf = true) (hh : dfltsHarmless exro s = true) :
    SatReq exro s (complete exro s v) ↔ SatReq exro s v := by
  rw [← completed_reading exro s v hc hs hv]
  exact defaults_neutral exro s v hs hv (by simp [defaultsNeutral, hc, hh])

/-- **C06 with default-setting ON, two-phase reading, whole decision.** For a composition-free selected schema,
outside FormFieldUnparsable and inside the model: request-body validation accepts exactly when
the value the body encodes, completed by the declared defaults, satisfies the schema read as a request. -/
theorem accept_iff_completed_partial (reg : List (Str × DecK)) (rb : ReqBody) (ct : Str) (b : BodyIn) (exro : Bool)
    (hmod : validateRequestBodyD reg rb ct b exro true ≠ .panic ∧ validateRequestBodyD reg rb ct b exro true ≠ .unmodelled)
    (hwf : formEncsWF reg rb ct b = true)
    (h1 : exclFormUnparsable reg rb ct b = false)
    (hcf : caseCompFree reg rb ct b = true) (hw : caseWF reg rb ct b = true) :
    (validateRequestBodyD reg rb ct b exro true).isOk = true ↔ AcceptD reg rb ct b exro true := by
  unfold AcceptD
  by_cases ht : b.text = []
  · cases hr : rb.required <;> simp [validateRequestBodyD, ht, hr, Outcome.isOk]
  · by_cases hc : rb.content = []
    · simp [validateRequestBodyD, ht, hc, Outcome.isOk]
    · rw [← contentGet_spec]
      cases hs : contentGet rb.content ct with
      | none => simp [validateRequestBodyD, ht, hc, hs, Outcome.isOk]
      | some mt =>
        cases hn : mt.schema with
        | none => simp [validateRequestBodyD, ht, hc, hs, hn, Outcome.isOk]
        | some s =>
          have hd := decode_agrees reg rb ct b mt s ht hc hs hn h1 hwf
          have hout : validateRequestBodyD reg rb ct b exro true =
              (match decodeBody reg ct s mt.encs b with
               | .err => .decodeErr | .panic => .panic | .unmodelled => .unmodelled
               | .val v => validateValue exro true s v) := by
            simp only [validateRequestBodyD, ht, hc, hs, hn, if_false]
            cases decodeBody reg ct s mt.encs b <;> rfl
          rw [hout] at hmod ⊢
          cases hdec : decodeBody reg ct s mt.encs b with
          | err =>
            have := hd.2 hdec
            simp [Outcome.isOk, ht, hc, hn, this]
          | panic => simp [hdec] at hmod
          | unmodelled => simp [hdec] at hmod
          | val v =>
            have hsv := hd.1 v hdec
            have hdv := decodedValue_of_val reg rb ct b mt s v ht hc hs hn hdec
            unfold caseCompFree at hcf
            unfold caseWF at hw
            simp only [hdv, Bool.and_eq_true] at hcf hw
            have hvis := completed_reading exro s v hcf hw.1 hw.2
            simp only [hdec] at hmod ⊢
            unfold validateValue at hmod ⊢
            simp only [Bool.not_true, Bool.false_eq_true, if_false] at hmod ⊢
            · refine Iff.trans (b := SatReq exro s (complete exro s v)) ?_ ?_
              · rw [← hvis]
                cases visD true exro s v <;> simp [Outcome.isOk]
              · constructor
                · intro hsat
                  exact Or.inr ⟨ht, Or.inr ⟨mt, rfl, Or.inr ⟨s, v, hn, hsv, by simpa using hsat⟩⟩⟩
                · rintro (⟨h0, _⟩ | ⟨_, h0 | ⟨mt', hmt', hsch | ⟨s', v', hs', hv', hsat⟩⟩⟩)
                  · exact absurd h0 ht
                  · exact absurd h0 hc
                  · cases hmt'; rw [hn] at hsch; cases hsch
                  · cases hmt'
                    rw [hn] at hs'; cases hs'
                    rw [hsv] at hv'; cases hv'
                    simpa using hsat

/-- the executable oracle of the two-phase reading decides it -/
theorem acceptDB_iff (reg : List (Str × DecK)) (rb : ReqBody) (ct : Str) (b : BodyIn) (exro ds : Bool) :
    acceptDB reg rb ct b exro ds = true ↔ AcceptD reg rb ct b exro ds := by
  unfold acceptDB AcceptD
  by_cases ht : b.text = []
  · cases hr : rb.required <;> simp [ht, hr]
  · by_cases hc : rb.content = []
    · simp [ht, hc]
    · rw [if_neg ht, if_neg hc]
      have hA : ∀ P : Prop, ((b.text = [] ∧ rb.required = false) ∨ (b.text ≠ [] ∧ (rb.content = [] ∨ P))) ↔ P := by
        intro P
        constructor
        · rintro (⟨h0, _⟩ | ⟨_, h0 | h0⟩)
          · exact absurd h0 ht
          · exact absurd h0 hc
          · exact h0
        · intro h; exact Or.inr ⟨ht, Or.inr h⟩
      rw [hA]
      cases hs : firstSome rb.content (candidates ct) with
      | none => simp
      | some mt =>
        cases hn : mt.schema with
        | none => simp only [hn, true_iff]; exact ⟨mt, rfl, Or.inl hn⟩
        | some s =>
          cases hd : specDecode reg ct s mt.encs b with
          | none =>
            simp only [hn, hd, Bool.false_eq_true, false_iff]
            rintro ⟨mt', hmt', hsch | ⟨s', v', hs', hv', _⟩⟩
            · cases hmt'; rw [hn] at hsch; cases hsch
            · cases hmt'; rw [hn] at hs'; cases hs'; rw [hd] at hv'; cases hv'
          | some v =>
            simp only [hn, hd]
            constructor
            · intro h; exact ⟨mt, rfl, Or.inr ⟨s, v, hn, hd, (satReqB_iff exro s _).mp h⟩⟩
            · rintro ⟨mt', hmt', hsch | ⟨s', v', hs', hv', hsat⟩⟩
              · cases hmt'; rw [hn] at hsch; cases hsch
              · cases hmt'; rw [hn] at hs'; cases hs'; rw [hd] at hv'; cases hv'
                exact (satReqB_iff exro s _).mpr hsat

/-- regression of the repaired finding F-C06-4 (NoBodyEncoder, 4a27f6e): `b=x` against
`{a: integer default 1, b: string}` sent as application/x-www-form-urlencoded — the value `{b: "x"}` satisfies the
schema; it is accepted with default-setting on (a default fires, no encoder exists for the media type) and with
defaults skipped, exactly as the same body sent as JSON; the hypotheses of the main theorem hold -/
theorem regression_noBodyEncoder :
    let s := exObjD [(exStr "a", exIntD false false (some (.int 1))), (exStr "b", exString)] []
    let rb : ReqBody := ⟨true, [(exForm, ⟨some s, []⟩)]⟩
    let b := exBody "b=x" none (some [(exStr "b", [exStr "x"])])
    let rbJ : ReqBody := ⟨true, [(exStr "application/json", ⟨some s, []⟩)]⟩
    let bJ := exBody "{\"b\":\"x\"}" (some (.obj [(exStr "b", .str (exStr "x"))])) none
    validateRequestBodyD registry rb exForm b false true = .ok ∧ acceptB registry rb exForm b false = true ∧
    caseNeutral registry rb exForm b false true = true ∧ caseWF registry rb exForm b = true ∧
    validateRequestBodyD registry rb exForm b false false = .ok ∧
    validateRequestBodyD registry rbJ (exStr "application/json") bJ false true = .ok := by decide

/-- non-vacuity of `accept_iff_partial_D` with default-setting ON: every hypothesis holds, a default fires, both verdicts -/
example :
    let s := exObjD [(exStr "a", exIntD false false (some (.int 1))), (exStr "id", exIntD true false (some (.int 9))), (exStr "b", exString)] [exStr "b", exStr "id"]
    let rb : ReqBody := ⟨true, [(exStr "application/json", ⟨some s, []⟩)]⟩
    let ct := exStr "application/json"
    let good := exBody "{\"b\":\"x\"}" (some (.obj [(exStr "b", .str (exStr "x"))])) none
    let bad := exBody "{}" (some (.obj [])) none
    caseNeutral registry rb ct good false true = true ∧ caseWF registry rb ct good = true ∧
    validateRequestBodyD registry rb ct good false true = .ok ∧ acceptB registry rb ct good false = true ∧
    caseNeutral registry rb ct bad false true = true ∧
    validateRequestBodyD registry rb ct bad false true = .schemaErr ∧ acceptB registry rb ct bad false = false := by decide

end KinModel.Body
