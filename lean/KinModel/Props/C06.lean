import KinModel.Body
namespace KinModel.Body
theorem placeholder : True := trivial
end KinModel.Body
