/-
C06 — request bodies: media-type match, decoding, request-side rules.
Property theorems only (model and spec: KinModel/Body.lean; helper lemmas: KinModel/Lemmas/C06.lean).
-/
import KinModel.Body
import KinModel.Lemmas.C06
import KinModel.Lemmas.C06Text
import KinModel.Gen.BodyDecoders
namespace KinModel.Body

/-! ## (T) the decoder registry of the model is the one the source builds -/

/-- the translator could read every registry statement of the source -/
theorem registry_table_recognised :
    Gen.bodyDecoders.all (fun r => match r with | .unrecognised _ => false | .reg _ _ => true) = true := by decide

/-- the model's registry is, entry by entry and in order, the list of `RegisterBodyDecoder` calls of
`openapi3filter`'s `init` (regenerated from the working tree on every run) -/
theorem registry_matches_source :
    Gen.bodyDecoders.map (fun r => match r with | .reg k d => (k, d) | .unrecognised s => (s, "")) = registrySrc := by
  decide

/-- every registered decoder name is one the model knows (no entry is silently dropped by `registryOf`) -/
theorem registry_complete : (registryOf registrySrc).length = registrySrc.length := by decide

/-- the four media types the property names are routed to the four decoders the model describes, and the
registry has no two entries for one media type (it is a Go map) -/
theorem registry_routes :
    lookup "application/json".toList registry = some .json ∧
    lookup "application/x-www-form-urlencoded".toList registry = some .urlencoded ∧
    lookup "multipart/form-data".toList registry = some .multipart ∧
    lookup "text/plain".toList registry = some .plain ∧
    (keys registry).Nodup := by decide

/-! ## (a) media-type selection -/

/-- **C06(a).** The media type chosen by `Content.Get` is the first declared one in the documented precedence
order: the exact header text, then the text without parameters, then `type/*`, then `*/*`; an empty header
only matches `*/*`; a header without `/` never matches a wildcard. -/
theorem contentGet_spec {α : Type} (c : List (Str × α)) (mime : Str) :
    contentGet c mime = firstSome c (candidates mime) := by
  unfold contentGet candidates
  by_cases h : mime = []
  · simp [h, firstSome]; cases lookup star c <;> rfl
  · simp only [h, if_false]
    cases h1 : lookup mime c with
    | some v => cases majorType (base mime) <;> simp [firstSome, h1]
    | none =>
      cases h2 : lookup (base mime) c with
      | some v => cases majorType (base mime) <;> simp [firstSome, h1, h2]
      | none =>
        cases h3 : majorType (base mime) with
        | none => simp [firstSome, h1, h2]
        | some t =>
          cases h4 : lookup (t ++ slashStar) c with
          | some v => simp [firstSome, h1, h2, h4]
          | none => simp [firstSome, h1, h2, h4]; cases lookup star c <;> rfl

/-- an entry declared under exactly the header text (parameters included) wins over every other entry -/
theorem exact_wins {α : Type} (c : List (Str × α)) (mime : Str) (v : α) (hne : mime ≠ [])
    (h : lookup mime c = some v) : contentGet c mime = some v := by
  simp [contentGet, hne, h]

/-- without an exact entry, the entry for the text before the first ';' is used -/
theorem params_fall_back_to_base {α : Type} (c : List (Str × α)) (mime : Str) (v : α) (hne : mime ≠ [])
    (h1 : lookup mime c = none) (h2 : lookup (base mime) c = some v) : contentGet c mime = some v := by
  simp [contentGet, hne, h1, h2]

/-- an empty Content-Type is only ever matched by `*/*` -/
theorem empty_mime_only_star {α : Type} (c : List (Str × α)) : contentGet c [] = lookup star c := by
  simp [contentGet]

/-- a header text without '/' is never matched by a wildcard entry -/
theorem no_slash_no_wildcard {α : Type} (c : List (Str × α)) (mime : Str) (hne : mime ≠ [])
    (h1 : lookup mime c = none) (h2 : lookup (base mime) c = none) (h3 : majorType (base mime) = none) :
    contentGet c mime = none := by
  simp [contentGet, hne, h1, h2, h3]

/-- nothing declared under any of the four candidate keys ⇒ the content type is undeclared -/
theorem undeclared_iff {α : Type} (c : List (Str × α)) (mime : Str) :
    contentGet c mime = none ↔ ∀ k ∈ candidates mime, lookup k c = none := by
  rw [contentGet_spec]
  generalize candidates mime = l
  induction l with
  | nil => simp [firstSome]
  | cons k ks ih =>
    simp only [firstSome, List.mem_cons, forall_eq_or_imp]
    cases hk : lookup k c with
    | none => simpa using ih
    | some v => simp

example : contentGet [("application/json".toList, 1), ("application/*".toList, 2), (star, 3)]
    "application/json; charset=utf-8".toList = some 1 := by decide
example : contentGet [("application/json; charset=utf-8".toList, 0), ("application/json".toList, 1)]
    "application/json; charset=utf-8".toList = some 0 := by decide
example : contentGet [("application/*".toList, 2), (star, 3)] "application/xml".toList = some 2 := by decide
example : contentGet [("application/*".toList, 2), (star, 3)] "text/plain".toList = some 3 := by decide
example : contentGet [("application/*".toList, 2), (star, 3)] "application".toList = (none : Option Nat) := by decide

/-! ## (b) decision table of `ValidateRequestBody` -/

section decision
variable (reg : List (Str × DecK)) (rb : ReqBody) (ct : Str) (b : BodyIn) (exro : Bool)

/-- a missing body is rejected exactly when the body is required -/
theorem missing_iff : validateRequestBody reg rb ct b exro = .missing ↔ b.text = [] ∧ rb.required = true := by
  unfold validateRequestBody
  by_cases h : b.text = []
  · cases rb.required <;> simp [h]
  · simp only [h, if_false, false_and, iff_false]
    split
    · simp
    · split
      · simp
      · split
        · simp
        · split <;> (try simp) ; split <;> simp

/-- an empty body that is not required is accepted, whatever is declared and whatever the header says -/
theorem empty_optional_ok (h : b.text = []) (hr : rb.required = false) :
    validateRequestBody reg rb ct b exro = .ok := by
  simp [validateRequestBody, h, hr]

/-- a non-empty body whose content type is not declared (under none of the candidate keys) is rejected -/
theorem undeclared_rejected (h : b.text ≠ []) (hc : rb.content ≠ []) (hn : contentGet rb.content ct = none) :
    validateRequestBody reg rb ct b exro = .badCT := by
  simp [validateRequestBody, h, hc, hn]

/-- a selected media type without schema accepts every non-empty body -/
theorem no_schema_accepts (h : b.text ≠ []) (hc : rb.content ≠ []) (mt : MediaType)
    (hs : contentGet rb.content ct = some mt) (hn : mt.schema = none) :
    validateRequestBody reg rb ct b exro = .ok := by
  simp [validateRequestBody, h, hc, hs, hn]

/-- otherwise the body is decoded with the decoder registered for the request's media type and the verdict is
the request-side validation of the decoded value; a decoding error rejects -/
theorem decoded_then_validated (h : b.text ≠ []) (hc : rb.content ≠ []) (mt : MediaType) (s : RS)
    (hs : contentGet rb.content ct = some mt) (hn : mt.schema = some s) :
    validateRequestBody reg rb ct b exro =
      (match decodeBody reg ct s mt.encs b with
       | .err => .decodeErr | .panic => .panic | .unmodelled => .unmodelled
       | .val v => if visit exro s v then .ok else .schemaErr) := by
  simp only [validateRequestBody, h, hc, hs, hn, if_false]
  cases decodeBody reg ct s mt.encs b <;> rfl

/-- the decoder is chosen by the header without parameters; a media type without registered decoder is a
decoding error even when a wildcard entry declares it -/
theorem unregistered_type_rejected (s : RS) (encs : List (Str × Enc)) (h : lookup (base ct) reg = none) :
    decodeBody reg ct s encs b = .err := by
  simp [decodeBody, h]

end decision

/-! ## (c) request-side reading of schemas -/

/-- **C06(c), full strength** (since repair e80060c of the repository; before it the statement needed the
exclusion class ReadOnlyNull). The request-side validator accepts a value exactly when the value satisfies the
schema read as a request: types, nullable, minLength, maximum, items, properties, additionalProperties,
required — where a readOnly property need not be present even if required and must be absent unless
read-only validation is excluded, and writeOnly plays no role. For every schema of the fragment, every
value, both settings of the option; no bound on sizes. -/
theorem visit_asreq_iff (exro : Bool) :
    ∀ (s : RS) (v : V), visit exro s v = true ↔ SatReq exro s v := by
  have key := visit.mutual_induct
    (motive_1 := fun s v => visit exro s v = true ↔ SatReq exro s v)
    (motive_2 := fun s kvs => visitFields exro s kvs = true ↔ SatFields exro s kvs)
    (motive_3 := fun it xs => visitItems exro it xs = true ↔ SatItems exro it xs)
  refine (key ?null ?bool ?int ?half ?str ?arr ?obj ?inil ?icons ?fnil ?fcons).1
  case null => intro s; simp [visit, SatReq]
  case bool =>
    intro s b
    rw [visit, SatReq]
    cases he : isEmptyLeaf s with
    | true => have e := emptyLeaf_of s he; simp [e.ty]
    | false => simp [permits_iff]
  case int =>
    intro s n
    rw [visit, SatReq]
    cases he : isEmptyLeaf s with
    | true => have e := emptyLeaf_of s he; simp [e.ty, e.max]
    | false =>
      simp only [Bool.false_or, Bool.and_eq_true]
      apply and_congr
      · cases s.ty with
        | none => simp [numTypeOK, permits]
        | some t => cases t <;> simp [numTypeOK, permits]
      · cases s.max with
        | none => simp [maxOK]
        | some m => simp [maxOK]
  case half =>
    intro s n
    rw [visit, SatReq]
    cases he : isEmptyLeaf s with
    | true => have e := emptyLeaf_of s he; simp [e.ty, e.max]
    | false =>
      simp only [Bool.false_or, Bool.and_eq_true]
      apply and_congr
      · cases s.ty with
        | none => simp [numTypeOK, permits]
        | some t => cases t <;> simp [numTypeOK, permits]
      · cases s.max with
        | none => simp [maxOK]
        | some m => simp [maxOK]
  case str =>
    intro s t
    rw [visit, SatReq]
    cases he : isEmptyLeaf s with
    | true => have e := emptyLeaf_of s he; simp [e.ty, e.minLen]
    | false =>
      simp only [Bool.false_or, Bool.and_eq_true, permits_iff, Bool.or_eq_true, beq_iff_eq, decide_eq_true_eq]
      apply and_congr Iff.rfl
      constructor
      · rintro (h | h)
        · omega
        · exact h
      · intro h; exact Or.inr h
  case arr =>
    intro s xs ih
    rw [visit, SatReq]
    cases he : isEmptyLeaf s with
    | true => have e := emptyLeaf_of s he; simp [e.ty, e.items]
    | false =>
      simp only [Bool.false_or, Bool.and_eq_true, permits_iff]
      apply and_congr Iff.rfl
      cases hi : s.items with
      | none => simp
      | some it =>
        simp only [Option.some.injEq, forall_eq']
        exact ih it
  case obj =>
    intro s kvs ih
    rw [visit, SatReq]
    cases he : isEmptyLeaf s with
    | true =>
      have e := emptyLeaf_of s he
      have hf : SatFields exro s kvs := satFields_of_emptyLeaf exro s e kvs
      simp [e.ty, e.required, e.props, lookup, isRO, hf]
    | false =>
      simp only [Bool.false_or, Bool.and_eq_true, permits_iff, roLoopOK_iff exro s kvs, requiredOK_iff, ih]
      constructor
      · rintro ⟨⟨⟨h1, h2⟩, h3⟩, h4⟩; exact ⟨h1, h3, h4, h2⟩
      · rintro ⟨h1, h3, h4, h2⟩; exact ⟨⟨⟨h1, h2⟩, h3⟩, h4⟩
  case inil => intro it; simp [visitItems, SatItems]
  case icons =>
    intro it v r ih1 ih2
    rw [visitItems, SatItems, Bool.and_eq_true, ih1, ih2]
  case fnil => intro s; simp [visitFields, SatFields]
  case fcons =>
    intro s k v r ih1 ih2
    rw [visitFields, SatFields, Bool.and_eq_true, ih2]
    apply and_congr _ Iff.rfl
    cases hl : lookup k s.props with
    | none => simp
    | some p => exact ih1 p

/-- the executable oracle used in the correspondence run decides `SatReq` -/
theorem satReqB_iff (exro : Bool) : ∀ (s : RS) (v : V), satReqB exro s v = true ↔ SatReq exro s v := by
  have key := visit.mutual_induct
    (motive_1 := fun s v => satReqB exro s v = true ↔ SatReq exro s v)
    (motive_2 := fun s kvs => satFieldsB exro s kvs = true ↔ SatFields exro s kvs)
    (motive_3 := fun it xs => satItemsB exro it xs = true ↔ SatItems exro it xs)
  refine (key ?null ?bool ?int ?half ?str ?arr ?obj ?inil ?icons ?fnil ?fcons).1
  case null => intro s; simp [satReqB, SatReq]
  case bool => intro s b; simp [satReqB, SatReq]
  case int =>
    intro s n; rw [satReqB, SatReq]
    cases s.max <;> simp [or_assoc]
  case half =>
    intro s n; rw [satReqB, SatReq]
    cases s.max <;> simp
  case str => intro s t; simp [satReqB, SatReq]
  case arr =>
    intro s xs ih; rw [satReqB, SatReq]
    cases hi : s.items with
    | none => simp
    | some it => simp [ih it]
  case obj =>
    intro s kvs ih; rw [satReqB, SatReq]
    simp only [Bool.and_eq_true, Bool.or_eq_true, beq_iff_eq, ih, List.all_eq_true, List.contains_iff_mem,
      Bool.not_eq_true']
    constructor
    · rintro ⟨⟨⟨h1, h2⟩, h3⟩, h4⟩
      refine ⟨h1, h2, h3, ?_⟩
      intro hx k hro hk
      rcases h4 with h4 | h4
      · simp [hx] at h4
      · have hkp : k ∈ keys s.props := by
          cases hl : lookup k s.props with
          | none => simp [hl, isRO] at hro
          | some p => exact mem_keys_of_mem k p _ (lookup_some_mem k _ p hl)
        rcases h4 k hkp with h5 | h5
        · simp [hro] at h5
        · simp [hk] at h5
    · rintro ⟨h1, h2, h3, h4⟩
      refine ⟨⟨⟨h1, h2⟩, h3⟩, ?_⟩
      cases hx : exro with
      | true => left; rfl
      | false =>
        right
        intro k _
        cases hro : isRO (lookup k s.props) with
        | false => left; rfl
        | true => right; simpa using h4 hx k hro
  case inil => intro it; simp [satItemsB, SatItems]
  case icons => intro it v r ih1 ih2; rw [satItemsB, SatItems, Bool.and_eq_true, ih1, ih2]
  case fnil => intro s; simp [satFieldsB, SatFields]
  case fcons =>
    intro s k v r ih1 ih2
    rw [satFieldsB, SatFields, Bool.and_eq_true, ih2]
    apply and_congr _ Iff.rfl
    cases hl : lookup k s.props with
    | none => simp
    | some p => exact ih1 p

/-- under `ExcludeReadOnlyValidations` a readOnly property may be present, may be absent even if required, and
everything else is checked as usual (instance of `visit_asreq_iff`) -/
theorem visit_exro_iff (s : RS) (v : V) : visit true s v = true ↔ SatReq true s v :=
  visit_asreq_iff true s v

/-- regression of the repaired finding F-C06-2 (ReadOnlyNull, e80060c): property `a` is readOnly, nullable;
the request body `{"a": null}` carries the key; validator and request-side reading now both reject it. -/
theorem readOnlyNull_regression :
    let pa := RS.mk (some .string) true true false 0 none [] [] none none
    let s := RS.mk (some .object) false false false 0 none [(['a'], pa)] [] none none
    let v := V.obj [(['a'], .null)]
    visit false s v = false ∧ satReqB false s v = false ∧ visit true s v = true ∧ satReqB true s v = true := by decide

/-- a readOnly property that is present — with any value, null included — is rejected (read-only validation on) -/
theorem readOnly_present_rejected (s : RS) (kvs : List (Str × V)) (k : Str) (v : V)
    (hro : isRO (lookup k s.props) = true) (hv : lookup k kvs = some v) :
    visit false s (.obj kvs) = false := by
  rw [visit]
  have hkp : k ∈ keys s.props := by
    cases hl : lookup k s.props with
    | none => simp [hl, isRO] at hro
    | some p => exact mem_keys_of_mem k p _ (lookup_some_mem k _ p hl)
  have he : isEmptyLeaf s = false := by
    cases h : isEmptyLeaf s with
    | false => rfl
    | true => have e := emptyLeaf_of s h; rw [e.props] at hkp; simp [keys] at hkp
  have hl : roLoopOK false s.props kvs = false := by
    unfold roLoopOK
    apply Bool.eq_false_iff.mpr
    intro hall
    have := (List.all_eq_true.mp hall) k hkp
    simp [hro, hv] at this
  simp [he, hl]

/-- a required readOnly property may be missing from a request: the `required` check is the same as for the
schema without that name in `required` — with and without the exclusion option -/
theorem readOnly_required_may_be_absent (s : RS) (kvs : List (Str × V)) :
    requiredOK s kvs = true ↔ ∀ k ∈ s.required, k ∈ keys kvs ∨ isRO (lookup k s.props) = true :=
  requiredOK_iff s kvs

example :
    let pa := RS.mk (some .string) false true false 0 none [] [] none none
    let s := RS.mk (some .object) false false false 0 none [(['a'], pa)] [['a']] none none
    visit false s (.obj []) = true ∧ visit true s (.obj []) = true ∧
    visit false s (.obj [(['a'], .str ['x'])]) = false ∧ visit true s (.obj [(['a'], .str ['x'])]) = true := by decide

/-- **write-only properties are allowed in requests**: clearing every `writeOnly` flag of a schema (at any
depth) never changes the request-side verdict, for either setting of the exclusion option -/
theorem writeOnly_irrelevant (exro : Bool) : ∀ (s : RS) (v : V), visit exro s.clearWO v = visit exro s v := by
  have key := visit.mutual_induct
    (motive_1 := fun s v => visit exro s.clearWO v = visit exro s v)
    (motive_2 := fun s kvs => visitFields exro s.clearWO kvs = visitFields exro s kvs)
    (motive_3 := fun it xs => visitItems exro it.clearWO xs = visitItems exro it xs)
  -- the shortcut for empty schemas may apply to one side only; then the general path accepts anyway
  have shortcut : ∀ (s : RS) (v : V) (g g' : Bool), v.isNull = false →
      visit exro s.clearWO v = (isEmptyLeaf s.clearWO || g') → visit exro s v = (isEmptyLeaf s || g) →
      (isEmptyLeaf s.clearWO = false → isEmptyLeaf s = false → g' = g) →
      visit exro s.clearWO v = visit exro s v := by
    intro s v g g' hv h1 h2 hg
    cases hc : isEmptyLeaf s.clearWO with
    | true =>
      have e := noConstraint_of_emptyLeaf _ hc
      rw [visit_noConstraint exro _ e v hv, visit_noConstraint exro s (noConstraint_of_clearWO s e) v hv]
    | false =>
      cases hs : isEmptyLeaf s with
      | true => rw [isEmptyLeaf_clearWO_of s hs] at hc; cases hc
      | false => rw [h1, h2, hc, hs, hg hc hs]
  refine (key ?null ?bool ?int ?half ?str ?arr ?obj ?inil ?icons ?fnil ?fcons).1
  case null => intro s; simp [visit, clearWO_nullable]
  case bool =>
    intro s b
    exact shortcut s _ _ _ rfl (by rw [visit]) (by rw [visit]) (fun _ _ => by rw [clearWO_ty])
  case int =>
    intro s n
    exact shortcut s _ _ _ rfl (by rw [visit]) (by rw [visit]) (fun _ _ => by rw [clearWO_ty, clearWO_max])
  case half =>
    intro s n
    exact shortcut s _ _ _ rfl (by rw [visit]) (by rw [visit]) (fun _ _ => by rw [clearWO_ty, clearWO_max])
  case str =>
    intro s t
    exact shortcut s _ _ _ rfl (by rw [visit]) (by rw [visit]) (fun _ _ => by rw [clearWO_ty, clearWO_minLen])
  case arr =>
    intro s xs ih
    refine shortcut s _ _ _ rfl (by rw [visit]) (by rw [visit]) (fun _ _ => ?_)
    rw [clearWO_ty, clearWO_items]
    cases s.items with
    | none => rfl
    | some it => simp only [clearWOOpt]; rw [ih it]
  case obj =>
    intro s kvs ih
    refine shortcut s _ _ _ rfl (by rw [visit]) (by rw [visit]) (fun _ _ => ?_)
    rw [clearWO_ty, ih]
    have h1 : roLoopOK exro s.clearWO.props kvs = roLoopOK exro s.props kvs := by
      unfold roLoopOK
      rw [clearWO_props, keys_clearWOProps]
      apply List.all_congr rfl
      intro k
      rw [isRO_clearWO]
    have h2 : requiredOK s.clearWO kvs = requiredOK s kvs := by
      unfold requiredOK
      rw [clearWO_required, clearWO_props]
      apply List.all_congr rfl
      intro k
      rw [isRO_clearWO]
    rw [h1, h2]
  case inil => intro it; simp [visitItems]
  case icons => intro it v r ih1 ih2; rw [visitItems, visitItems, ih1, ih2]
  case fnil => intro s; simp [visitFields]
  case fcons =>
    intro s k v r ih1 ih2
    rw [visitFields, visitFields, ih2, clearWO_props, lookup_clearWOProps, clearWO_addl]
    cases lookup k s.props with
    | none => rfl
    | some p => simp only [Option.map_some]; rw [ih1 p]

/-! ## (d) decoders -/

def exInt' : RS := RS.mk (some .integer) false false false 0 none [] [] none none


/- Full-strength statement (does NOT hold of the code, see `formUnparsable_witness`): the same without `hu`. -/

/-- **C06(d), urlencoded.** Outside the class `FormFieldUnparsable` (and for well-formed per-property
encodings and a schema the decoder supports) the object built by `UrlencodedBodyDecoder` is exactly the
object the form fields encode under the declared types and serialization methods (explode / form,
spaceDelimited, pipeDelimited); absent and empty fields are absent from the object (repair 2621864). -/
theorem decodeForm_eq_spec_partial (fields : List (Str × List Str)) (encs : List (Str × Enc)) (props : List (Str × RS))
    (hu : formUnparsable fields encs props = false)
    (hwf : encsWF encs props = true) (hpre : formPre props = .ok) :
    specFormProps fields encs props = some (decodeFormProps fields encs props) :=
  formProps_agree fields encs props hu hwf hpre

/-- inside `FormFieldUnparsable` the decoder really differs from what the fields encode: `a=x` for an integer
property encodes nothing, the decoder answers the empty object (finding #20 / F-C06-1) -/
theorem formUnparsable_witness :
    let props := [(['a'], RS.mk (some .integer) false false false 0 none [] [] none none)]
    let fields := [(['a'], [['x']])]
    formUnparsable fields [] props = true ∧ (specFormProps fields [] props).isNone = true ∧
    (decodeFormProps fields [] props).isEmpty = true := by decide

/-- regression of the repaired finding F-C06-3 (FormNullForMissing, 2621864): the form `b=1` against optional
properties `a` (string) and `b` (integer) encodes the object with `b` only; the decoder now builds exactly
that object (one entry, no `a: null`) and the validator accepts it -/
theorem formMissing_regression :
    let pa := RS.mk (some .string) false false false 0 none [] [] none none
    let pb := RS.mk (some .integer) false false false 0 none [] [] none none
    let props := [(['a'], pa), (['b'], pb)]
    let s := RS.mk (some .object) false false false 0 none props [] none none
    let fields := [(['b'], [['1']])]
    formUnparsable fields [] props = false ∧
    keys (decodeFormProps fields [] props) = [['b']] ∧
    (match specFormProps fields [] props with | some o => satReqB false s (.obj o) | none => false) = true ∧
    visit false s (.obj (decodeFormProps fields [] props)) = true := by decide

/-- **C06(d), round trip (spec side).** For every flat object of primitives and non-empty primitive arrays
written under the per-property encodings (exploded, or joined with the style's delimiter when no item text
contains it), the fields written encode exactly that object: decimal integers, `n.5` numbers, booleans
and strings parse back to themselves. Any number of properties, any values. -/
theorem specForm_roundtrip (encs : List (Str × Enc)) (val : Str → Option V) (props : List (Str × RS))
    (hnd : (keys props).Nodup)
    (henc : ∀ k p v, (k, p) ∈ props → val k = some v → FormEncodable p (lookup k encs) v) :
    specFormProps (encodeForm encs val props) encs props = some (objOf val props) := by
  have gen : ∀ ps : List (Str × RS), (∀ kp ∈ ps, kp ∈ props) →
      specFormProps (encodeForm encs val props) encs ps = some (objOf val ps) := by
    intro ps
    induction ps with
    | nil => intro _; rfl
    | cons x r ih =>
      intro hsub
      obtain ⟨k, p⟩ := x
      have hmem : (k, p) ∈ props := hsub (k, p) (by simp)
      have hl := lookup_encodeForm encs val props k (mem_keys_of_mem k p props hmem) hnd
      have ihr := ih (fun kp hkp => hsub kp (by simp [hkp]))
      unfold specFormProps
      rw [ihr]
      cases hv : val k with
      | none =>
        rw [hv] at hl
        have : specFormProp (encodeForm encs val props) k p (lookup k encs) = some none := by
          unfold specFormProp; rw [hl]; rfl
        simp [this, objOf, hv]
      | some v =>
        have he := henc k p v hmem hv
        obtain ⟨ts, hts⟩ := encodeField_of_encodable p (lookup k encs) v he
        rw [hv] at hl
        simp only [Option.bind_some, hts] at hl
        have := specFormProp_encodeField _ k p (lookup k encs) v ts he hts hl
        simp [this, objOf, hv]
  exact gen props (fun _ h => h)

/-- **C06(d), round trip (decoder), full strength.** `decodeForm (encodeForm o) = o` for the model of
`UrlencodedBodyDecoder`: every flat object of primitives and non-empty primitive arrays written under the
per-property encodings is decoded to itself (properties the client leaves out stay out). -/
theorem decodeForm_roundtrip (encs : List (Str × Enc)) (val : Str → Option V) (props : List (Str × RS))
    (hnd : (keys props).Nodup)
    (henc : ∀ k p v, (k, p) ∈ props → val k = some v → FormEncodable p (lookup k encs) v)
    (hwf : encsWF encs props = true) (hpre : formPre props = .ok) :
    decodeFormProps (encodeForm encs val props) encs props = objOf val props := by
  have hs := specForm_roundtrip encs val props hnd henc
  have hu : formUnparsable (encodeForm encs val props) encs props = false := by
    generalize encodeForm encs val props = fields at hs
    generalize objOf val props = o at hs
    clear hpre hwf henc hnd
    induction props generalizing o with
    | nil => rfl
    | cons x r ih =>
      obtain ⟨k, p⟩ := x
      unfold specFormProps at hs
      simp only [formUnparsable, List.any_cons, Bool.or_eq_false_iff]
      cases h1 : specFormProp fields k p (lookup k encs) with
      | none => simp [h1] at hs
      | some o1 =>
        cases h2 : specFormProps fields encs r with
        | none => cases o1 <;> simp [h1, h2] at hs
        | some l => exact ⟨by simp, ih l h2⟩
  have := formProps_agree _ encs props hu hwf hpre
  rw [hs] at this
  exact (Option.some.inj this).symm

example :
    let val : Str → Option V := fun k => if k = ['a'] then some (.int (-12)) else if k = ['b'] then some (.arr [.half 1, .int 3]) else none
    let props := [(['a'], exInt'), (['b'], RS.mk (some .array) false false false 0 none [] [] none (some (RS.mk (some .number) false false false 0 none [] [] none none)))]
    let encs := [(['b'], ({ style := "pipeDelimited".toList, explode := some false } : Enc))]
    encodeForm encs val props = [(['a'], ["-12".toList]), (['b'], ["1.5|3".toList])] ∧
    formUnparsable (encodeForm encs val props) encs props = false ∧
    keys (decodeFormProps (encodeForm encs val props) encs props) = [['a'], ['b']] := by decide

/-- multipart: properties without a part are absent from the object (not null) -/
theorem assemble_absent (vals : List (Str × V)) (props : List (Str × RS)) (k : Str)
    (h : valuesOf k vals = []) : lookup k (assemble vals props) = none := by
  induction props with
  | nil => simp [assemble, lookup]
  | cons x r ih =>
    obtain ⟨k', p'⟩ := x
    unfold assemble
    by_cases hk : k = k'
    · subst hk; simp only [h]; exact ih
    · cases hv : valuesOf k' vals with
      | nil => simp only; exact ih
      | cons w ws => simp only [lookup, hk, if_false]; exact ih

/-- multipart, second loop: a declared property gets all its parts when it is an array, else the first -/
theorem assemble_lookup (vals : List (Str × V)) (props : List (Str × RS)) (k : Str) (p : RS)
    (h : lookup k props = some p) :
    lookup k (assemble vals props) =
      (match valuesOf k vals with
       | [] => none
       | v :: vs => some (if tyIs p.ty .array then .arr (v :: vs) else v)) := by
  induction props with
  | nil => simp [lookup] at h
  | cons x r ih =>
    obtain ⟨k', p'⟩ := x
    unfold lookup at h
    by_cases hk : k = k'
    · subst hk
      simp only [if_true, Option.some.injEq] at h
      subst h
      unfold assemble
      cases hv : valuesOf k vals with
      | nil => simp only; exact assemble_absent vals r k hv
      | cons v vs => simp [lookup]
    · simp only [hk, if_false] at h
      unfold assemble
      cases hv : valuesOf k' vals with
      | nil => simp only; exact ih h
      | cons w ws => simp only [lookup, hk, if_false]; exact ih h

/-- JSON decoder: the decoded value is what `encoding/json` makes of the *whole* text; text that is not
exactly one JSON value (trailing data, finding #36 — now fixed) is a decoding error -/
theorem json_decoder (text : Str) (j : Option V) :
    decodeSimple .json text j = (match j with | some v => .val v | none => .err) := rfl

/-- text/plain and application/octet-stream: the body text itself, as a string -/
theorem plain_decoder (text : Str) (j : Option V) :
    decodeSimple .plain text j = .val (.str text) ∧ decodeSimple .file text j = .val (.str text) := ⟨rfl, rfl⟩

/-! ## the property as a whole -/

/-- model decoder vs the value the body encodes, for the selected media type -/
theorem decode_agrees (reg : List (Str × DecK)) (rb : ReqBody) (ct : Str) (b : BodyIn) (mt : MediaType) (s : RS)
    (h : b.text ≠ []) (hc : rb.content ≠ []) (hs : contentGet rb.content ct = some mt) (hn : mt.schema = some s)
    (h1 : exclFormUnparsable reg rb ct b = false)
    (h3 : formEncsWF reg rb ct b = true) :
    (∀ v, decodeBody reg ct s mt.encs b = .val v → specDecode reg ct s mt.encs b = some v) ∧
    (decodeBody reg ct s mt.encs b = .err → specDecode reg ct s mt.encs b = none) := by
  unfold decodeBody specDecode
  cases hreg : lookup (base ct) reg with
  | none => simp
  | some k =>
    cases k with
    | json => cases b.json <;> simp [decodeSimple]
    | plain => simp [decodeSimple]
    | file => simp [decodeSimple]
    | yaml => simp [decodeSimple]
    | csv => simp [decodeSimple]
    | multipart => cases decodeMultipart reg s b.parts <;> simp
    | urlencoded =>
      simp only
      unfold decodeForm
      cases hty : tyIs s.ty .object with
      | false => simp
      | true =>
        simp only [Bool.not_true, Bool.false_eq_true, if_false, Bool.true_and]
        cases hpre : formPre s.props with
        | err => simp
        | panic => simp
        | ok =>
          cases hf : b.form with
          | none => simp
          | some fields =>
            have hrun : formRun reg rb ct b = some (s, mt.encs, fields) := by
              unfold formRun
              have hc' : rb.content.isEmpty = false := by
                cases hcc : rb.content with
                | nil => exact absurd hcc hc
                | cons _ _ => rfl
              simp [h, hc', hs, hn, hreg, hf, hty, hpre]
            simp only [exclFormUnparsable, hrun] at h1
            simp only [formEncsWF, hrun] at h3
            have := formProps_agree fields mt.encs s.props h1 h3 hpre
            simp [this]

/- Full-strength statement (does NOT hold of the code, see `witness_formFieldUnparsable`):
     accept_iff : (validateRequestBody reg rb ct b exro).isOk = true ↔ Accept reg rb ct b exro  -/

/-- **C06, main theorem.** Outside the one remaining exclusion class (FormFieldUnparsable, #20), request-body validation accepts exactly when
the property says so: an empty body iff not required; otherwise the media type is the first declared one in
the precedence order of the header text, an undeclared type is rejected, an entry without schema accepts, and
else the value the body encodes under the decoder registered for the header's media type must exist and
satisfy the entry's schema read as a request. For every declaration, header text, body, option value and
every decoder registry; hypotheses: the case is inside the model (`hmod`: no YAML/CSV/nested-form decoder,
no array property without `items` in a form schema) and form encodings are well-formed (`hwf`). -/
theorem accept_iff_partial (reg : List (Str × DecK)) (rb : ReqBody) (ct : Str) (b : BodyIn) (exro : Bool)
    (hmod : validateRequestBody reg rb ct b exro ≠ .panic ∧ validateRequestBody reg rb ct b exro ≠ .unmodelled)
    (hwf : formEncsWF reg rb ct b = true)
    (h1 : exclFormUnparsable reg rb ct b = false) :
    (validateRequestBody reg rb ct b exro).isOk = true ↔ Accept reg rb ct b exro := by
  unfold Accept
  by_cases ht : b.text = []
  · cases hr : rb.required <;> simp [validateRequestBody, ht, hr, Outcome.isOk]
  · by_cases hc : rb.content = []
    · simp [validateRequestBody, ht, hc, Outcome.isOk]
    · rw [← contentGet_spec]
      cases hs : contentGet rb.content ct with
      | none => simp [validateRequestBody, ht, hc, hs, Outcome.isOk]
      | some mt =>
        cases hn : mt.schema with
        | none => simp [validateRequestBody, ht, hc, hs, hn, Outcome.isOk]
        | some s =>
          have hd := decode_agrees reg rb ct b mt s ht hc hs hn h1 hwf
          have hout := decoded_then_validated reg rb ct b exro ht hc mt s hs hn
          rw [hout] at hmod ⊢
          cases hdec : decodeBody reg ct s mt.encs b with
          | err =>
            have := hd.2 hdec
            simp [Outcome.isOk, ht, hc, hn, this]
          | panic => simp [hdec] at hmod
          | unmodelled => simp [hdec] at hmod
          | val v =>
            have hsv := hd.1 v hdec
            have hv := visit_asreq_iff exro s v
            constructor
            · intro hok
              refine Or.inr ⟨ht, Or.inr ⟨mt, rfl, Or.inr ⟨s, v, hn, hsv, ?_⟩⟩⟩
              cases hvis : visit exro s v with
              | true => exact hv.mp hvis
              | false => simp [hvis, Outcome.isOk] at hok
            · rintro (⟨h0, _⟩ | ⟨_, h0 | ⟨mt', hmt', hsch | ⟨s', v', hs', hv', hsat⟩⟩⟩)
              · exact absurd h0 ht
              · exact absurd h0 hc
              · cases hmt'; rw [hn] at hsch; cases hsch
              · cases hmt'
                rw [hn] at hs'; cases hs'
                rw [hsv] at hv'; cases hv'
                have := hv.mpr hsat
                simp [this, Outcome.isOk]

/-- the executable oracle of the correspondence run decides the property -/
theorem acceptB_iff (reg : List (Str × DecK)) (rb : ReqBody) (ct : Str) (b : BodyIn) (exro : Bool) :
    acceptB reg rb ct b exro = true ↔ Accept reg rb ct b exro := by
  unfold acceptB Accept
  by_cases ht : b.text = []
  · cases hr : rb.required <;> simp [ht, hr]
  · by_cases hc : rb.content = []
    · simp [ht, hc]
    · rw [if_neg ht, if_neg hc]
      have hA : ∀ P : Prop, ((b.text = [] ∧ rb.required = false) ∨ (b.text ≠ [] ∧ (rb.content = [] ∨ P))) ↔ P := by
        intro P
        constructor
        · rintro (⟨h0, _⟩ | ⟨_, h0 | h0⟩)
          · exact absurd h0 ht
          · exact absurd h0 hc
          · exact h0
        · intro h; exact Or.inr ⟨ht, Or.inr h⟩
      rw [hA]
      cases hs : firstSome rb.content (candidates ct) with
      | none => simp
      | some mt =>
        cases hn : mt.schema with
        | none => simp only [hn, true_iff]; exact ⟨mt, rfl, Or.inl hn⟩
        | some s =>
          cases hd : specDecode reg ct s mt.encs b with
          | none =>
            simp only [hn, hd, Bool.false_eq_true, false_iff]
            rintro ⟨mt', hmt', hsch | ⟨s', v', hs', hv', _⟩⟩
            · cases hmt'; rw [hn] at hsch; cases hsch
            · cases hmt'; rw [hn] at hs'; cases hs'; rw [hd] at hv'; cases hv'
          | some v =>
            simp only [hn, hd]
            constructor
            · intro h; exact ⟨mt, rfl, Or.inr ⟨s, v, hn, hd, (satReqB_iff exro s v).mp h⟩⟩
            · rintro ⟨mt', hmt', hsch | ⟨s', v', hs', hv', hsat⟩⟩
              · cases hmt'; rw [hn] at hsch; cases hsch
              · cases hmt'; rw [hn] at hs'; cases hs'; rw [hd] at hv'; cases hv'
                exact (satReqB_iff exro s v).mpr hsat

/-! ### witnesses at the level of the whole decision, and non-vacuity -/

def exStr (s : String) : Str := s.toList
def exInt : RS := RS.mk (some .integer) false false false 0 none [] [] none none
def exString : RS := RS.mk (some .string) false false false 0 none [] [] none none
def exObj (props : List (Str × RS)) (req : List Str) : RS := RS.mk (some .object) false false false 0 none props req none none
def exForm : Str := exStr "application/x-www-form-urlencoded"
def exBody (text : String) (json : Option V) (form : Option (List (Str × List Str))) : BodyIn :=
  { text := text.toList, json := json, form := form, parts := none }

/-- F-C06-1 (#20): `a=x` against `{a: integer}` — the field is dropped, the body accepted; the body encodes nothing -/
theorem witness_formFieldUnparsable :
    let rb : ReqBody := ⟨true, [(exForm, ⟨some (exObj [(exStr "a", exInt)] []), []⟩)]⟩
    let b := exBody "a=x" none (some [(exStr "a", [exStr "x"])])
    exclFormUnparsable registry rb exForm b = true ∧
    validateRequestBody registry rb exForm b false = .ok ∧ acceptB registry rb exForm b false = false := by decide

/-- regression of F-C06-3 (repaired, 2621864): `b=1` against optional `{a: string, b: integer}` is accepted, as the
property says; a missing *required* nullable property is rejected -/
theorem regression_formNullForMissing :
    let rb : ReqBody := ⟨true, [(exForm, ⟨some (exObj [(exStr "a", exString), (exStr "b", exInt)] []), []⟩)]⟩
    let sn := RS.mk (some .string) true false false 0 none [] [] none none
    let rb2 : ReqBody := ⟨true, [(exForm, ⟨some (exObj [(exStr "a", sn), (exStr "b", exInt)] [exStr "a"]), []⟩)]⟩
    let b := exBody "b=1" none (some [(exStr "b", [exStr "1"])])
    exclFormUnparsable registry rb exForm b = false ∧
    validateRequestBody registry rb exForm b false = .ok ∧ acceptB registry rb exForm b false = true ∧
    validateRequestBody registry rb2 exForm b false = .schemaErr ∧ acceptB registry rb2 exForm b false = false := by decide

/-- regression of F-C06-2 (repaired, e80060c): JSON body `{"a": null}` against `{a: string, readOnly, nullable}`
is rejected, and accepted under ExcludeReadOnlyValidations -/
theorem regression_readOnlyNull :
    let pa := RS.mk (some .string) true true false 0 none [] [] none none
    let rb : ReqBody := ⟨true, [(exStr "application/json", ⟨some (exObj [(exStr "a", pa)] []), []⟩)]⟩
    let b := exBody "{\"a\":null}" (some (.obj [(exStr "a", .null)])) none
    validateRequestBody registry rb (exStr "application/json") b false = .schemaErr ∧
    acceptB registry rb (exStr "application/json") b false = false ∧
    validateRequestBody registry rb (exStr "application/json") b true = .ok ∧
    acceptB registry rb (exStr "application/json") b true = true := by decide

/-- #36 (fixed): a JSON body with trailing data is not one JSON value: the decoder's view is `none`, the
model rejects with a decoding error and so does the property -/
theorem trailing_data_rejected :
    let rb : ReqBody := ⟨true, [(exStr "application/json", ⟨some (exObj [(exStr "a", exInt)] []), []⟩)]⟩
    let b := exBody "{\"a\":1} trailing" none none
    validateRequestBody registry rb (exStr "application/json") b false = .decodeErr ∧
    acceptB registry rb (exStr "application/json") b false = false := by decide

/- non-vacuity of `accept_iff_partial`: every hypothesis holds on non-trivial inputs of each kind, with both verdicts -/
example :
    let rb : ReqBody := ⟨true, [(exStr "application/*", ⟨some (exObj [(exStr "a", exInt), (exStr "b", exString)] [exStr "a"]), []⟩)]⟩
    let ct := exStr "application/x-www-form-urlencoded; charset=utf-8"
    let b := exBody "a=7&b=x" none (some [(exStr "a", [exStr "7"]), (exStr "b", [exStr "x"])])
    formEncsWF registry rb ct b = true ∧ exclFormUnparsable registry rb ct b = false ∧
    validateRequestBody registry rb ct b false = .ok ∧ acceptB registry rb ct b false = true := by decide

example :
    let ro := RS.mk (some .string) false true false 0 none [] [] none none
    let rb : ReqBody := ⟨false, [(exStr "application/json", ⟨some (exObj [(exStr "id", ro), (exStr "n", exInt)] [exStr "id", exStr "n"]), []⟩),
                                 (star, ⟨none, []⟩)]⟩
    let ct := exStr "application/json; charset=utf-8"
    let good := exBody "{\"n\":1}" (some (.obj [(exStr "n", .int 1)])) none
    let bad := exBody "{\"id\":\"x\",\"n\":1}" (some (.obj [(exStr "id", .str (exStr "x")), (exStr "n", .int 1)])) none
    validateRequestBody registry rb ct good false = .ok ∧ acceptB registry rb ct good false = true ∧
    validateRequestBody registry rb ct bad false = .schemaErr ∧ acceptB registry rb ct bad false = false ∧
    validateRequestBody registry rb ct bad true = .ok ∧ acceptB registry rb ct bad true = true ∧
    validateRequestBody registry rb (exStr "text/plain") good false = .ok ∧
    validateRequestBody registry ⟨false, [(exStr "application/json", ⟨none, []⟩)]⟩ (exStr "text/plain") good false = .badCT := by decide

end KinModel.Body
