/-
C07 — a request passes iff security, every effective parameter and the body pass.
Property theorems only (model and spec: KinModel/Request.lean).
-/
import KinModel.Request
namespace KinModel.Request

theorem runReq_fst (d a : String → Bool) (l : List String) :
    (runReq d a l).1 = l.all (fun s => d s && a s) := by
  induction l with
  | nil => simp [runReq]
  | cons s rest ih =>
    unfold runReq
    cases hd : d s <;> cases ha : a s <;> simp [hd, ha, ih]

theorem mem_insertName (x s : String) (l : List String) : s ∈ insertName x l ↔ s = x ∨ s ∈ l := by
  induction l with
  | nil => simp [insertName]
  | cons y ys ih =>
    unfold insertName
    split
    · simp
    · simp only [List.mem_cons, ih]
      constructor
      · rintro (h | h | h) <;> simp [h]
      · rintro (h | h | h) <;> simp [h]

theorem mem_sortNames (r : Requirement) (s : String) : s ∈ sortNames r ↔ s ∈ r := by
  unfold sortNames
  induction r with
  | nil => simp
  | cons x xs ih => simp [List.foldr, mem_insertName, ih]

theorem runReqs_fst (d a : String → Bool) (rs : List Requirement) :
    (runReqs d a rs).1 = rs.any (fun r => r.all (fun s => d s && a s)) := by
  induction rs with
  | nil => simp [runReqs]
  | cons r rest ih =>
    unfold runReqs
    have h1 : (runReq d a (sortNames r)).1 = r.all (fun s => d s && a s) := by
      rw [runReq_fst]
      apply Bool.eq_iff_iff.mpr
      simp only [List.all_eq_true, mem_sortNames]
    cases hb : (runReq d a (sortNames r)).1 with
    | true =>
      have : (r.all fun s => d s && a s) = true := by rw [← h1]; exact hb
      simp [hb, this]
    | false =>
      have : (r.all fun s => d s && a s) = false := by rw [← h1]; exact hb
      simp only [hb, List.any_cons, this, Bool.false_or]
      exact ih

theorem runSecurity_eq_secSpecB (d a : String → Bool) (op : Op) :
    (runSecurity d a op).1 = secSpecB d a op := by
  unfold runSecurity secSpecB
  cases h : securityList op with
  | nil => simp
  | cons r rs => simp only [runReqs_fst, List.isEmpty_cons, Bool.false_or]

theorem secSpecB_iff (d a : String → Bool) (op : Op) : secSpecB d a op = true ↔ SecSpec d a op := by
  simp [secSpecB, SecSpec, List.isEmpty_iff]

/-- Security succeeds exactly when the applicable list is empty or some requirement has all its
schemes declared and accepted (an empty requirement needs nothing). -/
theorem security_iff (d a : String → Bool) (op : Op) :
    (runSecurity d a op).1 = true ↔ SecSpec d a op := by
  rw [runSecurity_eq_secSpecB]; exact secSpecB_iff d a op

theorem isOk_iff_failing_nil (o : Opts) (op : Op) (d a : String → Bool) :
    (validateRequest o op d a).isOk = true ↔ failing o op d a = [] := by
  unfold validateRequest
  cases h : failing o op d a with
  | nil => simp [Res.isOk]
  | cons p ps => cases o.multiError <;> simp [Res.isOk]

theorem mem_visited_iff_effective (o : Opts) (op : Op) (p : Param) :
    p ∈ visitedParams o op ↔ p ∈ effective o op := by
  unfold visitedParams effective skipQuery
  simp only [List.mem_append, List.mem_filter, Bool.and_eq_true, Bool.not_eq_true']
  constructor
  · rintro (⟨h1, h2, h3⟩ | ⟨h1, h2⟩)
    · exact ⟨Or.inr ⟨h1, h3⟩, h2⟩
    · exact ⟨Or.inl h1, h2⟩
  · rintro ⟨h1 | ⟨h1, h3⟩, h2⟩
    · exact Or.inr ⟨h1, h2⟩
    · exact Or.inl ⟨h1, h2, h3⟩

/-- **C07 main theorem.** Request validation succeeds exactly when security passes, every parameter in
effect validates, and the body (when present and not excluded) validates. Holds for every operation,
every option combination and every outcome of the authentication callback. -/
theorem accept_iff (o : Opts) (op : Op) (d a : String → Bool) :
    (validateRequest o op d a).isOk = true ↔ Accept o op d a := by
  rw [isOk_iff_failing_nil]
  unfold failing Accept bodyChecked
  simp only [List.append_eq_nil_iff, List.map_eq_nil_iff, List.filter_eq_nil_iff]
  constructor
  · rintro ⟨⟨hs, hp⟩, hb⟩
    refine ⟨?_, ?_, ?_⟩
    · apply (security_iff d a op).mp
      cases hc : (runSecurity d a op).1 with
      | true => rfl
      | false => simp [hc] at hs
    · intro p hpm
      have := hp p ((mem_visited_iff_effective o op p).mpr hpm)
      simpa using this
    · intro h1 h2
      cases hc : op.bodyOK with
      | true => rfl
      | false => simp [h1, h2, hc] at hb
  · rintro ⟨hs, hp, hb⟩
    refine ⟨⟨?_, ?_⟩, ?_⟩
    · have := (security_iff d a op).mpr hs; simp [this]
    · intro p hpm
      have := hp p ((mem_visited_iff_effective o op p).mp hpm)
      simp [this]
    · cases h1 : op.hasBody <;> cases h2 : o.excludeBody <;> simp
      exact hb h1 h2

theorem acceptB_iff (o : Opts) (op : Op) (d a : String → Bool) :
    acceptB o op d a = true ↔ Accept o op d a := by
  unfold acceptB Accept
  simp only [Bool.and_eq_true, Bool.or_eq_true, Bool.not_eq_true', List.all_eq_true, secSpecB_iff]
  constructor
  · rintro ⟨⟨h1, h2⟩, h3⟩
    refine ⟨h1, h2, ?_⟩
    intro hb he
    rcases h3 with h3 | h3
    · simp [hb, he] at h3
    · exact h3
  · rintro ⟨h1, h2, h3⟩
    refine ⟨⟨h1, h2⟩, ?_⟩
    cases hb : op.hasBody <;> cases he : o.excludeBody <;> simp
    exact h3 hb he

/-- The verdict does not depend on the multi-error option. -/
theorem verdict_mode_independent (o : Opts) (op : Op) (d a : String → Bool) (m : Bool) :
    (validateRequest { o with multiError := m } op d a).isOk = (validateRequest o op d a).isOk := by
  apply Bool.eq_iff_iff.mpr
  rw [isOk_iff_failing_nil, isOk_iff_failing_nil]
  have : failing { o with multiError := m } op d a = failing o op d a := by
    unfold failing visitedParams skipQuery bodyChecked; rfl
  rw [this]

/-- In multi-error mode the errors returned are exactly the failing parts, in document order. -/
theorem multi_reports_exactly_failing (o : Opts) (op : Op) (d a : String → Bool) (hm : o.multiError = true) :
    validateRequest o op d a = (match failing o op d a with | [] => .ok | ps => .err ps) := by
  unfold validateRequest; cases failing o op d a <;> simp [hm]

/-- Fail-first mode returns the first failing part. -/
theorem failfast_reports_first (o : Opts) (op : Op) (d a : String → Bool) (hm : o.multiError = false) :
    validateRequest o op d a = (match failing o op d a with | [] => .ok | p :: _ => .err [p]) := by
  unfold validateRequest; cases failing o op d a <;> simp [hm]

/-- The failing parts reported are, as a set, exactly the parts the property names: security when no
requirement is met, each parameter in effect that does not validate, the body when checked and invalid. -/
theorem failing_mem_iff_spec (o : Opts) (op : Op) (d a : String → Bool) (x : Part) :
    x ∈ failing o op d a ↔ x ∈ failingSpec o op d a := by
  unfold failing failingSpec bodyChecked
  rw [runSecurity_eq_secSpecB]
  simp only [List.mem_append, List.mem_map, List.mem_filter, mem_visited_iff_effective]

/-- ExcludeRequestQueryParams removes exactly the query parameters from the parameters visited. -/
theorem exclude_query_removes_exactly_query (o : Opts) (op : Op) :
    visitedParams { o with excludeQuery := true } op =
      (visitedParams { o with excludeQuery := false } op).filter (fun p => p.loc ≠ In.query) := by
  unfold visitedParams skipQuery
  simp only [List.filter_append, List.filter_filter]
  congr 1 <;> (apply List.filter_congr; intro p _; cases p.loc <;> simp)

/-- ExcludeRequestBody removes exactly the body check. -/
theorem exclude_body_removes_exactly_body (o : Opts) (op : Op) (d a : String → Bool) :
    failing { o with excludeBody := true } op d a =
      (failing { o with excludeBody := false } op d a).filter (fun x => x ≠ Part.body) := by
  unfold failing bodyChecked visitedParams skipQuery
  simp only [List.filter_append, Bool.not_true, Bool.and_false, Bool.false_and]
  have h1 : ∀ l : List Part, (∀ x ∈ l, x ≠ Part.body) → l.filter (fun x => x ≠ Part.body) = l := by
    intro l h; apply List.filter_eq_self.mpr; intro x hx; simpa using h x hx
  rw [h1, h1]
  · cases op.hasBody <;> cases op.bodyOK <;> simp
  · intro x hx; simp only [List.mem_map] at hx; obtain ⟨p, _, rfl⟩ := hx; simp
  · intro x hx; split at hx <;> simp_all

/-- The authentication callback is only ever invoked for declared schemes that occur in a requirement of
the applicable list. -/
theorem runReq_log_sub (d a : String → Bool) (l : List String) :
    ∀ s ∈ (runReq d a l).2, s ∈ l ∧ d s = true := by
  induction l with
  | nil => simp [runReq]
  | cons x rest ih =>
    unfold runReq
    cases hd : d x <;> cases ha : a x <;> simp
    · exact hd
    · constructor
      · exact hd
      · intro s hs; exact ⟨Or.inr (ih s hs).1, (ih s hs).2⟩

theorem runReqs_log_sub (d a : String → Bool) (rs : List Requirement) :
    ∀ s ∈ (runReqs d a rs).2, (∃ r ∈ rs, s ∈ r) ∧ d s = true := by
  induction rs with
  | nil => simp [runReqs]
  | cons r rest ih =>
    unfold runReqs
    intro s hs
    cases hb : (runReq d a (sortNames r)).1 with
    | true =>
      simp only [hb, if_true] at hs
      have := runReq_log_sub d a (sortNames r) s hs
      exact ⟨⟨r, by simp, (mem_sortNames r s).mp this.1⟩, this.2⟩
    | false =>
      simp only [hb] at hs
      simp only [Bool.false_eq_true, if_false, List.mem_append] at hs
      rcases hs with hs | hs
      · have := runReq_log_sub d a (sortNames r) s hs
        exact ⟨⟨r, by simp, (mem_sortNames r s).mp this.1⟩, this.2⟩
      · obtain ⟨⟨r', hr', hsr⟩, hd⟩ := ih s hs
        exact ⟨⟨r', by simp [hr'], hsr⟩, hd⟩

theorem auth_called_only_for_declared_listed (d a : String → Bool) (op : Op) :
    ∀ s ∈ authLog d a op, (∃ r ∈ securityList op, s ∈ r) ∧ d s = true := by
  unfold authLog runSecurity
  cases h : securityList op with
  | nil => simp
  | cons r rs => simpa using runReqs_log_sub d a (r :: rs)

/-- An empty applicable security list, or an operation-level empty list overriding a non-empty document
list, needs no authentication: the callback is never invoked and security passes. -/
theorem empty_list_needs_no_auth (d a : String → Bool) (op : Op) (h : securityList op = []) :
    runSecurity d a op = (true, []) := by
  unfold runSecurity; rw [h]

theorem op_security_overrides_doc (op : Op) (rs : List Requirement) (h : op.opSecurity = some rs) :
    securityList op = rs := by
  unfold securityList; rw [h]

/-! ### Non-vacuity: concrete operations on which both directions of `accept_iff` are exercised -/

def exOp : Op :=
  { opParams := [⟨"q", .query, true⟩, ⟨"h", .header, true⟩],
    pathParams := [⟨"q", .query, false⟩, ⟨"id", .path, true⟩],
    opSecurity := none, docSecurity := [["k", "j"], []], hasBody := true, bodyOK := true }

example : (validateRequest {} exOp (fun _ => true) (fun s => s == "k")).isOk = true := by decide
example : Accept {} exOp (fun _ => true) (fun s => s == "k") :=
  (accept_iff _ _ _ _).mp (by decide)
example : (validateRequest {} { exOp with docSecurity := [["k", "j"]] } (fun _ => true) (fun s => s == "k")).isOk = false := by decide
example : authLog (fun _ => true) (fun s => s == "k") { exOp with docSecurity := [["k", "j"]] } = ["j"] := by decide

end KinModel.Request
