/-
C13 — validation leaves the request readable; defaults are added exactly once.
Property theorems only.  Models and specs: KinModel/C13Stream.lean (request body stream through the security phase,
the body phase and the default rewrite), KinModel/C13Body.lean (default injection into the decoded body),
KinModel/C13Params.lean (parameter defaults per location).  Helper lemmas: KinModel/Lemmas/C13*.lean.
-/
import KinModel.Lemmas.C13Stream
import KinModel.Lemmas.C13Body
import KinModel.Lemmas.C13Params
namespace KinModel.C13
open Stream

/-! ## Part 1 — the body stream -/

/-- After the security phase — whatever the requirement list, declared or undeclared schemes, callbacks that read
the body and/or fail, a missing callback — the body is whole again, GetBody rewinds to it, and every callback that
ran could read all of it.  (Full strength: finding #11 is repaired; no exclusion.) -/
theorem sec_body_readable (f : Bool) (r : Req) (qs : List (List Scheme)) (data : Bytes) (h : Coherent r data) :
    Readable (secPhase f r qs).1 data ∧ ∀ x ∈ (secPhase f r qs).2.2, x = data := by
  obtain ⟨⟨hb, hg⟩, _, hs⟩ := secPhase_coherent f r qs data h
  exact ⟨⟨by simp [readAll, hb], hg⟩, hs⟩

/-- **body_readable_after.** After ValidateRequest returns — accepted or not, fail-first or multi-error, security
failing or not, body validated or excluded — the next handler reads the body in full: the original bytes, or the
re-encoded body when defaults were set; GetBody rewinds to the same bytes. -/
theorem body_readable_after (c : Cfg) (outcome : Bytes → BodyOutcome) (r : Req) (data : Bytes)
    (h : Coherent r data) :
    Readable (validateStream c outcome r).1 (expectedAfter c outcome r data) := by
  obtain ⟨⟨hb, hg⟩, _⟩ := validateStream_coherent c outcome r data h
  exact ⟨by simp [readAll, hb], hg⟩

/-- The only way the readable bytes differ from the received ones is the default rewrite of an accepted body. -/
theorem body_changes_only_by_rewrite (c : Cfg) (outcome : Bytes → BodyOutcome) (r : Req) (data : Bytes) :
    expectedAfter c outcome r data = data ∨ ∃ nd, outcome data = .rewrite nd ∧ expectedAfter c outcome r data = nd := by
  unfold expectedAfter
  split
  · exact Or.inl rfl
  · unfold bodyExpected
    cases data with
    | nil => exact Or.inl rfl
    | cons x xs =>
      cases ho : outcome (x :: xs) with
      | reject => exact Or.inl rfl
      | accept => exact Or.inl rfl
      | rewrite nd => exact Or.inr ⟨nd, rfl, rfl⟩

/-- **skip_defaults_identity (stream).** When nothing is rewritten (default-setting skipped: the value layer never
answers `rewrite`), the body afterwards is byte-for-byte the one received. -/
theorem skip_defaults_stream_identity (c : Cfg) (outcome : Bytes → BodyOutcome) (r : Req) (data : Bytes)
    (h : Coherent r data) (hno : ∀ d nd, outcome d ≠ .rewrite nd) :
    Readable (validateStream c outcome r).1 data := by
  have hr := body_readable_after c outcome r data h
  rcases body_changes_only_by_rewrite c outcome r data with he | ⟨nd, ho, _⟩
  · rwa [he] at hr
  · exact absurd ho (hno data nd)

/-- ContentLength stays the length of what can be read, provided it was right on arrival. -/
theorem contentLength_consistent (c : Cfg) (outcome : Bytes → BodyOutcome) (r : Req) (data : Bytes)
    (h : Coherent r data) (hcl : r.contentLength = data.length) :
    (validateStream c outcome r).1.contentLength = (readAll (validateStream c outcome r).1).length := by
  obtain ⟨⟨hb, _⟩, hl⟩ := validateStream_coherent c outcome r data h
  rw [hl hcl]; simp [readAll, hb]

/-- A second validation finds a coherent request again (so all of the above holds for it as well). -/
theorem second_validation_coherent (c : Cfg) (outcome : Bytes → BodyOutcome) (r : Req) (data : Bytes)
    (h : Coherent r data) :
    Coherent (validateStream c outcome r).1 (expectedAfter c outcome r data) :=
  (validateStream_coherent c outcome r data h).1

/-- A request without a body is not given one by the security phase. -/
theorem sec_no_body_untouched (f : Bool) (r : Req) (qs : List (List Scheme)) (h : r.body = none) :
    (secPhase f r qs).1 = r := secPhase_nobody f r qs h

/-- The hypothesis `GetOK` is needed: a GetBody that rewinds to other bytes replaces the body (API misuse). -/
theorem witness_getBody_must_agree :
    readAll (secPhase true { body := some [1, 2], getBody := .ok [9], contentLength := 2 }
      [[{ declared := true, auth := { readsBody := false, ok := true } }]]).1 = [9] := by decide

/-- non-vacuity: a server-side request (no GetBody), the first requirement names an undeclared scheme, the second
one's callback reads the body and fails — the inputs of finding #11 — still ends readable, ContentLength right -/
example :
    let r : Req := { body := some [1, 2, 3], getBody := .none, contentLength := 3 }
    let qs : List (List Scheme) := [[{ declared := false, auth := ⟨false, true⟩ }], [{ declared := true, auth := ⟨true, false⟩ }]]
    Coherent r [1, 2, 3] ∧ (secPhase true r qs).2.1 = false ∧ readAll (secPhase true r qs).1 = [1, 2, 3] ∧
    (secPhase true r qs).1.contentLength = 3 := by
  refine ⟨⟨rfl, ?_⟩, by decide, by decide, by decide⟩
  intro b hb; cases hb

/-- non-vacuity: an accepted body with defaults is re-installed with its new length -/
example :
    let r : Req := { body := some [1, 2, 3], getBody := .fails, contentLength := 3 }
    let c : Cfg := { hasAuthFunc := true, reqs := [[]], hasBodySpec := true, required := true, multi := false, paramsOK := true }
    validateStream c (fun _ => .rewrite [7, 7, 7, 7]) r = ({ body := some [7, 7, 7, 7], getBody := .ok [7, 7, 7, 7], contentLength := 4 }, true) := by
  decide

/-! ## Part 2 — default injection into the decoded body -/
section BodyPart
open Body

/-- **skip_defaults_identity (value).** With default-setting skipped an accepted body is exactly the received value —
at any depth, inside arrays and through allOf/oneOf/anyOf. -/
theorem skip_defaults_identity (c : Ctx) (h : c.setDefaults = false) (s : S) (v v' : J)
    (hv : visit c s v = some v') : v' = v :=
  (visit_rel (relOK_eq_of_skip c h) s v v' hv).symm

/-- Validation never turns a null into a value or a value into null (at the visited position itself). -/
theorem null_never_invented (c : Ctx) (s : S) (v v' : J) (h : visit c s v = some v') : v'.isNull = v.isNull :=
  visit_isNull c s v v' h

/-- **defaults_only_absent (one object level, exact).** After an accepted object visit the member under a key that
has no property schema is what it was; under a key with a property schema it is what that schema's own visit makes
of: the default if the slot was empty and the property has an applicable default, the received member otherwise.
Nothing else changes.  (`afterInject`, `slotEmpty`, `dfltFor` are the three definitions that say "empty",
"applicable": absent — or, in the code's reading, null — and not read-only.) -/
theorem defaults_only_absent (c : Ctx) (a : Attr) (req : List String) (props : List (String × S)) (addl : Bool)
    (hn : keysNodup (props.map (·.1)) = true) (kvs kvs' : List (String × J))
    (h : visit c (.obj a req props addl) (.obj kvs) = some (.obj kvs')) (k : String) :
    Body.lookup k kvs' =
      (match Body.lookup k props with
       | some s => ((if c.setDefaults then afterInject c s.attr (Body.lookup k kvs) else Body.lookup k kvs)).bind (fun x => visit c s x)
       | none => Body.lookup k kvs) :=
  visit_obj_member c a req props addl hn kvs kvs' h k

/-- A member that is present and not null is never replaced by a default. -/
theorem present_member_not_defaulted (c : Ctx) (a : Attr) (m : J) (h : m.isNull = false) :
    afterInject c a (some m) = some m := by
  cases m <;> simp_all [afterInject, slotEmpty, J.isNull]

/-- Under the property's reading of "absent" (the spec context) an explicit null is not replaced either … -/
theorem explicit_null_kept_by_spec (c : Ctx) (a : Attr) : afterInject (specCtx c) a (some .null) = some .null := by
  simp [afterInject, slotEmpty, specCtx]

/-- … but in the code it is (finding #24): full-strength statement `afterInject c a (some m) = some m` for every
present member `m` fails exactly for `m = null` with an applicable default. -/
theorem witness_null_replaced :
    let s : S := .obj {} [] [("a", .leaf { nullable := true, dflt := some (.str "d") } .string)] true
    let v : J := .obj [("a", .null)]
    hasNullProp v = true ∧
    visit {} s v = some (.obj [("a", .str "d")]) ∧ visit (specCtx {}) s v = some v := by
  refine ⟨by decide, by rfl, by rfl⟩

/-- **defaults_only_absent_partial (model = spec).**  Full statement: the code's forwarding `visit c` is the
property's `visit (specCtx c)` (defaults for ABSENT properties only) on every value.  It fails on the pinned code
(`witness_null_replaced`, finding #24); it holds outside the class `NullReplaced` = "the received value has an
explicit null member" (for schemas whose defaults have none either) — at any depth, through arrays and
compositions. -/
theorem defaults_only_absent_partial (c : Ctx) (s : S) (hc : cleanDefaults s = true) (v : J)
    (hn : hasNullProp v = false) : visit c s v = visit (specCtx c) s v :=
  ((visit_agree c s hc) v hn).1.symm

/-- … and the forwarded value has no explicit null member either (so the statement applies to it again). -/
theorem no_null_member_introduced (c : Ctx) (s : S) (hc : cleanDefaults s = true) (v v' : J)
    (hn : hasNullProp v = false) (h : visit c s v = some v') : hasNullProp v' = false :=
  ((visit_agree c s hc) v hn).2 v' h

/-- **defaults_applied.** After an accepted object visit with default-setting on, no property with an applicable
default is left absent. -/
theorem defaults_applied (c : Ctx) (hc : c.setDefaults = true) (a : Attr) (req props addl) (kvs : List (String × J)) (v' : J)
    (h : visit c (.obj a req props addl) (.obj kvs) = some v') :
    ∃ kvs', v' = .obj kvs' ∧ ∀ p ∈ props, slotEmpty c (Body.lookup p.1 kvs') = true → dfltFor c p.2.attr = none :=
  visit_obj_settled c hc a req props addl kvs v' h

/-- **defaults_idempotent (no compositions).** For schemas built from objects, arrays and leaves — any depth —
validating the forwarded value again accepts it and changes nothing. -/
theorem defaults_idempotent_noComb (c : Ctx) (s : S) (hc : hasComb s = false) (hw : wf s = true) (v v' : J)
    (h : visit c s v = some v') : visit c s v' = some v' :=
  visit_idem_noComb c s hc hw v v' h

/-- **defaults_idempotent_partial (one composition node).** A node `allOf`/`oneOf`/`anyOf` over idempotent branches
is idempotent on an accepted value if the branches that rejected the received value still reject the forwarded one
(oneOf, anyOf), resp. every conjunct leaves the forwarded value alone (allOf). -/
theorem comb_idempotent_partial (c : Ctx) (a : Attr) (k : Kind) (bs : List S)
    (hb : ∀ b ∈ bs, ∀ x x', visit c b x = some x' → visit c b x' = some x') (v v' : J)
    (hstable : match k with
      | .allOf => ∀ b ∈ bs, visit c b v' = some v'
      | _ => ∀ b ∈ bs, visit c b v = none → visit c b v' = none)
    (h : visit c (.comb a k bs) v = some v') : visit c (.comb a k bs) v' = some v' :=
  visit_comb_idem c a k bs hb v v' hstable h

/-- **defaults_idempotent_partial.**  Full statement: `visit c s v = some v' → visit c s v' = some v'`.  It fails on
the pinned code (finding #37, witnesses below); it holds outside the class `BranchShift` = "the schema contains a
composition and the model's second pass differs": -/
theorem defaults_idempotent_partial (c : Ctx) (s : S) (hw : wf s = true) (v v' : J)
    (hx : BranchShift c s v = false) (h : visit c s v = some v') : visit c s v' = some v' := by
  cases hc : hasComb s with
  | false => exact visit_idem_noComb c s hc hw v v' h
  | true =>
    simp only [BranchShift, hc, h, Bool.true_and] at hx
    cases h2 : visit c s v' with
    | none => simp [h2] at hx
    | some v'' =>
      simp only [h2, Bool.not_eq_false'] at hx
      rw [J.beq_eq v'' v' hx]

/-- **defaulted_request_validates_partial.** Outside `BranchShift` the forwarded body validates again. -/
theorem defaulted_request_validates_partial (c : Ctx) (s : S) (hw : wf s = true) (v v' : J)
    (hx : BranchShift c s v = false) (h : visit c s v = some v') : accepts c s v' = true := by
  simp [accepts, defaults_idempotent_partial c s hw v v' hx h]

/-- finding #37, first half: `anyOf [A: {required [z], x default 1}, B: {z default 2}]` forwards `{}` as `{z:2}` and
    that, validated again, as `{z:2, x:1}` -/
theorem witness_anyOf_not_idempotent :
    let A : S := .obj {} ["z"] [("x", .leaf { dflt := some (.num 1) } .number)] true
    let B : S := .obj {} [] [("z", .leaf { dflt := some (.num 2) } .number)] true
    let s : S := .comb {} .anyOf [A, B]
    visit {} s (.obj []) = some (.obj [("z", .num 2)]) ∧
    visit {} s (.obj [("z", .num 2)]) = some (.obj [("z", .num 2), ("x", .num 1)]) ∧
    BranchShift {} s (.obj []) = true := by
  refine ⟨by rfl, by rfl, by rfl⟩

/-- finding #37, second half: with `oneOf` the forwarded request is rejected by the second validation -/
theorem witness_oneOf_forwarded_rejected :
    let A : S := .obj {} ["z"] [("x", .leaf { dflt := some (.num 1) } .number)] true
    let B : S := .obj {} [] [("z", .leaf { dflt := some (.num 2) } .number)] true
    let s : S := .comb {} .oneOf [A, B]
    visit {} s (.obj []) = some (.obj [("z", .num 2)]) ∧ visit {} s (.obj [("z", .num 2)]) = none ∧
    BranchShift {} s (.obj []) = true := by
  refine ⟨by rfl, by rfl, by rfl⟩

/-- **unmatched_branch_defaults_not_applied.** What an accepted `anyOf`/`oneOf` node forwards is exactly what ONE
branch that accepts the received value makes of it — the first accepting one for anyOf (all earlier ones reject),
the only accepting one for oneOf (all others reject) — or the received value itself (null at a nullable node, no
branches).  No branch that rejected contributes anything. -/
theorem unmatched_branch_defaults_not_applied (c : Ctx) (a : Attr) (k : Kind) (hk : k ≠ .allOf) (bs : List S) (v v' : J)
    (h : visit c (.comb a k bs) v = some v') :
    v' = v ∨ ∃ pre b post, bs = pre ++ b :: post ∧ (∀ p ∈ pre, visit c p v = none) ∧ visit c b v = some v' ∧
      (k = .oneOf → ∀ p ∈ post, visit c p v = none) :=
  visit_comb_from_matched c a k hk bs v v' h

/-- non-vacuity (the seeded-defect shape): oneOf over arrays of objects; the first branch injects its default into
the item and then rejects it; the forwarded value carries only the second branch's default -/
example :
    let A : S := .arr {} (.obj {} [] [("k", .leaf {} .number), ("m", .leaf { dflt := some (.str "html") } .string)] true)
    let B : S := .arr {} (.obj {} [] [("k", .leaf {} .string), ("s", .leaf { dflt := some (.str "INFO") } .string)] true)
    visit {} (.comb {} .oneOf [A, B]) (.arr [.obj [("k", .str "sms")]]) =
      some (.arr [.obj [("k", .str "sms"), ("s", .str "INFO")]]) := by rfl

/-- non-vacuity of the idempotence theorems: nested object inside an array, defaults at two depths -/
example :
    let s : S := .obj {} ["a"] [("a", .leaf { dflt := some (.num 1) } .number),
      ("n", .arr {} (.obj {} [] [("m", .leaf { dflt := some (.num 9) } .number)] false))] true
    let v : J := .obj [("n", .arr [.obj [], .obj [("m", .num 3)]])]
    let v' : J := .obj [("n", .arr [.obj [("m", .num 9)], .obj [("m", .num 3)]]), ("a", .num 1)]
    hasComb s = false ∧ wf s = true ∧ visit {} s v = some v' ∧ visit {} s v' = some v' ∧
    visit { setDefaults := false } s v = none := by
  refine ⟨by rfl, by rfl, by rfl, by rfl, by rfl⟩

end BodyPart

/-! ## Part 3 — parameter defaults -/
section ParamPart
open Params

/-- **skip_defaults_identity (parameters).** With default-setting skipped no parameter is written. -/
theorem param_skip_identity (multi : Bool) : ∀ (ps : List Param) (st : Store), (paramsPhase true multi ps st).1 = st
  | [], st => rfl
  | p :: ps, st => by
    have h1 : (paramStep true p st).1 = st := by
      unfold paramStep stepWith
      cases decode p (st.get p.key) <;> simp
    unfold paramsPhase
    simp only
    split
    · exact h1
    · simp only; rw [h1]; exact param_skip_identity multi ps st

/-- A parameter that is present and decodes to a value leaves the request alone. -/
theorem param_present_unchanged (skip : Bool) (p : Param) (st : Store) (h : decode p (st.get p.key) = .val) :
    paramStep skip p st = (st, true) := by
  unfold paramStep stepWith; simp [h]

/-- A parameter only ever touches its own key. -/
theorem param_other_keys_untouched (skip : Bool) (p : Param) (st : Store) (k : Key) (hk : k ≠ p.key) :
    (paramStep skip p st).1.get k = st.get k := by
  unfold paramStep stepWith
  cases decode p (st.get p.key) with
  | err => rfl
  | val => rfl
  | nil found =>
    simp only
    cases hd : (if skip = true then none else p.dflt) with
    | none => rfl
    | some d =>
      simp only [writeDefault]
      cases he : encodeDefault p d with
      | nil => rfl
      | cons w r => exact get_add_other st p.key k (w :: r) hk

/-- **defaults appear with that default and nothing else changes (model = spec, partial).**  For an accepted
parameter outside the three classes below the request afterwards is the spec's: unchanged if the parameter is present
or has no default, else its key holds the default in the serialisation the parameter's own decoder reads. -/
theorem param_step_eq_spec_partial (skip : Bool) (p : Param) (st : Store)
    (h1 : EmptyPresent skip p st = false) (h2 : UntypedDefault skip p = false) (h3 : SprintArrayDefault skip p st = false)
    (hok : (paramStep skip p st).2 = true) : (paramStep skip p st).1 = specStep skip p st := by
  unfold paramStep stepWith at hok ⊢
  unfold specStep
  cases hs : skip with
  | true => cases decode p (st.get p.key) <;> simp
  | false =>
    subst hs
    cases hd : decode p (st.get p.key) with
    | err => simp [hd] at hok
    | val =>
      have := decode_val_present p _ hd
      cases hg : st.get p.key with
      | none => simp [hg] at this
      | some ws => simp
    | nil found =>
      simp only [Bool.false_eq_true, ↓reduceIte]
      cases hdf : p.dflt with
      | none => cases st.get p.key <;> simp
      | some d =>
        simp only
        by_cases hpath : p.loc = .path
        · have e1 : encodeDefault p d = [] := by unfold encodeDefault; simp [hpath]
          have e2 : specEncode p d = [] := by unfold specEncode; simp [hpath]
          simp only [writeDefault, e1]
          cases st.get p.key <;> simp [e2]
        · have hty : p.ty ≠ .untyped := by
            intro e; simp [UntypedDefault, hdf, e, hpath] at h2
          have hf : found = false := by
            cases found with
            | false => rfl
            | true => simp [EmptyPresent, hdf, hpath, hty, hd] at h1
          subst hf
          have hg := decode_nil_false_absent p _ hty hpath hd
          simp only [hg, writeDefault]
          have he : encodeDefault p d = specEncode p d := by
            unfold encodeDefault specEncode
            cases hl : p.loc <;> cases d <;> simp
            all_goals simp [SprintArrayDefault, hl, hdf, hd] at h3
          rw [he]

/-- **defaults_idempotent (one parameter, partial).**  Outside the classes, what a parameter's validation leaves
behind is a fixed point: validating again writes nothing. -/
theorem param_idempotent_partial (skip : Bool) (p : Param) (st : Store)
    (h1 : EmptyPresent skip p st = false) (h2 : UntypedDefault skip p = false) :
    (paramStep skip p (paramStep skip p st).1).1 = (paramStep skip p st).1 := by
  cases hs : skip with
  | true =>
    have : ∀ st', (paramStep true p st').1 = st' := by
      intro st'; unfold paramStep stepWith; cases decode p (st'.get p.key) <;> simp
    rw [this, this]
  | false =>
    subst hs
    cases hd : decode p (st.get p.key) with
    | err => have e : paramStep false p st = (st, false) := by unfold paramStep stepWith; simp [hd]
             rw [e]; simp only; rw [e]
    | val => have e : paramStep false p st = (st, true) := by unfold paramStep stepWith; simp [hd]
             rw [e]; simp only; rw [e]
    | nil found =>
      cases hdf : p.dflt with
      | none =>
        have e : (paramStep false p st).1 = st := by unfold paramStep stepWith; simp [hd, hdf]
        rw [e, e]
      | some d =>
        have e : (paramStep false p st).1 = writeDefault p d st := by unfold paramStep stepWith; simp [hd, hdf]
        rw [e]
        by_cases hnil : encodeDefault p d = []
        · have : writeDefault p d st = st := by simp [writeDefault, hnil]
          rw [this, e, this]
        · have hpath : p.loc ≠ .path := by intro hp; apply hnil; unfold encodeDefault; simp [hp]
          have hty : p.ty ≠ .untyped := by intro e; simp [UntypedDefault, hdf, e, hpath] at h2
          have hf : found = false := by
            cases found with
            | false => rfl
            | true => simp [EmptyPresent, hdf, hpath, hty, hd] at h1
          subst hf
          have hg := decode_nil_false_absent p _ hty hpath hd
          have hne : encodeDefault p d ≠ [.empty] := by
            intro he; simp [EmptyPresent, hdf, hpath, hty, hd, he] at h1
          have hw : (writeDefault p d st).get p.key = some (encodeDefault p d) := by
            unfold writeDefault
            cases he : encodeDefault p d with
            | nil => exact absurd he hnil
            | cons w r => simp [get_add_same, hg]
          unfold paramStep stepWith
          rw [hw]
          rcases decode_written p d hty hnil hne with h | h <;> simp [h]

/-- **defaulted_request_validates (one parameter, partial).**  Outside the classes, a parameter that was accepted
(with its default written or not) is accepted again by the next validation. -/
theorem param_default_validates_partial (skip : Bool) (p : Param) (st : Store)
    (h1 : EmptyPresent skip p st = false) (h2 : UntypedDefault skip p = false) (h3 : SprintArrayDefault skip p st = false)
    (hok : (paramStep skip p st).2 = true) : (paramStep skip p (paramStep skip p st).1).2 = true := by
  cases hd : decode p (st.get p.key) with
  | err => unfold paramStep stepWith at hok; simp [hd] at hok
  | val => have e : paramStep skip p st = (st, true) := by unfold paramStep stepWith; simp [hd]
           rw [e]; simp only; rw [e]
  | nil found =>
    cases hdf : (if skip = true then none else p.dflt) with
    | none =>
      have e : (paramStep skip p st).1 = st := by unfold paramStep stepWith; simp [hd, hdf]
      rw [e]; exact hok
    | some d =>
      have hs : skip = false := by cases skip <;> simp_all
      subst hs
      simp only [Bool.false_eq_true, ↓reduceIte] at hdf
      have e : paramStep false p st = (writeDefault p d st, !(p.required && !found) && dfltValid p.ty d) := by
        unfold paramStep stepWith; simp [hd, hdf]
      rw [e] at hok ⊢
      simp only [Bool.and_eq_true] at hok
      by_cases hnil : encodeDefault p d = []
      · have : writeDefault p d st = st := by simp [writeDefault, hnil]
        simp only [this]; rw [e]; simp [hok.1, hok.2]
      · have hpath : p.loc ≠ .path := by intro hp; apply hnil; unfold encodeDefault; simp [hp]
        have hty : p.ty ≠ .untyped := by intro e; simp [UntypedDefault, hdf, e, hpath] at h2
        have hf : found = false := by
          cases found with
          | false => rfl
          | true => simp [EmptyPresent, hdf, hpath, hty, hd] at h1
        subst hf
        have hg := decode_nil_false_absent p _ hty hpath hd
        have hne : encodeDefault p d ≠ [.empty] := by
          intro he; simp [EmptyPresent, hdf, hpath, hty, hd, he] at h1
        have hw : (writeDefault p d st).get p.key = some (encodeDefault p d) := by
          unfold writeDefault
          cases he : encodeDefault p d with
          | nil => exact absurd he hnil
          | cons w r => simp [get_add_same, hg]
        have hsp : ¬ ((p.loc = .header ∨ p.loc = .cookie) ∧ ∃ as, d = .list as) := by
          rintro ⟨hl, as, rfl⟩
          rcases hl with hl | hl <;> simp [SprintArrayDefault, hl, hdf, hd] at h3
        have hck : ¬ (p.loc = .cookie ∧ p.explode = true ∧ ∃ t, p.ty = .array t) := by
          rintro ⟨hl, hx, t, ht⟩
          unfold decode at hd
          simp [ht, hl, hx] at hd
        have := decode_written_valid p d hok.2 hty hsp hck hnil hne
        simp only
        unfold paramStep stepWith
        rw [hw, this]

/-- **Second validation of all parameters (partial).**  For parameters with pairwise distinct (location, name), none of
them in one of the classes, a request whose parameters were accepted is accepted again and the second validation
changes nothing further — whatever the mix of present and defaulted parameters, fail-first or multi-error. -/
theorem params_second_validation_partial (skip multi : Bool) : ∀ (ps : List Param) (st : Store),
    keysDistinct ps = true → (∀ p ∈ ps, Regular skip p st = true) → (paramsPhase skip multi ps st).2 = true →
    paramsPhase skip multi ps (paramsPhase skip multi ps st).1 = ((paramsPhase skip multi ps st).1, true)
  | [], st, _, _, _ => rfl
  | p :: ps, st, hk, hr, hok => by
    simp only [keysDistinct, Bool.and_eq_true, List.all_eq_true, bne_iff_ne, ne_eq] at hk
    obtain ⟨ok1, ok2, e⟩ := paramsPhase_ok_cons skip multi p ps st hok
    have hp := hr p (by simp)
    simp only [Regular, Bool.and_eq_true, Bool.not_eq_true'] at hp
    -- the later parameters see their own keys as they were
    have hr' : ∀ q ∈ ps, Regular skip q (paramStep skip p st).1 = true := by
      intro q hq
      rw [regular_congr skip q st _ (paramStep_other skip p st q.key (hk.1 q hq)).symm]
      exact hr q (by simp [hq])
    have ih := params_second_validation_partial skip multi ps (paramStep skip p st).1 hk.2 hr' ok2
    rw [e]
    -- the first parameter sees its own key as its own validation left it
    have hget : (paramStep skip p st).1.get p.key =
        (paramsPhase skip multi ps (paramStep skip p st).1).1.get p.key :=
      (paramsPhase_other skip multi p.key ps _ (fun q hq => fun h => hk.1 q hq h.symm)).symm
    obtain ⟨c1, c2⟩ := paramStep_congr skip p _ _ hget
    have s1 := param_idempotent_partial skip p st hp.1.1 hp.1.2
    have s2 := param_default_validates_partial skip p st hp.1.1 hp.1.2 hp.2 ok1
    have t1 := c2 s1
    have t2 := c1.trans s2
    generalize (paramsPhase skip multi ps (paramStep skip p st).1).1 = stf at *
    rw [paramsPhase_cons]
    simp only [t1, t2, Bool.not_true, Bool.false_and, Bool.false_eq_true, ↓reduceIte, ih, Bool.and_self]

/-- **All parameters: forwarded request = spec (partial).**  Under the same hypotheses the parameters of the accepted
request are exactly the spec's: every absent parameter with a default carries it, nothing else changed. -/
theorem params_eq_spec_partial (skip multi : Bool) : ∀ (ps : List Param) (st : Store),
    keysDistinct ps = true → (∀ p ∈ ps, Regular skip p st = true) → (paramsPhase skip multi ps st).2 = true →
    (paramsPhase skip multi ps st).1 = specParams skip ps st
  | [], st, _, _, _ => rfl
  | p :: ps, st, hk, hr, hok => by
    simp only [keysDistinct, Bool.and_eq_true, List.all_eq_true, bne_iff_ne, ne_eq] at hk
    obtain ⟨ok1, ok2, e⟩ := paramsPhase_ok_cons skip multi p ps st hok
    have hp := hr p (by simp)
    simp only [Regular, Bool.and_eq_true, Bool.not_eq_true'] at hp
    have hr' : ∀ q ∈ ps, Regular skip q (paramStep skip p st).1 = true := by
      intro q hq
      rw [regular_congr skip q st _ (paramStep_other skip p st q.key (hk.1 q hq)).symm]
      exact hr q (by simp [hq])
    rw [e, params_eq_spec_partial skip multi ps _ hk.2 hr' ok2,
      param_step_eq_spec_partial skip p st hp.1.1 hp.1.2 hp.2 ok1]
    rfl

/-- non-vacuity of the two list theorems: a defaulted query parameter, a present header, a defaulted cookie -/
example :
    let ps : List Param := [
      { name := "q", loc := .query, ty := .sc .integer, dflt := some (.sc (.int 7)), required := false, allowEmpty := false, explode := true },
      { name := "X-P", loc := .header, ty := .sc .string, dflt := some (.sc (.str "dd")), required := true, allowEmpty := false, explode := false },
      { name := "ck", loc := .cookie, ty := .sc .boolean, dflt := some (.sc (.bool true)), required := false, allowEmpty := false, explode := true }]
    let st : Store := [((.header, "X-P"), [.lit (.str "abc")])]
    keysDistinct ps = true ∧ (∀ p ∈ ps, Regular false p st = true) ∧
    paramsPhase false false ps st =
      ([((.header, "X-P"), [.lit (.str "abc")]), ((.query, "q"), [.lit (.int 7)]), ((.cookie, "ck"), [.lit (.bool true)])], true) := by
  decide

/-- **The query cache is harmless within one validation.**  ValidateRequest decodes query parameters from a cache of
the query taken when the validation began, but writes defaults into the URL.  For parameters with distinct
(location, name) that is the same as decoding from the URL: all theorems about `paramsPhase` are theorems about the
code's `paramsPhaseCached` with a fresh RequestValidationInput. -/
theorem query_cache_harmless_in_one_validation (skip multi : Bool) (ps : List Param) (st : Store)
    (hk : keysDistinct ps = true) : paramsPhaseCached skip multi st ps st = paramsPhase skip multi ps st :=
  paramsPhaseCached_eq skip multi st ps st hk (fun _ _ => rfl)

/-- F-C13-6 (new): … but not across validations that REUSE the input: the cache of the first validation does not
    contain the default written into the URL, so `q=5` becomes `q=5&q=5` (with a fresh input nothing changes) -/
theorem witness_stale_query_cache :
    let p : Param := { name := "q", loc := .query, ty := .sc .integer, dflt := some (.sc (.int 5)), required := false, allowEmpty := false, explode := true }
    let st0 : Store := []
    let st1 := (paramsPhaseCached false false st0 [p] st0).1
    StaleQueryCache true false p st0 = true ∧
    st1 = [((.query, "q"), [.lit (.int 5)])] ∧
    (paramsPhaseCached false false st0 [p] st1).1 = [((.query, "q"), [.lit (.int 5), .lit (.int 5)])] ∧
    (paramsPhaseCached false false st1 [p] st1).1 = st1 := by decide

/-- F-C13-3 (new): `?q=` with `q: integer, default 7` — the default is appended, and appended again -/
theorem witness_empty_present :
    let p : Param := { name := "q", loc := .query, ty := .sc .integer, dflt := some (.sc (.int 7)), required := false, allowEmpty := false, explode := true }
    let st : Store := [((.query, "q"), [.empty])]
    EmptyPresent false p st = true ∧
    paramStep false p st = ([((.query, "q"), [.empty, .lit (.int 7)])], true) ∧
    (paramStep false p (paramStep false p st).1).1 = [((.query, "q"), [.empty, .lit (.int 7), .lit (.int 7)])] ∧
    specStep false p st = st := by decide

/-- F-C13-4 (new): a schema without `type`: `?u=9` becomes `u=9&u=7`, then `u=9&u=7&u=7` -/
theorem witness_untyped_default :
    let p : Param := { name := "u", loc := .query, ty := .untyped, dflt := some (.sc (.int 7)), required := false, allowEmpty := false, explode := true }
    let st : Store := [((.query, "u"), [.lit (.int 9)])]
    UntypedDefault false p = true ∧
    (paramStep false p st).1 = [((.query, "u"), [.lit (.int 9), .lit (.int 7)])] ∧
    (paramStep false p (paramStep false p st).1).1 = [((.query, "u"), [.lit (.int 9), .lit (.int 7), .lit (.int 7)])] ∧
    specStep false p st = st := by decide

/-- F-C13-5 (new): header array default `[1,2]` is written as "[1 2]"; accepted now, rejected by the next validation;
    the spec writes "1,2" -/
theorem witness_sprint_array_default :
    let p : Param := { name := "X-P", loc := .header, ty := .array .integer, dflt := some (.list [.int 1, .int 2]), required := false, allowEmpty := false, explode := false }
    SprintArrayDefault false p [] = true ∧
    paramStep false p [] = ([((.header, "X-P"), [.sprint [.int 1, .int 2]])], true) ∧
    (paramStep false p (paramStep false p []).1).2 = false ∧
    specStep false p [] = [((.header, "X-P"), [.csv [.int 1, .int 2]])] := by decide

/-- regression witness of the repaired #25 and non-vacuity of the three partial theorems: query array default
    `[1,2]`, `explode` not given (so: true) — written as `q=1&q=2`, accepted again, nothing further changes -/
example :
    let p : Param := { name := "q", loc := .query, ty := .array .integer, dflt := some (.list [.int 1, .int 2]), required := false, allowEmpty := false, explode := true }
    EmptyPresent false p [] = false ∧ UntypedDefault false p = false ∧ SprintArrayDefault false p [] = false ∧
    paramStep false p [] = ([((.query, "q"), [.lit (.int 1), .lit (.int 2)])], true) ∧
    paramStep false p (paramStep false p []).1 = ((paramStep false p []).1, true) ∧
    specStep false p [] = (paramStep false p []).1 := by decide

end ParamPart

end KinModel.C13
