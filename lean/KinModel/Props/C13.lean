/-
C13 — validation leaves the request readable; defaults are added exactly once.
Property theorems only.  Models and specs: KinModel/C13Stream.lean (request body stream through the security phase,
the body phase and the default rewrite), KinModel/C13Body.lean (default injection into the decoded body),
KinModel/C13Params.lean (parameter defaults per location).  Helper lemmas: KinModel/Lemmas/C13*.lean.
-/
import KinModel.Lemmas.C13Stream
import KinModel.Lemmas.C13Body
import KinModel.Lemmas.C13Params
import KinModel.Lemmas.C13Media
import KinModel.Gen.BodyDecoders
import KinModel.Gen.BodyEncoders
import KinModel.Lemmas.C13Flow
import KinModel.C13Iter
import KinModel.Lemmas.C13Trace
namespace KinModel.C13
open Stream

/-! ## Part 1 — the body stream -/

/-- After the security phase — whatever the requirement list, declared or undeclared schemes, callbacks that read
the body and/or fail, a missing callback — the body is whole again, GetBody rewinds to it, and every callback that
ran could read all of it.  (Full strength: finding #11 is repaired; no exclusion.) -/
theorem sec_body_readable (f : Bool) (r : Req) (qs : List (List Scheme)) (data : Bytes) (h : Coherent r data) :
    Readable (secPhase f r qs).1 data ∧ ∀ x ∈ (secPhase f r qs).2.2, x = data := by
  obtain ⟨⟨hb, hg⟩, _, hs⟩ := secPhase_coherent f r qs data h
  exact ⟨⟨by simp [readAll, hb], hg⟩, hs⟩

/-- **body_readable_after (first read).** After ValidateRequest returns — accepted or not, fail-first or multi-error,
security failing or not, body validated or excluded, re-encoding possible or not — the next handler reads the body in
full: the original bytes, or the re-encoded body when defaults were set.  Full strength. -/
theorem body_first_read_after (c : Cfg) (outcome : Bytes → BodyOutcome) (r : Req) (data : Bytes)
    (h : Coherent r data) :
    readAll (validateStream c outcome r).1 = expectedAfter c outcome r data := by
  simp [readAll, (validateStream_coherent c outcome r data h).1]

/-- **body_readable_after (and rewindable).**  …and GetBody rewinds to the same bytes (`Readable`) — after every
outcome, a failed re-encoding included.  Full strength: the exclusion of the rewrite-failure class is gone with the
repair of F-C13-8's second face (commit ac404f7). -/
theorem body_readable_after (c : Cfg) (outcome : Bytes → BodyOutcome) (r : Req) (data : Bytes)
    (h : Coherent r data) :
    Readable (validateStream c outcome r).1 (expectedAfter c outcome r data) := by
  obtain ⟨hb, hg, _⟩ := validateStream_coherent c outcome r data h
  exact ⟨by simp [readAll, hb], hg⟩

/-- regression (F-C13-8, second face, repaired by ac404f7): a server-side request (no GetBody) whose re-encoding
    fails is rejected, and the GetBody that validation installed still rewinds to the whole body: a second validation
    reads the same bytes.  (Before the repair: `getBody = .ok []`, the second validation read nothing.) -/
theorem regression_rewrite_failure_keeps_getBody :
    let r : Req := { body := some [1, 2], getBody := .none, contentLength := 2 }
    let c : Cfg := { hasAuthFunc := true, reqs := [], hasBodySpec := true, required := true, multi := false, paramsOK := true }
    let r1 := (validateStream c (fun _ => .rewriteFails) r).1
    (validateStream c (fun _ => .rewriteFails) r).2 = false ∧
    readAll r1 = [1, 2] ∧ r1.getBody = .ok [1, 2] ∧ Readable r1 [1, 2] ∧
    readAll (validateStream c (fun _ => .rewriteFails) r1).1 = [1, 2] := by
  refine ⟨by decide, by decide, by decide, ⟨by decide, ?_⟩, by decide⟩
  intro b hb
  have : (validateStream { hasAuthFunc := true, reqs := [], hasBodySpec := true, required := true, multi := false, paramsOK := true }
      (fun _ => BodyOutcome.rewriteFails) { body := some [1, 2], getBody := .none, contentLength := 2 }).1.getBody = .ok [1, 2] := by decide
  rw [this] at hb; cases hb; rfl

/-- The only way the readable bytes differ from the received ones is the default rewrite of an accepted body. -/
theorem body_changes_only_by_rewrite (c : Cfg) (outcome : Bytes → BodyOutcome) (r : Req) (data : Bytes) :
    expectedAfter c outcome r data = data ∨ ∃ nd, outcome data = .rewrite nd ∧ expectedAfter c outcome r data = nd := by
  unfold expectedAfter
  split
  · exact Or.inl rfl
  · unfold bodyExpected
    cases data with
    | nil => exact Or.inl rfl
    | cons x xs =>
      cases ho : outcome (x :: xs) with
      | reject => exact Or.inl rfl
      | accept => exact Or.inl rfl
      | rewriteFails => exact Or.inl rfl
      | rewrite nd => exact Or.inr ⟨nd, rfl, rfl⟩

/-- **skip_defaults_identity (stream).** When nothing is rewritten (default-setting skipped: the value layer never
answers `rewrite`), the body afterwards is byte-for-byte the one received, and rewindable. -/
theorem skip_defaults_stream_identity (c : Cfg) (outcome : Bytes → BodyOutcome) (r : Req) (data : Bytes)
    (h : Coherent r data) (hno : ∀ d nd, outcome d ≠ .rewrite nd) :
    Readable (validateStream c outcome r).1 data := by
  have hr := body_readable_after c outcome r data h
  rcases body_changes_only_by_rewrite c outcome r data with he | ⟨nd, ho, _⟩
  · rwa [he] at hr
  · exact absurd ho (hno data nd)

/-- ContentLength stays the length of what can be read, provided it was right on arrival.  Full strength. -/
theorem contentLength_consistent (c : Cfg) (outcome : Bytes → BodyOutcome) (r : Req) (data : Bytes)
    (h : Coherent r data) (hcl : r.contentLength = data.length) :
    (validateStream c outcome r).1.contentLength = (readAll (validateStream c outcome r).1).length := by
  obtain ⟨hb, _, hl⟩ := validateStream_coherent c outcome r data h
  rw [hl hcl]; simp [readAll, hb]

/-- A second validation finds a coherent request again (so all of the above holds for it as well, and for every
further one).  Full strength. -/
theorem second_validation_coherent (c : Cfg) (outcome : Bytes → BodyOutcome) (r : Req) (data : Bytes)
    (h : Coherent r data) :
    Coherent (validateStream c outcome r).1 (expectedAfter c outcome r data) :=
  ⟨(validateStream_coherent c outcome r data h).1, (validateStream_coherent c outcome r data h).2.1⟩

/-- **A second validation leaves the stream exactly as the first one left it** — Body, GetBody, ContentLength —
whatever the verdicts (security failing or not, body rejected or not, re-encoding possible or not), provided the value
layer does not turn the rewritten body into yet other bytes (Part 2: it does not, outside `BranchShift`).  Full
strength on the stream side. -/
theorem stream_second_validation_changes_nothing (c : Cfg) (outcome : Bytes → BodyOutcome) (r : Req) (data : Bytes)
    (h : Coherent r data) (H : ∀ nd nd', outcome data = .rewrite nd → outcome nd = .rewrite nd' → nd' = nd) :
    (validateStream c outcome (validateStream c outcome r).1).1 = (validateStream c outcome r).1 :=
  validateStream_idem c outcome r data h H

/-- **n validations = 1 validation (stream).**  However often the request is validated again, the stream stays as
the first validation left it, and every validation returns the first one's verdict. -/
theorem stream_n_validations (c : Cfg) (outcome : Bytes → BodyOutcome) (r : Req) (data : Bytes)
    (h : Coherent r data)
    (H : ∀ nd, outcome data = .rewrite nd → nd ≠ [] ∧ (outcome nd = .accept ∨ outcome nd = .rewrite nd)) (n : Nat) :
    iterN (fun x => (validateStream c outcome x).1) (n + 1) r = (validateStream c outcome r).1 ∧
    (validateStream c outcome (iterN (fun x => (validateStream c outcome x).1) (n + 1) r)).2 = (validateStream c outcome r).2 := by
  have hid : (validateStream c outcome (validateStream c outcome r).1).1 = (validateStream c outcome r).1 :=
    validateStream_idem c outcome r data h (fun nd nd' h1 h2 => by
      rcases (H nd h1).2 with h3 | h3 <;> rw [h3] at h2 <;> cases h2; rfl)
  have e := iterN_of_idem (fun x => (validateStream c outcome x).1) r hid n
  exact ⟨e, by rw [e]; exact validateStream_idem_verdict c outcome r data h H⟩

/-- regression (repaired by 1f8c043): an empty requirement (`security: [{}]`) is satisfied without an authentication
    function, before anything is read — the request is not touched; a non-empty one still fails without the function,
    also before anything is read -/
theorem regression_empty_requirement_needs_no_auth_func :
    let r : Req := { body := some [1, 2], getBody := .none, contentLength := 2 }
    secPhase false r [[]] = (r, true, []) ∧
    secPhase false r [[{ declared := true, auth := ⟨true, true⟩ }]] = (r, false, []) ∧
    secPhase false r [[{ declared := true, auth := ⟨true, true⟩ }], []] = (r, true, []) := by decide

/-- A request without a body is not given one by the security phase. -/
theorem sec_no_body_untouched (f : Bool) (r : Req) (qs : List (List Scheme)) (h : r.body = none) :
    (secPhase f r qs).1 = r := secPhase_nobody f r qs h

/-- The hypothesis `GetOK` is needed: a GetBody that rewinds to other bytes replaces the body (API misuse). -/
theorem witness_getBody_must_agree :
    readAll (secPhase true { body := some [1, 2], getBody := .ok [9], contentLength := 2 }
      [[{ declared := true, auth := { readsBody := false, ok := true } }]]).1 = [9] := by decide

/-- non-vacuity: a server-side request (no GetBody), the first requirement names an undeclared scheme, the second
one's callback reads the body and fails — the inputs of finding #11 — still ends readable, ContentLength right -/
example :
    let r : Req := { body := some [1, 2, 3], getBody := .none, contentLength := 3 }
    let qs : List (List Scheme) := [[{ declared := false, auth := ⟨false, true⟩ }], [{ declared := true, auth := ⟨true, false⟩ }]]
    Coherent r [1, 2, 3] ∧ (secPhase true r qs).2.1 = false ∧ readAll (secPhase true r qs).1 = [1, 2, 3] ∧
    (secPhase true r qs).1.contentLength = 3 := by
  refine ⟨⟨rfl, ?_⟩, by decide, by decide, by decide⟩
  intro b hb; cases hb

/-- non-vacuity: an accepted body with defaults is re-installed with its new length -/
example :
    let r : Req := { body := some [1, 2, 3], getBody := .fails, contentLength := 3 }
    let c : Cfg := { hasAuthFunc := true, reqs := [[]], hasBodySpec := true, required := true, multi := false, paramsOK := true }
    validateStream c (fun _ => .rewrite [7, 7, 7, 7]) r = ({ body := some [7, 7, 7, 7], getBody := .ok [7, 7, 7, 7], contentLength := 4 }, true) := by
  decide

/-! ## Part 2 — default injection into the decoded body -/
section BodyPart
open Body

/-- **skip_defaults_identity (value).** With default-setting skipped an accepted body is exactly the received value —
at any depth, inside arrays and through allOf/oneOf/anyOf. -/
theorem skip_defaults_identity (c : Ctx) (h : c.setDefaults = false) (s : S) (v v' : J)
    (hv : visit c s v = some v') : v' = v :=
  (visit_rel (relOK_eq_of_skip c h) s v v' hv).symm

/-- Validation never turns a null into a value or a value into null (at the visited position itself). -/
theorem null_never_invented (c : Ctx) (s : S) (v v' : J) (h : visit c s v = some v') : v'.isNull = v.isNull :=
  visit_isNull c s v v' h

/-- **defaults_only_absent (one object level, exact).** After an accepted object visit the member under a key that
has no property schema is what it was; under a key with a property schema it is what that schema's own visit makes
of: the default if the key was ABSENT and the property has an applicable default, the received member otherwise
(an explicit null included).  Nothing else changes.  (`afterInject`, `slotEmpty`, `dfltFor` are the three
definitions that say "absent" and "applicable": not read-only, not a null default.) -/
theorem defaults_only_absent (c : Ctx) (a : Attr) (req : List String) (props : List (String × S)) (addl : Bool)
    (hn : keysNodup (props.map (·.1)) = true) (kvs kvs' : List (String × J))
    (h : visit c (.obj a req props addl) (.obj kvs) = some (.obj kvs')) (k : String) :
    Body.lookup k kvs' =
      (match Body.lookup k props with
       | some s => ((if c.setDefaults then afterInject c s.attr (Body.lookup k kvs) else Body.lookup k kvs)).bind (fun x => visit c s x)
       | none => Body.lookup k kvs) :=
  visit_obj_member c a req props addl hn kvs kvs' h k

/-- **A member that is present is never replaced by a default** — whatever its value, an explicit null included.
Full strength: the hypothesis "not null" is gone with the repair of finding #24 (commit c740938). -/
theorem present_member_not_defaulted (c : Ctx) (a : Attr) (m : J) : afterInject c a (some m) = some m := by
  simp [afterInject, slotEmpty]

/-- An absent member receives the applicable default of its property, and only that. -/
theorem absent_member_defaulted (c : Ctx) (a : Attr) : afterInject c a none = dfltFor c a := by
  unfold afterInject slotEmpty
  cases dfltFor c a <;> rfl

/-- **The default loop = the property's one-shot reading.**  What visitJSONObject's loop over the sorted property
names leaves behind is the received members, in their order and unchanged, followed by exactly one new member for each
property that is absent and has an applicable default.  Full strength. -/
theorem object_defaults_are_the_absent_ones (c : Ctx) (props : List (String × S)) (kvs : List (String × J))
    (hn : keysNodup (props.map (·.1)) = true) : injectDefaults c props kvs = kvs ++ absentDefaults c props kvs :=
  injectDefaults_eq_append c props kvs hn

/-- **defaults_only_absent (model = spec), full strength.**  The code's forwarding `visit c` is the property's
`specVisit c` (one new member per ABSENT property with a default, nothing else touched; the matched branch's
forwarding for anyOf/oneOf, the chained one for allOf) — on every value, at any depth, through arrays and
compositions.  The class `NullReplaced` (finding #24 / F-C13-1) is repaired (commit c740938) and deleted. -/
theorem defaults_only_absent_model_eq_spec (c : Ctx) (s : S) (hw : wf s = true) (v : J) :
    visit c s v = specVisit c s v :=
  visit_eq_spec c s hw v

/-- regression (finding #24 / F-C13-1, repaired by c740938): `{"a":null}` against `a: string, nullable, default "d"` is
    forwarded as it is — model and spec agree (before the repair the model forwarded `{"a":"d"}`) … -/
theorem regression_null_kept :
    let s : S := .obj {} [] [("a", .leaf { nullable := true, dflt := some (.str "d") } .string)] true
    let v : J := .obj [("a", .null)]
    visit {} s v = some v ∧ specVisit {} s v = some v ∧ visit {} s (.obj []) = some (.obj [("a", .str "d")]) := by
  refine ⟨by rfl, by rfl, by rfl⟩

/-- … and against a NON-nullable `a: integer, default 1` it is rejected ("Value is not nullable"): the member is
    present, so it is validated as it was sent, not papered over by the default — model and spec agree. -/
theorem regression_null_not_nullable_rejected :
    let s : S := .obj {} [] [("a", .leaf { dflt := some (.num 1) } .number)] true
    visit {} s (.obj [("a", .null)]) = none ∧ specVisit {} s (.obj [("a", .null)]) = none ∧
    visit {} s (.obj []) = some (.obj [("a", .num 1)]) := by
  refine ⟨by rfl, by rfl, by rfl⟩

/-- **defaults_applied.** After an accepted object visit with default-setting on, no property with an applicable
default is left absent. -/
theorem defaults_applied (c : Ctx) (hc : c.setDefaults = true) (a : Attr) (req props addl) (kvs : List (String × J)) (v' : J)
    (h : visit c (.obj a req props addl) (.obj kvs) = some v') :
    ∃ kvs', v' = .obj kvs' ∧ ∀ p ∈ props, slotEmpty (Body.lookup p.1 kvs') = true → dfltFor c p.2.attr = none :=
  visit_obj_settled c hc a req props addl kvs v' h

/-- **The `DefaultsSet` callback runs iff the accepted value changes** — so the body is re-encoded exactly when a
default was set in it.  Full strength: the class `ReencodedUnchanged` (F-C13-11: the callback also ran for a default
written into a discarded oneOf/anyOf candidate's private copy) is repaired (commit 6a3f133) and deleted. -/
theorem callback_runs_iff_value_changes (c : Ctx) (s : S) (hw : wf s = true) (v v' : J)
    (h : visit c s v = some v') : touched c s v = true ↔ v' ≠ v :=
  touched_iff_changed c s hw v v' h

/-- Defaults only ever add members: an accepted visit never makes the value smaller, and makes it bigger iff the
callback ran. -/
theorem forwarded_value_never_smaller (c : Ctx) (s : S) (v v' : J) (h : visit c s v = some v') :
    v.size ≤ v'.size ∧ (touched c s v = true → v.size < v'.size) :=
  ⟨visit_size_le c s v v' h, touched_grows c s v v' h⟩

/-- **defaults_idempotent (no compositions).** For schemas built from objects, arrays and leaves — any depth —
validating the forwarded value again accepts it and changes nothing. -/
theorem defaults_idempotent_noComb (c : Ctx) (s : S) (hc : hasComb s = false) (hw : wf s = true) (v v' : J)
    (h : visit c s v = some v') : visit c s v' = some v' :=
  visit_idem_noComb c s hc hw v v' h

/-- **defaults_idempotent_partial (one composition node).** A node `allOf`/`oneOf`/`anyOf` over idempotent branches
is idempotent on an accepted value if the branches that rejected the received value still reject the forwarded one
(oneOf, anyOf), resp. every conjunct leaves the forwarded value alone (allOf). -/
theorem comb_idempotent_partial (c : Ctx) (a : Attr) (k : Kind) (bs : List S)
    (hb : ∀ b ∈ bs, ∀ x x', visit c b x = some x' → visit c b x' = some x') (v v' : J)
    (hstable : match k with
      | .allOf => ∀ b ∈ bs, visit c b v' = some v'
      | _ => ∀ b ∈ bs, visit c b v = none → visit c b v' = none)
    (h : visit c (.comb a k bs) v = some v') : visit c (.comb a k bs) v' = some v' :=
  visit_comb_idem c a k bs hb v v' hstable h

/-- **defaults_idempotent_partial.**  Full statement: `visit c s v = some v' → visit c s v' = some v'`.  It fails on
the pinned code (finding #37, witnesses below); it holds outside the class `BranchShift` = "the schema contains a
composition and the model's second pass differs": -/
theorem defaults_idempotent_partial (c : Ctx) (s : S) (hw : wf s = true) (v v' : J)
    (hx : BranchShift c s v = false) (h : visit c s v = some v') : visit c s v' = some v' := by
  cases hc : hasComb s with
  | false => exact visit_idem_noComb c s hc hw v v' h
  | true =>
    simp only [BranchShift, hc, h, Bool.true_and] at hx
    cases h2 : visit c s v' with
    | none => simp [h2] at hx
    | some v'' =>
      simp only [h2, Bool.not_eq_false'] at hx
      rw [J.beq_eq v'' v' hx]

/-- **defaulted_request_validates_partial.** Outside `BranchShift` the forwarded body validates again. -/
theorem defaulted_request_validates_partial (c : Ctx) (s : S) (hw : wf s = true) (v v' : J)
    (hx : BranchShift c s v = false) (h : visit c s v = some v') : accepts c s v' = true := by
  simp [accepts, defaults_idempotent_partial c s hw v v' hx h]

/-- **n validations = 1 validation (body value).**  Outside `BranchShift` — in particular for every composition-free
schema — every further validation accepts the forwarded value and forwards it unchanged. -/
theorem body_n_validations_partial (c : Ctx) (s : S) (hw : wf s = true) (v v' : J)
    (hx : BranchShift c s v = false) (h : visit c s v = some v') : ∀ n, visitN c s (n + 1) v = some v' := by
  have hfix : visit c s v' = some v' := defaults_idempotent_partial c s hw v v' hx h
  have hn : ∀ n, visitN c s n v' = some v' := by
    intro n
    induction n with
    | zero => rfl
    | succ k ih => simp only [visitN, hfix, Option.bind_some, ih]
  intro n
  simp only [visitN, h, Option.bind_some, hn n]

theorem body_n_validations_noComb (c : Ctx) (s : S) (hc : hasComb s = false) (hw : wf s = true) (v v' : J)
    (h : visit c s v = some v') : ∀ n, visitN c s (n + 1) v = some v' :=
  body_n_validations_partial c s hw v v' (by simp [BranchShift, hc]) h

/-- finding #37, first half: `anyOf [A: {required [z], x default 1}, B: {z default 2}]` forwards `{}` as `{z:2}` and
    that, validated again, as `{z:2, x:1}` -/
theorem witness_anyOf_not_idempotent :
    let A : S := .obj {} ["z"] [("x", .leaf { dflt := some (.num 1) } .number)] true
    let B : S := .obj {} [] [("z", .leaf { dflt := some (.num 2) } .number)] true
    let s : S := .comb {} .anyOf [A, B]
    visit {} s (.obj []) = some (.obj [("z", .num 2)]) ∧
    visit {} s (.obj [("z", .num 2)]) = some (.obj [("z", .num 2), ("x", .num 1)]) ∧
    BranchShift {} s (.obj []) = true := by
  refine ⟨by rfl, by rfl, by rfl⟩

/-- finding #37, second half: with `oneOf` the forwarded request is rejected by the second validation -/
theorem witness_oneOf_forwarded_rejected :
    let A : S := .obj {} ["z"] [("x", .leaf { dflt := some (.num 1) } .number)] true
    let B : S := .obj {} [] [("z", .leaf { dflt := some (.num 2) } .number)] true
    let s : S := .comb {} .oneOf [A, B]
    visit {} s (.obj []) = some (.obj [("z", .num 2)]) ∧ visit {} s (.obj [("z", .num 2)]) = none ∧
    BranchShift {} s (.obj []) = true := by
  refine ⟨by rfl, by rfl, by rfl⟩

/-- **unmatched_branch_defaults_not_applied.** What an accepted `anyOf`/`oneOf` node forwards is exactly what ONE
branch that accepts the received value makes of it — the first accepting one for anyOf (all earlier ones reject),
the only accepting one for oneOf (all others reject) — or the received value itself (null at a nullable node, no
branches).  No branch that rejected contributes anything. -/
theorem unmatched_branch_defaults_not_applied (c : Ctx) (a : Attr) (k : Kind) (hk : k ≠ .allOf) (bs : List S) (v v' : J)
    (h : visit c (.comb a k bs) v = some v') :
    v' = v ∨ ∃ pre b post, bs = pre ++ b :: post ∧ (∀ p ∈ pre, visit c p v = none) ∧ visit c b v = some v' ∧
      (k = .oneOf → ∀ p ∈ post, visit c p v = none) :=
  visit_comb_from_matched c a k hk bs v v' h

/-- non-vacuity (the seeded-defect shape): oneOf over arrays of objects; the first branch injects its default into
the item and then rejects it; the forwarded value carries only the second branch's default -/
example :
    let A : S := .arr {} (.obj {} [] [("k", .leaf {} .number), ("m", .leaf { dflt := some (.str "html") } .string)] true)
    let B : S := .arr {} (.obj {} [] [("k", .leaf {} .string), ("s", .leaf { dflt := some (.str "INFO") } .string)] true)
    visit {} (.comb {} .oneOf [A, B]) (.arr [.obj [("k", .str "sms")]]) =
      some (.arr [.obj [("k", .str "sms"), ("s", .str "INFO")]]) := by rfl

/-- non-vacuity of the idempotence theorems: nested object inside an array, defaults at two depths -/
example :
    let s : S := .obj {} ["a"] [("a", .leaf { dflt := some (.num 1) } .number),
      ("n", .arr {} (.obj {} [] [("m", .leaf { dflt := some (.num 9) } .number)] false))] true
    let v : J := .obj [("n", .arr [.obj [], .obj [("m", .num 3)]])]
    let v' : J := .obj [("n", .arr [.obj [("m", .num 9)], .obj [("m", .num 3)]]), ("a", .num 1)]
    hasComb s = false ∧ wf s = true ∧ visit {} s v = some v' ∧ visit {} s v' = some v' ∧
    visit { setDefaults := false } s v = none := by
  refine ⟨by rfl, by rfl, by rfl, by rfl, by rfl⟩

end BodyPart

/-! ## Part 3 — parameter defaults

The model follows the repaired code (defaults only for parameters that were not found; arrays comma-separated in
headers and cookies; the query cache refreshed with the URL).  Findings F-C13-3 … F-C13-6 of the first round are
repaired: their exclusion classes are gone, the theorems below are at full strength, and the old witness inputs are
kept as regression theorems.  One class remains (`DefaultReadsAsEmpty`, F-C13-7), and only for "validates again". -/
section ParamPart
open Params

/-- **skip_defaults_identity (parameters).** With default-setting skipped no parameter is written. -/
theorem param_skip_identity (multi : Bool) : ∀ (ps : List Param) (st : Store), (paramsPhase true multi ps st).1 = st
  | [], st => rfl
  | p :: ps, st => by
    have h1 : (paramStep true p st).1 = st := by
      unfold paramStep; rw [stepWith_fst]
      cases h : applied true p (st.get p.key) with
      | none => rfl
      | some d => have := (applied_some_absent true p _ d h).2.1; cases this
    rw [paramsPhase_cons]
    split
    · exact h1
    · simp only; rw [h1]; exact param_skip_identity multi ps st

/-- A parameter that is present — with a value, with an empty value, or with a schema that never yields a value —
leaves the request alone.  (Full strength; F-C13-3 and F-C13-4 are repaired.) -/
theorem param_present_unchanged (skip : Bool) (p : Param) (st : Store) (hp : p.loc ≠ .path)
    (h : (st.get p.key).isSome = true) : (paramStep skip p st).1 = st := by
  unfold paramStep; rw [stepWith_fst]
  cases ha : applied skip p (st.get p.key) with
  | none => rfl
  | some d =>
    have := decode_nil_false_absent p _ hp (applied_some_absent skip p _ d ha).1
    rw [this] at h; cases h

/-- A parameter only ever touches its own key. -/
theorem param_other_keys_untouched (skip : Bool) (p : Param) (st : Store) (k : Key) (hk : k ≠ p.key) :
    (paramStep skip p st).1.get k = st.get k := paramStep_other skip p st k hk

/-- **defaults appear with that default and nothing else changes (model = spec, partial).**  Full statement: for an
accepted parameter the request afterwards is the spec's — unchanged if the parameter is present or has no default, else
its key holds the default in the serialisation the parameter's own decoder reads (nothing for an array without
members: F-C13-10 is repaired, commit 9af6bbd, its class is gone).  It fails for an absent parameter that is described
by `content` (`ContentParamDefault`, F-C13-9, witness below); outside that class it holds. -/
theorem param_step_eq_spec_partial (skip : Bool) (p : Param) (st : Store)
    (hx : ContentParamDefault skip p st = false)
    (hok : (paramStep skip p st).2 = true) : (paramStep skip p st).1 = specStep skip p st := by
  unfold paramStep at hok ⊢
  rw [stepWith_fst]
  unfold specStep
  cases ha : applied skip p (st.get p.key) with
  | some d =>
    obtain ⟨h1, h2, h3, _⟩ := applied_some_absent skip p _ d ha
    subst h2
    simp only [Bool.false_eq_true, ↓reduceIte, h3]
    by_cases hpath : p.loc = .path
    · have e2 := specEncode_path p d hpath
      simp only [writeDefault, encodeDefault_path p d hpath]
      cases st.get p.key <;> simp [e2]
    · rw [decode_nil_false_absent p _ hpath h1]
      simp only [writeDefault, encodeDefault_eq_spec p d]
  | none =>
    simp only
    cases hs : skip with
    | true => rfl
    | false =>
      simp only [Bool.false_eq_true, ↓reduceIte]
      cases hg : st.get p.key with
      | some ws => rfl
      | none =>
        cases hdf : p.dflt with
        | none => rfl
        | some d =>
          subst hs
          by_cases hpath : p.loc = .path
          · simp [specEncode_path p d hpath]
          · exfalso
            cases hc : p.content with
            | true => simp [ContentParamDefault, hc, hdf, hg, hpath] at hx
            | false =>
              -- absent, with a default, yet the block did not run: the decoder failed — then the parameter was rejected
              unfold applied at ha
              unfold stepWith at hok
              rw [hg] at ha hok
              simp only [hc, Bool.false_eq_true, ↓reduceIte] at ha hok
              cases hd : decode p none with
              | err => simp [hd] at hok
              | val => have := decode_val_present p none hd; cases this
              | nil found =>
                cases found with
                | true => have := decode_nil_true_present p none hd; cases this
                | false => simp [hd, hdf] at ha

/-- **defaults_idempotent (one parameter).**  What a parameter's validation leaves behind is a fixed point: validating
again writes nothing.  Full strength, whatever the verdicts. -/
theorem param_idempotent (skip : Bool) (p : Param) (st : Store) :
    (paramStep skip p (paramStep skip p st).1).1 = (paramStep skip p st).1 := by
  have e : (paramStep skip p st).1 = _ := stepWith_fst skip p (st.get p.key) st
  cases ha : applied skip p (st.get p.key) with
  | none =>
    rw [ha] at e; simp only at e
    rw [e, e]
  | some d =>
    rw [ha] at e; simp only at e
    rw [e]
    by_cases hnil : encodeDefault p d = []
    · have : writeDefault p d st = st := by simp [writeDefault, hnil]
      rw [this, e, this]
    · have hpath : p.loc ≠ .path := fun hp => hnil (encodeDefault_path p d hp)
      have hg := decode_nil_false_absent p _ hpath (applied_some_absent skip p _ d ha).1
      unfold paramStep
      rw [stepWith_fst, writeDefault_get p d st hnil hg, applied_after_write skip p _ hpath]

/-- **defaulted_request_validates (one parameter, partial).**  Full statement: an accepted parameter is accepted again
by the next validation.  It fails where the written default reads back as "no value" (`DefaultReadsAsEmpty`, witness
below); outside that class it holds. -/
theorem param_default_validates_partial (skip : Bool) (p : Param) (st : Store)
    (hx : DefaultReadsAsEmpty skip p st = false)
    (hok : (paramStep skip p st).2 = true) : (paramStep skip p (paramStep skip p st).1).2 = true := by
  have e : (paramStep skip p st).1 = _ := stepWith_fst skip p (st.get p.key) st
  cases ha : applied skip p (st.get p.key) with
  | none => rw [ha] at e; simp only at e; rw [e]; exact hok
  | some d =>
    rw [ha] at e; simp only at e
    obtain ⟨h1, h2, h3, h4⟩ := applied_some_absent skip p _ d ha
    subst h2
    by_cases hnil : encodeDefault p d = []
    · have : writeDefault p d st = st := by simp [writeDefault, hnil]
      rw [e, this]; exact hok
    · have hpath : p.loc ≠ .path := fun hp => hnil (encodeDefault_path p d hp)
      have hg := decode_nil_false_absent p _ hpath h1
      rw [hg] at h1
      -- first verdict: not required, default valid
      have hok' : (!(p.required && !false) && dfltValid p.ty d) = true := by
        unfold paramStep stepWith at hok
        rw [hg] at hok
        simpa [h1, h3, h4] using hok
      simp only [Bool.not_false, Bool.and_true, Bool.and_eq_true, Bool.not_eq_true'] at hok'
      rw [e]
      unfold paramStep stepWith
      rw [writeDefault_get p d st hnil hg]
      simp only [h4, Bool.false_eq_true, ↓reduceIte]
      have hallow : p.ty = .untyped → p.allowEmpty = true := by
        intro hcase
        cases hal : p.allowEmpty with
        | true => rfl
        | false =>
          exfalso
          have : DefaultReadsAsEmpty false p st = true := by
            unfold DefaultReadsAsEmpty
            rw [hg, h1, h3]
            simp [hal, hnil, hcase, h4]
          rw [this] at hx; cases hx
      by_cases hty : p.ty = .untyped
      · -- a schema without type: found, no value; accepted only with allowEmptyValue
        have hd : decode p (some (encodeDefault p d)) = .nil true := by unfold decode; simp [hty]
        simp [hd, hallow hty, hok'.1]
      · rw [decode_written_valid p d hok'.2 hty h1 hnil (encodeDefault_ne_empty p d)]

/-- **Every parameter step on an already validated request is a no-op ⇒ so is the whole phase.** -/
theorem params_fixed_of_steps (skip multi : Bool) : ∀ (ps : List Param) (st : Store),
    (∀ p ∈ ps, (paramStep skip p st).1 = st) → (paramsPhase skip multi ps st).1 = st
  | [], _, _ => rfl
  | p :: ps, st, h => by
    rw [paramsPhase_cons]
    split
    · exact h p (by simp)
    · simp only; rw [h p (by simp)]; exact params_fixed_of_steps skip multi ps st (fun q hq => h q (by simp [hq]))

/-- **defaults_idempotent (all parameters).**  For parameters with pairwise distinct (location, name): after an
accepted validation a second validation changes no parameter — whatever its verdict.  Full strength. -/
theorem params_idempotent (skip multi : Bool) : ∀ (ps : List Param) (st : Store),
    keysDistinct ps = true → (paramsPhase skip multi ps st).2 = true →
    (paramsPhase skip multi ps (paramsPhase skip multi ps st).1).1 = (paramsPhase skip multi ps st).1 := by
  intro ps st hk hok
  apply params_fixed_of_steps
  -- each parameter finds its own key as its own validation left it
  suffices h : ∀ (ps : List Param) (st : Store), keysDistinct ps = true → (paramsPhase skip multi ps st).2 = true →
      ∀ p ∈ ps, (paramStep skip p (paramsPhase skip multi ps st).1).1 = (paramsPhase skip multi ps st).1 from h ps st hk hok
  intro ps
  induction ps with
  | nil => intro _ _ _ p hp; cases hp
  | cons q qs ih =>
    intro st hk hok p hp
    simp only [keysDistinct, Bool.and_eq_true, List.all_eq_true, bne_iff_ne, ne_eq] at hk
    obtain ⟨_, ok2, e⟩ := paramsPhase_ok_cons skip multi q qs st hok
    rw [e]
    cases hp with
    | tail _ hm => exact ih _ hk.2 ok2 p hm
    | head =>
      have hget : (paramStep skip q st).1.get q.key = (paramsPhase skip multi qs (paramStep skip q st).1).1.get q.key :=
        (paramsPhase_other skip multi q.key qs _ (fun r hr => fun h => hk.1 r hr h.symm)).symm
      exact (paramStep_congr skip q _ _ hget).2 (param_idempotent skip q st)

/-- **Second validation of all parameters (partial).**  With distinct keys and no parameter in `DefaultReadsAsEmpty`,
an accepted request is accepted again and nothing changes. -/
theorem params_second_validation_partial (skip multi : Bool) : ∀ (ps : List Param) (st : Store),
    keysDistinct ps = true → (∀ p ∈ ps, DefaultReadsAsEmpty skip p st = false) → (paramsPhase skip multi ps st).2 = true →
    paramsPhase skip multi ps (paramsPhase skip multi ps st).1 = ((paramsPhase skip multi ps st).1, true)
  | [], st, _, _, _ => rfl
  | p :: ps, st, hk, hr, hok => by
    simp only [keysDistinct, Bool.and_eq_true, List.all_eq_true, bne_iff_ne, ne_eq] at hk
    obtain ⟨ok1, ok2, e⟩ := paramsPhase_ok_cons skip multi p ps st hok
    have hr' : ∀ q ∈ ps, DefaultReadsAsEmpty skip q (paramStep skip p st).1 = false := by
      intro q hq
      rw [defaultReadsAsEmpty_congr skip q st _ (paramStep_other skip p st q.key (hk.1 q hq)).symm]
      exact hr q (by simp [hq])
    have ih := params_second_validation_partial skip multi ps (paramStep skip p st).1 hk.2 hr' ok2
    rw [e]
    have hget : (paramStep skip p st).1.get p.key =
        (paramsPhase skip multi ps (paramStep skip p st).1).1.get p.key :=
      (paramsPhase_other skip multi p.key ps _ (fun q hq => fun h => hk.1 q hq h.symm)).symm
    obtain ⟨c1, c2⟩ := paramStep_congr skip p _ _ hget
    have t1 := c2 (param_idempotent skip p st)
    have t2 := c1.trans (param_default_validates_partial skip p st (hr p (by simp)) ok1)
    generalize (paramsPhase skip multi ps (paramStep skip p st).1).1 = stf at *
    rw [paramsPhase_cons]
    simp only [t1, t2, Bool.not_true, Bool.false_and, Bool.false_eq_true, ↓reduceIte, ih, Bool.and_self]

/-- **n validations = 1 validation (parameters).**  For parameters with pairwise distinct (location, name), after an
accepted validation no further validation writes anything — whatever the later verdicts.  Full strength. -/
theorem params_n_validations (skip multi : Bool) (ps : List Param) (st : Store)
    (hk : keysDistinct ps = true) (hok : (paramsPhase skip multi ps st).2 = true) (n : Nat) :
    iterN (fun x => (paramsPhase skip multi ps x).1) (n + 1) st = (paramsPhase skip multi ps st).1 :=
  iterN_of_idem (fun x => (paramsPhase skip multi ps x).1) st (params_idempotent skip multi ps st hk hok) n

/-- … and outside `DefaultReadsAsEmpty` every further validation accepts. -/
theorem params_n_validations_accept_partial (skip multi : Bool) (ps : List Param) (st : Store)
    (hk : keysDistinct ps = true) (hr : ∀ p ∈ ps, DefaultReadsAsEmpty skip p st = false)
    (hok : (paramsPhase skip multi ps st).2 = true) (n : Nat) :
    paramsPhase skip multi ps (iterN (fun x => (paramsPhase skip multi ps x).1) (n + 1) st) =
      ((paramsPhase skip multi ps st).1, true) := by
  rw [params_n_validations skip multi ps st hk hok n]
  exact params_second_validation_partial skip multi ps st hk hr hok

/-- **All parameters: forwarded request = spec (partial).**  The parameters of an accepted request are exactly the
spec's — every absent parameter with a default carries it, nothing else changed — provided no parameter is in the
class `ContentParamDefault`. -/
theorem params_eq_spec_partial (skip multi : Bool) : ∀ (ps : List Param) (st : Store),
    keysDistinct ps = true → (∀ p ∈ ps, ContentParamDefault skip p st = false) →
    (paramsPhase skip multi ps st).2 = true → (paramsPhase skip multi ps st).1 = specParams skip ps st
  | [], st, _, _, _ => rfl
  | p :: ps, st, hk, hx, hok => by
    simp only [keysDistinct, Bool.and_eq_true, List.all_eq_true, bne_iff_ne, ne_eq] at hk
    obtain ⟨ok1, ok2, e⟩ := paramsPhase_ok_cons skip multi p ps st hok
    have hx' : ∀ q ∈ ps, ContentParamDefault skip q (paramStep skip p st).1 = false := by
      intro q hq
      have := hx q (by simp [hq])
      unfold ContentParamDefault at this ⊢
      rw [paramStep_other skip p st q.key (hk.1 q hq)]; exact this
    rw [e, params_eq_spec_partial skip multi ps _ hk.2 hx' ok2,
      param_step_eq_spec_partial skip p st (hx p (by simp)) ok1]
    rfl

/-- **The query cache is harmless.**  ValidateRequest decodes query parameters from `input.QueryParams` and writes
defaults into the URL and (repaired code) into that cache.  If the cache agrees with the URL on entry — a fresh
input, or the input of an earlier validation — the code's `paramsPhaseCached` is `paramsPhase`, and the cache agrees
with the URL afterwards: a REUSED input behaves like a fresh one (F-C13-6 repaired; full strength). -/
theorem query_cache_harmless (skip multi : Bool) (ps : List Param) (view st : Store) (h : InSync view st) :
    (paramsPhaseCached skip multi view ps st).2.1 = (paramsPhase skip multi ps st).1 ∧
    (paramsPhaseCached skip multi view ps st).2.2 = (paramsPhase skip multi ps st).2 ∧
    InSync (paramsPhaseCached skip multi view ps st).1 (paramsPhase skip multi ps st).1 :=
  paramsPhaseCached_sync skip multi ps view st h

/-- F-C13-9 (new, open): a query parameter described by `content: application/json` with default 5 is absent: nothing
    is written (the spec writes `n=5`); with a `schema` instead of `content` the default is written -/
theorem witness_content_param_default :
    let p : Param := { name := "n", loc := .query, ty := .sc .integer, dflt := some (.sc (.int 5)), required := false, allowEmpty := false, explode := true, content := true }
    ContentParamDefault false p [] = true ∧ paramStep false p [] = ([], true) ∧
    specStep false p [] = [((.query, "n"), [.lit (.int 5)])] ∧
    paramStep false { p with content := false } [] = ([((.query, "n"), [.lit (.int 5)])], true) := by decide

/-- F-C13-7 (open): a schema without `type` and default 7, parameter absent: `u=7` is written and the request accepted;
    the next validation finds `u` without a value and rejects it ("empty value is not allowed"); nothing is written
    again. -/
theorem witness_default_reads_as_empty :
    let p : Param := { name := "u", loc := .query, ty := .untyped, dflt := some (.sc (.int 7)), required := false, allowEmpty := false, explode := true }
    DefaultReadsAsEmpty false p [] = true ∧
    paramStep false p [] = ([((.query, "u"), [.lit (.int 7)])], true) ∧
    paramStep false p (paramStep false p []).1 = ([((.query, "u"), [.lit (.int 7)])], false) := by decide

/-- regression (F-C13-10 and the empty-array half of F-C13-7, repaired by 9af6bbd): an absent parameter whose default is
    the empty array — query without explode, header, cookie — is accepted, NOTHING is written (model = spec), and the
    forwarded request is accepted again, unchanged.  (Before the repair: `e=` was written and rejected on re-validation.) -/
theorem regression_empty_array_default_not_written :
    let e : Param := { name := "e", loc := .query, ty := .array .integer, dflt := some (.list []), required := false, allowEmpty := false, explode := false }
    let h : Param := { name := "X-E", loc := .header, ty := .array .integer, dflt := some (.list []), required := false, allowEmpty := false, explode := false }
    let k : Param := { name := "ck", loc := .cookie, ty := .array .integer, dflt := some (.list []), required := false, allowEmpty := false, explode := false }
    DefaultReadsAsEmpty false e [] = false ∧
    paramStep false e [] = ([], true) ∧ specStep false e [] = [] ∧ paramStep false e (paramStep false e []).1 = ([], true) ∧
    paramStep false h [] = ([], true) ∧ specStep false h [] = [] ∧
    paramStep false k [] = ([], true) ∧ specStep false k [] = [] ∧
    paramStep false { e with explode := true } [] = ([], true) := by
  intro e h k
  refine ⟨by decide, by decide, by decide, by decide, by decide, by decide, by decide, by decide, by decide⟩

/-- regression (repaired by c3da93a): an optional cookie parameter described by `content` that is absent is accepted
    (before the repair the lookup's ErrNoCookie was returned as the error); a required one is rejected -/
theorem regression_absent_content_cookie :
    let p : Param := { name := "ck", loc := .cookie, ty := .sc .integer, dflt := none, required := false, allowEmpty := false, explode := false, content := true }
    paramStep false p [] = ([], true) ∧ paramStep false { p with required := true } [] = ([], false) := by decide

/-- regression (F-C13-3, repaired): `?q=` with `q: integer, default 7` — nothing is appended any more -/
theorem regression_empty_present :
    let p : Param := { name := "q", loc := .query, ty := .sc .integer, dflt := some (.sc (.int 7)), required := false, allowEmpty := true, explode := true }
    let st : Store := [((.query, "q"), [.empty])]
    paramStep false p st = (st, true) ∧ specStep false p st = st := by decide

/-- regression (F-C13-4, repaired): a schema without `type`, `?u=9` present — the default is not appended -/
theorem regression_untyped_present :
    let p : Param := { name := "u", loc := .query, ty := .untyped, dflt := some (.sc (.int 7)), required := false, allowEmpty := true, explode := true }
    let st : Store := [((.query, "u"), [.lit (.int 9)])]
    paramStep false p st = (st, true) ∧ specStep false p st = st := by decide

/-- regression (F-C13-5, repaired): header array default `[1,2]` is written as "1,2", accepted again, unchanged -/
theorem regression_header_array_default :
    let p : Param := { name := "X-P", loc := .header, ty := .array .integer, dflt := some (.list [.int 1, .int 2]), required := false, allowEmpty := false, explode := false }
    paramStep false p [] = ([((.header, "X-P"), [.csv [.int 1, .int 2]])], true) ∧
    paramStep false p (paramStep false p []).1 = ((paramStep false p []).1, true) ∧
    specStep false p [] = (paramStep false p []).1 := by decide

/-- regression (F-C13-6, repaired): validating twice with the SAME input (the cache of the first validation) -/
theorem regression_reused_input :
    let p : Param := { name := "q", loc := .query, ty := .sc .integer, dflt := some (.sc (.int 5)), required := false, allowEmpty := false, explode := true }
    let r1 := paramsPhaseCached false false [] [p] []
    r1.2.1 = [((.query, "q"), [.lit (.int 5)])] ∧ r1.1 = r1.2.1 ∧
    (paramsPhaseCached false false r1.1 [p] r1.2.1).2 = (r1.2.1, true) := by decide

/-- regression witness of the repaired #25 and non-vacuity: query array default `[1,2]`, `explode` not given (so:
    true) — written as `q=1&q=2`, accepted again, nothing further changes -/
example :
    let p : Param := { name := "q", loc := .query, ty := .array .integer, dflt := some (.list [.int 1, .int 2]), required := false, allowEmpty := false, explode := true }
    DefaultReadsAsEmpty false p [] = false ∧
    paramStep false p [] = ([((.query, "q"), [.lit (.int 1), .lit (.int 2)])], true) ∧
    paramStep false p (paramStep false p []).1 = ((paramStep false p []).1, true) ∧
    specStep false p [] = (paramStep false p []).1 := by decide

/-- non-vacuity of the list theorems: a defaulted query parameter, a present header, a defaulted cookie array -/
example :
    let ps : List Param := [
      { name := "q", loc := .query, ty := .sc .integer, dflt := some (.sc (.int 7)), required := false, allowEmpty := false, explode := true },
      { name := "X-P", loc := .header, ty := .sc .string, dflt := some (.sc (.str "dd")), required := true, allowEmpty := false, explode := false },
      { name := "ck", loc := .cookie, ty := .array .integer, dflt := some (.list [.int 1, .int 2]), required := false, allowEmpty := false, explode := false }]
    let st : Store := [((.header, "X-P"), [.lit (.str "abc")])]
    keysDistinct ps = true ∧ (∀ p ∈ ps, DefaultReadsAsEmpty false p st = false) ∧
    paramsPhase false false ps st =
      ([((.header, "X-P"), [.lit (.str "abc")]), ((.query, "q"), [.lit (.int 7)]), ((.cookie, "ck"), [.csv [.int 1, .int 2]])], true) := by
  decide

/-! ### path-item parameters, overrides, excluded query parameters, allOf defaults -/

/-- **Which parameters are validated.**  The parameters handed to ValidateParameter are exactly the effective ones:
the operation's own, plus those of the path item that the operation does not redeclare (same location and name),
query parameters only if ExcludeRequestQueryParams is off. -/
theorem visited_iff_effective (exq : Bool) (pp op : List Param) (p : Param) :
    p ∈ visited exq pp op ↔ Effective exq pp op p := by
  unfold visited Effective overridden excluded
  simp only [List.mem_append, List.mem_filter, Bool.and_eq_true, Bool.not_eq_true', Bool.and_eq_false_imp,
    List.any_eq_false, beq_iff_eq, ne_eq]
  constructor
  · rintro (⟨hm, hx, ho⟩ | ⟨hm, hx⟩)
    · refine ⟨Or.inr ⟨hm, fun q hq => by simpa using ho q hq⟩, ?_⟩
      rintro ⟨he, hl⟩; simpa [hl] using hx he
    · refine ⟨Or.inl hm, ?_⟩
      rintro ⟨he, hl⟩; simpa [hl] using hx he
  · rintro ⟨hm | ⟨hm, ho⟩, hx⟩
    · exact Or.inr ⟨hm, fun he => by simpa using fun hl => hx ⟨he, hl⟩⟩
    · exact Or.inl ⟨hm, fun he => by simpa using fun hl => hx ⟨he, hl⟩, fun q hq => by simpa using ho q hq⟩

/-- **An overridden path-item parameter is never processed**: neither validated nor defaulted — only the operation's
declaration governs. -/
theorem overridden_path_param_ignored (exq : Bool) (pp op : List Param) (p : Param)
    (hno : p ∉ op) (hov : overridden op p = true) : p ∉ visited exq pp op := by
  rw [visited_iff_effective]
  rintro ⟨hm | ⟨_, ho⟩, _⟩
  · exact hno hm
  · simp only [overridden, List.any_eq_true, beq_iff_eq] at hov
    obtain ⟨q, hq, e⟩ := hov
    exact ho q hq e

/-- the validated parameters have pairwise distinct keys when each declaration list has -/
theorem visited_keysDistinct (exq : Bool) (pp op : List Param) (h1 : keysDistinct pp = true) (h2 : keysDistinct op = true) :
    keysDistinct (visited exq pp op) = true := by
  unfold visited
  apply keysDistinct_append _ _ (keysDistinct_filter _ pp h1) (keysDistinct_filter _ op h2)
  intro a ha b hb
  simp only [List.mem_filter, Bool.and_eq_true, Bool.not_eq_true'] at ha hb
  simp only [overridden, List.any_eq_false, beq_iff_eq] at ha
  exact ha.2.2 b hb.1

/-- **The forwarded parameters of a whole request = spec, and a second validation changes nothing** — for path-item and
operation parameters together, overrides and excluded query parameters included (model = spec outside
`ContentParamDefault`; idempotence at full strength). -/
theorem request_params_eq_spec_and_idempotent (skip multi exq : Bool) (pp op : List Param) (st : Store)
    (h1 : keysDistinct pp = true) (h2 : keysDistinct op = true)
    (hx : ∀ p ∈ visited exq pp op, ContentParamDefault skip p st = false)
    (hok : (paramsPhase skip multi (visited exq pp op) st).2 = true) :
    (paramsPhase skip multi (visited exq pp op) st).1 = specParams skip (visited exq pp op) st ∧
    (paramsPhase skip multi (visited exq pp op) (paramsPhase skip multi (visited exq pp op) st).1).1 =
      (paramsPhase skip multi (visited exq pp op) st).1 :=
  ⟨params_eq_spec_partial skip multi _ st (visited_keysDistinct exq pp op h1 h2) hx hok,
   params_idempotent skip multi _ st (visited_keysDistinct exq pp op h1 h2) hok⟩

/-- With ExcludeRequestQueryParams no query parameter of the request is touched. -/
theorem excluded_query_untouched (skip multi : Bool) (pp op : List Param) (st : Store) (n : String) :
    (paramsPhase skip multi (visited true pp op) st).1.get (.query, n) = st.get (.query, n) := by
  apply paramsPhase_other
  intro p hp
  have := ((visited_iff_effective true pp op p).mp hp).2
  intro e
  apply this
  refine ⟨rfl, ?_⟩
  have := congrArg Prod.fst e
  simpa [Param.key] using this.symm

/-- the default of a parameter schema: the first allOf member that has one wins over the schema's own -/
theorem effDefault_first_allOf (own : Option PVal) (d : PVal) (pre r : List (Option PVal)) (h : ∀ x ∈ pre, x = none) :
    effDefault own (pre ++ some d :: r) = some d := by
  induction pre with
  | nil => rfl
  | cons x xs ih =>
    have hx : x = none := h x (by simp)
    subst hx
    simpa [effDefault] using ih (fun y hy => h y (by simp [hy]))

theorem effDefault_own (own : Option PVal) (l : List (Option PVal)) (h : ∀ x ∈ l, x = none) : effDefault own l = own := by
  induction l with
  | nil => rfl
  | cons x xs ih =>
    have hx : x = none := h x (by simp)
    subst hx
    simpa [effDefault] using ih (fun y hy => h y (by simp [hy]))

/-- non-vacuity (the seeded-defect shape): the path item declares `q` with default 1, the operation redeclares `q`
    with default 2 — only the operation's default is written -/
example :
    let pq : Param := { name := "q", loc := .query, ty := .sc .integer, dflt := some (.sc (.int 1)), required := false, allowEmpty := false, explode := true }
    let oq : Param := { pq with dflt := some (.sc (.int 2)) }
    let ph : Param := { name := "X-P", loc := .header, ty := .sc .integer, dflt := some (.sc (.int 3)), required := false, allowEmpty := false, explode := false }
    visited false [pq, ph] [oq] = [ph, oq] ∧
    paramsPhase false false (visited false [pq, ph] [oq]) [] =
      ([((.header, "X-P"), [.lit (.int 3)]), ((.query, "q"), [.lit (.int 2)])], true) ∧
    (paramsPhase false false (visited true [pq, ph] [oq]) []).1 = [((.header, "X-P"), [.lit (.int 3)])] := by decide

end ParamPart

/-! ## Part 4 — media type, decoder, encoder: the link between the value layer and the stream -/
section MediaPart
open Media Body

/-- Content.Get: a declared media type that equals the header wins … -/
theorem contentGet_exact (declared : List String) (raw : String) (h0 : raw ≠ "") (h : declared.contains raw = true) :
    contentGet declared raw = some raw := by
  have h' : raw ∈ declared := by simpa using h
  unfold contentGet; simp [h0, h']

/-- … otherwise the parameters of the header (`; charset=utf-8`) are ignored. -/
theorem contentGet_parameters_ignored (declared : List String) (raw : String) (h0 : raw ≠ "")
    (h1 : declared.contains raw = false) (h2 : declared.contains (base raw) = true) :
    contentGet declared raw = some (base raw) := by
  have h1' : raw ∉ declared := by simpa using h1
  have h2' : base raw ∈ declared := by simpa using h2
  unfold contentGet; simp [h0, h1', h2']

/-! ### the two registries, tied to the source (regenerated tables BodyDecoders, BodyEncoders) -/

/-- the translator could read every registration statement -/
theorem registries_recognised :
    Gen.bodyDecoders.all (fun r => match r with | .unrecognised _ => false | .reg _ _ => true) = true ∧
    Gen.bodyEncoders.all (fun r => match r with | .unrecognised _ => false | .reg _ _ => true) = true := by decide

/-- **`decoderOf` is the decoder registry of the source**: every registered media type is decoded by the decoder the
model names — JSON, text, YAML, form — or is one of the three media types listed as outside the fragment; a media type
the model gives a decoder is registered. -/
theorem decoder_registry_is_code :
    Gen.bodyDecoders.all (fun r => match r with
      | .reg k "JSONBodyDecoder" => decoderOf k == .json
      | .reg k "PlainBodyDecoder" => decoderOf k == .plain
      | .reg k "YamlBodyDecoder" => decoderOf k == .yaml
      | .reg k "UrlencodedBodyDecoder" => decoderOf k == .form
      | .reg k _ => unmodelledTypes.contains k && decoderOf k == .none
      | .unrecognised _ => false) = true ∧
    (jsonTypes ++ ["text/plain"] ++ yamlTypes ++ [formType] ++ unmodelledTypes).all (fun k =>
      Gen.bodyDecoders.any (fun r => match r with | .reg k' _ => k' == k | _ => false)) = true ∧
    Gen.bodyDecoders.length = (jsonTypes ++ ["text/plain"] ++ yamlTypes ++ [formType] ++ unmodelledTypes).length := by decide

/-- **`hasEncoder` is the encoder registry of the source**: json.Marshal under the six JSON media types, yaml.Marshal
under the two YAML ones, nothing else. -/
theorem encoder_registry_is_code :
    Gen.bodyEncoders = jsonTypes.map (fun k => .reg k "json.Marshal") ++ yamlEncoderTypes.map (fun k => .reg k "yaml.Marshal") ∧
    encoderTypes = jsonTypes ++ yamlEncoderTypes := by decide

/-- **Every body the JSON or the YAML decoder decodes can be written back** (repairs 54b25f5, 3ff760b) — on the
registries of the source … -/
theorem json_yaml_decoded_has_encoder_in_source :
    Gen.bodyDecoders.all (fun r => match r with
      | .reg k "JSONBodyDecoder" => Gen.bodyEncoders.any (fun e => match e with | .reg k' _ => k' == k | _ => false)
      | .reg k "YamlBodyDecoder" => Gen.bodyEncoders.any (fun e => match e with | .reg k' _ => k' == k | _ => false)
      | _ => true) = true := by decide

/-- … and in the model, for every media type. -/
theorem json_yaml_decoded_has_encoder (mediaType : String)
    (h : decoderOf mediaType = .json ∨ decoderOf mediaType = .yaml) : hasEncoder mediaType = true := by
  unfold decoderOf at h
  unfold hasEncoder encoderTypes
  by_cases h1 : jsonTypes.contains mediaType = true
  · rw [List.contains_append, h1]; rfl
  · simp only [h1, Bool.false_eq_true, ↓reduceIte] at h
    by_cases h2 : mediaType = "text/plain"
    · simp [h2] at h
    · simp only [h2, ↓reduceIte] at h
      by_cases h3 : yamlTypes.contains mediaType = true
      · have : mediaType = "application/x-yaml" ∨ mediaType = "application/yaml" := by simpa [yamlTypes] using h3
        rcases this with e | e <;> subst e <;> decide
      · simp only [h3, Bool.false_eq_true, ↓reduceIte] at h
        split at h <;> rcases h with h | h <;> cases h

/-- the decoders of the source that have NO encoder: the form, multipart, csv, file and text decoders.  Text, csv and
    file bodies decode to strings and never receive defaults; form and multipart bodies decode to objects: what is
    left of F-C13-8. -/
theorem decoders_without_encoder :
    (Gen.bodyDecoders.filterMap (fun r => match r with
      | .reg k d => if Gen.bodyEncoders.any (fun e => match e with | .reg k' _ => k' == k | _ => false) then none else some (k, d)
      | _ => none)) =
    [("application/octet-stream", "FileBodyDecoder"), ("application/x-www-form-urlencoded", "UrlencodedBodyDecoder"),
     ("multipart/form-data", "MultipartBodyDecoder"), ("text/csv", "CsvBodyDecoder"), ("text/plain", "PlainBodyDecoder")] := by decide

/-- **The body phase = spec (partial).**  Full statement: `bodyOutcome = specOutcome` — an accepted body is forwarded
re-encoded iff a default was set in it.  It fails where the body was decoded by a decoder for which no encoder is
registered (`NoBodyEncoder`, what is left of finding F-C13-8: the form decoder; witness below); outside that class
it holds, for every Content-Type header (with or without parameters), every set of declared media types, every
(well-formed) schema.  The class `ReencodedUnchanged` (F-C13-11) is repaired (commit 6a3f133) and deleted: the callback
runs iff the value changes (`touched_iff_changed`). -/
theorem body_outcome_eq_spec_partial (c : Ctx) (declared : List (String × Option S)) (hw : declaredWf declared = true)
    (header : String) (cd : Codec) (data : Stream.Bytes)
    (hx : NoBodyEncoder c declared header cd data = false) :
    bodyOutcome c declared header cd data = specOutcome c declared header cd data := by
  rw [bodyOutcome_eq, specOutcome_eq]
  rw [noBodyEncoder_eq] at hx
  split
  · rfl
  · cases hg : contentGet (declared.map (·.1)) header with
    | none => rfl
    | some key =>
      simp only [hg] at hx ⊢
      cases hs : schemaOf key declared with
      | none => rfl
      | some os =>
        cases os with
        | none => rfl
        | some s =>
          simp only [hs] at hx ⊢
          cases hd : decoded header cd data with
          | none => rfl
          | some v =>
            simp only [hd] at hx ⊢
            have hwf := schemaOf_wf key declared s hw hs
            rw [← visit_eq_spec c s hwf v]
            cases hv : visit c s v with
            | none => rfl
            | some v' =>
              simp only [hv] at hx ⊢
              unfold finish finishSpec
              cases h1 : c.setDefaults with
              | false => simp
              | true =>
                simp only [h1, Bool.true_and] at hx ⊢
                cases ht : touched c s v with
                | false =>
                  have e := untouched_unchanged c s hwf v v' hv ht
                  subst e
                  simp [J.beq_refl]
                | true =>
                  have hne : v' ≠ v := (touched_iff_changed c s hwf v v' hv).mp ht
                  have hb : J.beq v' v = false := by
                    cases hbb : J.beq v' v with
                    | false => rfl
                    | true => exact absurd (J.beq_eq v' v hbb) hne
                  simp only [ht, Bool.and_true, Bool.not_eq_false'] at hx
                  simp [hx, hb]

/-- A text/plain body is never rewritten: it decodes to a string, and a string is forwarded as it is. -/
theorem plain_body_never_rewritten (c : Ctx) (declared : List (String × Option S)) (header : String) (cd : Codec)
    (data : Stream.Bytes) (hp : decoderOf (base header) = .plain) :
    bodyOutcome c declared header cd data = .accept ∨ bodyOutcome c declared header cd data = .reject := by
  rw [bodyOutcome_eq]
  split
  · exact Or.inl rfl
  · split
    · exact Or.inr rfl
    · split
      · simp only [decoded, hp]
        cases hv : visit c _ (.str (cd.text data)) with
        | none => exact Or.inr rfl
        | some v' =>
          left
          simp [finish, touched_str c _ _ v' hv]
      · exact Or.inl rfl

/-- **The body phase = spec, full strength, for every body the JSON, the YAML or the text decoder decodes, and for
every media type without a decoder** (no exclusion): F-C13-8 is repaired for the "+json" family (54b25f5) and for YAML
(3ff760b), F-C13-11 for all of them (6a3f133). -/
theorem body_outcome_eq_spec_encodable (c : Ctx) (declared : List (String × Option S)) (hw : declaredWf declared = true)
    (header : String) (cd : Codec) (data : Stream.Bytes) (hj : decoderOf (base header) ≠ .form) :
    bodyOutcome c declared header cd data = specOutcome c declared header cd data := by
  apply body_outcome_eq_spec_partial c declared hw header cd data
  rw [noBodyEncoder_eq]
  cases hd : decoderOf (base header) with
  | form => exact absurd hd hj
  | json => simp [json_yaml_decoded_has_encoder _ (Or.inl hd)]
  | yaml => simp [json_yaml_decoded_has_encoder _ (Or.inr hd)]
  | none =>
    cases hg : contentGet (declared.map (·.1)) header with
    | none => simp
    | some key =>
      simp only
      cases hs : schemaOf key declared with
      | none => simp
      | some os => cases os <;> simp [decoded, hd]
  | plain =>
    cases hg : contentGet (declared.map (·.1)) header with
    | none => simp
    | some key =>
      simp only
      cases hs : schemaOf key declared with
      | none => simp
      | some os =>
        cases os with
        | none => simp
        | some s =>
          simp only [decoded, hd]
          cases hv : visit c s (.str (cd.text data)) with
          | none => simp
          | some v' => simp [touched_str c s _ v' hv]

/-- Nothing is rewritten when default-setting is skipped — and the body phase never answers "rewriting failed"
(repaired code 4a27f6e: the encoder is looked up before it is called; the encoders of the fragment do not fail). -/
theorem rewrite_only_with_defaults_on (c : Ctx) (hc : c.setDefaults = false) (declared : List (String × Option S))
    (header : String) (cd : Codec) (data : Stream.Bytes) :
    (∀ nd, bodyOutcome c declared header cd data ≠ .rewrite nd) ∧ bodyOutcome c declared header cd data ≠ .rewriteFails := by
  have key : bodyOutcome c declared header cd data = .accept ∨ bodyOutcome c declared header cd data = .reject := by
    rw [bodyOutcome_eq]
    split
    · simp
    · split
      · simp
      · split
        · split
          · simp
          · split
            · simp
            · unfold finish; simp [hc]
        · simp
  rcases key with k | k <;> rw [k] <;> simp

theorem never_rewriteFails (c : Ctx) (declared : List (String × Option S)) (header : String) (cd : Codec)
    (data : Stream.Bytes) : bodyOutcome c declared header cd data ≠ .rewriteFails := by
  rw [bodyOutcome_eq]
  split
  · simp
  · split
    · simp
    · split
      · split
        · simp
        · split
          · simp
          · unfold finish; split <;> simp
      · simp

/-- **skip_defaults_identity (whole body path).**  With default-setting skipped, after ValidateRequest — any security
outcome, any Content-Type, any declared content, any schema, valid or invalid body — the next handler reads exactly
the bytes that were received. -/
theorem skip_defaults_body_identity (cfg : Stream.Cfg) (c : Ctx) (hc : c.setDefaults = false)
    (declared : List (String × Option S)) (header : String) (cd : Codec)
    (r : Stream.Req) (data : Stream.Bytes) (h : Stream.Coherent r data) :
    Stream.Readable (Stream.validateStream cfg (bodyOutcome c declared header cd) r).1 data :=
  skip_defaults_stream_identity cfg _ r data h
    (fun d nd => (rewrite_only_with_defaults_on c hc declared header cd d).1 nd)

/-- **What is forwarded.**  If the body is rewritten, the new bytes are the encoding of what the value layer makes of
the decoded body under the schema of the media type that the header selects, a default WAS set in it (the value
changed), and the header's media type has an encoder. -/
theorem rewrite_is_encoded_visit (c : Ctx) (declared : List (String × Option S)) (header : String) (cd : Codec)
    (data nd : Stream.Bytes) (h : bodyOutcome c declared header cd data = .rewrite nd) :
    ∃ key s v v', contentGet (declared.map (·.1)) header = some key ∧ schemaOf key declared = some (some s) ∧
      decoded header cd data = some v ∧ visit c s v = some v' ∧ nd = cd.enc v' ∧ c.setDefaults = true ∧
      touched c s v = true ∧ hasEncoder (base header) = true := by
  rw [bodyOutcome_eq] at h
  split at h
  · cases h
  · cases hg : contentGet (declared.map (·.1)) header with
    | none => simp [hg] at h
    | some key =>
      simp only [hg] at h
      cases hs : schemaOf key declared with
      | none => simp [hs] at h
      | some os =>
        cases os with
        | none => simp [hs] at h
        | some s =>
          simp only [hs] at h
          cases hd : decoded header cd data with
          | none => simp [hd] at h
          | some v =>
            simp only [hd] at h
            cases hv : visit c s v with
            | none => simp [hv] at h
            | some v' =>
              simp only [hv] at h
              unfold finish at h
              split at h
              · rename_i hcond
                cases h
                simp only [Bool.and_eq_true] at hcond
                exact ⟨key, s, v, v', rfl, hs, rfl, hv, rfl, hcond.1.1, hcond.1.2, hcond.2⟩
              · cases h

/-- **The rewritten body is accepted as it is by the next validation** (no further rewrite): outside `BranchShift`,
given that decoding what the encoder wrote gives the value back (trusted: encoding/json, yaml3). -/
theorem rewritten_body_is_accepted (c : Ctx) (declared : List (String × Option S)) (hw : declaredWf declared = true)
    (header : String) (cd : Codec) (data nd : Stream.Bytes)
    (h : bodyOutcome c declared header cd data = .rewrite nd)
    (hrt : ∀ v, decoded header cd (cd.enc v) = some v)
    (hx : ∀ key s v, contentGet (declared.map (·.1)) header = some key → schemaOf key declared = some (some s) →
      decoded header cd data = some v → BranchShift c s v = false) :
    bodyOutcome c declared header cd nd = .accept := by
  obtain ⟨key, s, v, v', hg, hs, hd, hv, rfl, _, _, _⟩ := rewrite_is_encoded_visit c declared header cd data nd h
  have hwf := schemaOf_wf key declared s hw hs
  have hfix : visit c s v' = some v' := defaults_idempotent_partial c s hwf v v' (hx key s v hg hs hd) hv
  have hnt : touched c s v' = false := by
    cases ht : touched c s v' with
    | false => rfl
    | true => exact absurd rfl ((touched_iff_changed c s hwf v' v' hfix).mp ht)
  rw [bodyOutcome_eq]
  have hne : declared.isEmpty = false := by
    cases declared with
    | nil => simp [schemaOf] at hs
    | cons _ _ => rfl
  simp only [hne, Bool.false_eq_true, ↓reduceIte, hg, hs, hrt v', hfix, finish, hnt, Bool.and_false, Bool.false_and]

/-- **n validations = 1 validation (whole body path).**  Stream and value layer together: outside `BranchShift`,
however often the request is validated again — any security outcome, any Content-Type, any declared content — Body,
GetBody and ContentLength stay as the first validation left them, and every validation returns the first verdict. -/
theorem body_path_n_validations (cfg : Stream.Cfg) (c : Ctx) (declared : List (String × Option S))
    (hw : declaredWf declared = true) (header : String) (cd : Codec) (r : Stream.Req) (data : Stream.Bytes)
    (h : Stream.Coherent r data)
    (hrt : ∀ v, decoded header cd (cd.enc v) = some v) (hne : ∀ v, cd.enc v ≠ [])
    (hx : ∀ key s v, contentGet (declared.map (·.1)) header = some key → schemaOf key declared = some (some s) →
      decoded header cd data = some v → BranchShift c s v = false) (n : Nat) :
    iterN (fun x => (Stream.validateStream cfg (bodyOutcome c declared header cd) x).1) (n + 1) r =
      (Stream.validateStream cfg (bodyOutcome c declared header cd) r).1 ∧
    (Stream.validateStream cfg (bodyOutcome c declared header cd)
      (iterN (fun x => (Stream.validateStream cfg (bodyOutcome c declared header cd) x).1) (n + 1) r)).2 =
      (Stream.validateStream cfg (bodyOutcome c declared header cd) r).2 := by
  apply stream_n_validations cfg _ r data h
  intro nd hnd
  obtain ⟨_, _, _, v', _, _, _, _, e, _, _, _⟩ := rewrite_is_encoded_visit c declared header cd data nd hnd
  exact ⟨by rw [e]; exact hne v', Or.inl (rewritten_body_is_accepted c declared hw header cd data nd hnd hrt hx)⟩

/-- F-C13-8 (what is left open after 54b25f5, 3ff760b, 4a27f6e): `Content-Type: application/x-www-form-urlencoded`, the
    field of a property with a default is absent: the request is accepted (4a27f6e), but forwarded as received — the
    spec forwards it with the default -/
theorem witness_no_body_encoder :
    let s : S := .obj {} [] [("a", .leaf {} .string), ("d", .leaf { dflt := some (.num 7) } .number)] true
    let declared : List (String × Option S) := [("application/x-www-form-urlencoded", some s)]
    let cd : Codec := { parse := fun _ => none, yaml := fun _ => none, form := fun _ => some (.obj [("a", .str "x")]),
                        text := fun _ => "", enc := fun _ => [1] }
    NoBodyEncoder {} declared "application/x-www-form-urlencoded" cd [0] = true ∧
    bodyOutcome {} declared "application/x-www-form-urlencoded" cd [0] = .accept ∧
    specOutcome {} declared "application/x-www-form-urlencoded" cd [0] = .rewrite [1] := by
  decide

/-- regression (F-C13-11, repaired by 6a3f133): `anyOf [A: {required [q], x default 1}, B: {z: number}]` and the body
    `{"z":1}`: no default applies, the value is forwarded as it is, the callback does not run (A's trial run writes `x`
    only into its private copy): a JSON body and a YAML body are accepted and left alone — model = spec.  When a
    default does apply (`{}` against B': z default 2) the callback runs. -/
theorem regression_discarded_candidate_does_not_touch :
    let A : S := .obj {} ["q"] [("x", .leaf { dflt := some (.num 1) } .number)] true
    let B : S := .obj {} [] [("z", .leaf {} .number)] true
    let B' : S := .obj {} [] [("z", .leaf { dflt := some (.num 2) } .number)] true
    let s : S := .comb {} .anyOf [A, B]
    let v : J := .obj [("z", .num 1)]
    let cd : Codec := { parse := fun _ => some v, yaml := fun _ => some v, form := fun _ => none, text := fun _ => "", enc := fun _ => [1] }
    visit {} s v = some v ∧ touched {} s v = false ∧
    bodyOutcome {} [("application/json", some s)] "application/json" cd [0] = .accept ∧
    specOutcome {} [("application/json", some s)] "application/json" cd [0] = .accept ∧
    bodyOutcome {} [("application/yaml", some s)] "application/yaml" cd [0] = .accept ∧
    specOutcome {} [("application/yaml", some s)] "application/yaml" cd [0] = .accept ∧
    touched {} (.comb {} .anyOf [A, B']) (.obj []) = true := by
  refine ⟨by rfl, by rfl, by decide, by decide, by decide, by decide, by rfl⟩

/-- regression (F-C13-8, repaired by 54b25f5 for the +json family and by 3ff760b for YAML): a property with a default is
    absent: the body is forwarded re-encoded with the default — model = spec (before the repairs the model answered
    `rewriteFails`) -/
theorem regression_json_family_and_yaml_encoder :
    let s : S := .obj {} [] [("d", .leaf { dflt := some (.num 7) } .number)] true
    let cd : Codec := { parse := fun _ => some (.obj []), yaml := fun _ => some (.obj []), form := fun _ => none, text := fun _ => "", enc := fun _ => [1] }
    NoBodyEncoder {} [("application/problem+json", some s)] "application/problem+json" cd [0] = false ∧
    bodyOutcome {} [("application/problem+json", some s)] "application/problem+json" cd [0] = .rewrite [1] ∧
    specOutcome {} [("application/problem+json", some s)] "application/problem+json" cd [0] = .rewrite [1] ∧
    bodyOutcome {} [("application/yaml", some s)] "application/yaml; charset=utf-8" cd [0] = .rewrite [1] ∧
    specOutcome {} [("application/yaml", some s)] "application/yaml; charset=utf-8" cd [0] = .rewrite [1] ∧
    bodyOutcome {} [("application/x-yaml", some s)] "application/x-yaml" cd [0] = .rewrite [1] ∧
    (jsonTypes ++ yamlTypes).all hasEncoder = true := by
  decide

/-- non-vacuity (the seeded-defect shape): `application/json; charset=utf-8` against a declared `application/json`:
    the schema is found, the body decoded, the default set and the body re-encoded -/
example :
    let s : S := .obj {} [] [("d", .leaf { dflt := some (.num 7) } .number)] true
    let declared : List (String × Option S) := [("application/json", some s)]
    let cd : Codec := { parse := fun _ => some (.obj []), yaml := fun _ => none, form := fun _ => none, text := fun _ => "", enc := fun _ => [1] }
    let cd1 : Codec := { cd with parse := fun _ => some (.obj [("d", .num 1)]) }
    declaredWf declared = true ∧
    NoBodyEncoder {} declared "application/json; charset=utf-8" cd [0] = false ∧
    bodyOutcome {} declared "application/json; charset=utf-8" cd [0] = .rewrite [1] ∧
    bodyOutcome {} declared "application/json ; charset=utf-8" cd [0] = .reject ∧
    bodyOutcome {} [("application/*", some s)] "application/hal+json" cd1 [0] = .accept ∧
    bodyOutcome {} [("application/*", some s)] "application/hal+json; v=1" cd [0] = .rewrite [1] := by
  decide

end MediaPart

/-! ## Part 5 — every `return` of the five functions the request passes through (regenerated table C13BodyFlow)

The stream model of Part 1 was written by reading the code; this part makes "the body is put back on every path" an
obligation over the code's own control-flow skeleton, regenerated on every run: `Flow.Exec` are all paths of the
skeleton, `Flow.accepts` is an abstract interpreter, `Flow.accepts_sound` (Lemmas/C13Flow.lean) its soundness for all
paths — and `decide` runs it on the table. -/
section FlowPart
open Flow Gen

/-- the translator could read every statement that touches the body stream -/
theorem flow_recognised :
    c13BodyFlow.map (·.1) = ["ValidateRequest", "ValidateParameter", "ValidateRequestBody", "ValidateSecurityRequirements", "validateSecurityRequirement"] ∧
    c13BodyFlow.all (fun f => countL isUnrecognised f.2 == 0) = true := by decide +kernel

/-- the interpreter accepts each of the five functions -/
theorem flow_accepted : c13BodyFlow.all (fun f => accepts f.2) = true := by decide +kernel

/-- **body_readable_after, on every path of the code's skeleton.**  For each of the five functions, entered with or
without a request body: every path — whichever way the conditions fall, however often the loops run, whether or not a
callback reads the body — ends in a `return` with the body in place or with a deferred restore registered; every
authentication callback and every call of another of the five functions starts with the whole body in place; nothing
unrecognised is executed. -/
theorem every_return_protected (f : String × List FlowStmt) (hf : f ∈ c13BodyFlow) (s : FSt) (hs : s ∈ entryStates)
    (o : Out) (h : Exec f.2 s o) : Protected o :=
  accepts_sound f.2 (List.all_eq_true.mp flow_accepted f hf) s hs o h

/-- **The shape the stream model relies on** (the "restore sites" of Part 1, now counted in the source): per function
(reads of the body, restore blocks, default-rewrite blocks, deferred restores, callback calls): ValidateRequestBody reads
once, restores once and installs the rewrite once; validateSecurityRequirement reads once, registers one deferred
restore, restores before its one callback call; the other three functions never touch the stream themselves. -/
theorem flow_shape_is_model :
    c13BodyFlow.map (fun f => (f.1, (census f.2).take 5)) =
      [("ValidateRequest", [0, 0, 0, 0, 0]), ("ValidateParameter", [0, 0, 0, 0, 0]),
       ("ValidateRequestBody", [1, 1, 1, 0, 0]), ("ValidateSecurityRequirements", [0, 0, 0, 0, 0]),
       ("validateSecurityRequirement", [1, 1, 0, 1, 1])] := by decide +kernel

/-- non-vacuity of the interpreter and of the semantics: a `return` between the read and the restore (no deferred
    restore) is rejected, and there is a path that reaches it with the body consumed; with the deferred restore it is
    accepted -/
example :
    accepts [.ifBody 1 [.read 2 [.ret 3], .ifElse 4 [.ret 5] [], .restore 6] [], .ret 7] = false ∧
    accepts [.ifBody 1 [.read 2 [.ret 3], .deferRestore 4, .ifElse 4 [.ret 5] []] [], .ret 7] = true ∧
    accepts [.ifBody 1 [.read 2 [.ret 3], .restore 6] [], .loop 7 [.callback 8, .ifElse 9 [.ret 10] []], .ret 11] = false ∧
    Exec [.ifBody 1 [.read 2 [.ret 3], .ifElse 4 [.ret 5] [], .restore 6] [], .ret 7] ⟨true, false, false, false⟩
      (.ret 5 ⟨true, true, false, true⟩) := by
  refine ⟨by decide +kernel, by decide +kernel, by decide +kernel, ?_⟩
  refine Exec.branchStop _ _ _ [.read 2 [.ret 3], .ifElse 4 [.ret 5] [], .restore 6] _ (by simp [branches]) ?_ rfl
  refine Exec.read _ _ _ _ _ ?_
  exact Exec.branchStop _ _ _ [.ret 5] _ (by simp [branches]) (Exec.ret _ _ _) rfl

end FlowPart

/-! ## Part 6 — the hand-written stream model follows the regenerated skeleton (event traces, KinModel/C13Trace.lean)

Part 5 checks the skeleton against the property and counts its statements; this part ties the *model* of Part 1 to
it: what `Stream.bodyPhase` does to the request is what one complete path of the regenerated skeleton of
ValidateRequestBody does when its events are executed concretely, and conversely. -/
section TracePart
open Trace Gen

/-- the complete paths of ValidateRequestBody in the source, as stream events (regenerated table; a loop, `continue`,
    `break`, `if data != nil` or anything unrecognised would appear as `unsupported` and break this obligation) -/
theorem vrb_trace_set :
    tracesL (bodyOf "ValidateRequestBody" c13BodyFlow) =
      [([.guard true, .read, .restore], true), ([.guard true, .read, .restore, .install], true),
       ([.guard false], true), ([.guard false, .install], true)] := by decide +kernel

/-- **The model's body phase is a path of the code.**  For every request, `required` flag and schema outcome: the
request `Stream.bodyPhase` returns is the result of executing — with the stream operations `readAll`, `drain`,
`restore` and the install of the re-encoded bytes — one complete path (ending in `return`) of the regenerated
skeleton of ValidateRequestBody whose guard outcome is that of the request.  Full strength. -/
theorem bodyPhase_is_a_skeleton_path (required : Bool) (outcome : Bytes → BodyOutcome) (r : Req) :
    ∃ t, (t, true) ∈ tracesL (bodyOf "ValidateRequestBody" c13BodyFlow) ∧ consistent t r = true ∧
      (bodyPhase required outcome r).1 = runTrace (newData outcome r) t r := by
  rw [vrb_trace_set]
  cases hb : r.body with
  | none => exact ⟨[.guard false], by simp, by simp [consistent, hb], by simp [bodyPhase, hb, runTrace, stepEv]⟩
  | some data =>
    cases data with
    | nil =>
      exact ⟨[.guard true, .read, .restore], by simp, by simp [consistent, hb],
        by simp [bodyPhase, hb, runTrace, stepEv, readAll]⟩
    | cons x xs =>
      cases ho : outcome (x :: xs) with
      | rewrite nd =>
        exact ⟨[.guard true, .read, .restore, .install], by simp, by simp [consistent, hb],
          by simp [bodyPhase, hb, runTrace, stepEv, readAll, newData, ho]⟩
      | reject =>
        exact ⟨[.guard true, .read, .restore], by simp, by simp [consistent, hb],
          by simp [bodyPhase, hb, runTrace, stepEv, readAll, ho]⟩
      | accept =>
        exact ⟨[.guard true, .read, .restore], by simp, by simp [consistent, hb],
          by simp [bodyPhase, hb, runTrace, stepEv, readAll, ho]⟩
      | rewriteFails =>
        exact ⟨[.guard true, .read, .restore], by simp, by simp [consistent, hb],
          by simp [bodyPhase, hb, runTrace, stepEv, readAll, ho]⟩

/- Full statement (not provable: the skeleton does not keep the condition `len(data) == 0`):
   every complete path of the skeleton whose guard outcome is that of the request is what `bodyPhase` does for some
   `required` and schema outcome. -/
/-- **Every path of the code is the model's body phase** — except the one path the skeleton has only because it does
not keep `len(data) == 0` (`InstallWithoutRead`); a path with the default rewrite needs a non-empty body (zero bytes
return before the schema is consulted). -/
theorem skeleton_paths_are_bodyPhase_partial (t : List Ev) (r : Req) (nd : Bytes)
    (ht : (t, true) ∈ tracesL (bodyOf "ValidateRequestBody" c13BodyFlow)) (hc : consistent t r = true)
    (hx : InstallWithoutRead t = false) (hne : t.contains .install = true → readAll r ≠ []) :
    ∃ required outcome, (bodyPhase required outcome r).1 = runTrace nd t r := by
  rw [vrb_trace_set] at ht
  simp only [List.mem_cons, Prod.mk.injEq, and_true, List.not_mem_nil, or_false] at ht
  rcases ht with rfl | rfl | rfl | rfl
  · refine ⟨true, fun _ => .accept, ?_⟩
    cases hb : r.body with
    | none => simp [consistent, hb] at hc
    | some data => cases data <;> simp [bodyPhase, hb, runTrace, stepEv, readAll]
  · refine ⟨true, fun _ => .rewrite nd, ?_⟩
    cases hb : r.body with
    | none => simp [consistent, hb] at hc
    | some data =>
      cases data with
      | nil => simp [readAll, hb] at hne
      | cons x xs => simp [bodyPhase, hb, runTrace, stepEv]
  · refine ⟨true, fun _ => .accept, ?_⟩
    cases hb : r.body with
    | none => simp [bodyPhase, hb, runTrace, stepEv]
    | some data => simp [consistent, hb] at hc
  · simp [InstallWithoutRead] at hx

/-- witness: inside the exclusion the path is in the skeleton, agrees with the request, and is not the model's -/
theorem install_without_read_witness :
    ([Ev.guard false, .install], true) ∈ tracesL (bodyOf "ValidateRequestBody" c13BodyFlow) ∧
    consistent [.guard false, .install] ⟨none, .none, 0⟩ = true ∧ InstallWithoutRead [.guard false, .install] = true ∧
    ∀ required outcome, (bodyPhase required outcome ⟨none, .none, 0⟩).1 ≠ runTrace [1] [.guard false, .install] ⟨none, .none, 0⟩ := by
  refine ⟨by rw [vrb_trace_set]; simp, by decide, by decide, ?_⟩
  intro required outcome
  simp [bodyPhase, runTrace, stepEv]

/-- non-vacuity: a request with a body, the path with the default rewrite -/
example : ([Ev.guard true, .read, .restore, .install], true) ∈ tracesL (bodyOf "ValidateRequestBody" c13BodyFlow) ∧
    consistent [.guard true, .read, .restore, .install] ⟨some [1, 2], .none, 2⟩ = true ∧
    InstallWithoutRead [.guard true, .read, .restore, .install] = false ∧
    runTrace [7] [.guard true, .read, .restore, .install] ⟨some [1, 2], .none, 2⟩ = ⟨some [7], .ok [7], 1⟩ := by
  refine ⟨by rw [vrb_trace_set]; simp, by decide, by decide, by decide⟩

/-- validateSecurityRequirement in the source, cut at its top-level loops: the paths of each straight piece and of each
    loop body as stream events (regenerated table): return for an empty requirement; the `names` loop; return for a
    missing authentication function, else under the body guard read + deferred restore; the scheme loop (return for
    an undeclared scheme; under `data != nil` the restore; the callback; return or next scheme); the final return -/
theorem sr_segments : segs (bodyOf "validateSecurityRequirement" c13BodyFlow) [] = srSegs := by decide +kernel

/-- **The model's security requirement is a path of the code**, for every requirement (any number of schemes,
declared or not, callbacks that read the body or not, succeed or not), with or without an authentication function,
with or without a body: the request `Stream.secReq` returns and what each callback could read are the result of
executing concretely — guards evaluated on the current state, `readAll` / `drain` / `restore`, the callbacks of the
schemes in order, the deferred restore at the return if it was registered — one complete path, with as many
iterations of the scheme loop as it takes, of the regenerated skeleton of validateSecurityRequirement.  Full strength. -/
theorem secReq_is_a_skeleton_path (f : Bool) (r : Req) (schemes : List Scheme) :
    ∃ t s', SegPath (segs (bodyOf "validateSecurityRequirement" c13BodyFlow) []) t ∧
      runR t ⟨r, none, false, schemes.map (·.auth), []⟩ = some s' ∧
      finish s' = (secReq f r schemes).1 ∧ s'.seen = (secReq f r schemes).2.2 := by
  rw [sr_segments]; exact secReq_follows_srSegs f r schemes

/-- non-vacuity: two schemes whose callbacks read the body, the second fails; GetBody absent: the path reads, registers
    the deferred restore, restores before each callback, returns from inside the loop — and the body is whole again -/
example :
    SegPath srSegs ([] ++ ([.guard true, .read, .deferRestore] ++ ([.dataGuard true, .restore, .callback] ++
      [.dataGuard true, .restore, .callback]))) ∧
    (runR [.guard true, .read, .deferRestore, .dataGuard true, .restore, .callback, .dataGuard true, .restore, .callback]
      ⟨⟨some [1, 2], .none, 2⟩, none, false, [⟨true, true⟩, ⟨true, false⟩], []⟩).map finish = some ⟨some [1, 2], .ok [1, 2], 2⟩ ∧
    (secReq true ⟨some [1, 2], .none, 2⟩ [⟨true, ⟨true, true⟩⟩, ⟨true, ⟨true, false⟩⟩]).1 = ⟨some [1, 2], .ok [1, 2], 2⟩ := by
  refine ⟨?_, by decide, by decide⟩
  exact SegPath.straightFall _ _ _ _ (by simp) (SegPath.loopExit _ _ _ (SegPath.straightFall _ _ _ _ (by simp)
    (SegPath.loopFall _ _ _ _ (by simp [srLoopPaths]) (SegPath.loopRet _ _ _ (by simp [srLoopPaths])))))

/-- ValidateSecurityRequirements and ValidateRequest in the source, cut at their loops (regenerated table): the former
    returns for an empty list, else calls validateSecurityRequirement per requirement and `continue`s or returns; the
    latter calls ValidateSecurityRequirements (return or go on), ValidateParameter in two loops (`continue`, return or
    next), ValidateRequestBody, and returns -/
theorem vsr_vr_segments :
    segs (bodyOf "ValidateSecurityRequirements" c13BodyFlow) [] = vsrSegs ∧
    segs (bodyOf "ValidateRequest" c13BodyFlow) [] = vrSegs := by decide +kernel

/-- **The model's security phase is a path of the code**: request and what the callbacks could read, for every list of
requirements, = the run of one complete path of the regenerated skeleton of ValidateSecurityRequirements in which
each call of validateSecurityRequirement is executed by `Stream.secReq` on the next requirement.  Full strength. -/
theorem secPhase_is_a_skeleton_path (c : Cfg) (oc : Bytes → BodyOutcome) (r : Req) (reqs : List (List Scheme)) :
    ∃ t s', SegPath (segs (bodyOf "ValidateSecurityRequirements" c13BodyFlow) []) t ∧
      runK c oc t ⟨r, [], reqs⟩ = some s' ∧
      s'.req = (secPhase c.hasAuthFunc r reqs).1 ∧ s'.seen = (secPhase c.hasAuthFunc r reqs).2.2 := by
  rw [vsr_vr_segments.1]; exact secPhase_follows_vsrSegs c oc r reqs

/-- **The whole stream model is a path of the code**: for every configuration (security requirements, authentication
function, parameters' verdict, fail-first or multi-error, body specified / required, schema outcome) and request, the
request `Stream.validateStream` returns = the run of one complete path of the regenerated skeleton of
ValidateRequest, its calls executed by the stream models of the called functions (`secPhase`, `bodyPhase`;
ValidateParameter leaves the stream alone) — which are themselves paths of their skeletons
(`secPhase_is_a_skeleton_path`, `secReq_is_a_skeleton_path`, `bodyPhase_is_a_skeleton_path`).  Full strength. -/
theorem validateStream_is_a_skeleton_path (c : Cfg) (oc : Bytes → BodyOutcome) (r : Req) :
    ∃ t s', SegPath (segs (bodyOf "ValidateRequest" c13BodyFlow) []) t ∧
      runK c oc t ⟨r, [], []⟩ = some s' ∧ s'.req = (validateStream c oc r).1 := by
  rw [vsr_vr_segments.2]; exact validateStream_follows_vrSegs c oc r

/-- what `stepK` assumes of ValidateParameter: its skeleton has no statement that touches the body stream, no callback,
    no call of a function of the table, nothing unrecognised -/
theorem validateParameter_leaves_stream_alone :
    (Flow.census (bodyOf "ValidateParameter" c13BodyFlow)).take 5 = [0, 0, 0, 0, 0] ∧
    Flow.countL Flow.isUnrecognised (bodyOf "ValidateParameter" c13BodyFlow) = 0 ∧
    Flow.countL isCall (bodyOf "ValidateParameter" c13BodyFlow) = 0 := by decide +kernel

/-- **body_readable_after on the code's own skeleton, concretely.**  Take ANY complete path of the regenerated skeleton of
validateSecurityRequirement — whichever way its conditions fall, any number of iterations of its loops — any
callbacks (reading the body or not), and a request with body `data` whose GetBody (if any) rewinds to `data`.  If the
path can be executed at all (its guard outcomes are those of the states it passes through), then after the return —
deferred restore included — the next reader gets `data` in full, GetBody rewinds to it, and every callback that ran
could read all of it.  No hand-written model of the function's control flow is involved: only the meaning of the
events (`stepR`).  Full strength. -/
theorem secReq_skeleton_body_readable (data : Bytes) (r : Req) (h : Coherent r data) (auths : List Auth) (t : List Ev)
    (hp : SegPath (segs (bodyOf "validateSecurityRequirement" c13BodyFlow) []) t) (s' : RSt)
    (hr : runR t ⟨r, none, false, auths, []⟩ = some s') :
    Readable (finish s') data ∧ ∀ x ∈ s'.seen, x = data := by
  rw [sr_segments] at hp; exact srSegs_readable data r h auths t hp s' hr

/-- **body_readable_after on the skeleton of ValidateRequestBody, concretely**: every complete path of the regenerated
skeleton whose guard outcome is that of a request with body `data` (GetBody, if any, rewinding to `data`) ends with
a request from which the next reader gets the whole body — the re-encoded bytes if the path installed them, else
`data` — and whose GetBody rewinds to the same.  Only the meaning of the events (`stepEv`) is hand-written.
Full strength. -/
theorem bodyPhase_skeleton_body_readable (data nd : Bytes) (r : Req) (h : Coherent r data) (t : List Ev)
    (ht : (t, true) ∈ tracesL (bodyOf "ValidateRequestBody" c13BodyFlow)) (hc : consistent t r = true) :
    Readable (runTrace nd t r) (if t.contains .install then nd else data) := by
  rw [vrb_trace_set] at ht
  simp only [List.mem_cons, Prod.mk.injEq, and_true, List.not_mem_nil, or_false] at ht
  obtain ⟨hb, hg⟩ := h
  rcases ht with rfl | rfl | rfl | rfl
  · have e : runTrace nd [.guard true, .read, .restore] r = restore (drain r) data := by
      simp [runTrace, stepEv, readAll, hb]
    rw [e]
    exact ⟨by simp [readAll, restore_body _ _ (drain_getOK _ _ hg)], by simpa using restore_getOK _ _ (drain_getOK _ _ hg)⟩
  · simp [runTrace, stepEv, Readable, readAll, GetOK]
  · simp [consistent, hb] at hc
  · simp [consistent, hb] at hc

/-- **body_readable_after on the skeleton of ValidateRequest, over all its paths**: any complete path of the regenerated
skeleton of ValidateRequest (security or not, any number of parameters, `continue`s, early returns, body validated
or not), its calls executed by the stream models of the callees (which are paths of their own skeletons, and whose
skeletons keep the body readable: the theorems above), started on a request with body `data`: if it can be executed,
the next reader gets the whole body — `data`, or the re-encoded body when ValidateRequestBody ran and set defaults —
and GetBody rewinds to it.  Full strength. -/
theorem validateRequest_skeleton_body_readable (c : Cfg) (oc : Bytes → BodyOutcome) (data : Bytes) (r : Req)
    (h : Coherent r data) (t : List Ev) (hp : SegPath (segs (bodyOf "ValidateRequest" c13BodyFlow) []) t)
    (pend : List (List Scheme)) (s' : KSt) (hr : runK c oc t ⟨r, [], pend⟩ = some s') :
    Readable s'.req data ∨ Readable s'.req (bodyExpected oc data) := by
  rw [vsr_vr_segments.2] at hp
  rcases vrSegs_readable c oc data _ _ hp (by simp [vrSuffixes]) _ s' h hr with ⟨hb, hg⟩ | ⟨hb, hg⟩
  · exact Or.inl ⟨by simp [readAll, hb], hg⟩
  · exact Or.inr ⟨by simp [readAll, hb], hg⟩

/-- **… and of ValidateSecurityRequirements**: any complete path of its regenerated skeleton (any number of requirements
tried, `continue` after a failing one, return at the first satisfied one or after the last), each call of
validateSecurityRequirement executed by `Stream.secReq` on the next pending requirement: the body is whole
afterwards, GetBody rewinds to it, and every callback that ran could read all of it.  Full strength. -/
theorem secPhase_skeleton_body_readable (c : Cfg) (oc : Bytes → BodyOutcome) (data : Bytes) (r : Req)
    (h : Coherent r data) (t : List Ev) (hp : SegPath (segs (bodyOf "ValidateSecurityRequirements" c13BodyFlow) []) t)
    (pend : List (List Scheme)) (s' : KSt) (hr : runK c oc t ⟨r, [], pend⟩ = some s') :
    Readable s'.req data ∧ ∀ x ∈ s'.seen, x = data := by
  rw [vsr_vr_segments.1] at hp
  obtain ⟨⟨hb, hg⟩, hs⟩ := vsrSegs_readable c oc data _ _ hp (by simp [vsrSuffixes]) ⟨r, [], pend⟩ s' ⟨h, by simp⟩ hr
  exact ⟨⟨by simp [readAll, hb], hg⟩, hs⟩

end TracePart

end KinModel.C13
