import KinModel.Lemmas.C13Stream
import KinModel.C13Body
import KinModel.C13Params
namespace KinModel.C13

theorem placeholder : True := trivial

end KinModel.C13
