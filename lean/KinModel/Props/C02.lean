/-
C02 — loading resolves every `$ref` to exactly the object it designates.
Property theorems only. Model and specification: KinModel/Loader.lean (abstract algorithm, parametric in the
one-step meaning of a reference text), KinModel/LoaderJson.lean (concrete step functions, position tables); helper
lemmas: KinModel/Lemmas/C02.lean (soundness invariant), C02Term.lean (fuel bound, fuel independence),
C02Complete.lean (completeness invariant), C02Step.lean (pointer unescaping, path cleaning).
Sections: (2) soundness, (3) failing references, (1) termination, (4) completeness, (T) generated tables,
(S) one-step functions, witnesses of the open findings, regressions of the repaired ones, non-vacuity.
-/
import KinModel.Lemmas.C02
import KinModel.Lemmas.C02Term
import KinModel.Lemmas.C02Complete
import KinModel.LoaderJson
import KinModel.LoaderHistory
import KinModel.Gen.ResolverSkeleton
import KinModel.Gen.LoaderPositions
import KinModel.Lemmas.C02Step
namespace KinModel.Loader

/-
FULL STATEMENT (does not hold of the code, see the witnesses below):
  load w fuel root = .ok s → ∀ (o, v) ∈ s.value, ∃ f, designates w f o = some v
What is proved: the same for runs in which neither of two events happened. Both are flags computed by the model
itself, so the hypothesis is decidable per input and the driver reports it as a class:
  * `s.tclash = false` — no backtrack callback fired for a reference whose own one-step target (read where it is
    written) differs from the target of the visit that fired it. Finding #29: the in-progress set and the backtrack
    table are keyed by the reference TEXT, so the same relative text written in two directories is confused.
    Class `TextNotGlobal`. (The static condition `TextIsGlobal w` — every text means the same from every home — is
    sufficient but far from necessary; it is no longer a hypothesis.)
  * `s.foreign = false` — no reference was evaluated in a context other than the one it is written in (the second
    walk of a value's children happens with the REFERRING document's path; a whole-file load switches the path but
    not the document). Class `ForeignContext`.
-/

/-- (2) After a successful resolution every reference that was given a value stands for exactly the object
its text designates from the context it is written in (through chains and cycles, kind checked at every hop). -/
theorem resolve_ok_resolves_partial (w : World) (hC : CopyOK w) (fuel : Nat) (cx : Loc) (o : Obj) (s : St)
    (h : resolve w fuel cx o {} = .ok s) (hf : s.foreign = false) (ht : s.tclash = false) :
    ∀ r v, (r, v) ∈ s.value → ∃ f, designates w f r = some v :=
  ((resolve_pres w hC fuel cx o {} s (by rw [h]; rfl) ⟨hf, ht⟩).2 ⟨by intro i v h; simp at h, by intro t m h; simp at h⟩).1

/-- (2) for a whole document: `load` walks the root positions of the root document. -/
theorem load_ok_resolves_partial (w : World) (hC : CopyOK w) (fuel : Nat) (root : Loc) (s : St)
    (h : load w fuel root = .ok s) (hf : s.foreign = false) (ht : s.tclash = false) :
    ∀ r v, (r, v) ∈ s.value → ∃ f, designates w f r = some v := by
  unfold load at h
  have := pres_foldRes w _ (fun k => resolve_pres w hC fuel root k) (w.roots root) _ s (by rw [h]; rfl) ⟨hf, ht⟩
  exact (this.2 ⟨by intro i v h; simp at h, by intro t m h; simp at h⟩).1


/-- The value a reference designates has the kind of the reference (the kind is checked at every hop). -/
theorem designates_kind (w : World) : ∀ (f : Nat) (o v : Obj) (n nv : Node), designates w f o = some v →
    w.node o = some n → w.node v = some nv → nv.kind = n.kind
  | 0, _, _, _, _, h, _, _ => by simp [designates] at h
  | f + 1, o, v, n, nv, h, hn, hv => by
    simp only [designates, hn] at h
    cases hr : n.ref with
    | none => simp [hr] at h; obtain ⟨_, h⟩ := h; subst h; rw [hn] at hv; cases hv; rfl
    | some t =>
      simp only [hr] at h
      cases ht : w.target n.home t n.kind with
      | none => simp [ht] at h
      | some p =>
        obtain ⟨cx', tgt⟩ := p
        simp only [ht] at h
        cases htn : w.node tgt with
        | none => simp [htn] at h
        | some tn =>
          simp only [htn] at h
          by_cases hk : tn.kind = n.kind
          · simp only [hk, if_true] at h
            rw [← hk]; exact designates_kind w f tgt v tn nv h htn hv
          · simp [hk] at h

/-- (3a) A reference whose target does not exist makes the resolution fail (it is not skipped, and nothing
else is put in its place): evaluated with fuel, not yet resolved, not in progress. -/
theorem dangling_fails (w : World) (fuel : Nat) (cx : Loc) (o : Obj) (n : Node) (t : Text) (s : St)
    (hn : w.node o = some n) (hne : n.empty = false) (hr : n.ref = some t) (hv : getC w s o = none)
    (hp : s.inprog.contains (key n.kind t) = false)
    (hd : w.docOf cx t = none) (he : w.emptyTarget cx t n.kind = false) (ht : w.target cx t n.kind = none) :
    (resolve w (fuel + 1) cx o s).isOk = false := by
  simp only [resolve, hn, hne, hr, hv, hp, loadDoc, hd, he, ht]
  simp only [Option.isSome_none, Bool.false_eq_true, if_false]
  rfl

/-- (3b) A reference whose target is of another kind makes the resolution fail. -/
theorem wrong_kind_fails (w : World) (fuel : Nat) (cx cx' : Loc) (o tgt : Obj) (n tn : Node) (t : Text) (s : St)
    (hn : w.node o = some n) (hne : n.empty = false) (hr : n.ref = some t) (hv : getC w s o = none)
    (hp : s.inprog.contains (key n.kind t) = false)
    (hd : w.docOf cx t = none) (he : w.emptyTarget cx t n.kind = false)
    (ht : w.target cx t n.kind = some (cx', tgt)) (htn : w.node tgt = some tn) (hk : tn.kind ≠ n.kind) :
    (resolve w (fuel + 1) cx o s).isOk = false := by
  simp only [resolve, hn, hne, hr, hv, hp, loadDoc, hd, he, ht, htn]
  simp only [Option.isSome_none, Bool.false_eq_true, if_false, ne_eq, hk, not_false_eq_true, if_true]
  rfl

/-! ### (1) Loading always terminates

`resolve` is fuel-indexed; fuel bounds the NESTING depth only. Every nested call either descends to a child of a
value (`rank` drops) or happens inside a visit that has put a new reference text into `visitedRefs`. -/

/-- With fuel `(#keys + 1) · (R + 1)` — a key is a kind with a reference text, `R` a bound on the nesting depth of
values — loading never runs out of fuel,
for every store, every reference graph (cycles, chains, cross-document) and every `target`/`docOf`/`rewalk`. -/
theorem load_terminates (w : World) (rank : Obj → Nat) (R : Nat) (T : List Nat) (hR : Ranked w rank R) (hT : TextsIn w T)
    (fuel : Nat) (root : Loc) (h : (T.length + 1) * (R + 1) ≤ fuel) : load w fuel root ≠ .outOfFuel := by
  unfold load
  apply foldRes_noOOF _ (fun _ => True) (fun _ _ _ _ _ => trivial)
  · intro k _ s _
    apply resolve_noOOF w rank R T hR hT
    unfold need
    have h1 : missing T s.inprog ≤ T.length := by unfold missing; exact List.length_filter_le _ _
    have h2 : min (rank k) R ≤ R := Nat.min_le_right _ _
    have h3 : missing T s.inprog * (R + 1) ≤ T.length * (R + 1) := Nat.mul_le_mul_right _ h1
    have h4 : (T.length + 1) * (R + 1) = T.length * (R + 1) + (R + 1) := by rw [Nat.add_mul, Nat.one_mul]
    omega
  · trivial

/-- More fuel never changes a result: above the bound the outcome of `load` does not depend on the fuel. -/
theorem load_fuel_independent (w : World) (fuel g : Nat) (root : Loc) (r : Res)
    (h : load w fuel root = r) (hne : r ≠ .outOfFuel) (hg : fuel ≤ g) : load w g root = r := by
  unfold load at h ⊢
  exact foldRes_ext _ _ (fun k s r hr hne => resolve_fuel_mono w fuel root k s r hr hne g hg) _ _ r h hne

/-! ### (4) Completeness: every reference of the loaded graph has a value

FULL STATEMENT (does not hold of the code, witness `w34` below):
  load w fuel root = .ok s → every reference object reachable from the root positions has a value.
What is proved: the same for runs in which `unvisitRef` was never called with a nil value (a pure `$ref` cycle, #34)
and no `errMUST…` of an empty target was swallowed (the fragment `#`, #34) — two counters of the model, reported by the
driver as the class DegenerateTarget. -/

theorem load_ok_complete_partial (w : World) (fuel : Nat) (root : Loc) (s : St)
    (h : load w fuel root = .ok s) (hc : Clean s) :
    ∀ o n t, Reach w s root o → w.node o = some n → n.ref = some t → (getC w s o).isSome = true := by
  unfold load at h
  obtain ⟨_, hi, _, hp⟩ := presC_foldRes w _ (fun k => resolve_presC w fuel root k) (w.roots root) _ s h hc
  have hs : Settled w s := hp ⟨by intro o v h; simp at h, by intro o h; simp at h, by intro o h; simp at h, by intro t o h; simp at h⟩
  have hroots := (foldRes_done _ (fun k => resolve_marks w fuel root k) _ _ _ h).2
  intro o n t hreach hn hr
  have hd := reach_done w s root hs hi.2 hroots o hreach
  rcases hs.refs o hd n t hn hr with hh | hpend
  · exact (getC_isSome_iff w s o).2 hh
  · have := hs.pend _ o hpend
    rw [hi.1] at this
    simp at this

/-- (2)+(4) together: in a clean run without foreign evaluation and without a text clash, every reference of the loaded graph (the copies the
resolvers make are not part of it) HAS a value and that value is the object its text designates. -/
theorem load_ok_resolves_all_partial (w : World) (hC : CopyOK w) (fuel : Nat) (root : Loc) (s : St)
    (h : load w fuel root = .ok s) (hf : s.foreign = false) (ht : s.tclash = false) (hc : Clean s) :
    ∀ o n t, Reach w s root o → w.node o = some n → n.ref = some t → n.orig = none →
      ∃ v f, s.get o = some v ∧ designates w f o = some v := by
  intro o n t hreach hn hr ho
  have h1 := load_ok_complete_partial w fuel root s h hc o n t hreach hn hr
  have h2 : getC w s o = s.get o := by
    unfold getC
    cases hg : s.get o with
    | some v => rfl
    | none => simp [hn, ho]
  rw [h2] at h1
  cases hg : s.get o with
  | none => simp [hg] at h1
  | some v =>
    obtain ⟨f, hf'⟩ := load_ok_resolves_partial w hC fuel root s h hf ht o v (get_mem s o v hg)
    exact ⟨v, f, rfl, hf'⟩

/-- (3) at the level of a whole load: when the document loads (clean run, no foreign evaluation, no text clash) there is no reference
in the loaded graph whose target does not exist, is of the wrong kind, or closes a pure reference cycle — such a
reference makes loading fail. -/
theorem load_ok_no_dangling_partial (w : World) (hC : CopyOK w) (fuel : Nat) (root : Loc) (s : St)
    (h : load w fuel root = .ok s) (hf : s.foreign = false) (ht : s.tclash = false) (hc : Clean s) :
    ¬ ∃ o n t, Reach w s root o ∧ w.node o = some n ∧ n.ref = some t ∧ n.orig = none ∧ ∀ f, designates w f o = none := by
  rintro ⟨o, n, t, hreach, hn, hr, ho, hnone⟩
  obtain ⟨v, f, _, hd⟩ := load_ok_resolves_all_partial w hC fuel root s h hf ht hc o n t hreach hn hr ho
  rw [hnone f] at hd
  cases hd

/-! ### (5) One Loader, several loads: "the outcome of a load is a function of that load's input alone"

Every entry point resets the in-progress set, the backtrack table and (c555d93) the documents cache
(`every_entry_resets` in section (T), from the regenerated entry rows; the reset routine itself is pinned by its
digest), and every document is read and decoded anew. So the statement holds at full strength: whatever the earlier
loads on the Loader did — succeed, fail half-way, leave references in progress — a load is the load of a fresh Loader. -/

theorem entry_is_fresh_load (w : World) (fuel : Nat) (e : Entry) (he : e.resets = true) (s : St) :
    loadEntry w fuel e s = loadEntry w fuel e {} := by
  unfold loadEntry
  simp only [he, if_true, St.reset]

theorem entry_fresh_is_load (w : World) (fuel : Nat) (root : Loc) : loadEntry w fuel ⟨root, true, true⟩ {} = load w fuel root := by
  simp [loadEntry, load, St.reset]

/-- every load of a history has the outcome of that load alone on a fresh Loader -/
theorem history_loads_are_independent (w : World) (fuel : Nat) :
    ∀ (es : List Entry) (s : St), (∀ e ∈ es, e.resets = true) → ∀ r ∈ loadSeq w fuel es s, ∃ e ∈ es, r = loadEntry w fuel e {}
  | [], _, _, r, hr => by simp [loadSeq] at hr
  | e :: es, s, he, r, hr => by
    have h0 := entry_is_fresh_load w fuel e (he e (by simp)) s
    unfold loadSeq at hr
    cases hl : loadEntry w fuel e s with
    | outOfFuel =>
      simp only [hl, List.mem_singleton] at hr
      exact ⟨e, by simp, by rw [hr, ← h0, hl]⟩
    | ok s1 =>
      simp only [hl, List.mem_cons] at hr
      rcases hr with rfl | hr
      · exact ⟨e, by simp, by rw [← h0, hl]⟩
      · obtain ⟨e', he', hr'⟩ := history_loads_are_independent w fuel es _ (fun x hx => he x (by simp [hx])) r hr
        exact ⟨e', by simp [he'], hr'⟩
    | err k s1 =>
      simp only [hl, List.mem_cons] at hr
      rcases hr with rfl | hr
      · exact ⟨e, by simp, by rw [← h0, hl]⟩
      · obtain ⟨e', he', hr'⟩ := history_loads_are_independent w fuel es _ (fun x hx => he x (by simp [hx])) r hr
        exact ⟨e', by simp [he'], hr'⟩

/-- soundness also for the state a FAILED load leaves behind: a load that raises neither flag records only right values -/
theorem entry_values_right_partial (w : World) (hC : CopyOK w) (fuel : Nat) (e : Entry) (he : e.resets = true) (s s' : St)
    (h : (loadEntry w fuel e s).st? = some s') (hf : s'.foreign = false) (ht : s'.tclash = false) :
    Good w s' := by
  unfold loadEntry at h
  simp only [he, if_true, St.reset] at h
  have hi0 : Inv w ({} : St) := ⟨by intro o v hm; simp at hm, by intro kt m hm; simp at hm⟩
  by_cases hl : e.located = true
  · simp only [hl, if_true] at h
    split at h
    · simp only [Res.st?, Option.some.injEq] at h; subst h
      intro o v hm; simp at hm
    · have := pres_foldRes w _ (fun k => resolve_pres w hC fuel e.root k) (w.roots e.root) _ s' h ⟨hf, ht⟩
      exact (this.2 ⟨by intro o v hm; simp at hm, by intro kt m hm; simp at hm⟩).1
  · simp only [hl, Bool.false_eq_true, if_false] at h
    have := pres_foldRes w _ (fun k => resolve_pres w hC fuel e.root k) (w.roots e.root) _ s' h ⟨hf, ht⟩
    exact (this.2 hi0).1

/-! ### (5b) … over a store that CHANGES between the loads, and position by position

`loadSeqW` (LoaderHistory.lean) gives every load of a history its own world (the files as they are at that moment) and
its own fuel. Because every entry point resets the whole per-load state, the i-th result of the history IS the result
of the i-th load on a fresh Loader over the i-th store — whatever the files were before, whatever the earlier loads
did, for every length of the history. (`history_loads_are_independent` above only says that every result is the
fresh result of SOME load of the history.) -/

theorem changing_store_history_is_fresh_loads :
    ∀ (ls : List LoadW) (s : St), (∀ l ∈ ls, l.e.resets = true) →
      (∀ l ∈ ls, loadEntry l.w l.fuel l.e {} ≠ .outOfFuel) →
      loadSeqW ls s = ls.map (fun l => loadEntry l.w l.fuel l.e {})
  | [], _, _, _ => by simp [loadSeqW]
  | l :: ls, s, he, hf => by
    have h0 := entry_is_fresh_load l.w l.fuel l.e (he l (by simp)) s
    have hne := hf l (by simp)
    have ih := fun s' => changing_store_history_is_fresh_loads ls s'
      (fun x hx => he x (by simp [hx])) (fun x hx => hf x (by simp [hx]))
    unfold loadSeqW
    rw [h0]
    cases hl : loadEntry l.w l.fuel l.e {} with
    | outOfFuel => exact absurd hl hne
    | ok s1 => simp only [List.map_cons, hl, ih]
    | err k s1 => simp only [List.map_cons, hl, ih]

/-- the same for one unchanged store: the list of results of a history is, position by position, the list of the
    fresh loads -/
theorem history_is_list_of_fresh_loads (w : World) (fuel : Nat) (es : List Entry) (s : St)
    (he : ∀ e ∈ es, e.resets = true) (hf : ∀ e ∈ es, loadEntry w fuel e {} ≠ .outOfFuel) :
    loadSeq w fuel es s = es.map (fun e => loadEntry w fuel e {}) := by
  rw [loadSeq_eq_loadSeqW, changing_store_history_is_fresh_loads]
  · simp [List.map_map, Function.comp_def]
  · intro l hl; obtain ⟨e, hm, rfl⟩ := List.mem_map.1 hl; exact he e hm
  · intro l hl; obtain ⟨e, hm, rfl⟩ := List.mem_map.1 hl; exact hf e hm

/-- "loading always terminates" for histories: a history of located loads (LoadFromFile / LoadFromURI /
    LoadFromDataWithPath) over changing stores, each load given the fuel of `load_terminates` for ITS store, never runs
    out of fuel at any position — from whatever state the Loader is in — and is the list of the fresh loads -/
theorem changing_store_history_terminates (ls : List LoadW) (s : St)
    (hl : ∀ l ∈ ls, l.e.resets = true ∧ l.e.located = true)
    (hb : ∀ l ∈ ls, ∃ rank R T, Ranked l.w rank R ∧ TextsIn l.w T ∧ (T.length + 1) * (R + 1) ≤ l.fuel) :
    loadSeqW ls s = ls.map (fun l => load l.w l.fuel l.e.root) ∧ Res.outOfFuel ∉ loadSeqW ls s := by
  have hfresh : ∀ l ∈ ls, loadEntry l.w l.fuel l.e {} = load l.w l.fuel l.e.root := by
    intro l hm
    obtain ⟨h1, h2⟩ := hl l hm
    have : l.e = ⟨l.e.root, true, true⟩ := by cases hE : l.e; simp_all
    rw [this]; exact entry_fresh_is_load l.w l.fuel l.e.root
  have hno : ∀ l ∈ ls, load l.w l.fuel l.e.root ≠ .outOfFuel := by
    intro l hm
    obtain ⟨rank, R, T, hR, hT, hle⟩ := hb l hm
    exact load_terminates l.w rank R T hR hT l.fuel l.e.root hle
  have h1 : loadSeqW ls s = ls.map (fun l => load l.w l.fuel l.e.root) := by
    rw [changing_store_history_is_fresh_loads ls s (fun l hm => (hl l hm).1)
      (fun l hm => by rw [hfresh l hm]; exact hno l hm)]
    exact List.map_congr_left hfresh
  refine ⟨h1, ?_⟩
  rw [h1]
  intro hmem
  obtain ⟨l, hm, heq⟩ := List.mem_map.1 hmem
  exact hno l hm heq

/-- (2)+(4) carried over to histories: when the i-th load of a history over changing stores — whatever happened before
    on that Loader, whatever the files were before — returns a document in a clean run (no foreign evaluation, no text
    clash, no degenerate target), every reference of the graph loaded from the i-th store HAS a value and that value
    is the object its text designates in the i-th store -/
theorem history_load_ok_resolves_all_partial (ls : List LoadW) (s0 : St) (i : Nat) (l : LoadW) (s : St)
    (hres : ∀ x ∈ ls, x.e.resets = true) (hnf : ∀ x ∈ ls, loadEntry x.w x.fuel x.e {} ≠ .outOfFuel)
    (hl : ls[i]? = some l) (hloc : l.e.located = true) (hr : (loadSeqW ls s0)[i]? = some (.ok s))
    (hC : CopyOK l.w) (hf : s.foreign = false) (ht : s.tclash = false) (hc : Clean s) :
    ∀ o n t, Reach l.w s l.e.root o → l.w.node o = some n → n.ref = some t → n.orig = none →
      ∃ v f, s.get o = some v ∧ designates l.w f o = some v := by
  rw [changing_store_history_is_fresh_loads ls s0 hres hnf, List.getElem?_map, hl] at hr
  simp only [Option.map_some, Option.some.injEq] at hr
  have hmem : l ∈ ls := List.mem_of_getElem? hl
  have he : l.e = ⟨l.e.root, true, true⟩ := by
    have h1 := hres l hmem
    cases hE : l.e; simp_all
  rw [he, entry_fresh_is_load] at hr
  exact load_ok_resolves_all_partial l.w hC l.fuel l.e.root s hr hf ht hc

/-- soundness at every position of a changing-store history, for every entry point (LoadFromData too) and also for
    the state a FAILED load leaves: a load that raises neither flag records only values that are right in ITS store —
    nothing recorded by an earlier load, over earlier files, is among them -/
theorem history_values_right_partial (ls : List LoadW) (s0 : St) (i : Nat) (l : LoadW) (r : Res) (s : St)
    (hres : ∀ x ∈ ls, x.e.resets = true) (hnf : ∀ x ∈ ls, loadEntry x.w x.fuel x.e {} ≠ .outOfFuel)
    (hl : ls[i]? = some l) (hr : (loadSeqW ls s0)[i]? = some r) (hs : r.st? = some s)
    (hC : CopyOK l.w) (hf : s.foreign = false) (ht : s.tclash = false) : Good l.w s := by
  rw [changing_store_history_is_fresh_loads ls s0 hres hnf, List.getElem?_map, hl] at hr
  simp only [Option.map_some, Option.some.injEq] at hr
  subst hr
  exact entry_values_right_partial l.w hC l.fuel l.e (hres l (List.mem_of_getElem? hl)) {} s hs hf ht

/-! ### (T) the ten resolvers have the skeleton and the child calls the model assumes

`Gen.resolverSkeleton` is regenerated from openapi3/loader.go on every run. -/

theorem skeleton_table_recognised : ∀ r ∈ KinModel.Gen.resolverSkeleton, r.isRow = true := by decide

/-- the table has exactly the ten routines, the two walk helpers and `ResolveRefsIn`; every routine has, statement
    by statement, the `$ref` block that `resolve` models (`LoaderJson.skeletonSteps`: value check, callback with an
    ok-checked assertion, visitRef, whole-file branch that moves `documentPath`, fragment branch with the local copy
    and the recursive call — for path items in the switched context and only for a reference copy —, deferred
    unvisitRef last), and calls the resolvers / helpers of `walkCalls` on child positions, in that order, each
    with `(doc, _, documentPath)` -/
theorem skeleton_matches_model :
    KinModel.Gen.resolverSkeleton =
      KinModel.LoaderJson.expectedSkeleton.map (fun r => KinModel.Gen.ResolverRow.row r.1 r.2.1 r.2.2) := by decide

/-- every `Load…` entry point of the Loader begins — itself, or through the entry point it hands over to — with
    `resetVisitedPathItemRefs()`: the model's `Entry.resets` is `true` for all of them (`ResolveRefsIn`, the one
    exported routine that does not, is not a way to LOAD a document: it resets only a never-used Loader) -/
theorem every_entry_resets :
    KinModel.LoaderJson.entryPoints.map (·.1) = KinModel.LoaderJson.loadEntries ++ ["ResolveRefsIn"] ∧
    ∀ e ∈ KinModel.LoaderJson.loadEntries,
      KinModel.LoaderJson.entryResets KinModel.LoaderJson.entryPoints 4 e = true := by decide

/-! ### (T) the child positions: walked (from the routines) and reference-capable (from the types)

`Gen.loaderWalked` / `Gen.loaderRefPositions` are regenerated from openapi3/*.go on every run. -/

theorem positions_table_recognised : ∀ r ∈ KinModel.Gen.loaderWalked, r.isRow = true := by decide

/-- the position trees from which the model's `children` / `docChildren` are computed are, loop by loop and call by
    call, what the routines, the two helpers and `ResolveRefsIn` do after the `$ref` block -/
theorem walked_positions_match_model :
    KinModel.Gen.loaderWalked = KinModel.LoaderJson.expectedWalked.map (fun r => KinModel.Gen.WalkRow.row r.1 r.2) := by decide

/-- the positions at which the specification looks for references are exactly the fields of the type declarations
    that can hold a reference-capable object -/
theorem ref_positions_match_types :
    KinModel.Gen.loaderRefPositions = KinModel.LoaderJson.expectedRefPositions := by decide

/-- (#13 as a theorem) every position that can hold a reference-capable object by its type is handed to the resolver
    of that kind by the routine of the enclosing kind (through the helpers), for all ten kinds and the document -/
theorem walk_covers :
    (∀ k ∈ KinModel.LoaderJson.kindsByGoName, ∀ p ∈ KinModel.LoaderJson.refPositions k,
      ("/".intercalate p.1, KinModel.LoaderJson.goName p.2) ∈ KinModel.LoaderJson.walkedPaths (KinModel.LoaderJson.positions k)) ∧
    (∀ p ∈ KinModel.LoaderJson.docRefPositions,
      ("/".intercalate p.1, KinModel.LoaderJson.goName p.2) ∈ KinModel.LoaderJson.walkedPaths KinModel.LoaderJson.documentPos) := by
  decide

/-! ### (S) one-step functions: where loader and RFC can be compared on shared data -/

/-- `unescapeRefString` decodes every pointer token exactly as RFC 6901 §4 prescribes, for all strings -/
theorem pointer_unescape_agrees (s : List Char) : KinModel.LoaderJson.unescGo s = KinModel.LoaderJson.unescRfc s :=
  KinModel.LoaderJson.unescGo_eq_unescRfc s

/-- on rooted paths without empty segments `path.Clean` and RFC 3986 remove_dot_segments agree, whatever `.`/`..` occur -/
theorem path_clean_agrees (segs : List String) (h : ∀ x ∈ segs, x ≠ "") :
    KinModel.LoaderJson.cleanStack true segs [] = KinModel.LoaderJson.rfcStack segs [] :=
  KinModel.LoaderJson.cleanStack_eq_rfcStack segs [] h (by simp)

/-! ### Witnesses: the full statement fails of the code, inside each exclusion -/

/-- #29. Contexts 0 = /r/a/root.json, 1 = /r/a/x.json, 2 = /r/b/b.json, 3 = /r/b/x.json. Text 7 = "x.json#/S",
    text 8 = "../b/b.json#/T". Objects: 0 root X = {$ref 7}; 1 a/x.json S (child 2 = {$ref 8}); 3 b/b.json T
    (child 4 = {$ref 7}); 5 b/x.json S. -/
def w29 : World where
  nodes := [⟨.schema, some 7, [], 0, none, false⟩, ⟨.schema, none, [2], 1, none, false⟩, ⟨.schema, some 8, [], 1, none, false⟩,
            ⟨.schema, none, [4], 2, none, false⟩, ⟨.schema, some 7, [], 2, none, false⟩, ⟨.schema, none, [], 3, none, false⟩]
  roots := fun | 0 => [0] | 1 => [1] | 2 => [3] | 3 => [5] | _ => []
  docOf := fun c t => match t with
    | 7 => if c ≤ 1 then some 1 else some 3
    | _ => some 2
  target := fun c t _ => match t with
    | 7 => if c ≤ 1 then some (1, 1) else some (3, 5)
    | _ => some (2, 3)

/-- the loader's algorithm gives `q` (object 4, written in /r/b) the value a/x.json#/S (object 1) through a callback
    of the visit of object 0 (`tclash`), with no foreign evaluation … -/
theorem w29_model : (match load w29 20 0 with | .ok s => (s.get 4, s.foreign, s.tclash) | _ => (none, true, false)) = (some 1, false, true) := by decide
/-- … while it designates b/x.json#/S (object 5): model ≠ spec with no foreign evaluation, as on the real code -/
theorem w29_spec : designates w29 5 4 = some 5 := by decide
theorem w29_text_not_global : ¬ TextIsGlobal w29 := by
  intro h
  have := h 0 4 ⟨.schema, some 7, [], 0, none, false⟩ ⟨.schema, some 7, [], 2, none, false⟩ 7 rfl rfl rfl rfl rfl
  simp [w29] at this

/-- #34. Object 0 = {$ref 0} pointing at itself (object 1 is the resolver's local copy): loads, stays unresolved. -/
def w34 : World where
  nodes := [⟨.schema, some 0, [], 0, none, false⟩, ⟨.schema, some 0, [], 0, some 0, false⟩]
  roots := fun _ => [0]
  docOf := fun _ _ => none
  target := fun _ _ _ => some (0, 1)

theorem w34_model_loads_unresolved : (match load w34 20 0 with | .ok s => (s.get 0).isNone && s.nnil != 0 | _ => false) = true := by decide
theorem w34_spec : ∀ f, f ≤ 8 → designates w34 f 0 = none := by decide

/-- #47 (second walk in the referring context). Contexts 0 = /r/b/y.json (root), 1 = /r/x.json. Objects: 0 root A =
    {$ref 0} ("../x.json#/S"); 1 x.json S (child 2); 2 = {$ref 1} ("../r/b/y.json#/A", fine from /r, a missing
    file from /r/b); 3 the resolver's copy of object 0. -/
def w47 : World where
  nodes := [⟨.schema, some 0, [], 0, none, false⟩, ⟨.schema, none, [2], 1, none, false⟩, ⟨.schema, some 1, [], 1, none, false⟩,
            ⟨.schema, some 0, [], 0, some 0, false⟩]
  roots := fun | 0 => [0] | 1 => [1] | _ => []
  docOf := fun c t => match t with
    | 0 => some 1
    | _ => if c = 1 then some 0 else none
  target := fun c t _ => match t with
    | 0 => some (1, 1)
    | _ => if c = 1 then some (0, 3) else none

/-- every reference designates an object, yet loading fails — after evaluating a reference in a foreign context -/
theorem w47_model_fails : (match load w47 20 0 with | .err _ s => s.foreign && !s.tclash | _ => false) = true := by decide
theorem w47_spec : designates w47 5 0 = some 1 ∧ designates w47 5 2 = some 1 := by decide
theorem w47_text_global : TextIsGlobal w47 := by
  have key : ∀ o n, w47.node o = some n → ∀ t, n.ref = some t → n.home = (if t = 0 then 0 else 1) ∧ n.kind = .schema := by
    intro o n h t hr
    rcases o with _ | _ | _ | _ | o <;> simp [World.node, w47] at h <;> subst h <;> simp at hr ⊢ <;> subst hr <;> simp
  intro a b na nb t ha hb hra hrb _
  obtain ⟨h1, h2⟩ := key a na ha t hra
  obtain ⟨h3, h4⟩ := key b nb hb t hrb
  rw [h1, h2, h3, h4]

/-! ### Regressions: former witnesses of repaired defects — model and specification now agree on them
(their inputs stay in corpus/C02 and are replayed against the real loader on every run) -/

/-- #12 / F-C02-12 (fixed a04fe6c). Objects: 0 response A = {$ref 0}; 1 response B (child 2); 2 header h = {$ref 0}
    (the same text). The callback of the header no longer panics; B is a root position, so h is met again outside
    the visit of A and the wrong kind is reported. -/
def w12 : World where
  nodes := [⟨.response, some 0, [], 0, none, false⟩, ⟨.response, none, [2], 0, none, false⟩, ⟨.header, some 0, [], 0, none, false⟩]
  roots := fun _ => [0, 1]
  docOf := fun _ _ => none
  target := fun _ _ _ => some (0, 1)

theorem w12_regression_load_fails : (match load w12 20 0 with | .err _ _ => true | _ => false) = true := by decide
theorem w12_spec : designates w12 5 2 = none := by decide

/-- F-C02-48 (fixed 7245059). Contexts 0 = /r/a/root.json, 1 = /r/a/x.json; text 0 = "x.json#/components/responses/B".
    Objects: 0 root response A = {$ref 0}; 1 x.json response B (child 2); 2 header h = {$ref 0} — the same text, met
    while it is in progress as a RESPONSE reference. The in-progress set is keyed by kind and text: the header
    reference is resolved on its own and its wrong kind is reported. -/
def w48 : World where
  nodes := [⟨.response, some 0, [], 0, none, false⟩, ⟨.response, none, [2], 1, none, false⟩, ⟨.header, some 0, [], 1, none, false⟩]
  roots := fun | 0 => [0] | 1 => [1] | _ => []
  docOf := fun _ _ => some 1
  target := fun _ _ _ => some (1, 1)

theorem w48_regression_load_fails : (match load w48 20 0 with | .err _ _ => true | _ => false) = true := by decide
theorem w48_spec : designates w48 5 2 = none := by decide

/-- F-C02-49 (fixed 3c3716e). Object 0: root schema A = {$ref 0} ("#/x-defs/S"); object 1: the schema under `x-defs`
    (untyped, never walked on its own), child 2; object 2: a null entry of its `properties`. `errMUSTSchema` raised
    at 2 is no longer swallowed by the routine resolving 0 (the copy is not empty): the document is rejected, as the
    same null member is without a reference in between. -/
def w49 : World where
  nodes := [⟨.schema, some 0, [], 0, none, false⟩, ⟨.schema, none, [2], 0, none, false⟩, ⟨.schema, none, [], 0, none, true⟩]
  roots := fun _ => [0]
  docOf := fun _ _ => none
  target := fun _ _ _ => some (0, 1)

theorem w49_regression_load_fails : (match load w49 20 0 with | .err (some .schema) _ => true | _ => false) = true := by decide

/-- F-C02-50 (fixed c555d93). Contexts 0 = /r/a/root1.json, 1 = /r/a/x.json, 2 = /r/a/root2.json.
    Objects: 0 root1 R = {$ref 0} ("x.json#/components/schemas/A"); x.json: 1 = A (child 3), 2 = B (no child);
    3 = {$ref 1}, dangling; 4 root2 R = {$ref 2} ("x.json#/components/schemas/B").
    Load 1 (root1) fails at 3 while x.json is being walked. Load 2 (root2) on the same Loader reads and walks x.json
    again and fails like on a fresh Loader: the dangling reference of x.json is reported. -/
def w50 : World where
  nodes := [⟨.schema, some 0, [], 0, none, false⟩, ⟨.schema, none, [3], 1, none, false⟩, ⟨.schema, none, [], 1, none, false⟩,
            ⟨.schema, some 1, [], 1, none, false⟩, ⟨.schema, some 2, [], 2, none, false⟩]
  roots := fun | 0 => [0] | 1 => [1, 2] | 2 => [4] | _ => []
  docOf := fun _ t => if t = 1 then none else some 1
  target := fun _ t _ => match t with
    | 0 => some (1, 1)
    | 1 => none
    | _ => some (1, 2)

theorem w50_regression_history_independent :
    ((loadSeq w50 20 [⟨0, true, true⟩, ⟨2, true, true⟩] {}).map
        (fun r => match r with | .ok _ => 1 | .err _ _ => 2 | .outOfFuel => 3)) = [2, 2]
    ∧ (match load w50 20 2 with | .err _ _ => true | _ => false) = true := by decide
theorem w50_spec : designates w50 5 3 = none := by decide

/-- F-C02-50 over a changing store: `w50` with the dangling reference of x.json (object 3) repaired -/
def w50fixed : World := { w50 with target := fun _ t _ => match t with
    | 0 => some (1, 1)
    | 1 => some (1, 2)
    | _ => some (1, 2) }

/-- non-vacuity and regression: load root1 over the broken store (fails half-way through x.json), edit x.json, load
    root1 again on the SAME Loader: it loads, and the formerly dangling reference now has the value it designates -/
theorem w50_changing_store_history :
    ((loadSeqW [⟨w50, 20, ⟨0, true, true⟩⟩, ⟨w50fixed, 20, ⟨0, true, true⟩⟩] {}).map
        (fun r => match r with | .ok s => (1, s.get 3) | .err _ _ => (2, none) | .outOfFuel => (3, none))) = [(2, none), (1, some 2)]
    ∧ designates w50fixed 5 3 = some 2 := by decide

/-- non-vacuity of `history_load_ok_resolves_all_partial`: position 1 of that history returns a document in a clean run
    (flags down, counters zero) over a world with well-formed copies -/
example : (match ((loadSeqW [⟨w50, 20, ⟨0, true, true⟩⟩, ⟨w50fixed, 20, ⟨0, true, true⟩⟩] {})[1]? : Option Res) with
    | some (Res.ok s) => (!s.foreign) && (!s.tclash) && (s.nnil + s.nempty == 0) && s.get 0 == some 1
    | _ => false) = true := by decide

example : CopyOK w50fixed := by
  intro c n r hn ho
  rcases c with _ | _ | _ | _ | _ | c <;> simp [World.node, w50fixed, w50] at hn <;> subst hn <;> simp at ho

/-- #13 / F-C02-13 (fixed cbb0d05). Object 0: a response value whose child 1 (a header under content.encoding,
    formerly never visited) refers to the header 2. -/
def w13 : World where
  nodes := [⟨.response, none, [1], 0, none, false⟩, ⟨.header, some 0, [], 0, none, false⟩, ⟨.header, none, [], 0, none, false⟩]
  roots := fun _ => [0, 2]
  docOf := fun _ _ => none
  target := fun _ _ _ => some (0, 2)

theorem w13_regression_resolved :
    (match load w13 20 0 with | .ok s => s.get 1 | _ => none) = designates w13 5 1 ∧ designates w13 5 1 = some 2 := by decide

/-- F-C02-46 (fixed 9b25d89). Contexts 0 = root, 1 = /r/b/x.json. Objects: 0 path item /a = {$ref 0} ("#/paths/~1b");
    1 path item /b = {$ref 1} ("../b/x.json#/paths/~1c"); 2 x.json /c (a value); 3 the resolver's copy of /b. -/
def w46 : World where
  nodes := [⟨.pathItem, some 0, [], 0, none, false⟩, ⟨.pathItem, some 1, [], 0, none, false⟩, ⟨.pathItem, none, [], 1, none, false⟩,
            ⟨.pathItem, some 1, [], 0, some 1, false⟩]
  roots := fun | 0 => [0, 1] | 1 => [2] | _ => []
  docOf := fun _ t => if t = 1 then some 1 else none
  target := fun _ t _ => if t = 0 then some (0, 3) else some (1, 2)

theorem w46_regression_chain_resolved :
    (match load w46 20 0 with | .ok s => (s.get 0, s.get 1, s.foreign) | _ => (none, none, true)) = (designates w46 5 0, designates w46 5 1, false)
    ∧ designates w46 5 0 = some 2 := by decide

/-! ### Non-vacuity: a non-trivial world satisfies the hypotheses of the partial theorem and loads -/

/-- A mutual cycle across two documents: 0 root R = {$ref 0} → 1 (A, children 2); 2 = {$ref 1} → 3 (B, child 4);
    4 = {$ref 0} back to A. Every text is written in one place. -/
def wCycle : World where
  nodes := [⟨.schema, some 0, [], 0, none, false⟩, ⟨.schema, none, [2], 1, none, false⟩, ⟨.schema, some 1, [], 1, none, false⟩,
            ⟨.schema, none, [4], 1, none, false⟩, ⟨.schema, some 0, [], 1, none, false⟩]
  roots := fun | 0 => [0] | 1 => [1, 3] | _ => []
  docOf := fun c t => if t = 0 ∧ c = 0 then some 1 else none
  target := fun _ t _ => match t with
    | 0 => some (1, 1)
    | _ => some (1, 3)

example : (match load wCycle 20 0 with
    | .ok s => (!s.foreign) && (!s.tclash) && s.get 0 == some 1 && s.get 2 == some 3 && s.get 4 == some 1
    | _ => false) = true := by decide

/-- … and it satisfies the remaining hypothesis of the partial theorems (`s.foreign = false`, `s.tclash = false` and
    `Clean s`: the two examples around) -/
example : CopyOK wCycle := by
  intro c n r hn ho
  rcases c with _ | _ | _ | _ | _ | c <;> simp [World.node, wCycle] at hn <;> subst hn <;> simp at ho

/-- the hypotheses of `load_terminates` hold of it (rank 1 for the two values with a child), the bound is 6 -/
example : Ranked wCycle (fun o => if o = 1 ∨ o = 3 then 1 else 0) 1 ∧ TextsIn wCycle [key .schema 0, key .schema 1] ∧
    (match load wCycle 6 0 with | .ok s => s.nnil + s.nempty == 0 | _ => false) = true := by
  refine ⟨⟨?_, ?_⟩, ?_, by decide⟩
  · intro o n _; show (if o = 1 ∨ o = 3 then 1 else 0) ≤ 1; split <;> omega
  · intro o n k hn hr hk
    rcases o with _ | _ | _ | _ | _ | o <;> simp [World.node, wCycle] at hn <;> subst hn <;> simp at hr hk ⊢ <;> subst hk <;> simp
  · intro o n t hn hr
    rcases o with _ | _ | _ | _ | _ | o <;> simp [World.node, wCycle] at hn <;> subst hn <;> simp at hr ⊢ <;> subst hr <;> simp [key, Kind.idx]

end KinModel.Loader
