/-
C02 — loading resolves every `$ref` to exactly the object it designates.
Property theorems only. Model and specification: KinModel/Loader.lean (abstract algorithm, parametric in the
one-step meaning of a reference text), KinModel/LoaderJson.lean (concrete step functions); helper lemmas:
KinModel/Lemmas/C02.lean.
-/
import KinModel.Lemmas.C02
import KinModel.LoaderJson
namespace KinModel.Loader

/-
FULL STATEMENT (does not hold of the code, see the witnesses below):
  load w fuel root = .ok s → ∀ (o, v) ∈ s.value, ∃ f, designates w f o = some v
What is proved: the same under
  * `TextIsGlobal` (finding #29: the in-progress set and the backtrack table are keyed by the reference TEXT,
    so the same relative text written in two directories is confused), and
  * `s.foreign = false` — in this run no reference was evaluated in a context other than the one it is
    written in (the second walk of a value's children happens with the REFERRING document's path; a
    whole-file load switches the path but not the document). `foreign` is computed by the model itself, so the
    hypothesis is decidable per input and is reported by the driver as the class `ForeignContext`.
-/

/-- (2) After a successful resolution every reference that was given a value stands for exactly the object
its text designates from the context it is written in (through chains and cycles, kind checked at every hop). -/
theorem resolve_ok_resolves_partial (w : World) (hT : TextIsGlobal w) (hC : CopyOK w) (fuel : Nat) (cx : Loc) (o : Obj) (s : St)
    (h : resolve w fuel cx o {} = .ok s) (hf : s.foreign = false) :
    ∀ r v, (r, v) ∈ s.value → ∃ f, designates w f r = some v :=
  ((resolve_pres w hT hC fuel cx o {} s h hf).2 ⟨by intro i v h; simp at h, by intro t m h; simp at h⟩).1

/-- (2) for a whole document: `load` walks the root positions of the root document. -/
theorem load_ok_resolves_partial (w : World) (hT : TextIsGlobal w) (hC : CopyOK w) (fuel : Nat) (root : Loc) (s : St)
    (h : load w fuel root = .ok s) (hf : s.foreign = false) :
    ∀ r v, (r, v) ∈ s.value → ∃ f, designates w f r = some v := by
  unfold load at h
  have := pres_foldRes w _ (fun k => resolve_pres w hT hC fuel root k) (w.roots root) _ s h hf
  exact (this.2 ⟨by intro i v h; simp at h, by intro t m h; simp at h⟩).1

end KinModel.Loader
