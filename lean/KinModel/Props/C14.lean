/-
C14 — the middleware calls the handler only for valid requests and shields clients.
Property theorems only. Model and spec: KinModel/Middleware.lean; helper lemmas: KinModel/Lemmas/C14.lean;
the obligations on the translator tables (what the model's shape rests on in the source): Props/C14Src.lean.
All theorems quantify over every handler behaviour (any `List Op`: header edits, WriteHeader with any code, writes
in pieces, Flush, panic), every ErrFunc / ErrorEncoder behaviour (`errOps`, any op lists), every verdict function
of response validation, strict and non-strict, both transports, and — section "histories" — every sequence of
requests through one middleware instance.
Hypotheses that occur: `EffCodeOK` (the status code the handler fixed is one net/http accepts; `ValidCodes` — all its
WriteHeader codes are — only where a statement compares with a direct run) and `NoPanic` where a statement is about a
delivered response. `middleware_meets_spec_total` and `every_request_of_a_history_meets_spec` have no hypothesis. Finding F-C14-2 (informational codes) is repaired: no exclusion.
-/
import KinModel.Middleware
import KinModel.MiddlewareSrc
import KinModel.Lemmas.C14
import KinModel.Props.C07
namespace KinModel.Middleware

/-! ## strict wrapper -/

/-- While the handler runs against the strict wrapper nothing but header-map edits reaches the client:
the client's writer has received exactly the handler's Header().Set/Del calls (and is dead after a panic). -/
theorem strict_client_during_handler (w : Strict) (ops : List Op) :
    (Strict.run w ops).client = ops.foldl hdrStep w.client := by
  rw [strict_run_eq]

/-- **strict_nothing_reaches_client_before_flush.** For every sequence of handler calls, status, informational
responses, body bytes, sent headers and flush flag of the client's writer are untouched until the middleware
decides; the writer is dead afterwards exactly when the handler panicked. -/
theorem strict_nothing_reaches_client_before_flush (w : Strict) (ops : List Op) :
    (Strict.run w ops).client.status = w.client.status ∧
    (Strict.run w ops).client.info = w.client.info ∧
    (Strict.run w ops).client.body = w.client.body ∧
    (Strict.run w ops).client.sent = w.client.sent ∧
    (Strict.run w ops).client.flushed = w.client.flushed ∧
    (Strict.run w ops).client.panicked = (w.client.panicked || panics ops) := by
  rw [strict_client_during_handler]
  obtain ⟨_, h1, h2, h3, h4, h5⟩ := foldl_hdrStep_frame w.client ops
  exact ⟨h1, h2, h3, h4, h5, foldl_hdrStep_panicked w.client ops⟩

/-- What the strict wrapper hands to response validation: the code of the first WriteHeader call (0 when there
was none; the middleware then validates under 200, see `validatedStatus`), and all the bytes written, in order. -/
theorem strict_records (c : Client) (ops : List Op) :
    (Strict.run { client := c } ops).status = (wroteStatus ops).getD 0 ∧
    (Strict.run { client := c } ops).buf = written ops ∧
    (Strict.run { client := c } ops).headerWritten = (wroteStatus ops).isSome := by
  rw [strict_run_eq]; simp

/-- **strict_valid_response_exact.** After flushBodyContents the client holds exactly the status the handler
wrote (200 when it never called WriteHeader/Write with a final code; informational codes fix nothing — finding
F-C14-2 is repaired) and exactly the bytes it wrote, and the client's writer did not panic. Both transports. -/
theorem strict_valid_response_exact (server : Bool) (ops : List Op) (hv : EffCodeOK ops) (hn : NoPanic ops) :
    (Strict.run { client := Client.init server } ops).flushOut.seen = ⟨(handlerStatus server ops).getD 200, written ops⟩ ∧
    (Strict.run { client := Client.init server } ops).flushOut.panicked = false := by
  rw [strict_run_eq]
  obtain ⟨⟨h0, h1, _, h2, h3⟩, _, _⟩ := core_foldl_hdrStep (Client.init server) ops hn
  have hst : handlerStatus server ops = wroteStatus ops := rfl
  rw [hst]
  generalize hc : ops.foldl hdrStep (Client.init server) = c at *
  have hs : c.status = none := h1
  have hb : c.body = [] := h2
  have hp : c.panicked = false := h3
  cases hw : wroteStatus ops with
  | none =>
    simp [Strict.flushOut, Client.write, Client.writeHeader, Client.seen, hs, hb, hp, validCode_200, isInfo_200]
  | some n =>
    have hn' : validCode n = true := hv n hw
    have hni : isInfo n = false := wroteStatus_notInfo ops n hw
    simp [Strict.flushOut, Client.write, Client.writeHeader, Client.seen, hs, hb, hp, hn', hni]

/-- In strict mode the header map is snapshotted only at flush time: every header edit of the handler — also
those made after its WriteHeader/Write — is part of what the client receives. -/
theorem strict_headers_delivered (server : Bool) (ops : List Op) (hv : EffCodeOK ops) (hn : NoPanic ops) :
    (Strict.run { client := Client.init server } ops).flushOut.sent = finalHdr ops := by
  rw [strict_run_eq]
  obtain ⟨⟨_, h1, _, _, h3⟩, _, _⟩ := core_foldl_hdrStep (Client.init server) ops hn
  have hh : (ops.foldl hdrStep (Client.init server)).hdr = finalHdr ops := by
    unfold finalHdr
    exact hdr_foldl_hdrStep_indep (Client.init server) {} ops rfl rfl
  rw [← hh]
  generalize ops.foldl hdrStep (Client.init server) = c at *
  have hs : c.status = none := h1
  have hp : c.panicked = false := h3
  cases hw : wroteStatus ops with
  | none => simp [Strict.flushOut, Client.write, Client.writeHeader, hs, hp, validCode_200, isInfo_200]
  | some n =>
    have hn' : validCode n = true := hv n hw
    have hni : isInfo n = false := wroteStatus_notInfo ops n hw
    simp [Strict.flushOut, Client.write, Client.writeHeader, hs, hp, hn', hni]

/-- For handlers that never call Flush the strict path delivers what the raw writer would have received
(the strict wrapper is not an http.Flusher, so the handler's `w.(http.Flusher)` assertion fails). -/
theorem strict_exact_vs_direct_partial (server : Bool) (ops : List Op) (hv : ValidCodes ops) (hn : NoPanic ops)
    (hrec : informational (!server) ops = false) (hf : ∀ op ∈ ops, op ≠ Op.flush) :
    (Strict.run { client := Client.init server } ops).flushOut.seen = (runDirect (Client.init server) ops).seen := by
  rw [(strict_valid_response_exact server ops (effCodeOK_of_validCodes ops hv) hn).1]
  obtain ⟨h1, h2⟩ := runDirect_status_body (Client.init server) ops rfl hv hn
  have h1' : (runDirect (Client.init server) ops).status = firstStatus server true ops := by
    simpa [Client.init] using h1
  have h2' : (runDirect (Client.init server) ops).body = written ops := by simpa [Client.init] using h2
  have hst : firstStatus server false ops = firstStatus true false ops := by
    cases server with
    | true => rfl
    | false => exact (firstStatus_noinfo true false ops hrec).symm
  simp [Client.seen, h1', h2', firstStatus_noflush server ops hf, handlerStatus, hst]

/-! ## warn wrapper -/

/-- **warn_is_transparent.** The warn wrapper refines the raw writer: after any sequence of handler calls
(including informational and invalid status codes, repeated WriteHeader, Flush before the first write, a panic) the
client's writer is in exactly the state a direct run would have left it in — status, informational responses, body,
header snapshot, flush flag, panic. Both transports, full strength (finding F-C14-2 is repaired). -/
theorem warn_is_transparent (server : Bool) (ops : List Op) :
    (Warn.run { client := Client.init server } ops).client = runDirect (Client.init server) ops :=
  (warn_run { client := Client.init server } ops (by simp [WInv])).1

/-- What the warn wrapper hands to response validation: the code of the first WriteHeader (0 if none) and
all bytes the handler wrote. -/
theorem warn_records (c : Client) (ops : List Op) :
    (Warn.run { client := c } ops).status = (wroteStatus ops).getD 0 ∧ (Warn.run { client := c } ops).buf = written ops := by
  obtain ⟨_, h2, h3⟩ := warn_run_record { client := c } ops
  simp [h2, h3]

/-- In non-strict mode the bytes handed to response validation are exactly the bytes the client received
(handlers that complete). -/
theorem warn_validates_delivered_body (server : Bool) (ops : List Op) (hv : ValidCodes ops) (hn : NoPanic ops) :
    (Warn.run { client := Client.init server } ops).buf = (Warn.run { client := Client.init server } ops).client.body := by
  rw [warn_is_transparent server ops, (warn_records _ ops).2,
      (runDirect_status_body (Client.init server) ops rfl hv hn).2]
  simp [Client.init]

/-! ## Validator.Middleware -/

def witnessCfg0 : Cfg := { strict := true, errOps := defaultErrOps }


/-- **handler_iff_route_and_valid.** The wrapped handler is invoked iff a route is found and the request
validates. -/
theorem handler_iff_route_and_valid (cfg : Cfg) (env : Env) (ops : List Op) :
    (middleware cfg env ops).handlerRan = true ↔ (env.routeFound = true ∧ env.reqOK = true) := by
  unfold middleware
  cases env.routeFound <;> cases env.reqOK <;> cases cfg.strict <;> simp <;> (repeat' split) <;> simp

/-! ### the request verdict opened up (composition with the C07 model of ValidateRequest) -/

/-- **handler_iff_route_and_request_accepted.** With the request verdict computed by the model of
ValidateRequest, the handler is invoked iff a route is found, security passes (the operation's own list, or
the document-level list when the operation has none), every parameter in effect — path-level and
operation-level, of every location — validates, and the body (when declared and not excluded) validates. -/
theorem handler_iff_route_and_request_accepted (cfg : Cfg) (rf : Bool) (o : Request.Opts) (op : Request.Op)
    (d a : String → Bool) (respOK : Nat → Hdr → Bytes → Bool) (ops : List Op) :
    (middleware cfg (envOf rf o op d a respOK) ops).handlerRan = true ↔
      (rf = true ∧ Request.Accept o op d a) := by
  rw [handler_iff_route_and_valid]
  simp only [envOf, Request.accept_iff]

/-- The document-level security requirement guards operations that declare nothing themselves: no own
security list, no parameters, no body — if no document-level requirement is satisfied the handler is not
invoked (and by `rejected_request_answered_by_middleware` the client gets ErrFunc's 400 answer). -/
theorem document_security_guards_bare_operation (cfg : Cfg) (rf : Bool) (o : Request.Opts)
    (docSec : List Request.Requirement) (d a : String → Bool) (respOK : Nat → Hdr → Bytes → Bool) (ops : List Op)
    (hne : docSec ≠ [])
    (hfail : ∀ r ∈ docSec, ∃ s ∈ r, ¬ (d s = true ∧ a s = true)) :
    (middleware cfg (envOf rf o (bareOp docSec) d a respOK) ops).handlerRan = false := by
  rw [← Bool.not_eq_true, handler_iff_route_and_request_accepted]
  rintro ⟨_, hsec, _, _⟩
  rcases hsec with h | ⟨r, hr, hall⟩
  · exact hne (by simpa [Request.securityList, bareOp] using h)
  · have hr' : r ∈ docSec := by simpa [Request.securityList, bareOp] using hr
    obtain ⟨s, hs, hns⟩ := hfail r hr'
    exact hns (hall s hs)

/-- Each single part of the request that fails keeps the handler from running: a failing parameter in
effect (whatever its level and location), or a failing body that is checked. -/
theorem failing_part_blocks_handler (cfg : Cfg) (rf : Bool) (o : Request.Opts) (op : Request.Op)
    (d a : String → Bool) (respOK : Nat → Hdr → Bytes → Bool) (ops : List Op)
    (h : (∃ p ∈ Request.effective o op, p.ok = false) ∨
         (op.hasBody = true ∧ o.excludeBody = false ∧ op.bodyOK = false)) :
    (middleware cfg (envOf rf o op d a respOK) ops).handlerRan = false := by
  rw [← Bool.not_eq_true, handler_iff_route_and_request_accepted]
  rintro ⟨_, _, hp, hb⟩
  rcases h with ⟨p, hpm, hpf⟩ | ⟨h1, h2, h3⟩
  · have := hp p hpm; simp [hpf] at this
  · have := hb h1 h2; simp [h3] at this

/-- An operation on which nothing is demanded (no security in effect, all parameters in effect fine, body
fine or absent) reaches the handler as soon as the route exists. -/
theorem accepted_request_reaches_handler (cfg : Cfg) (o : Request.Opts) (op : Request.Op)
    (d a : String → Bool) (respOK : Nat → Hdr → Bytes → Bool) (ops : List Op)
    (h : Request.Accept o op d a) :
    (middleware cfg (envOf true o op d a respOK) ops).handlerRan = true :=
  (handler_iff_route_and_request_accepted cfg true o op d a respOK ops).mpr ⟨rfl, h⟩

/-- non-vacuity: a bare operation behind a document-level requirement `[[k]]`, key not accepted → blocked;
accepted → handler runs -/
example :
    (middleware witnessCfg0 (envOf true {} (bareOp [["k"]]) (fun _ => true) (fun _ => false) (fun _ _ _ => true)) []).handlerRan = false ∧
    (middleware witnessCfg0 (envOf true {} (bareOp [["k"]]) (fun _ => true) (fun _ => true) (fun _ _ _ => true)) []).handlerRan = true := by
  decide

/-- Otherwise the middleware answers itself: the client holds exactly what ErrFunc wrote for (404,
ErrCodeCannotFindRoute) resp. (400, ErrCodeRequestInvalid), ErrFunc is called exactly once, and nothing of the
handler (which never ran) is there. -/
theorem rejected_request_answered_by_middleware (cfg : Cfg) (env : Env) (ops : List Op)
    (h : ¬ (env.routeFound = true ∧ env.reqOK = true)) :
    let code := if env.routeFound then ErrCode.requestInvalid else ErrCode.cannotFindRoute
    (middleware cfg env ops).handlerRan = false ∧
    (middleware cfg env ops).client = runDirect (Client.init env.server) (cfg.errOps code) ∧
    (middleware cfg env ops).errCalls = [code] := by
  unfold middleware
  cases h1 : env.routeFound <;> cases h2 : env.reqOK <;> simp_all

/-- The default ErrFunc (http.Error) gives the client 404 "not found" / 400 "bad request" / 500 "server error". -/
theorem default_error_responses :
    (runDirect {} (defaultErrOps .cannotFindRoute)).seen = ⟨404, "not found\n".toList⟩ ∧
    (runDirect {} (defaultErrOps .requestInvalid)).seen = ⟨400, "bad request\n".toList⟩ ∧
    (runDirect {} (defaultErrOps .responseInvalid)).seen = ⟨500, "server error\n".toList⟩ := by
  decide

/-- **strict_invalid_response_replaced.** Strict mode, the handler returned, response validation fails: ErrFunc
is called once with ErrCodeResponseInvalid on the raw writer and the client sees exactly the status and body
ErrFunc produces — as if the handler had written nothing; no status code, informational response or body byte of
the handler reaches the client. For every handler, every ErrFunc, both transports (no exclusion). -/
theorem strict_invalid_response_replaced (cfg : Cfg) (env : Env) (ops : List Op) (hn : NoPanic ops)
    (hs : cfg.strict = true) (hr : env.routeFound = true) (hq : env.reqOK = true)
    (hbad : env.respOK (validatedStatus (Strict.run { client := Client.init env.server } ops).status)
              (Strict.run { client := Client.init env.server } ops).client.hdr
              (Strict.run { client := Client.init env.server } ops).buf = false) :
    (middleware cfg env ops).client.seen = (runDirect (Client.init env.server) (cfg.errOps .responseInvalid)).seen ∧
    (middleware cfg env ops).client.info = (runDirect (Client.init env.server) (cfg.errOps .responseInvalid)).info ∧
    (middleware cfg env ops).client.panicked = (runDirect (Client.init env.server) (cfg.errOps .responseInvalid)).panicked ∧
    (middleware cfg env ops).errCalls = [.responseInvalid] ∧
    (middleware cfg env ops).logs = [.response] := by
  have hcore : Core (Strict.run { client := Client.init env.server } ops).client (Client.init env.server) := by
    rw [strict_client_during_handler]; exact (core_foldl_hdrStep _ ops hn).1
  have hrun := core_runDirect hcore (cfg.errOps .responseInvalid)
  have hp : (Strict.run { client := Client.init env.server } ops).client.panicked = false := hcore.2.2.2.2
  simp only [middleware, hs, hr, hq, hbad, hp]
  simp
  exact ⟨hrun.seen, hrun.2.2.1, hrun.2.2.2.2⟩

/-- Strict mode, response validation passes: the client gets the handler's status and bytes, ErrFunc is not
called, nothing is logged. -/
theorem strict_valid_response_delivered (cfg : Cfg) (env : Env) (ops : List Op) (hv : EffCodeOK ops)
    (hn : NoPanic ops)
    (hs : cfg.strict = true) (hr : env.routeFound = true) (hq : env.reqOK = true)
    (hok : env.respOK (validatedStatus (Strict.run { client := Client.init env.server } ops).status)
              (Strict.run { client := Client.init env.server } ops).client.hdr
              (Strict.run { client := Client.init env.server } ops).buf = true) :
    (middleware cfg env ops).client.seen = ⟨(handlerStatus env.server ops).getD 200, written ops⟩ ∧
    (middleware cfg env ops).client.panicked = false ∧
    (middleware cfg env ops).errCalls = [] ∧ (middleware cfg env ops).logs = [] := by
  have hp : (Strict.run { client := Client.init env.server } ops).client.panicked = false := by
    rw [strict_client_during_handler]; exact (core_foldl_hdrStep _ ops hn).1.2.2.2.2
  simp only [middleware, hs, hr, hq, hok, hp]
  simp
  exact strict_valid_response_exact env.server ops hv hn

/-- **strict_handler_panic_leaks_nothing.** Strict mode, the handler panics somewhere (after any calls): no
status, no informational response, no body byte and no header snapshot of its unvalidated response is on the
wire; ErrFunc is not called (the panic unwinds through Middleware). -/
theorem strict_handler_panic_leaks_nothing (cfg : Cfg) (env : Env) (ops : List Op) (hpan : panics ops = true)
    (hs : cfg.strict = true) (hr : env.routeFound = true) (hq : env.reqOK = true) :
    (middleware cfg env ops).client.seen = ⟨200, []⟩ ∧ (middleware cfg env ops).client.info = [] ∧
    (middleware cfg env ops).client.sent = [] ∧ (middleware cfg env ops).client.flushed = false ∧
    (middleware cfg env ops).client.panicked = true ∧ (middleware cfg env ops).errCalls = [] := by
  obtain ⟨h1, h2, h3, h4, h5, h6⟩ :=
    strict_nothing_reaches_client_before_flush { client := Client.init env.server } ops
  have hp : (Strict.run { client := Client.init env.server } ops).client.panicked = true := by
    rw [h6, hpan]; simp
  simp only [middleware, hs, hr, hq, hp]
  simp only [Client.init] at h1 h2 h3 h4 h5 hp
  simp [Client.seen, Client.init, h1, h2, h3, h4, h5, hp]

/-- **nonstrict_passes_through.** Non-strict mode: whatever response validation says,
the client's writer ends in exactly the state the handler would have produced on it directly — also when the
handler panics half-way —, and ErrFunc is never called. -/
theorem nonstrict_passes_through (cfg : Cfg) (env : Env) (ops : List Op)
    (hs : cfg.strict = false) (hr : env.routeFound = true) (hq : env.reqOK = true) :
    (middleware cfg env ops).client = runDirect (Client.init env.server) ops ∧ (middleware cfg env ops).errCalls = [] := by
  simp only [middleware, hs, hr, hq]
  simp
  repeat' split
  all_goals simp [warn_is_transparent env.server ops]

/-- executable oracle = declarative `Meets` -/
theorem meetsB_iff (o : Outcome) (s : SpecOut) : meetsB o s = true ↔ Meets o s := by
  unfold meetsB Meets
  cases s.full <;> simp [and_assoc]

/-- **middleware_meets_spec.** The model of the middleware meets the specification of the property for every
configuration, environment, transport and handler whose effective status code is one net/http accepts — panicking
handlers, informational responses and ignored later WriteHeader calls with any code included. The remaining
handlers are covered by `strict_refused_code_never_delivered`; `middleware_meets_spec_total` has no hypothesis. -/
theorem middleware_meets_spec (cfg : Cfg) (env : Env) (ops : List Op) (hv : EffCodeOK ops) :
    Meets (middleware cfg env ops) (spec cfg env ops) := by
  cases hr : env.routeFound with
  | false => simp [Meets, middleware, spec, hr]
  | true =>
  cases hq : env.reqOK with
  | false => simp [Meets, middleware, spec, hr, hq]
  | true =>
  cases hs : cfg.strict with
  | false =>
    obtain ⟨h1, h2⟩ := nonstrict_passes_through cfg env ops hs hr hq
    have h3 := (handler_iff_route_and_valid cfg env ops).mpr ⟨hr, hq⟩
    simp [Meets, spec, hr, hq, hs, h1, h2, h3]
  | true =>
    have h3 := (handler_iff_route_and_valid cfg env ops).mpr ⟨hr, hq⟩
    cases hpan : panics ops with
    | true =>
      obtain ⟨p1, _, _, _, p5, p6⟩ := strict_handler_panic_leaks_nothing cfg env ops hpan hs hr hq
      simp [Meets, spec, hr, hq, hs, hpan, h3, p1, p5, p6]
    | false =>
    have hn : NoPanic ops := (panics_false_iff ops).mp hpan
    have hbc : badCode ops = false := (badCode_false_iff ops).mpr hv
    obtain ⟨r1, r2, r3⟩ := strict_records (Client.init env.server) ops
    have hh : (Strict.run { client := Client.init env.server } ops).client.hdr = finalHdr ops := by
      rw [strict_client_during_handler]
      exact hdr_foldl_hdrStep_indep (Client.init env.server) {} ops rfl rfl
    have hst : handlerStatus env.server ops = wroteStatus ops := rfl
    -- the verdict the middleware obtains is the verdict on the response the handler wrote
    have hverdict : env.respOK (validatedStatus (Strict.run { client := Client.init env.server } ops).status)
        (Strict.run { client := Client.init env.server } ops).client.hdr
        (Strict.run { client := Client.init env.server } ops).buf = respValid env ops := by
      rw [r1, r2, hh]
      unfold respValid
      rw [hst]
      cases hw : wroteStatus ops with
      | some n =>
        have hn' : validCode n = true := hv n hw
        have hn0 : n ≠ 0 := by intro h0; rw [h0] at hn'; exact absurd hn' (by decide)
        simp [validatedStatus, hn0]
      | none => simp [validatedStatus]
    cases hval : respValid env ops with
    | true =>
      obtain ⟨d1, d4, d2, _⟩ :=
        strict_valid_response_delivered cfg env ops hv hn hs hr hq (hverdict.trans hval)
      simp [Meets, spec, hr, hq, hs, hpan, hbc, hval, h3, d1, d2, d4]
    | false =>
      obtain ⟨d1, _, d2, d3, _⟩ := strict_invalid_response_replaced cfg env ops hn hs hr hq (hverdict.trans hval)
      simp [Meets, spec, hr, hq, hs, hpan, hbc, hval, h3, d1, d2, d3]

/-- **strict_refused_code_never_delivered.** Strict mode, the handler fixes a status code net/http refuses (against
the raw writer that call would panic; the strict wrapper records it and the handler goes on writing): whatever
response validation says about what was recorded, the client is shielded — either it gets exactly ErrFunc's answer,
or the middleware's flush panics on the code and nothing at all is on the wire. No byte of the handler arrives. -/
theorem strict_refused_code_never_delivered (cfg : Cfg) (env : Env) (ops : List Op) (hn : NoPanic ops)
    (hbad : badCode ops = true) (hs : cfg.strict = true) (hr : env.routeFound = true) (hq : env.reqOK = true) :
    Dead (middleware cfg env ops) ∨
    ((middleware cfg env ops).client.seen = (runDirect (Client.init env.server) (cfg.errOps .responseInvalid)).seen ∧
     (middleware cfg env ops).client.panicked = (runDirect (Client.init env.server) (cfg.errOps .responseInvalid)).panicked ∧
     (middleware cfg env ops).errCalls = [.responseInvalid] ∧ (middleware cfg env ops).handlerRan = true) := by
  have h3 := (handler_iff_route_and_valid cfg env ops).mpr ⟨hr, hq⟩
  cases hv : env.respOK (validatedStatus (Strict.run { client := Client.init env.server } ops).status)
              (Strict.run { client := Client.init env.server } ops).client.hdr
              (Strict.run { client := Client.init env.server } ops).buf with
  | false =>
    obtain ⟨d1, _, d2, d3, _⟩ := strict_invalid_response_replaced cfg env ops hn hs hr hq hv
    exact Or.inr ⟨d1, d2, d3, h3⟩
  | true =>
    left
    obtain ⟨⟨h0, h1, hi, h2, hp⟩, hsent, _⟩ := core_foldl_hdrStep (Client.init env.server) ops hn
    have hpf : (Strict.run { client := Client.init env.server } ops).client.panicked = false := by
      rw [strict_client_during_handler]; exact hp
    unfold badCode at hbad
    cases hw : wroteStatus ops with
    | none => simp [hw] at hbad
    | some n =>
      simp only [hw, Bool.not_eq_true'] at hbad
      have hmw : (middleware cfg env ops) =
          { handlerRan := true, client := (Strict.run { client := Client.init env.server } ops).flushOut,
            errCalls := [], logs := [] } := by
        simp only [middleware, hs, hr, hq, hv, hpf]
        simp
      rw [hmw, strict_run_eq]
      generalize hc : ops.foldl hdrStep (Client.init env.server) = c at *
      have hs' : c.status = none := h1
      have hb : c.body = [] := h2
      have hi' : c.info = [] := hi
      have hse : c.sent = [] := hsent
      have hp' : c.panicked = false := hp
      simp [Dead, Strict.flushOut, Client.write, Client.writeHeader, Client.seen, hw, hs', hb, hi', hse, hp', hbad]

/-- both outcomes of `strict_refused_code_never_delivered` occur: WriteHeader(0) then a body — validated as a 200
response: documented → the flush panics on the code, nothing is on the wire; not documented → the server error -/
example :
    let ops : List Op := [.writeHeader 0, .write ['1']]
    badCode ops = true ∧
    (middleware witnessCfg0 { routeFound := true, reqOK := true, respOK := fun st _ _ => st == 200 } ops).client.seen = ⟨200, []⟩ ∧
    (middleware witnessCfg0 { routeFound := true, reqOK := true, respOK := fun st _ _ => st == 200 } ops).client.panicked = true ∧
    (middleware witnessCfg0 { routeFound := true, reqOK := true, respOK := fun st _ _ => st != 200 } ops).client.seen = ⟨500, "server error\n".toList⟩ ∧
    meetsTB (middleware witnessCfg0 { routeFound := true, reqOK := true, respOK := fun st _ _ => st == 200 } ops)
            (spec witnessCfg0 { routeFound := true, reqOK := true, respOK := fun st _ _ => st == 200 } ops) = true ∧
    -- a refused code after the status is fixed is ignored by everybody: inside `EffCodeOK`, outside `ValidCodes`
    badCode [.write ['1'], .writeHeader 0] = false := by
  decide

/-- **middleware_meets_spec_total.** For every configuration, environment, transport and handler — no hypothesis —
the model of the middleware meets the specification in its total reading (`MeetsT`: where the handler fixed a status
code net/http refuses, strict mode may also leave a dead writer with nothing on the wire). -/
theorem middleware_meets_spec_total (cfg : Cfg) (env : Env) (ops : List Op) :
    MeetsT (middleware cfg env ops) (spec cfg env ops) := by
  cases hbc : badCode ops with
  | false => exact Or.inl (middleware_meets_spec cfg env ops ((badCode_false_iff ops).mp hbc))
  | true =>
  cases hr : env.routeFound with
  | false => exact Or.inl (by simp [Meets, middleware, spec, hr])
  | true =>
  cases hq : env.reqOK with
  | false => exact Or.inl (by simp [Meets, middleware, spec, hr, hq])
  | true =>
  have h3 := (handler_iff_route_and_valid cfg env ops).mpr ⟨hr, hq⟩
  cases hs : cfg.strict with
  | false =>
    obtain ⟨h1, h2⟩ := nonstrict_passes_through cfg env ops hs hr hq
    exact Or.inl (by simp [Meets, spec, hr, hq, hs, h1, h2, h3])
  | true =>
    cases hpan : panics ops with
    | true =>
      obtain ⟨p1, _, _, _, p5, p6⟩ := strict_handler_panic_leaks_nothing cfg env ops hpan hs hr hq
      exact Or.inl (by simp [Meets, spec, hr, hq, hs, hpan, h3, p1, p5, p6])
    | false =>
      have hn : NoPanic ops := (panics_false_iff ops).mp hpan
      rcases strict_refused_code_never_delivered cfg env ops hn hbc hs hr hq with hd | ⟨d1, d2, d3, _⟩
      · exact Or.inr ⟨by simp [spec, hr, hq, hs, hpan, hbc], hd⟩
      · exact Or.inl (by simp [Meets, spec, hr, hq, hs, hpan, hbc, h3, d1, d2, d3])

theorem meetsTB_iff (o : Outcome) (s : SpecOut) : meetsTB o s = true ↔ MeetsT o s := by
  unfold meetsTB MeetsT
  rw [Bool.or_eq_true, meetsB_iff, Bool.and_eq_true]
  have hd : deadB o = true ↔ Dead o := by unfold deadB Dead; simp [and_assoc]
  rw [hd]

/-- The verdict logged in non-strict mode is the verdict on the response the client received, whenever the
handler fixed its status itself (no Flush before the first WriteHeader/Write) — on a ResponseRecorder only for
handlers without informational codes (the recorder takes a 1xx for the final status; net/http does not). -/
theorem warn_verdict_is_on_delivered_response (server : Bool) (ops : List Op) (hv : ValidCodes ops) (hn : NoPanic ops)
    (hrec : informational (!server) ops = false)
    (hf : firstStatus server true ops = firstStatus server false ops) :
    validatedStatus (Warn.run { client := Client.init server } ops).status =
      (runDirect (Client.init server) ops).seen.status := by
  rw [(warn_records _ ops).1, Client.seen, (runDirect_status_body (Client.init server) ops rfl hv hn).1]
  simp only [Client.init, hf]
  have hst : firstStatus server false ops = wroteStatus ops := by
    cases server with
    | true => rfl
    | false => exact (firstStatus_noinfo true false ops hrec).symm
  rw [hst]
  cases hw : wroteStatus ops with
  | some n =>
    have hn' : validCode n = true := firstStatus_valid true false ops hv n hw
    have hn0 : n ≠ 0 := by intro h0; rw [h0] at hn'; exact absurd hn' (by decide)
    simp [validatedStatus, hn0]
  | none => simp [validatedStatus]

/-! ## regression of the repaired finding F-C14-2 (informational responses behind a real server) -/

/-- a real server, the documented response for 404 wants the body "1", everything else is undocumented and
allowed; ErrFunc is the default -/
def infoEnv : Env := { routeFound := true, reqOK := true, server := true,
                       respOK := fun st _ b => st != 404 || b == ['1'] }
/-- Early Hints, then the final answer 404 "1" -/
def infoOps : List Op := [.writeHeader 103, .writeHeader 404, .write ['1']]

/-- **Regression (F-C14-2, repaired).** Strict mode validates and delivers (404, "1") — the hint is dropped, no
informational response is on the wire before validation; non-strict mode forwards 103 once and then 404: exactly
what net/http alone would have sent. Model = spec on the former witness. -/
theorem informational_repaired :
    (middleware witnessCfg0 infoEnv infoOps).client.seen = ⟨404, ['1']⟩ ∧
    (middleware witnessCfg0 infoEnv infoOps).client.info = [] ∧
    meetsB (middleware witnessCfg0 infoEnv infoOps) (spec witnessCfg0 infoEnv infoOps) = true ∧
    (middleware { witnessCfg0 with strict := false } infoEnv infoOps).client = runDirect (Client.init true) infoOps ∧
    (runDirect (Client.init true) infoOps).info = [103] ∧
    (runDirect (Client.init true) infoOps).seen = ⟨404, ['1']⟩ := by
  decide

/-! ## histories: one middleware instance serving a sequence of requests -/

/-- **serve_history_free.** What a Validator answers to a request does not depend on the state earlier
requests left behind (there is none: see `validator_keeps_no_state` in Props/C14Src.lean). -/
theorem serve_history_free (cfg : Cfg) : HistoryFree (serve cfg) := fun _ _ _ => rfl

/-- **serveSeq_pointwise.** The outcome of every request of a sequence through one `Middleware(h)` chain is the
outcome of that request alone — whatever came before it (rejected responses, rejected requests, panics). -/
theorem serveSeq_pointwise (cfg : Cfg) (reqs : List Req) :
    serveSeq cfg reqs = reqs.map (fun r => middleware cfg r.env r.ops) :=
  runSeq_of_historyFree (serve cfg) (serve_history_free cfg) {} {} reqs

/-- the n-th answer is a function of the n-th request alone: two histories that agree on request n agree on
answer n -/
theorem nth_outcome_depends_on_nth_request (cfg : Cfg) (pre1 pre2 post1 post2 : List Req) (r : Req)
    (hl : pre1.length = pre2.length) :
    (serveSeq cfg (pre1 ++ r :: post1))[pre1.length]? = (serveSeq cfg (pre2 ++ r :: post2))[pre1.length]? := by
  rw [serveSeq_pointwise, serveSeq_pointwise]
  simp [hl]

/-- **every_request_of_a_history_meets_spec.** For every sequence of requests — no hypothesis on the handlers:
any codes, panics, informational responses — each client receives what the property
prescribes for its own request: handler run iff route and request are fine, strict replacement / exact delivery,
non-strict pass-through — also right after a request whose response was rejected or whose handler panicked. -/
theorem every_request_of_a_history_meets_spec (cfg : Cfg) (reqs : List Req) :
    MeetsSeq cfg reqs (serveSeq cfg reqs) := by
  rw [serveSeq_pointwise]
  induction reqs with
  | nil => trivial
  | cons r rs ih => exact ⟨middleware_meets_spec_total cfg r.env r.ops, ih⟩

/-- a rejected response (or a panic) leaves nothing behind: the request that follows it is delivered exactly -/
theorem valid_after_rejected_is_delivered (cfg : Cfg) (bad good : Req) (hs : cfg.strict = true)
    (hg : EffCodeOK good.ops) (hn : NoPanic good.ops)
    (hr : good.env.routeFound = true) (hq : good.env.reqOK = true)
    (hok : respValid good.env good.ops = true) :
    ∃ o1 o2, serveSeq cfg [bad, good] = [o1, o2] ∧
      o2.client.seen = ⟨(handlerStatus good.env.server good.ops).getD 200, written good.ops⟩ ∧ o2.errCalls = [] := by
  refine ⟨_, _, by rw [serveSeq_pointwise]; rfl, ?_⟩
  have h := middleware_meets_spec cfg good.env good.ops hg
  simp only [Meets, spec, hr, hq, hs, hok, (panics_false_iff good.ops).mpr hn, (badCode_false_iff good.ops).mpr hg] at h
  exact ⟨by simpa using h.2.1, by simpa using h.2.2.1⟩

/-- **concurrent_requests_do_not_interfere.** Two requests in flight at the same time, each handler against
its own strict wrapper, under an arbitrary schedule of their calls: each wrapper ends in the state its own
handler alone would have left it in. -/
theorem concurrent_requests_do_not_interfere (sch : List Bool) (wa wb : Strict) (opsA opsB : List Op) :
    interleaveStrict sch (wa, opsA) (wb, opsB) = (Strict.run wa opsA, Strict.run wb opsB) := by
  induction sch generalizing wa wb opsA opsB with
  | nil => rfl
  | cons b sch ih =>
    cases b with
    | true =>
      cases opsA with
      | nil => simp only [interleaveStrict]; exact ih wa wb [] opsB
      | cons op opsA => simp only [interleaveStrict]; rw [ih]; rfl
    | false =>
      cases opsB with
      | nil => simp only [interleaveStrict]; exact ih wa wb opsA []
      | cons op opsB => simp only [interleaveStrict]; rw [ih]; rfl

/-- non-vacuity: a rejected strict response followed by a valid one, then a rejected request, a panicking
handler, and a valid response again; all answers are the per-request ones -/
example :
    let bad : Req := ⟨{ routeFound := true, reqOK := true, respOK := fun _ _ b => b == ['1'] }, [.writeHeader 404, .write ['x']]⟩
    let good : Req := ⟨{ routeFound := true, reqOK := true, respOK := fun _ _ b => b == ['1'] }, [.writeHeader 201, .write ['1']]⟩
    let rej : Req := ⟨{ routeFound := true, reqOK := false, respOK := fun _ _ _ => true }, [.write ['z']]⟩
    let pan : Req := ⟨{ routeFound := true, reqOK := true, respOK := fun _ _ _ => true }, [.writeHeader 201, .write ['z'], .panic]⟩
    (serveSeq witnessCfg0 [bad, good, rej, pan, good]).map (fun o => (o.handlerRan, o.client.seen, o.client.panicked)) =
      [(true, ⟨500, "server error\n".toList⟩, false), (true, ⟨201, ['1']⟩, false), (false, ⟨400, "bad request\n".toList⟩, false),
       (true, ⟨200, []⟩, true), (true, ⟨201, ['1']⟩, false)] := by
  decide

/-! ## regression of the repaired finding F-C14-1 -/

/-- a document whose `200` response demands a JSON body and that has no `default` response: status 0 is
"not documented, allowed", status 200 with an empty body is invalid -/
def witnessEnv : Env := { routeFound := true, reqOK := true, respOK := fun st _ _ => st != 200 }
def witnessCfg : Cfg := { strict := true, errOps := defaultErrOps }

/-- **Regression (F-C14-1, repaired).** Strict mode, the handler returns without writing, the implicit 200
with an empty body fails validation: the client gets the server error, exactly like a handler that calls
WriteHeader(200) itself, and model = spec on this input. -/
theorem statusUnrecorded_repaired :
    (middleware witnessCfg witnessEnv []).client.seen = ⟨500, "server error\n".toList⟩ ∧
    (middleware witnessCfg witnessEnv []).errCalls = [.responseInvalid] ∧
    meetsB (middleware witnessCfg witnessEnv []) (spec witnessCfg witnessEnv []) = true ∧
    (middleware witnessCfg witnessEnv [.writeHeader 200]).client.seen = ⟨500, "server error\n".toList⟩ := by
  decide

/-- and the other direction: a documented implicit 200 (anything but 200 is "not supported") is delivered -/
theorem statusUnrecorded_repaired_valid :
    (middleware witnessCfg { witnessEnv with respOK := fun st _ _ => st == 200 } []).client.seen = ⟨200, []⟩ ∧
    (middleware witnessCfg { witnessEnv with respOK := fun st _ _ => st == 200 } []).errCalls = [] := by
  decide

/-! ## ValidationHandler (the older request-only gate) -/

/-- The handler behind ValidationHandler runs iff validateRequest succeeded. -/
theorem vhandler_handler_iff (encOps : ReqFail → List Op) (fail : ReqFail) (ops : List Op) (server : Bool) :
    (vhandler encOps fail ops server).handlerRan = true ↔ fail = .none := by
  cases fail <;> simp [vhandler]

/-- ValidationHandler: a failing request is answered by the ErrorEncoder alone (called once, handler not
run); a passing one reaches the handler, whose response is not touched (no wrapper at all: also informational
responses and panics pass as they are). -/
theorem vhandler_meets_spec (encOps : ReqFail → List Op) (fail : ReqFail) (ops : List Op) (server : Bool) :
    vhandler encOps fail ops server = vspec encOps fail ops server := by
  cases fail <;> simp [vhandler, vspec]

/-- histories through the older ValidationHandler: it keeps nothing between requests either -/
theorem vserve_history_free (encOps : ReqFail → List Op) : HistoryFree (vserve encOps) := fun _ _ _ => rfl

theorem vserveSeq_pointwise (encOps : ReqFail → List Op) (reqs : List VReq) :
    vserveSeq encOps reqs = reqs.map (fun r => vspec encOps r.fail r.ops r.server) := by
  unfold vserveSeq
  rw [runSeq_of_historyFree (vserve encOps) (vserve_history_free encOps) {} {} reqs]
  simp [vserve, vhandler_meets_spec]

/-! ## NewValidator and its options -/

/-- without options: non-strict, http.Error answers, package-log logging, zero `Options` -/
theorem newValidator_defaults {ω : Type} (z : ω) :
    (newValidator z []).strict = false ∧ (newValidator z []).errOps = defaultErrOps ∧
    (newValidator z []).customLog = false ∧ (newValidator z []).options = z := ⟨rfl, rfl, rfl, rfl⟩

/-- options are applied in order: the last one of a kind wins -/
theorem newValidator_last_wins {ω : Type} (z : ω) (os : List (VOpt ω)) :
    (∀ b, (newValidator z (os ++ [.strict b])).strict = b) ∧
    (∀ f, (newValidator z (os ++ [.onErr f])).errOps = f) ∧
    (∀ o, (newValidator z (os ++ [.validationOptions o])).options = o) ∧
    (newValidator z (os ++ [.onLog])).customLog = true := by
  simp [newValidator, List.foldl_append, applyOpt]

/-- each option touches its own field only -/
theorem option_touches_own_field {ω : Type} (s : Setup ω) :
    (∀ b, (applyOpt s (.strict b)).errOps = s.errOps ∧ (applyOpt s (.strict b)).options = s.options ∧
          (applyOpt s (.strict b)).customLog = s.customLog) ∧
    (∀ f, (applyOpt s (.onErr f)).strict = s.strict ∧ (applyOpt s (.onErr f)).options = s.options ∧
          (applyOpt s (.onErr f)).customLog = s.customLog) ∧
    (∀ o, (applyOpt s (.validationOptions o)).strict = s.strict ∧ (applyOpt s (.validationOptions o)).errOps = s.errOps ∧
          (applyOpt s (.validationOptions o)).customLog = s.customLog) ∧
    ((applyOpt s .onLog).strict = s.strict ∧ (applyOpt s .onLog).errOps = s.errOps ∧ (applyOpt s .onLog).options = s.options) := by
  simp [applyOpt]

/-- a Validator is strict iff some `Strict` option was given and the last one says so -/
theorem strict_iff_last_strict_option {ω : Type} (z : ω) (os : List (VOpt ω)) :
    (newValidator z os).strict =
      ((os.filterMap (fun o => match o with | .strict b => some b | _ => none)).getLast?).getD false := by
  unfold newValidator
  suffices h : ∀ (s : Setup ω), (os.foldl applyOpt s).strict =
      ((os.filterMap (fun o => match o with | .strict b => some b | _ => none)).getLast?).getD s.strict from h _
  induction os with
  | nil => intro s; rfl
  | cons o os ih =>
    intro s
    simp only [List.foldl_cons]
    rw [ih]
    cases o with
    | strict b => simp only [applyOpt, List.filterMap_cons]; rw [getLast?_getD_cons]
    | onErr f => simp only [applyOpt, List.filterMap_cons]
    | onLog => simp only [applyOpt, List.filterMap_cons]
    | validationOptions o => simp only [applyOpt, List.filterMap_cons]

/-! ## non-vacuity -/

/-- a non-trivial handler (headers, Write before WriteHeader, a second WriteHeader, pieces, Flush) satisfies
the hypotheses of `middleware_meets_spec` in strict mode, behind a real server, with a verdict function that
depends on status, headers and body; both verdicts occur -/
example :
    let ops : List Op := [.setHdr "Content-Type" "application/json", .write ['1'], .flush, .writeHeader 404, .write ['2']]
    let env : Env := { routeFound := true, reqOK := true, server := true,
                       respOK := fun st h b => st == 200 && hget h "Content-Type" == some "application/json" && b == ['1', '2'] }
    ValidCodes ops ∧
    (middleware witnessCfg env ops).client.seen = ⟨200, ['1', '2']⟩ ∧
    (middleware witnessCfg { env with respOK := fun _ _ _ => false } ops).client.seen = ⟨500, "server error\n".toList⟩ := by
  refine ⟨?_, by decide, by decide⟩
  rw [← validCodesB_iff]; decide

/-- the hypotheses of `strict_invalid_response_replaced` / `strict_valid_response_delivered` are satisfiable,
and a handler whose first status is invalid makes the client's writer panic in both modes alike -/
example : (Strict.run {} [.writeHeader 0, .write ['a']]).flushOut.panicked = true ∧
    (runDirect {} [.writeHeader 0, .write ['a']]).panicked = true ∧
    (Warn.run {} [.flush, .writeHeader 404]).status = 404 ∧
    (Warn.run {} [.flush, .writeHeader 404]).client.status = some 200 := by decide

end KinModel.Middleware
