/-
C17 — document level of the round trip: `api2 (fromV3 (toV3 d))` against `api2 d` on the simple fragment
(documents whose shared parameters are query / header / path parameters and whose operations and path items take
such parameters inline or by reference, outside every exclusion class). Theorems only.
-/
import KinModel.Props.C17
namespace KinModel.Conv

/-- FromV3Parameter does not panic outside the binary-string class and returns `fromV3Param` -/
theorem fromV3ParamO_eq {V : Type} (p : Param2 V) (h : noBinary2 (paramSchema2 p) = true) :
    fromV3ParamO [] (toV3Param p) = some (fromV3Param (toV3Param p)) := by
  have hs := fromV3SO_eq [] (toV3S (paramSchema2 p)) (noBinary3_toV3S _ h)
  unfold fromV3ParamO fromV3Param
  simp only [toV3Param] at hs ⊢
  rw [hs]
  simp [paramSchema2, toV3S, fromV3S]

theorem params_roundtrip {V : Type} (l : List (PRef2 V)) (h : l.all paramSimpleBack = true) :
    ∃ l', (l.map toV3PS).mapM (fromV3PRefO []) = some l' ∧ l'.map inputA2 = l.map inputA2 := by
  induction l with
  | nil => exact ⟨[], rfl, rfl⟩
  | cons q rest ih =>
    simp only [List.all_cons, Bool.and_eq_true] at h
    obtain ⟨l', h1, h2⟩ := ih h.2
    cases q with
    | ref k n =>
      have hq := h.1
      refine ⟨.ref (fromV3RK (toV3RK k)) n :: l', ?_, ?_⟩
      · simp [List.mapM_cons, toV3PS, fromV3PRefO, h1]
      · cases k <;> simp_all [paramSimpleBack, inputA2, toV3RK, fromV3RK, absRK2, RK.isV2]
    | val p =>
      have hq := h.1
      simp only [paramSimpleBack, Bool.and_eq_true, bne_iff_ne, ne_eq] at hq
      refine ⟨.val (fromV3Param (toV3Param p)) :: l', ?_, ?_⟩
      · simp [List.mapM_cons, toV3PS, fromV3PRefO, fromV3ParamO_eq p hq.2, h1]
      · simp [h2, roundtripParam p hq.1.1.1 hq.1.1.2 hq.1.2]

theorem headers_exec {V : Type} (hs : List (String × Param2 V)) (h : hs.all headerSimpleBack = true) :
    (hs.map (fun (x : String × Param2 V) => (x.1, toV3Param { x.2 with name := "", loc := "" }))).mapM
      (fun (nh : String × Param3 V) => (fromV3ParamO [] nh.2).map (fun h => (nh.1, { h with name := "", loc := "" }))) =
    some ((hs.map (fun (x : String × Param2 V) => (x.1, toV3Param { x.2 with name := "", loc := "" }))).map
      (fun (x : String × Param3 V) => (x.1, { fromV3Param x.2 with name := "", loc := "" }))) := by
  apply mapM_some
  intro a ha
  simp only [List.mem_map] at ha
  obtain ⟨x, hx, rfl⟩ := ha
  have hx' := List.all_eq_true.mp h x hx
  simp only [headerSimpleBack, Bool.and_eq_true] at hx'
  have : noBinary2 (paramSchema2 { x.2 with name := "", loc := "" }) = true := hx'.2
  simp [fromV3ParamO_eq _ this]

/-- FromV3Response (as executed) on a converted response: no panic, and the response says the same -/
theorem resp_roundtrip {V : Type} (produces : List String) (r : RRef2 V) (h : respSimpleBack produces r = true) :
    ∃ r', fromV3RespO [] (toV3Resp produces r) = some r' ∧ respA2 r' = respA2 r := by
  cases r with
  | ref k n =>
    refine ⟨_, rfl, ?_⟩
    cases k <;> simp_all [respSimpleBack, respA2, toV3RK, fromV3RK, absRK2, RK.isV2]
  | val x =>
    simp only [respSimpleBack, Bool.and_eq_true] at h
    obtain ⟨⟨hh, hsOK⟩, hsNB⟩ := h
    have hback : x.headers.all headerOKBack = true := by
      apply List.all_eq_true.mpr
      intro a ha
      have := List.all_eq_true.mp hh a ha
      simp only [headerSimpleBack, Bool.and_eq_true] at this
      simpa [headerOKBack] using this.1
    have hrt := roundtripResp produces (.val x) ⟨hback, hsOK⟩
    refine ⟨fromV3Resp (toV3Resp produces (.val x)), ?_, hrt⟩
    have hhe := headers_exec x.headers hh
    simp only [toV3Resp, fromV3RespO, fromV3Resp]
    rw [hhe]
    simp only
    congr 2
    cases hs : x.schema with
    | none => simp
    | some s =>
      simp only [hs, Option.all_some] at hsNB
      simp [fromV3SO_eq [] (toV3S s) (noBinary3_toV3S s hsNB)]

theorem responses_roundtrip {V : Type} (produces : List String) (l : List (String × RRef2 V))
    (h : l.all (fun kr => respSimpleBack produces kr.2) = true) :
    ∃ l', (l.map (fun (kr : String × RRef2 V) => (kr.1, toV3Resp produces kr.2))).mapM
        (fun (kr : String × RRef3 V) => (fromV3RespO [] kr.2).map (fun r => (kr.1, r))) = some l' ∧
      l'.map (fun (kr : String × RRef2 V) => (kr.1, respA2 kr.2)) = l.map (fun (kr : String × RRef2 V) => (kr.1, respA2 kr.2)) := by
  induction l with
  | nil => exact ⟨[], rfl, rfl⟩
  | cons kr rest ih =>
    simp only [List.all_cons, Bool.and_eq_true] at h
    obtain ⟨l', h1, h2⟩ := ih h.2
    obtain ⟨r', hr1, hr2⟩ := resp_roundtrip produces kr.2 h.1
    exact ⟨(kr.1, r') :: l', by simp [List.mapM_cons, hr1, h1], by simp [h2, hr2]⟩

/-- **every operation comes back with the same parameters and responses** (simple fragment) -/
theorem op_roundtrip {V : Type} (path : String) (o : Op2 V) (h : opSimpleBack o = true) :
    ∃ o', fromV3Op [] (toV3OpS o) = some o' ∧
      opA2 path o' = opA2 path o := by
  simp only [opSimpleBack, Bool.and_eq_true] at h
  obtain ⟨ps, hp1, hp2⟩ := params_roundtrip o.params h.1
  obtain ⟨rs, hr1, hr2⟩ := responses_roundtrip o.produces o.responses h.2
  refine ⟨{ method := o.method, opId := o.opId, consumes := [], produces := [], params := ps ++ [], responses := rs,
            info := conv fromV3OpTable (conv toV3OpTable o.info), security := o.security }, ?_, ?_⟩
  · simp only [fromV3Op, toV3OpS, hp1, hr1]
  · simp [opA2, hp2, hr2, meta_roundtrip]

theorem ops_roundtrip {V : Type} (path : String) (l : List (Op2 V)) (h : l.all opSimpleBack = true) :
    ∃ l', (l.map toV3OpS).mapM (fromV3Op []) = some l' ∧
      l'.map (opA2 path) = l.map (opA2 path) := by
  induction l with
  | nil => exact ⟨[], rfl, rfl⟩
  | cons o rest ih =>
    simp only [List.all_cons, Bool.and_eq_true] at h
    obtain ⟨l', h1, h2⟩ := ih h.2
    obtain ⟨o', ho1, ho2⟩ := op_roundtrip path o h.1
    exact ⟨o' :: l', by simp [List.mapM_cons, ho1, h1], by simp [h2, ho2]⟩

theorem path_roundtrip {V : Type} (p : Path2 V) (h : pathSimpleBack p = true) :
    ∃ p', fromV3Path [] (toV3PathS p) = some p' ∧ p'.path = p.path ∧
      p'.params.map inputA2 = p.params.map inputA2 ∧
      p'.ops.map (opA2 p'.path) = p.ops.map (opA2 p.path) := by
  simp only [pathSimpleBack, Bool.and_eq_true] at h
  obtain ⟨ps, hp1, hp2⟩ := params_roundtrip p.params h.1
  obtain ⟨os, ho1, ho2⟩ := ops_roundtrip p.path p.ops h.2
  exact ⟨{ path := p.path, params := ps, ops := os }, by simp [fromV3Path, toV3PathS, hp1, ho1], rfl, hp2, ho2⟩

theorem paths_roundtrip {V : Type} (l : List (Path2 V)) (h : l.all pathSimpleBack = true) :
    ∃ l', (l.map toV3PathS).mapM (fromV3Path []) = some l' ∧
      l'.flatMap (fun p => p.ops.map (opA2 p.path)) = l.flatMap (fun p => p.ops.map (opA2 p.path)) ∧
      (l'.filter (fun p => !p.params.isEmpty)).map (fun p => (p.path, p.params.map inputA2)) =
      (l.filter (fun p => !p.params.isEmpty)).map (fun p => (p.path, p.params.map inputA2)) := by
  induction l with
  | nil => exact ⟨[], rfl, rfl, rfl⟩
  | cons p rest ih =>
    simp only [List.all_cons, Bool.and_eq_true] at h
    obtain ⟨l', h1, h2, h3⟩ := ih h.2
    obtain ⟨p', hp1, hpath, hpp, hpo⟩ := path_roundtrip p h.1
    refine ⟨p' :: l', by simp [List.mapM_cons, hp1, h1], ?_, ?_⟩
    · simp only [List.flatMap_cons, h2, hpo]
    · have hemp : p'.params.isEmpty = p.params.isEmpty := by
        have := congrArg List.length hpp
        simp only [List.length_map] at this
        cases hp' : p'.params <;> cases hp0 : p.params <;> simp_all
      simp only [List.filter_cons, hemp]
      cases p.params.isEmpty with
      | true => simpa using h3
      | false => simp [h3, hpath, hpp]

/-- shared query / header / path parameters come back under their keys with the same content -/
theorem shared_roundtrip {V : Type} (l : List (String × PRef2 V)) (h : l.all (fun kp => sharedSimpleBack kp.2) = true) :
    (l.map (fun kp => (kp.1, toV3PS kp.2))).mapM
        (fun (kp : String × PRef3 V) => (fromV3PRefO [] kp.2).map (fun p => (kp.1, p))) =
      some (l.map (fun kp => (kp.1, backPS kp.2))) ∧
    (l.map (fun kp => (kp.1, backPS kp.2))).map (fun (kp : String × PRef2 V) => (kp.1, inputA2 kp.2)) =
      l.map (fun (kp : String × PRef2 V) => (kp.1, inputA2 kp.2)) := by
  have hel : ∀ kp ∈ l, ∃ q, kp.2 = .val q ∧ q.loc ≠ "body" ∧ q.loc ≠ "formData" ∧ itemsOKBack q.items = true ∧
      noBinary2 (paramSchema2 q) = true := by
    intro kp hkp
    have := List.all_eq_true.mp h kp hkp
    cases hp : kp.2 with
    | ref k n => simp [sharedSimpleBack, hp] at this
    | val q =>
      simp only [sharedSimpleBack, hp, Bool.and_eq_true, bne_iff_ne, ne_eq] at this
      exact ⟨q, rfl, this.1.1.1, this.1.1.2, this.1.2, this.2⟩
  constructor
  · have hm := mapM_some
      (fun (kp : String × PRef3 V) => (fromV3PRefO [] kp.2).map (fun p => (kp.1, p)))
      (fun (kp : String × PRef3 V) => (kp.1, fromV3PRef kp.2))
      (l.map (fun kp => (kp.1, toV3PS kp.2)))
      (by
        intro a ha
        simp only [List.mem_map] at ha
        obtain ⟨kp, hkp, rfl⟩ := ha
        obtain ⟨q, hq, _, _, _, hnb⟩ := hel kp hkp
        simp only [hq, toV3PS, fromV3PRefO, fromV3ParamO_eq q hnb, Option.map_some, fromV3PRef])
    rw [hm, List.map_map]
    congr 1
    apply List.map_congr_left
    intro kp hkp
    obtain ⟨q, hq, _⟩ := hel kp hkp
    simp only [Function.comp, hq, toV3PS, fromV3PRef, backPS]
  · rw [List.map_map]
    apply List.map_congr_left
    intro kp hkp
    obtain ⟨q, hq, h1, h2, h3, _⟩ := hel kp hkp
    simp only [Function.comp, hq, backPS, roundtripParam q h1 h2 h3]

theorem secs_roundtrip (l : List (String × Sec2)) (h : l.all (fun ks => secInFragment ks.2) = true) :
    ∃ l', mapSecs l = .ok l' ∧
      (l'.filterMap (fun (ks : String × Sec3) => match fromV3Sec ks.2 with | .ok t => some (ks.1, t) | _ => none)).map
        (fun (ks : String × Sec2) => (ks.1, secA2 ks.2)) = l.map (fun (ks : String × Sec2) => (ks.1, secA2 ks.2)) := by
  induction l with
  | nil => exact ⟨[], rfl, rfl⟩
  | cons ks rest ih =>
    simp only [List.all_cons, Bool.and_eq_true] at h
    obtain ⟨l', hl, hm⟩ := ih h.2
    obtain ⟨t, s', ht, hb, hs⟩ := roundtripSec ks.2 h.1
    obtain ⟨k, s⟩ := ks
    refine ⟨(k, t) :: l', by simp [mapSecs, ht, hl], ?_⟩
    simp only at hb hs
    simp [hb, hm, hs]

theorem defs_roundtrip {V : Type} (l : List (String × Sch V)) (h : l.all (fun ks => defSimpleBack ks.2) = true) :
    ((l.map (fun ks => (ks.1, ({ formName := none, schema := toV3S ks.2 } : CSchema V)))).filter
        (fun kc => isBinaryFmt kc.2.schema)) = [] ∧
    ((l.map (fun ks => (ks.1, ({ formName := none, schema := toV3S ks.2 } : CSchema V)))).filter
        (fun kc => isBinary kc.2.schema)) = [] ∧
    (((l.map (fun ks => (ks.1, ({ formName := none, schema := toV3S ks.2 } : CSchema V)))).filter
        (fun kc => !isBinary kc.2.schema)).filterMap (fun kc => (fromV3SO [] kc.2.schema).map (fun s => (kc.1, s)))).map
      (fun ks => (ks.1, abs2S ks.2)) = l.map (fun ks => (ks.1, abs2S ks.2)) := by
  induction l with
  | nil => exact ⟨rfl, rfl, rfl⟩
  | cons ks rest ih =>
    simp only [List.all_cons, Bool.and_eq_true] at h
    obtain ⟨i1, i2, i3⟩ := ih h.2
    have hk := h.1
    simp only [defSimpleBack, Bool.and_eq_true, Bool.not_eq_true'] at hk
    obtain ⟨⟨⟨hnb, hv2⟩, _⟩, hfmt⟩ := hk
    have hnb3 := noBinary3_toV3S ks.2 hnb
    have hso := fromV3SO_eq [] (toV3S ks.2) hnb3
    have hrt := roundtripS ks.2 hv2
    have hb1 : isBinaryFmt (toV3S ks.2) = false := by
      cases hs : ks.2 with
      | ref k n => simp [toV3S, isBinaryFmt]
      | node hd kids =>
        simp only [hs, noBinary2, Bool.and_eq_true, Bool.not_eq_true', beq_eq_false_iff_ne, ne_eq] at hnb
        simp only [hs, bne_iff_ne, ne_eq] at hfmt
        simp [toV3S, isBinaryFmt, toV3Hd, fileToBinary, hnb.1.1, hfmt]
    have hb2 : isBinary (toV3S ks.2) = false := by
      cases hs : ks.2 with
      | ref k n => simp [toV3S, isBinary]
      | node hd kids =>
        simp only [hs, bne_iff_ne, ne_eq] at hfmt
        simp only [hs, noBinary2, Bool.and_eq_true, Bool.not_eq_true', beq_eq_false_iff_ne, ne_eq] at hnb
        simp [toV3S, isBinary, toV3Hd, fileToBinary, hnb.1.1, hfmt]
    refine ⟨?_, ?_, ?_⟩
    · simp only [List.map_cons, List.filter_cons, hb1, Bool.false_eq_true, if_false]; exact i1
    · simp only [List.map_cons, List.filter_cons, hb2, Bool.false_eq_true, if_false]; exact i2
    · simp only [List.map_cons, List.filter_cons, hb2, Bool.not_false, if_true, List.filterMap_cons, hso,
        Option.map_some, List.map_cons, hrt, i3]

/-- **Document level, round trip** (simple fragment, outside every exclusion class): the document converts, the way
    back does not panic, and the v2 document that comes back describes the same API — the same operations with
    their parameters and responses, the same path-level parameters, shared responses, definitions and security
    schemes (equal lists), the same servers (equal as sets: http/https come back in a fixed order). -/
theorem api2_roundtrip_simple {V : Type} (d : Doc2 V) (h : docSimpleBack d = true) :
    ∃ d3 d2, toV3Raw d = .ok d3 ∧ fromV3 d3 = some d2 ∧
      (api2 d2).ops = (api2 d).ops ∧ (api2 d2).pathParams = (api2 d).pathParams ∧
      (api2 d2).shared = (api2 d).shared ∧ (api2 d2).sharedResponses = (api2 d).sharedResponses ∧
      (api2 d2).defs = (api2 d).defs ∧ (api2 d2).security = (api2 d).security ∧
      (api2 d2).securityReq = (api2 d).securityReq ∧
      (∀ x, x ∈ (api2 d2).servers ↔ x ∈ (api2 d).servers) := by
  simp only [docSimpleBack, Bool.and_eq_true, bne_iff_ne, ne_eq] at h
  obtain ⟨⟨⟨⟨⟨⟨⟨hsimple, hparams, hpnodup⟩, hpaths⟩, hresps⟩, hnodup⟩, hdefs⟩, hsecs⟩, hhost, hschemes⟩ := h
  obtain ⟨hsh1, hsh2⟩ := shared_roundtrip d.params hparams
  obtain ⟨secs, hsecs1, hsecs2⟩ := secs_roundtrip d.secs hsecs
  obtain ⟨paths2, hp1, hp2, hp3⟩ := paths_roundtrip d.paths hpaths
  obtain ⟨crs, hr1, hr2⟩ := responses_roundtrip d.produces d.responses hresps
  obtain ⟨hbinfmt, hbin, hdefs2⟩ := defs_roundtrip d.defs hdefs
  have h3 := toV3Raw_simple d hsimple secs hsecs1
  refine ⟨_, ?_, h3, ?_, ?_⟩
  · exact {
      loc := fromV3Servers (toV3Servers d.loc), consumes := [], produces := [],
      params := dedupLast ([] ++ d.params.map (fun kp => (kp.1, backPS kp.2)) ++ []),
      responses := crs,
      defs := ((d.defs.map (fun ks => (ks.1, ({ formName := none, schema := toV3S ks.2 } : CSchema V)))).filter
          (fun kc => !isBinary kc.2.schema)).filterMap (fun kc => (fromV3SO [] kc.2.schema).map (fun s => (kc.1, s))),
      secs := secs.filterMap (fun (ks : String × Sec3) => match fromV3Sec ks.2 with | .ok t => some (ks.1, t) | _ => none),
      paths := paths2, security := d.security }
  · simp only [fromV3]
    have e1 : (List.filter (fun (x : String × CSchema V) => isBinaryFmt x.2.schema)
        (d.defs.map (fun ks => (ks.1, ({ formName := none, schema := toV3S ks.2 } : CSchema V))))) = [] := hbinfmt
    have e2 : (List.filter (fun (x : String × CSchema V) => isBinary x.2.schema)
        (d.defs.map (fun ks => (ks.1, ({ formName := none, schema := toV3S ks.2 } : CSchema V))))) = [] := hbin
    simp only [e1, e2, List.map_nil, hp1, hr1, hsh1, List.flatMap_nil]
    rfl
  · refine ⟨hp2, hp3, ?_, hr2, hdefs2, hsecs2, rfl, ?_⟩
    · have hnd : nodupKeys (d.params.map (fun kp => (kp.1, backPS kp.2))) = true := by
        rw [nodupKeys_map]; exact hpnodup
      show List.map _ (dedupLast ([] ++ d.params.map (fun kp => (kp.1, backPS kp.2)) ++ [])) = _
      simp only [List.nil_append, List.append_nil, dedupLast_nodup _ hnd]
      exact hsh2
    · intro x
      exact servers_roundtrip_partial d.loc hhost (fun y hy => List.all_eq_true.mp hschemes y hy) x

/-- non-vacuity of `api2_roundtrip_simple`: path parameter, constrained array query parameter, a response with
    headers but no schema, a response with a referenced schema, a shared response, two definitions (reference,
    nullable property, pure additionalProperties), the accessCode flow, host + base path + both schemes -/
example :
    let idp : Param2 Nat := { name := "id", loc := "path", required := true, cons := { ty := some "string" },
                              items := none, schema := none }
    let q : Param2 Nat := { name := "tags", loc := "query", required := false,
                            cons := { ty := some "array", sc := [("uniqueItems", 1)] },
                            items := some (.node { ty := some "string", sc := [("enum", 2)] } []), schema := none }
    let hdr : Param2 Nat := { name := "", loc := "", required := false,
                              cons := { ty := some "integer", sc := [("minimum", 1)] }, items := none, schema := none }
    let r302 : RRef2 Nat := .val { desc := "moved", headers := [("X-Rate", hdr)], schema := none }
    let r200 : RRef2 Nat := .val { desc := "ok", headers := [], schema := some (.ref RK.def2 "A") }
    let d : Doc2 Nat := {
      loc := { host := "api.example.com", basePath := "/v1", schemes := ["http", "https"] }, consumes := [], produces := [],
      params := [("lim", .val { q with name := "limit" }), ("A", .val idp)], responses := [("nf", .val { desc := "not found", headers := [], schema := none })],
      defs := [("A", .node { ty := some "object", req := ["b"] }
                  [(Slot.prop "b", .ref RK.def2 "B"), (Slot.addl, .node { ty := some "integer" } [])]),
               ("B", .node { ty := some "string", xnull := true } [])],
      secs := [("o", { type := "oauth2", flow := "accessCode", authUrl := "https://a/x", tokenUrl := "https://a/t" })],
      paths := [{ path := "/p/{id}", params := [.ref RK.par2 "A"],
                  ops := [{ method := "get", opId := "g", consumes := [], produces := [], params := [.val q, .ref RK.par2 "lim"],
                            responses := [("200", r200), ("302", r302), ("404", .ref RK.resp2 "nf")] }] }] }
    docSimpleBack d = true := by
  decide

end KinModel.Conv
