/-
C12 with default injection (`DefaultsSet` under a request / response reading): theorems about `visitD`
(KinModel/Schema/Defaults.lean), the model that returns the event tree AND the value after validation.
-/
import KinModel.Props.C12
set_option linter.unusedSimpArgs false
set_option linter.unusedVariables false
namespace KinModel.Schema



theorem lookup_append {α} (k : String) (a b : List (String × α)) :
    lookup k (a ++ b) = (match lookup k a with | some x => some x | none => lookup k b) := by
  induction a with
  | nil => simp [lookup]
  | cons h t ih =>
    obtain ⟨k', x⟩ := h
    simp only [List.cons_append, lookup]
    by_cases hk : k = k'
    · simp [hk]
    · simp [hk, ih]

theorem propsD_lookup (m : Mode) (env : Env) (k : String) : ∀ (p : List (String × S)) (kvs : List (String × J)),
    lookup k (propsD m env p kvs) =
      (match lookup k p, lookup k kvs with | some s, some x => some (visitD m env s x) | _, _ => none)
  | [], kvs => by simp [propsD, lookup]
  | (k0, s0) :: ps, kvs => by
    rw [propsD, lookup_append, propsD_lookup m env k ps kvs]
    by_cases hk : k = k0
    · subst hk
      cases hx : lookup k kvs with
      | none => simp [lookup, hx]
      | some x => simp [lookup, hx]
    · cases hx : lookup k0 kvs with
      | none => simp [lookup, hk]
      | some x => simp [lookup, hk]

theorem addlD_lookup (m : Mode) (env : Env) (k : String) (t : S) : ∀ (l : List (String × J)),
    lookup k (addlD m env (some t) l) = (lookup k l).map (fun x => visitD m env t x)
  | [] => by simp [addlD, lookup]
  | (k0, x0) :: r => by
    have ih := addlD_lookup m env k t r
    simp only [addlD, List.map_cons, lookup] at ih ⊢
    by_cases hk : k = k0
    · simp [hk]
    · simp [hk, ih]

theorem undeclared_lookup (p : List (String × S)) (k : String) : ∀ (kvs : List (String × J)),
    lookup k (undeclared p kvs) = (if (lookup k p).isNone then lookup k kvs else none)
  | [] => by simp [undeclared, lookup]
  | (k0, x0) :: r => by
    have ih := undeclared_lookup p k r
    simp only [undeclared, List.filter_cons] at ih ⊢
    by_cases hk : k = k0
    · subst hk
      cases hp : (lookup k p).isNone <;> simp [lookup, hp, ih]
    · cases hp0 : (lookup k0 p).isNone <;> simp [lookup, hk, hp0, ih]

/-! ### T1: where nothing can be injected, `visitD` is `events` and the value is untouched -/

/-- nothing can be injected below this schema: no DefaultsSet / no reading, or no property default in the tree -/
def Inert (env : Env) (b : Bool) : Prop := env.injects = false ∨ b = false

theorem inject_id (env : Env) : ∀ (p : List (String × S)) (kvs : List (String × J)),
    hasPropDfltP p = false → inject env p kvs = kvs
  | [], kvs, _ => by simp [inject]
  | (k, s) :: ps, kvs, h => by
    simp only [hasPropDfltP, Bool.or_eq_false_iff] at h
    have hd : dfltFor env s = none := by
      unfold dfltFor; split
      · rfl
      · cases hdd : s.kw.dflt with
        | none => rfl
        | some d => simp [hdd] at h
    have : injectStep env k s kvs = kvs := by
      unfold injectStep; rw [hd]; cases lookup k kvs <;> rfl
    rw [inject, this]; exact inject_id env ps kvs h.2

theorem ownKvs_id (env : Env) (kw : Kw) (p : List (String × S)) (kvs : List (String × J))
    (h : Inert env (hasPropDfltP p)) : ownKvs env kw p (.obj kvs) = kvs := by
  unfold ownKvs
  rcases h with h | h
  · simp [h]
  · simp only; split
    · exact inject_id env p kvs h
    · rfl




theorem inert_or {env : Env} {a b : Bool} (h : Inert env (a || b)) : Inert env a ∧ Inert env b := by
  rcases h with h | h
  · exact ⟨Or.inl h, Or.inl h⟩
  · simp only [Bool.or_eq_false_iff] at h; exact ⟨Or.inr h.1, Or.inr h.2⟩

theorem passing_mem {o : Out} : ∀ {l : List Out}, o ∈ passing l → o ∈ l
  | [], h => by simp [passing] at h
  | x :: xs, h => by
    simp only [passing] at h
    split at h
    · rcases List.mem_cons.mp h with rfl | h'
      · simp
      · exact List.mem_cons_of_mem _ (passing_mem h')
    · exact List.mem_cons_of_mem _ (passing_mem h)

theorem firstPass_mem {o : Out} : ∀ {l : List Out}, firstPass l = some o → o ∈ l
  | [], h => by simp [firstPass] at h
  | x :: xs, h => by
    simp only [firstPass] at h
    split at h
    · cases h; simp
    · exact List.mem_cons_of_mem _ (firstPass_mem h)

theorem afterOne_same (c : List S) (kw : Kw) (ro : List Out) (v : J) (h : ∀ o ∈ ro, o.2 = v) : afterOne c kw ro v = v := by
  unfold afterOne
  split
  · rfl
  · split
    · rename_i o ho
      exact h o (passing_mem (by rw [ho]; simp))
    · rfl

theorem afterAny_same (b : List S) (ra : List Out) (v : J) (h : ∀ o ∈ ra, o.2 = v) : afterAny b ra v = v := by
  unfold afterAny
  split
  · rfl
  · split
    · rename_i o ho; exact h o (firstPass_mem ho)
    · rfl

theorem seqFin_same : ∀ (rl : List Out) (v : J), (∀ o ∈ rl, o.2 = v) → seqFin rl v = v
  | [], v, _ => by simp [seqFin]
  | o :: os, v, h => by
    have ho : o.2 = v := h o (by simp)
    simp only [seqFin, ho]
    split
    · exact seqFin_same os v (fun o' ho' => h o' (List.mem_cons_of_mem _ ho'))
    · rfl

theorem asmItems_map (m : Mode) (f : J → List Ev) : ∀ (xs : List J) (stop : Bool) (i : Nat),
    asmItems m stop i xs (xs.map (fun x => (f x, x))) = xs
  | [], stop, i => by simp [asmItems]
  | x :: xs, stop, i => by
    simp only [List.map_cons, asmItems]
    split <;> simp [asmItems_map m f xs]

theorem asmItems_nil (m : Mode) (stop : Bool) (i : Nat) (xs : List J) : asmItems m stop i xs [] = xs := by
  cases xs <;> simp [asmItems]

theorem itemEvs_map (env : Env) (t : S) : ∀ (xs : List J) (i : Nat),
    itemEvs i (xs.map (fun x => (events env t x, x))) = itemsEvs env t xs i
  | [], i => by simp [itemEvs, itemsEvs]
  | x :: xs, i => by simp [itemEvs, itemsEvs, itemEvs_map env t xs (i + 1)]




/-- the sub-visit results of the members of `l` are those of `events`, values untouched -/
structure MembersSame (env : Env) (p : List (String × S)) (ad : Option S) (props addl : List (String × Out))
    (l : List (String × J)) : Prop where
  prop : ∀ kx ∈ l, lookup kx.1 props = (lookup kx.1 p).map (fun s => (events env s kx.2, kx.2))
  addl : ∀ kx ∈ l, lookup kx.1 p = none → lookup kx.1 addl = ad.map (fun s => (events env s kx.2, kx.2))

theorem asmKvs_same (m : Mode) (env : Env) (p : List (String × S)) (ad : Option S) (has : Option Bool)
    (props addl : List (String × Out)) : ∀ (l : List (String × J)) (stop : Bool),
    MembersSame env p ad props addl l → asmKvs m has props addl stop l = l
  | [], _, _ => by simp [asmKvs]
  | (k, x) :: r, stop, h => by
    have hr : MembersSame env p ad props addl r :=
      ⟨fun kx hk => h.prop kx (List.mem_cons_of_mem _ hk), fun kx hk => h.addl kx (List.mem_cons_of_mem _ hk)⟩
    have hsel : selFin (propSel has (lookup k props) (lookup k addl)) x = x := by
      unfold selFin
      have hp := h.prop (k, x) (by simp)
      simp only at hp
      cases hlp : lookup k p with
      | some s => rw [hlp] at hp; simp only [Option.map_some] at hp; simp [propSel, hp]
      | none =>
        rw [hlp] at hp; simp only [Option.map_none] at hp
        have ha := h.addl (k, x) (by simp) hlp
        simp only at ha
        simp only [propSel, hp]
        split
        · rename_i o ho
          split at ho
          · rw [ha] at ho; cases ad <;> simp at ho; rw [← ho]
          · cases ho
        · rfl
    simp only [asmKvs]
    split
    · rw [asmKvs_same m env p ad has props addl r true hr]
    · rw [hsel, asmKvs_same m env p ad has props addl r _ hr]

theorem kvsEvs_same (env : Env) (p : List (String × S)) (ad : Option S) (has : Option Bool) (q : J)
    (props addl : List (String × Out)) : ∀ (l : List (String × J)),
    MembersSame env p ad props addl l → kvsEvs q has props addl l = propsEvs env p ad has q l
  | [], _ => by simp [kvsEvs, propsEvs]
  | (k, x) :: r, h => by
    have hr : MembersSame env p ad props addl r :=
      ⟨fun kx hk => h.prop kx (List.mem_cons_of_mem _ hk), fun kx hk => h.addl kx (List.mem_cons_of_mem _ hk)⟩
    rw [kvsEvs, propsEvs.eq_def, kvsEvs_same env p ad has q props addl r hr]
    congr 1
    have hp := h.prop (k, x) (by simp)
    simp only at hp
    unfold memberEvs
    cases hlp : lookup k p with
    | some s => rw [hlp] at hp; simp only [Option.map_some] at hp; simp [hp, propEv]
    | none =>
      rw [hlp] at hp; simp only [Option.map_none] at hp
      have ha := h.addl (k, x) (by simp) hlp
      simp only at ha
      rw [hp, ha]
      cases ad <;> simp



/-- the events of the items / members, as `events` builds them -/
def childEvsOf (env : Env) (kw : Kw) (i : Option S) (p : List (String × S)) (ad : Option S) (v : J) : List Ev :=
  match v with
  | .arr xs => (match i with | none => [] | some s => itemsEvs env s xs 0)
  | .obj kvs => propsEvs env p ad kw.addHas v kvs
  | _ => []

theorem events_unfold (env : Env) (kw : Kw) (a b c : List S) (n i : Option S) (p : List (String × S)) (ad : Option S) (v : J) :
    events env (S.mk kw a b c n i p ad) v =
      evCombine env kw a b c p (S.mk kw a b c n i p ad).shortcut v
        (match n with | none => [] | some s => [.comp .not (here "not" v [.lit "Doesn't match schema \"not\""]) [events env s v]])
        (eventsSel env (discCheck kw v).ref c v) (eventsEach env b v) (eventsEach env a v) (childEvsOf env kw i p ad v) := by
  rw [events.eq_def]; rfl

theorem ownD_same (m : Mode) (env : Env) (kw : Kw) (i : Option S) (p : List (String × S)) (ad : Option S) (v : J) (hw : WFJ v)
    (hip : Inert env (hasPropDfltP p))
    (hi : ∀ t, i = some t → ∀ x, WFJ x → visitD m env t x = (events env t x, x))
    (hp : ∀ k s, lookup k p = some s → ∀ x, WFJ x → visitD m env s x = (events env s x, x))
    (had : ∀ t, ad = some t → ∀ x, WFJ x → visitD m env t x = (events env t x, x)) :
    ownD m env kw p v (itemsD m env i (itemsOf v)) (propsD m env p (ownKvs env kw p v))
        (addlD m env ad (undeclared p (ownKvs env kw p v))) =
      (ownEvs env kw p v (childEvsOf env kw i p ad v), v) := by
  cases v with
  | null => simp [ownD, ownEvs, childEvsOf]
  | bool b => simp [ownD, ownEvs, childEvsOf]
  | num q => simp [ownD, ownEvs, childEvsOf]
  | str s => simp [ownD, ownEvs, childEvsOf]
  | arr xs =>
    simp only [ownD, itemsOf, ownEvs, ownEvsQ, childEvsOf]
    cases i with
    | none => simp [itemsD, asmItems_nil, itemEvs]
    | some t =>
      have hmap : itemsD m env (some t) xs = xs.map (fun x => (events env t x, x)) := by
        simp only [itemsD]
        apply List.map_congr_left
        intro x hx
        exact hi t rfl x (wfjl_mem hw x hx)
      rw [hmap, asmItems_map, itemEvs_map]
  | obj kvs =>
    have hk : ownKvs env kw p (.obj kvs) = kvs := ownKvs_id env kw p kvs hip
    simp only [WFJ] at hw
    have hmem : MembersSame env p ad (propsD m env p kvs) (addlD m env ad (undeclared p kvs)) kvs := by
      constructor
      · intro kx hkx
        have hl : lookup kx.1 kvs = some kx.2 := lookup_of_mem_nodup kvs kx.1 kx.2 hw.1 hkx
        rw [propsD_lookup, hl]
        cases hlp : lookup kx.1 p with
        | none => simp
        | some s => simp [hp kx.1 s hlp kx.2 (wfjp_mem hw.2 kx hkx)]
      · intro kx hkx hnone
        have hl : lookup kx.1 kvs = some kx.2 := lookup_of_mem_nodup kvs kx.1 kx.2 hw.1 hkx
        cases ad with
        | none => simp [addlD, lookup]
        | some t =>
          rw [addlD_lookup, undeclared_lookup, hnone, hl]
          simp [had t rfl kx.2 (wfjp_mem hw.2 kx hkx)]
    simp only [ownD, hk, ownEvs, ownEvsQ, childEvsOf]
    rw [asmKvs_same m env p ad kw.addHas _ _ kvs _ hmem, kvsEvs_same env p ad kw.addHas _ _ _ kvs hmem]




theorem outsEvs_map (l : List (List Ev)) (v : J) : outsEvs (l.map (fun t => (t, v))) = l := by
  simp [outsEvs, Function.comp_def]

theorem visitD_inert_all (m : Mode) (env : Env) :
    (∀ (s : S) (v : J), WFJ v → Inert env s.hasPropDflt → visitD m env s v = (events env s v, v)) ∧
    (∀ (ad : Option S) (_kvs : List (String × J)), Inert env (hasPropDfltO ad) →
        ∀ t, ad = some t → ∀ x, WFJ x → visitD m env t x = (events env t x, x)) ∧
    (∀ (p : List (String × S)) (_kvs : List (String × J)), Inert env (hasPropDfltP p) →
        ∀ k s, lookup k p = some s → ∀ x, WFJ x → visitD m env s x = (events env s x, x)) ∧
    (∀ (i : Option S) (_xs : List J), Inert env (hasPropDfltO i) →
        ∀ t, i = some t → ∀ x, WFJ x → visitD m env t x = (events env t x, x)) ∧
    (∀ (ss : List S) (v : J), WFJ v → Inert env (hasPropDfltL ss) →
        seqD m env ss v = (eventsEach env ss v).map (fun t => (t, v))) ∧
    (∀ (ss : List S) (v : J), WFJ v → Inert env (hasPropDfltL ss) →
        eachD m env ss v = (eventsEach env ss v).map (fun t => (t, v))) ∧
    (∀ (dr : String) (ss : List S) (v : J), WFJ v → Inert env (hasPropDfltL ss) →
        selD m env dr ss v = (eventsSel env dr ss v).map (fun t => (t, v))) ∧
    (∀ (n : Option S) (v : J), WFJ v → Inert env (hasPropDfltO n) →
        notD m env n v = (match n with | none => none | some t => some (events env t v, v))) := by
  refine visitD.mutual_induct m env
    (motive_1 := fun s v => WFJ v → Inert env s.hasPropDflt → visitD m env s v = (events env s v, v))
    (motive_2 := fun ad _ => Inert env (hasPropDfltO ad) → ∀ t, ad = some t → ∀ x, WFJ x → visitD m env t x = (events env t x, x))
    (motive_3 := fun p _ => Inert env (hasPropDfltP p) → ∀ k s, lookup k p = some s → ∀ x, WFJ x → visitD m env s x = (events env s x, x))
    (motive_4 := fun i _ => Inert env (hasPropDfltO i) → ∀ t, i = some t → ∀ x, WFJ x → visitD m env t x = (events env t x, x))
    (motive_5 := fun ss v => WFJ v → Inert env (hasPropDfltL ss) → seqD m env ss v = (eventsEach env ss v).map (fun t => (t, v)))
    (motive_6 := fun ss v => WFJ v → Inert env (hasPropDfltL ss) → eachD m env ss v = (eventsEach env ss v).map (fun t => (t, v)))
    (motive_7 := fun dr ss v => WFJ v → Inert env (hasPropDfltL ss) → selD m env dr ss v = (eventsSel env dr ss v).map (fun t => (t, v)))
    (motive_8 := fun n v => WFJ v → Inert env (hasPropDfltO n) →
        notD m env n v = (match n with | none => none | some t => some (events env t v, v)))
    ?main ?seqNil ?seqCons ?eachNil ?eachCons ?selNil ?selCons ?adNone ?adSome ?itNone ?itSome ?notNone ?notSome ?pNil ?pCons
  case seqNil => intro v _ _; simp [seqD, eventsEach]
  case seqCons =>
    intro s ss v ih1 ih2 hw hi
    simp only [hasPropDfltL] at hi
    obtain ⟨hi1, hi2⟩ := inert_or hi
    have e1 := ih1 hw hi1
    rw [seqD, e1]
    rw [e1] at ih2
    simp only [eventsEach, List.map_cons]
    rw [ih2 hw hi2]
  case eachNil => intro v _ _; simp [eachD, eventsEach]
  case eachCons =>
    intro s ss v ih1 ih2 hw hi
    simp only [hasPropDfltL] at hi
    obtain ⟨hi1, hi2⟩ := inert_or hi
    rw [eachD, ih1 hw hi1, ih2 hw hi2]
    simp [eventsEach]
  case selNil => intro dr v _ _; simp [selD, eventsSel]
  case selCons =>
    intro dr s ss v ih1 ih2 hw hi
    simp only [hasPropDfltL] at hi
    obtain ⟨hi1, hi2⟩ := inert_or hi
    rw [selD, ih1 hw hi1, ih2 hw hi2]
    simp only [eventsSel, List.map_cons]
    cases selOK dr s <;> simp
  case adNone => intro _ _ t h; cases h
  case adSome =>
    intro t kvs ih hi t' ht x hx
    cases ht
    exact ih ("", x) hx (by simpa [hasPropDfltO] using hi)
  case itNone => intro _ _ t h; cases h
  case itSome =>
    intro t xs ih hi t' ht x hx
    cases ht
    exact ih x hx (by simpa [hasPropDfltO] using hi)
  case notNone => intro v _ _; simp [notD]
  case notSome =>
    intro t v ih hw hi
    simp only [notD]
    rw [ih hw (by simpa [hasPropDfltO] using hi)]
  case pNil => intro kvs _ k s h; simp [lookup] at h
  case pCons =>
    intro k0 s0 ps kvs ih1 ih2 hi k s hl x hx
    simp only [hasPropDfltP] at hi
    obtain ⟨hi1, hi3⟩ := inert_or hi
    obtain ⟨_, hi2⟩ := inert_or hi1
    simp only [lookup] at hl
    split at hl
    · cases hl; exact ih1 x hx hi2
    · exact ih2 hi3 k s hl x hx
  case main =>
    intro kw a b c n i p ad v
    dsimp only
    intro ihn iho iha ihl ihi ihp ihad hw hi
    unfold S.hasPropDflt at hi
    obtain ⟨hi6, hiad⟩ := inert_or hi
    obtain ⟨hi5, hip⟩ := inert_or hi6
    obtain ⟨hi4, hii⟩ := inert_or hi5
    obtain ⟨hi3, hin⟩ := inert_or hi4
    obtain ⟨hi2, hic⟩ := inert_or hi3
    obtain ⟨hia, hib⟩ := inert_or hi2
    have en := ihn hw hin
    have eo := iho hw hic
    have hv2 : afterOne c kw (selD m env (discCheck kw v).ref c v) v = v := by
      apply afterOne_same; rw [eo]; intro o ho; simp only [List.mem_map] at ho; obtain ⟨t, _, rfl⟩ := ho; rfl
    rw [hv2] at iha
    have ea := iha hw hib
    have hv3 : afterAny b (eachD m env b v) v = v := by
      apply afterAny_same; rw [ea]; intro o ho; simp only [List.mem_map] at ho; obtain ⟨t, _, rfl⟩ := ho; rfl
    rw [hv2, hv3] at ihl
    have el := ihl hw hia
    have hv4 : seqFin (seqD m env a v) v = v := by
      apply seqFin_same; rw [el]; intro o ho; simp only [List.mem_map] at ho; obtain ⟨t, _, rfl⟩ := ho; rfl
    have hown := ownD_same m env kw i p ad v hw hip (ihi hii) (ihp hip) (ihad hiad)
    unfold visitD
    simp only [hv2, hv3, hv4]
    rw [events_unfold]
    unfold nodeD evCombine
    simp only [hv2, hv3, hv4, hown, ite_self]
    rw [en, eo, ea, el]
    simp only [outsEvs_map]
    by_cases h1 : (v.isNull && kw.permitsNull) = true
    · simp only [h1, if_true]
    · by_cases h2 : (S.mk kw a b c n i p ad).shortcut = true
      · simp only [h1, h2, if_true, if_false, Bool.false_eq_true]
      · simp only [h1, h2, if_false, Bool.false_eq_true, enumEvs]
        cases n <;> rfl


/-- **T1 (the two models coincide).** Without `DefaultsSet` under a request/response reading, or for a schema that declares
no property default anywhere, `visitD` produces — in every mode — exactly the mode-free event tree of `events` and
returns the value untouched: every theorem about `validate` (verdict = C01's, errors located, reasons value-free)
holds for `validateD` on such inputs. -/
theorem visitD_inert (m : Mode) (env : Env) (s : S) (v : J) (hw : WFJ v) (h : env.injects = false ∨ s.hasPropDflt = false) :
    visitD m env s v = (events env s v, v) := (visitD_inert_all m env).1 s v hw h

theorem validateD_inert (m : Mode) (env : Env) (s : S) (v : J) (hw : WFJ v) (h : env.injects = false ∨ s.hasPropDflt = false) :
    validateD m env s v = (validate m env s v, v) := by
  unfold validateD validate; rw [visitD_inert m env s v hw h]



mutual
/-- the defaults the injection loop can take from this schema are well-formed values (distinct keys at every level) -/
def S.dfltsWF : S → Prop
  | .mk _ a b c n i p ad => dfltsWFL a ∧ dfltsWFL b ∧ dfltsWFL c ∧ dfltsWFO n ∧ dfltsWFO i ∧ dfltsWFP p ∧ dfltsWFO ad
def dfltsWFL : List S → Prop
  | [] => True
  | s :: ss => s.dfltsWF ∧ dfltsWFL ss
def dfltsWFO : Option S → Prop
  | none => True
  | some s => s.dfltsWF
def dfltsWFP : List (String × S) → Prop
  | [] => True
  | (_, s) :: ps => (∀ d, s.kw.dflt = some d → WFJ d) ∧ s.dfltsWF ∧ dfltsWFP ps
end

theorem keysOf_insertKey (k : String) (d : J) : ∀ (kvs : List (String × J)) (k' : String),
    k' ∈ keysOf (insertKey k d kvs) ↔ k' = k ∨ k' ∈ keysOf kvs
  | [], k' => by simp [insertKey, keysOf]
  | (k0, x0) :: r, k' => by
    simp only [insertKey]
    split
    · simp [keysOf]
    · simp only [keysOf, List.mem_cons, keysOf_insertKey k d r k']
      constructor
      · rintro (h | h | h) <;> simp [h]
      · rintro (h | h | h) <;> simp [h]

theorem lookup_none_not_mem : ∀ (kvs : List (String × J)) (k : String), lookup k kvs = none → k ∉ keysOf kvs
  | [], k, _ => by simp [keysOf]
  | (k0, x0) :: r, k, h => by
    simp only [lookup] at h
    split at h
    · cases h
    · rename_i hne
      simp only [keysOf, List.mem_cons, not_or]
      exact ⟨hne, lookup_none_not_mem r k h⟩

theorem insertKey_wf (k : String) (d : J) (hd : WFJ d) : ∀ (kvs : List (String × J)),
    k ∉ keysOf kvs → (keysOf kvs).Nodup → WFJP kvs → (keysOf (insertKey k d kvs)).Nodup ∧ WFJP (insertKey k d kvs)
  | [], _, _, _ => by simp [insertKey, keysOf, WFJP, hd]
  | (k0, x0) :: r, hk, hn, hw => by
    simp only [keysOf, List.mem_cons, not_or] at hk
    simp only [keysOf, List.nodup_cons] at hn
    simp only [WFJP] at hw
    simp only [insertKey]
    split
    · simp only [keysOf, List.nodup_cons, List.mem_cons, not_or, WFJP]
      exact ⟨⟨⟨hk.1, hk.2⟩, hn.1, hn.2⟩, hd, hw.1, hw.2⟩
    · obtain ⟨h1, h2⟩ := insertKey_wf k d hd r hk.2 hn.2 hw.2
      simp only [keysOf, List.nodup_cons, WFJP]
      refine ⟨⟨?_, h1⟩, hw.1, h2⟩
      rw [keysOf_insertKey]
      intro h; rcases h with h | h
      · exact hk.1 h.symm
      · exact hn.1 h

theorem inject_wf (env : Env) : ∀ (p : List (String × S)) (kvs : List (String × J)),
    dfltsWFP p → (keysOf kvs).Nodup → WFJP kvs → (keysOf (inject env p kvs)).Nodup ∧ WFJP (inject env p kvs)
  | [], kvs, _, hn, hw => by simp [inject, hn, hw]
  | (k, s) :: ps, kvs, hp, hn, hw => by
    simp only [dfltsWFP] at hp
    rw [inject]
    have hstep : (keysOf (injectStep env k s kvs)).Nodup ∧ WFJP (injectStep env k s kvs) := by
      unfold injectStep
      split
      · rename_i d hl hd
        have hdw : WFJ d := by
          unfold dfltFor at hd; split at hd
          · cases hd
          · exact hp.1 d hd
        exact insertKey_wf k d hdw kvs (lookup_none_not_mem kvs k hl) hn hw
      · exact ⟨hn, hw⟩
    exact inject_wf env ps _ hp.2.2 hstep.1 hstep.2


theorem lookup_some_mem {α} : ∀ (kvs : List (String × α)) (k : String) (x : α), lookup k kvs = some x → (k, x) ∈ kvs
  | [], _, _, h => by simp [lookup] at h
  | (k0, x0) :: r, k, x, h => by
    simp only [lookup] at h
    split at h
    · cases h; rename_i hk; subst hk; simp
    · exact List.mem_cons_of_mem _ (lookup_some_mem r k x h)

theorem seqFin_cases : ∀ (rl : List Out) (v : J), seqFin rl v = v ∨ ∃ o ∈ rl, seqFin rl v = o.2
  | [], v => by simp [seqFin]
  | o :: os, v => by
    simp only [seqFin]
    split
    · rcases seqFin_cases os o.2 with h | ⟨o', ho', h⟩
      · right; exact ⟨o, by simp, h⟩
      · right; exact ⟨o', List.mem_cons_of_mem _ ho', h⟩
    · right; exact ⟨o, by simp, rfl⟩

theorem afterOne_cases (c : List S) (kw : Kw) (ro : List Out) (v : J) : afterOne c kw ro v = v ∨ ∃ o ∈ ro, afterOne c kw ro v = o.2 := by
  unfold afterOne
  split
  · left; rfl
  · split
    · rename_i o ho; right; exact ⟨o, passing_mem (by rw [ho]; simp), rfl⟩
    · left; rfl

theorem afterAny_cases (b : List S) (ra : List Out) (v : J) : afterAny b ra v = v ∨ ∃ o ∈ ra, afterAny b ra v = o.2 := by
  unfold afterAny
  split
  · left; rfl
  · split
    · rename_i o ho; right; exact ⟨o, firstPass_mem ho, rfl⟩
    · left; rfl

theorem asmItems_wf (m : Mode) : ∀ (xs : List J) (os : List Out) (stop : Bool) (i : Nat),
    WFJL xs → (∀ o ∈ os, WFJ o.2) → WFJL (asmItems m stop i xs os)
  | [], os, stop, i, _, _ => by simp [asmItems, WFJL]
  | x :: xs, [], stop, i, hx, _ => by simpa [asmItems] using hx
  | x :: xs, o :: os, stop, i, hx, ho => by
    simp only [WFJL] at hx
    have hos : ∀ o' ∈ os, WFJ o'.2 := fun o' h => ho o' (List.mem_cons_of_mem _ h)
    simp only [asmItems]
    split
    · exact ⟨hx.1, asmItems_wf m xs os true (i + 1) hx.2 hos⟩
    · exact ⟨ho o (by simp), asmItems_wf m xs os _ (i + 1) hx.2 hos⟩

theorem asmKvs_wf (m : Mode) (has : Option Bool) (props addl : List (String × Out))
    (hp : ∀ k o, lookup k props = some o → WFJ o.2) (ha : ∀ k o, lookup k addl = some o → WFJ o.2) :
    ∀ (l : List (String × J)) (stop : Bool), WFJP l →
      keysOf (asmKvs m has props addl stop l) = keysOf l ∧ WFJP (asmKvs m has props addl stop l)
  | [], _, _ => by simp [asmKvs, keysOf, WFJP]
  | (k, x) :: r, stop, hw => by
    simp only [WFJP] at hw
    simp only [asmKvs]
    split
    · obtain ⟨h1, h2⟩ := asmKvs_wf m has props addl hp ha r true hw.2
      simp [keysOf, WFJP, h1, h2, hw.1]
    · obtain ⟨h1, h2⟩ := asmKvs_wf m has props addl hp ha r (haltsL m (memberEvs .null has props addl k)) hw.2
      have hs : WFJ (selFin (propSel has (lookup k props) (lookup k addl)) x) := by
        unfold selFin
        split
        · rename_i o ho
          unfold propSel at ho
          split at ho
          · rename_i o' ho'; cases ho; exact hp k _ ho'
          · split at ho
            · exact ha k _ ho
            · cases ho
        · exact hw.1
      simp [keysOf, WFJP, h1, h2, hs]



theorem nodeD_fin_cases (m : Mode) (env : Env) (kw : Kw) (a b c : List S) (p : List (String × S)) (sc : Bool) (v : J) (r : Subs) :
    let v1 := v
    let v2 := afterOne c kw r.ro v1
    let v3 := afterAny b r.ra v2
    let v4 := seqFin r.rl v3
    (nodeD m env kw a b c p sc v r).2 = v ∨ (nodeD m env kw a b c p sc v r).2 = v1 ∨ (nodeD m env kw a b c p sc v r).2 = v2 ∨
    (nodeD m env kw a b c p sc v r).2 = v4 ∨ (nodeD m env kw a b c p sc v r).2 = (ownD m env kw p v4 r.items r.props r.addl).2 := by
  intro v1 v2 v3 v4
  unfold nodeD
  split
  · left; rfl
  · split
    · left; rfl
    · dsimp only
      split
      · right; left; rfl
      · split
        · right; left; rfl
        · split
          · right; right; left; rfl
          · split
            · right; right; right; left; rfl
            · split
              · right; right; right; left; rfl
              · split
                · right; right; right; left; rfl
                · right; right; right; right; rfl

theorem ownKvs_wf (env : Env) (kw : Kw) (p : List (String × S)) (kvs : List (String × J))
    (hp : dfltsWFP p) (hn : (keysOf kvs).Nodup) (hw : WFJP kvs) :
    (keysOf (ownKvs env kw p (.obj kvs))).Nodup ∧ WFJP (ownKvs env kw p (.obj kvs)) := by
  unfold ownKvs
  simp only
  split
  · exact inject_wf env p kvs hp hn hw
  · exact ⟨hn, hw⟩

theorem ownD_wf (m : Mode) (env : Env) (kw : Kw) (i : Option S) (p : List (String × S)) (ad : Option S) (v : J) (hw : WFJ v)
    (hsp : dfltsWFP p)
    (hi : ∀ t, i = some t → ∀ x, WFJ x → WFJ (visitD m env t x).2)
    (hp : ∀ k s, lookup k p = some s → ∀ x, WFJ x → WFJ (visitD m env s x).2)
    (had : ∀ t, ad = some t → ∀ x, WFJ x → WFJ (visitD m env t x).2) :
    WFJ (ownD m env kw p v (itemsD m env i (itemsOf v)) (propsD m env p (ownKvs env kw p v))
        (addlD m env ad (undeclared p (ownKvs env kw p v)))).2 := by
  cases v with
  | null => simp [ownD, WFJ]
  | bool b => simp [ownD, WFJ]
  | num q => simp [ownD, WFJ]
  | str s => simp [ownD, WFJ]
  | arr xs =>
    simp only [ownD, itemsOf, WFJ]
    simp only [WFJ] at hw
    apply asmItems_wf m xs _ _ 0 hw
    intro o ho
    cases i with
    | none => simp [itemsD] at ho
    | some t =>
      simp only [itemsD, List.mem_map] at ho
      obtain ⟨x, hx, rfl⟩ := ho
      exact hi t rfl x (wfjl_mem hw x hx)
  | obj kvs =>
    simp only [WFJ] at hw
    obtain ⟨hn', hw'⟩ := ownKvs_wf env kw p kvs hsp hw.1 hw.2
    simp only [ownD, WFJ]
    have hprops : ∀ k o, lookup k (propsD m env p (ownKvs env kw p (.obj kvs))) = some o → WFJ o.2 := by
      intro k o ho
      rw [propsD_lookup] at ho
      split at ho
      · rename_i s x hs hx
        cases ho
        exact hp k s hs x (wfjp_mem hw' (k, x) (lookup_some_mem _ k x hx))
      · cases ho
    have haddl : ∀ k o, lookup k (addlD m env ad (undeclared p (ownKvs env kw p (.obj kvs)))) = some o → WFJ o.2 := by
      intro k o ho
      cases ad with
      | none => simp [addlD, lookup] at ho
      | some t =>
        rw [addlD_lookup, undeclared_lookup] at ho
        split at ho
        · cases hl : lookup k (ownKvs env kw p (.obj kvs)) with
          | none => simp [hl] at ho
          | some x =>
            simp only [hl, Option.map_some, Option.some.injEq] at ho
            subst ho
            exact had t rfl x (wfjp_mem hw' (k, x) (lookup_some_mem _ k x hl))
        · simp at ho
    obtain ⟨h1, h2⟩ := asmKvs_wf m kw.addHas _ _ hprops haddl (ownKvs env kw p (.obj kvs)) _ hw'
    exact ⟨by rw [h1]; exact hn', h2⟩

theorem visitD_wf_all (m : Mode) (env : Env) :
    (∀ (s : S) (v : J), WFJ v → s.dfltsWF → WFJ (visitD m env s v).2) ∧
    (∀ (ad : Option S) (_kvs : List (String × J)), dfltsWFO ad → ∀ t, ad = some t → ∀ x, WFJ x → WFJ (visitD m env t x).2) ∧
    (∀ (p : List (String × S)) (_kvs : List (String × J)), dfltsWFP p → ∀ k s, lookup k p = some s → ∀ x, WFJ x → WFJ (visitD m env s x).2) ∧
    (∀ (i : Option S) (_xs : List J), dfltsWFO i → ∀ t, i = some t → ∀ x, WFJ x → WFJ (visitD m env t x).2) ∧
    (∀ (ss : List S) (v : J), WFJ v → dfltsWFL ss → ∀ o ∈ seqD m env ss v, WFJ o.2) ∧
    (∀ (ss : List S) (v : J), WFJ v → dfltsWFL ss → ∀ o ∈ eachD m env ss v, WFJ o.2) ∧
    (∀ (dr : String) (ss : List S) (v : J), WFJ v → dfltsWFL ss → ∀ o ∈ selD m env dr ss v, WFJ o.2) ∧
    (∀ (n : Option S) (v : J), WFJ v → dfltsWFO n → ∀ o, notD m env n v = some o → WFJ o.2) := by
  refine visitD.mutual_induct m env
    (motive_1 := fun s v => WFJ v → s.dfltsWF → WFJ (visitD m env s v).2)
    (motive_2 := fun ad _ => dfltsWFO ad → ∀ t, ad = some t → ∀ x, WFJ x → WFJ (visitD m env t x).2)
    (motive_3 := fun p _ => dfltsWFP p → ∀ k s, lookup k p = some s → ∀ x, WFJ x → WFJ (visitD m env s x).2)
    (motive_4 := fun i _ => dfltsWFO i → ∀ t, i = some t → ∀ x, WFJ x → WFJ (visitD m env t x).2)
    (motive_5 := fun ss v => WFJ v → dfltsWFL ss → ∀ o ∈ seqD m env ss v, WFJ o.2)
    (motive_6 := fun ss v => WFJ v → dfltsWFL ss → ∀ o ∈ eachD m env ss v, WFJ o.2)
    (motive_7 := fun dr ss v => WFJ v → dfltsWFL ss → ∀ o ∈ selD m env dr ss v, WFJ o.2)
    (motive_8 := fun n v => WFJ v → dfltsWFO n → ∀ o, notD m env n v = some o → WFJ o.2)
    ?main ?seqNil ?seqCons ?eachNil ?eachCons ?selNil ?selCons ?adNone ?adSome ?itNone ?itSome ?notNone ?notSome ?pNil ?pCons
  case seqNil => intro v _ _ o ho; simp [seqD] at ho
  case seqCons =>
    intro s ss v ih1 ih2 hw hs o ho
    simp only [dfltsWFL] at hs
    simp only [seqD, List.mem_cons] at ho
    rcases ho with rfl | ho
    · exact ih1 hw hs.1
    · exact ih2 (ih1 hw hs.1) hs.2 o ho
  case eachNil => intro v _ _ o ho; simp [eachD] at ho
  case eachCons =>
    intro s ss v ih1 ih2 hw hs o ho
    simp only [dfltsWFL] at hs
    simp only [eachD, List.mem_cons] at ho
    rcases ho with rfl | ho
    · exact ih1 hw hs.1
    · exact ih2 hw hs.2 o ho
  case selNil => intro dr v _ _ o ho; simp [selD] at ho
  case selCons =>
    intro dr s ss v ih1 ih2 hw hs o ho
    simp only [dfltsWFL] at hs
    simp only [selD, List.mem_cons] at ho
    rcases ho with rfl | ho
    · split
      · exact ih1 hw hs.1
      · exact hw
    · exact ih2 hw hs.2 o ho
  case adNone => intro _ _ t h; cases h
  case adSome =>
    intro t kvs ih hs t' ht x hx
    cases ht
    exact ih ("", x) hx (by simpa [dfltsWFO] using hs)
  case itNone => intro _ _ t h; cases h
  case itSome =>
    intro t xs ih hs t' ht x hx
    cases ht
    exact ih x hx (by simpa [dfltsWFO] using hs)
  case notNone => intro v _ _ o ho; simp [notD] at ho
  case notSome =>
    intro t v ih hw hs o ho
    simp only [notD, Option.some.injEq] at ho
    subst ho
    exact ih hw (by simpa [dfltsWFO] using hs)
  case pNil => intro kvs _ k s h; simp [lookup] at h
  case pCons =>
    intro k0 s0 ps kvs ih1 ih2 hs k s hl x hx
    simp only [dfltsWFP] at hs
    simp only [lookup] at hl
    split at hl
    · cases hl; exact ih1 x hx hs.2.1
    · exact ih2 hs.2.2 k s hl x hx
  case main =>
    intro kw a b c n i p ad v
    dsimp only
    intro ihn iho iha ihl ihi ihp ihad hw hs
    unfold S.dfltsWF at hs
    obtain ⟨hsa, hsb, hsc, hsn, hsi, hsp, hsad⟩ := hs
    unfold visitD
    simp only []
    have w1 : WFJ v := hw
    have wro := iho w1 hsc
    generalize hro : selD m env (discCheck kw v).ref c v = ro at *
    have w2 : WFJ (afterOne c kw ro v) := by
      rcases afterOne_cases c kw ro v with h | ⟨o, ho, h⟩
      · rw [h]; exact w1
      · rw [h]; exact wro o ho
    generalize hv2 : afterOne c kw ro v = v2 at *
    have wra := iha w2 hsb
    generalize hra : eachD m env b v2 = ra at *
    have w3 : WFJ (afterAny b ra v2) := by
      rcases afterAny_cases b ra v2 with h | ⟨o, ho, h⟩
      · rw [h]; exact w2
      · rw [h]; exact wra o ho
    generalize hv3 : afterAny b ra v2 = v3 at *
    have wrl := ihl w3 hsa
    generalize hrl : seqD m env a v3 = rl at *
    have w4 : WFJ (seqFin rl v3) := by
      rcases seqFin_cases rl v3 with h | ⟨o, ho, h⟩
      · rw [h]; exact w3
      · rw [h]; exact wrl o ho
    generalize hv4 : seqFin rl v3 = v4 at *
    have wown := ownD_wf m env kw i p ad v4 w4 hsp (ihi hsi) (ihp hsp) (ihad hsad)
    rcases nodeD_fin_cases m env kw a b c p (S.mk kw a b c n i p ad).shortcut v
      { rn := notD m env n v, ro := ro, ra := ra, rl := rl, items := itemsD m env i (itemsOf v4),
        props := propsD m env p (ownKvs env kw p v4), addl := addlD m env ad (undeclared p (ownKvs env kw p v4)) }
      with h | h | h | h | h
    · rw [h]; exact hw
    all_goals try simp only [hro, hv2, hra, hv3, hrl, hv4] at h
    · rw [h]; exact w1
    · rw [h]; exact w2
    · rw [h]; exact w4
    · rw [h]; exact wown




/-- two sub-visit results agree: same verdict, and — when accepted — the same value afterwards -/
def Agree (o o' : Out) : Prop := passesL o.1 = passesL o'.1 ∧ (passesL o.1 = true → o.2 = o'.2)

theorem Agree.refl (o : Out) : Agree o o := ⟨rfl, fun _ => rfl⟩

inductive AgreeL : List Out → List Out → Prop
  | nil : AgreeL [] []
  | cons {o o' l l'} : Agree o o' → AgreeL l l' → AgreeL (o :: l) (o' :: l')

theorem agreeL_passCount : ∀ {l l' : List Out}, AgreeL l l' → passCount (outsEvs l) = passCount (outsEvs l')
  | _, _, .nil => rfl
  | _, _, .cons h t => by
    simp only [outsEvs, List.map_cons, passCount, h.1]
    have := agreeL_passCount t
    simp only [outsEvs] at this
    rw [this]

theorem agreeL_length : ∀ {l l' : List Out}, AgreeL l l' → l.length = l'.length
  | _, _, .nil => rfl
  | _, _, .cons _ t => by simp [agreeL_length t]

/-- the accepting candidates correspond, with the same values afterwards -/
theorem agreeL_passing : ∀ {l l' : List Out}, AgreeL l l' → (passing l).map (·.2) = (passing l').map (·.2)
  | _, _, .nil => rfl
  | _, _, .cons (o := o) (o' := o') h t => by
    simp only [passing]
    cases hp : passesL o.1 with
    | true =>
      have hp' : passesL o'.1 = true := by rw [← h.1]; exact hp
      simp [hp, hp', h.2 hp, agreeL_passing t]
    | false =>
      have hp' : passesL o'.1 = false := by rw [← h.1]; exact hp
      simp [hp, hp', agreeL_passing t]

theorem agreeL_afterOne (c : List S) (kw : Kw) {l l' : List Out} (h : AgreeL l l') (v : J) :
    afterOne c kw l v = afterOne c kw l' v := by
  unfold afterOne
  split
  · rfl
  · have hm := agreeL_passing h
    cases hl : passing l with
    | nil =>
      rw [hl] at hm
      cases hl' : passing l' with
      | nil => rfl
      | cons a r => rw [hl'] at hm; simp at hm
    | cons o r =>
      rw [hl] at hm
      cases hl' : passing l' with
      | nil => rw [hl'] at hm; simp at hm
      | cons o' r' =>
        rw [hl'] at hm
        simp only [List.map_cons, List.cons.injEq] at hm
        cases r with
        | nil =>
          cases r' with
          | nil => simpa using hm.1
          | cons _ _ => simp at hm
        | cons _ _ =>
          cases r' with
          | nil => simp at hm
          | cons _ _ => rfl

theorem agreeL_firstPass : ∀ {l l' : List Out}, AgreeL l l' → (firstPass l).map (·.2) = (firstPass l').map (·.2)
  | _, _, .nil => rfl
  | _, _, .cons (o := o) (o' := o') h t => by
    simp only [firstPass]
    cases hp : passesL o.1 with
    | true =>
      have hp' : passesL o'.1 = true := by rw [← h.1]; exact hp
      simp [hp, hp', h.2 hp]
    | false =>
      have hp' : passesL o'.1 = false := by rw [← h.1]; exact hp
      simp [hp, hp', agreeL_firstPass t]

theorem agreeL_afterAny (b : List S) {l l' : List Out} (h : AgreeL l l') (v : J) : afterAny b l v = afterAny b l' v := by
  unfold afterAny
  split
  · rfl
  · have hm := agreeL_firstPass h
    cases hl : firstPass l <;> cases hl' : firstPass l' <;> rw [hl, hl'] at hm <;> simp at hm ⊢
    exact hm

theorem agreeL_oneOK (c : List S) (kw : Kw) {l l' : List Out} (h : AgreeL l l') (v : J) : oneOK c kw l v = oneOK c kw l' v := by
  unfold oneOK; rw [agreeL_passCount h]
theorem agreeL_anyOK (b : List S) {l l' : List Out} (h : AgreeL l l') : anyOK b l = anyOK b l' := by
  unfold anyOK; rw [agreeL_passCount h]


theorem runL_halt_nonempty (π : Policy) : ∀ t : List Ev, (runL π t).2 = true → (runL π t).1 ≠ []
  | [], h => by simp [runL] at h
  | e :: es, h => by
    simp only [runL] at h ⊢
    split at h
    · rename_i hs; simp only [hs, if_true]; exact ((run_agrees π).1 e).2 hs
    · rename_i hs
      simp only [hs, if_false, Bool.false_eq_true]
      intro hc
      have := runL_halt_nonempty π es h
      simp only [List.append_eq_nil_iff] at hc
      exact this hc.2

/-- a level that passes is never left early -/
theorem halts_false_of_passes (m : Mode) (t : List Ev) (h : passesL t = true) : haltsL m t = false := by
  unfold haltsL
  cases hh : (runL m.policy t).2 with
  | false => rfl
  | true =>
    have hne := runL_halt_nonempty m.policy t hh
    have he := (run_agrees m.policy).2.2 t
    rw [h] at he
    cases hl : (runL m.policy t).1 with
    | nil => exact absurd hl hne
    | cons a b => rw [hl] at he; simp at he

theorem passesL_itemEvs : ∀ (os : List Out) (i : Nat), passesL (itemEvs i os) = os.all (fun o => passesL o.1)
  | [], i => by simp [itemEvs, passesL]
  | o :: os, i => by simp [itemEvs, passesL, Ev.passes, passesL_itemEvs os (i + 1)]

theorem asmItems_all_pass (m : Mode) : ∀ (xs : List J) (os : List Out) (i : Nat),
    os.length = xs.length → (∀ o ∈ os, passesL o.1 = true) → asmItems m false i xs os = os.map (·.2)
  | [], [], i, _, _ => by simp [asmItems]
  | [], o :: os, i, h, _ => by simp at h
  | x :: xs, [], i, h, _ => by simp at h
  | x :: xs, o :: os, i, h, hp => by
    have ho : passesL o.1 = true := hp o (by simp)
    have hh : haltsL m [Ev.child (Tok.idx i) o.1] = false :=
      halts_false_of_passes m _ (by simp [passesL, Ev.passes, ho])
    simp only [asmItems, Bool.false_eq_true, if_false, hh, List.map_cons]
    rw [asmItems_all_pass m xs os (i + 1) (by simpa using h) (fun o' ho' => hp o' (List.mem_cons_of_mem _ ho'))]


/-- per-member results of two runs agree -/
def LookAgree : Option Out → Option Out → Prop
  | none, none => True
  | some o, some o' => Agree o o'
  | _, _ => False

theorem agreeL_all : ∀ {l l' : List Out}, AgreeL l l' → l.all (fun o => passesL o.1) = l'.all (fun o => passesL o.1)
  | _, _, .nil => rfl
  | _, _, .cons h t => by simp [h.1, agreeL_all t]

theorem agreeL_snd : ∀ {l l' : List Out}, AgreeL l l' → (∀ o ∈ l, passesL o.1 = true) → l.map (·.2) = l'.map (·.2)
  | _, _, .nil, _ => rfl
  | _, _, .cons (o := o) h t, hp => by
    simp only [List.map_cons, h.2 (hp o (by simp)), agreeL_snd t (fun o' ho' => hp o' (List.mem_cons_of_mem _ ho'))]

theorem passesL_memberEvs (q : J) (has : Option Bool) (props addl : List (String × Out)) (k : String) :
    passesL (memberEvs q has props addl k) =
      propRes has ((lookup k props).map (fun o => passesL o.1)) ((lookup k addl).map (fun o => passesL o.1)) := by
  unfold memberEvs
  rw [propEv_passes]
  simp [Option.map_map, Function.comp_def]

theorem passesL_kvsEvs (q : J) (has : Option Bool) (props addl : List (String × Out)) : ∀ (l : List (String × J)),
    passesL (kvsEvs q has props addl l) = l.all (fun kx => passesL (memberEvs .null has props addl kx.1))
  | [] => by simp [kvsEvs, passesL]
  | (k, x) :: r => by
    simp only [kvsEvs, passesL_append, List.all_cons, passesL_kvsEvs q has props addl r]
    congr 1
    rw [passesL_memberEvs, passesL_memberEvs]

theorem lookAgree_pass {a a' : Option Out} (h : LookAgree a a') :
    a.map (fun o => passesL o.1) = a'.map (fun o => passesL o.1) := by
  cases a <;> cases a' <;> simp [LookAgree] at h ⊢
  exact h.1

theorem memberEvs_agree (has : Option Bool) (props addl props' addl' : List (String × Out)) (k : String)
    (hp : LookAgree (lookup k props) (lookup k props')) (ha : LookAgree (lookup k addl) (lookup k addl')) :
    passesL (memberEvs .null has props addl k) = passesL (memberEvs .null has props' addl' k) := by
  rw [passesL_memberEvs, passesL_memberEvs, lookAgree_pass hp, lookAgree_pass ha]

/-- a member that passes: the sub-visit it selected passed, so the two runs left the same value -/
theorem selFin_agree (has : Option Bool) (props addl props' addl' : List (String × Out)) (k : String) (x : J)
    (hp : LookAgree (lookup k props) (lookup k props')) (ha : LookAgree (lookup k addl) (lookup k addl'))
    (hpass : passesL (memberEvs .null has props addl k) = true) :
    selFin (propSel has (lookup k props) (lookup k addl)) x = selFin (propSel has (lookup k props') (lookup k addl')) x := by
  rw [passesL_memberEvs] at hpass
  unfold propRes at hpass
  unfold selFin propSel
  cases h1 : lookup k props with
  | some o =>
    cases h1' : lookup k props' with
    | none => rw [h1, h1'] at hp; simp [LookAgree] at hp
    | some o' =>
      rw [h1, h1'] at hp
      rw [h1] at hpass
      simp only [Option.map_some] at hpass
      simp only
      exact hp.2 hpass
  | none =>
    cases h1' : lookup k props' with
    | some o' => rw [h1, h1'] at hp; simp [LookAgree] at hp
    | none =>
      rw [h1] at hpass
      simp only [Option.map_none] at hpass
      simp only
      cases hh : (has != some false) with
      | false => simp
      | true =>
        rw [hh] at hpass
        simp only [if_true]
        cases h2 : lookup k addl with
        | none =>
          cases h2' : lookup k addl' with
          | none => rfl
          | some _ => rw [h2, h2'] at ha; simp [LookAgree] at ha
        | some o =>
          cases h2' : lookup k addl' with
          | none => rw [h2, h2'] at ha; simp [LookAgree] at ha
          | some o' =>
            rw [h2, h2'] at ha
            rw [h2] at hpass
            simp only [Option.map_some] at hpass
            exact ha.2 hpass

theorem asmKvs_all_pass (m : Mode) (has : Option Bool) (props addl : List (String × Out)) : ∀ (l : List (String × J)),
    (∀ kx ∈ l, passesL (memberEvs .null has props addl kx.1) = true) →
    asmKvs m has props addl false l = l.map (fun kx => (kx.1, selFin (propSel has (lookup kx.1 props) (lookup kx.1 addl)) kx.2))
  | [], _ => by simp [asmKvs]
  | (k, x) :: r, h => by
    have hk := h (k, x) (by simp)
    simp only [asmKvs, Bool.false_eq_true, if_false, halts_false_of_passes m _ hk, List.map_cons]
    rw [asmKvs_all_pass m has props addl r (fun kx hkx => h kx (List.mem_cons_of_mem _ hkx))]


theorem ownD_agree (m m' : Mode) (env : Env) (kw : Kw) (p : List (String × S)) (v : J)
    (items items' : List Out) (props props' addl addl' : List (String × Out))
    (hitems : AgreeL items items')
    (hlen : items = [] ∨ items.length = (itemsOf v).length)
    (hprops : ∀ k, LookAgree (lookup k props) (lookup k props'))
    (haddl : ∀ k, LookAgree (lookup k addl) (lookup k addl')) :
    Agree (ownD m env kw p v items props addl) (ownD m' env kw p v items' props' addl') := by
  cases v with
  | null => exact Agree.refl _
  | bool b => exact Agree.refl _
  | num q => exact Agree.refl _
  | str s => exact Agree.refl _
  | arr xs =>
    simp only [ownD]
    constructor
    · simp only [arrEvsQ_passes, passesL_itemEvs, agreeL_all hitems]
    · intro hp
      simp only [arrEvsQ_passes, passesL_itemEvs, Bool.and_eq_true] at hp
      have hpre : ∀ mm, haltsL mm (checkEvs (arrChecksQ kw xs .null)) = false := by
        intro mm
        apply halts_false_of_passes
        have := arrEvsQ_passes kw xs .null []
        simp only [arrEvsQ, List.append_nil, passesL, Bool.and_true] at this
        rw [this]; exact hp.1
      simp only [hpre, J.arr.injEq]
      rcases hlen with h0 | hl
      · subst h0
        cases hitems
        simp [asmItems_nil]
      · simp only [itemsOf] at hl
        have hall : ∀ o ∈ items, passesL o.1 = true := by
          intro o ho; exact (List.all_eq_true.mp hp.2) o ho
        have hall' : ∀ o ∈ items', passesL o.1 = true := by
          have := agreeL_all hitems; rw [hp.2] at this
          intro o ho; exact (List.all_eq_true.mp this.symm) o ho
        rw [asmItems_all_pass m xs items 0 hl hall,
            asmItems_all_pass m' xs items' 0 (by rw [← agreeL_length hitems]; exact hl) hall']
        exact agreeL_snd hitems hall
  | obj kvs =>
    simp only [ownD]
    have hmem : ∀ k, passesL (memberEvs .null kw.addHas props addl k) = passesL (memberEvs .null kw.addHas props' addl' k) :=
      fun k => memberEvs_agree kw.addHas props addl props' addl' k (hprops k) (haddl k)
    constructor
    · simp only [objEvsQ_passes, passesL_kvsEvs, hmem]
    · intro hp
      simp only [objEvsQ_passes, passesL_kvsEvs, Bool.and_eq_true] at hp
      have hpre : ∀ mm, haltsL mm (checkEvs (objChecksQ kw (ownKvs env kw p (.obj kvs)) .null)) = false := by
        intro mm
        apply halts_false_of_passes
        have h1 := objEvsQ_passes env kw p (ownKvs env kw p (.obj kvs)) .null []
        simp only [passesL, Bool.and_true] at h1
        rw [hp.1] at h1
        simp only [objEvsQ, passesL_append, List.append_nil, Bool.and_eq_true] at h1
        exact h1.1.1
      have hall : ∀ kx ∈ ownKvs env kw p (.obj kvs), passesL (memberEvs .null kw.addHas props addl kx.1) = true :=
        fun kx hkx => (List.all_eq_true.mp hp.2) kx hkx
      have hall' : ∀ kx ∈ ownKvs env kw p (.obj kvs), passesL (memberEvs .null kw.addHas props' addl' kx.1) = true :=
        fun kx hkx => by rw [← hmem]; exact hall kx hkx
      simp only [hpre, J.obj.injEq]
      rw [asmKvs_all_pass m kw.addHas props addl _ hall, asmKvs_all_pass m' kw.addHas props' addl' _ hall']
      apply List.map_congr_left
      intro kx hkx
      rw [selFin_agree kw.addHas props addl props' addl' kx.1 kx.2 (hprops kx.1) (haddl kx.1) (hall kx hkx)]



/-- verdict of one node visit in terms of the sub-visit results -/
def nodePass (m : Mode) (env : Env) (kw : Kw) (a b c : List S) (p : List (String × S)) (sc : Bool) (v : J) (r : Subs) : Bool :=
  if v.isNull && kw.permitsNull then true else
  if sc then !v.isNull else
  let v1 := v
  let v2 := afterOne c kw r.ro v1
  let v3 := afterAny b r.ra v2
  let v4 := seqFin r.rl v3
  notOK r.rn && oneOK c kw r.ro v1 && anyOK b r.ra && (a.isEmpty || allOK r.rl) &&
    ((v.isNull && (!c.isEmpty || !b.isEmpty || !a.isEmpty)) ||
      (enumOK kw v4 && passesL (ownD m env kw p v4 r.items r.props r.addl).1))

theorem nodeD_passes (m : Mode) (env : Env) (kw : Kw) (a b c : List S) (p : List (String × S)) (sc : Bool) (v : J) (r : Subs) :
    passesL (nodeD m env kw a b c p sc v r).1 = nodePass m env kw a b c p sc v r := by
  unfold nodeD nodePass
  split
  · simp [passesL]
  · split
    · cases v.isNull <;> simp [passesL, Ev.passes]
    · dsimp only
      simp only [passesL_append]
      congr 1
      · congr 1
        · congr 1
          · congr 1
            · unfold notOK
              cases r.rn with
              | none => simp [passesL]
              | some o => cases h : passesL o.1 <;> simp [passesL, Ev.passes, compOK, passCount, h]
            · unfold oneOK
              cases c.isEmpty <;> simp [passesL, passesL_append, Ev.passes, compOK, discEvs_passes]
          · unfold anyOK
            cases b.isEmpty <;> simp [passesL, Ev.passes, compOK]
        · unfold allOK
          cases a.isEmpty <;> simp [passesL, Ev.passes, compOK, outsEvs]
      · cases (v.isNull && (!c.isEmpty || !b.isEmpty || !a.isEmpty)) <;> simp [passesL, passesL_append, enumEvsQ_passes]


theorem nodeD_fin_of_pass (m : Mode) (env : Env) (kw : Kw) (a b c : List S) (p : List (String × S)) (sc : Bool) (v : J) (r : Subs)
    (hl : a.isEmpty = true → r.rl = []) (h : nodePass m env kw a b c p sc v r = true) :
    (nodeD m env kw a b c p sc v r).2 =
      (if v.isNull && kw.permitsNull then v else if sc then v else
       if (v.isNull && (!c.isEmpty || !b.isEmpty || !a.isEmpty)) then
         seqFin r.rl (afterAny b r.ra (afterOne c kw r.ro v))
       else (ownD m env kw p (seqFin r.rl (afterAny b r.ra (afterOne c kw r.ro v))) r.items r.props r.addl).2) := by
  unfold nodePass at h
  unfold nodeD
  split
  · rfl
  · split
    · rfl
    · rename_i h1 h2
      simp only [h1, h2, if_false, Bool.false_eq_true] at h
      dsimp only at h ⊢
      simp only [Bool.and_eq_true] at h
      obtain ⟨⟨⟨⟨hn, ho⟩, ha⟩, hall⟩, hlast⟩ := h
      have hall' : allOK r.rl = true := by
        cases hae : a.isEmpty with
        | true => rw [hl hae]; simp [allOK, outsEvs, passCount]
        | false => simpa [hae] using hall
      simp only [hn, ho, ha, hall', Bool.not_true, Bool.false_eq_true, if_false]
      split
      · rfl
      · rename_i hs
        simp only [hs, Bool.false_or, Bool.and_eq_true] at hlast
        simp [hlast.1]


theorem allOK_nil : allOK [] = true := by simp [allOK, outsEvs, passCount]

theorem nodeD_agree (m m' : Mode) (env : Env) (kw : Kw) (a b c : List S) (p : List (String × S)) (sc : Bool) (v : J) (r r' : Subs)
    (hrn : notOK r.rn = notOK r'.rn) (hro : AgreeL r.ro r'.ro) (hra : AgreeL r.ra r'.ra)
    (hrl : allOK r.rl = allOK r'.rl ∧
      (allOK r.rl = true → seqFin r.rl (afterAny b r.ra (afterOne c kw r.ro v)) =
                           seqFin r'.rl (afterAny b r.ra (afterOne c kw r.ro v))))
    (hown : allOK r.rl = true →
      Agree (ownD m env kw p (seqFin r.rl (afterAny b r.ra (afterOne c kw r.ro v))) r.items r.props r.addl)
            (ownD m' env kw p (seqFin r.rl (afterAny b r.ra (afterOne c kw r.ro v))) r'.items r'.props r'.addl))
    (hlm : a.isEmpty = true → r.rl = [] ∧ r'.rl = []) :
    Agree (nodeD m env kw a b c p sc v r) (nodeD m' env kw a b c p sc v r') := by
  have e2 : afterOne c kw r'.ro v = afterOne c kw r.ro v := (agreeL_afterOne c kw hro _).symm
  have e3 : afterAny b r'.ra (afterOne c kw r.ro v) = afterAny b r.ra (afterOne c kw r.ro v) :=
    (agreeL_afterAny b hra _).symm
  have eo : oneOK c kw r'.ro v = oneOK c kw r.ro v := (agreeL_oneOK c kw hro _).symm
  have ea : anyOK b r'.ra = anyOK b r.ra := (agreeL_anyOK b hra).symm
  have hpass : nodePass m env kw a b c p sc v r = nodePass m' env kw a b c p sc v r' := by
    unfold nodePass
    split
    · rfl
    · split
      · rfl
      · dsimp only
        rw [e2, e3, eo, ea, ← hrn, ← hrl.1]
        cases hall : allOK r.rl with
        | true =>
          rw [← hrl.2 hall, (hown hall).1]
        | false =>
          cases hae : a.isEmpty with
          | true => rw [(hlm hae).1, allOK_nil] at hall; cases hall
          | false => simp
  constructor
  · rw [nodeD_passes, nodeD_passes, hpass]
  · intro hp
    rw [nodeD_passes] at hp
    have hp' := hp; rw [hpass] at hp'
    rw [nodeD_fin_of_pass m env kw a b c p sc v r (fun h => (hlm h).1) hp,
        nodeD_fin_of_pass m' env kw a b c p sc v r' (fun h => (hlm h).2) hp']
    split
    · rfl
    · split
      · rfl
      · rename_i h1 h2
        have hall : allOK r.rl = true := by
          unfold nodePass at hp
          simp only [h1, h2, if_false, Bool.false_eq_true] at hp
          simp only [Bool.and_eq_true] at hp
          cases hae : a.isEmpty with
          | true => rw [(hlm hae).1]; exact allOK_nil
          | false => simpa [hae] using hp.1.2
        rw [e2, e3, ← hrl.2 hall]
        split
        · rfl
        · rename_i hs
          have hownp : passesL (ownD m env kw p (seqFin r.rl (afterAny b r.ra (afterOne c kw r.ro v))) r.items r.props r.addl).1 = true := by
            unfold nodePass at hp
            simp only [h1, h2, if_false, Bool.false_eq_true] at hp
            simp only [Bool.and_eq_true, hs, Bool.false_or] at hp
            exact hp.2.2
          exact (hown hall).2 hownp



theorem passCount_le : ∀ (l : List Out), passCount (outsEvs l) ≤ l.length
  | [] => by simp [outsEvs, passCount]
  | o :: l => by
    have := passCount_le l
    simp only [outsEvs, List.map_cons, passCount, List.length_cons] at this ⊢
    split <;> omega

theorem allOK_cons (o : Out) (l : List Out) : allOK (o :: l) = (passesL o.1 && allOK l) := by
  have hle := passCount_le l
  unfold allOK
  simp only [outsEvs, List.map_cons, passCount, List.length_cons] at hle ⊢
  cases hp : passesL o.1
  · simp only [Bool.false_eq_true, if_false, Bool.false_and]
    rw [beq_eq_false_iff_ne]; omega
  · simp only [if_true, Bool.true_and]
    by_cases h : passCount (List.map (fun x => x.fst) l) = l.length
    · simp [h]; omega
    · rw [beq_eq_false_iff_ne.mpr h, beq_eq_false_iff_ne]; omega

theorem agreeL_map {α} (f g : α → Out) : ∀ (xs : List α), (∀ x ∈ xs, Agree (f x) (g x)) → AgreeL (xs.map f) (xs.map g)
  | [], _ => .nil
  | x :: xs, h => .cons (h x (by simp)) (agreeL_map f g xs (fun y hy => h y (List.mem_cons_of_mem _ hy)))

theorem modes_agree_all (m m' : Mode) (env : Env) :
    (∀ (s : S) (v : J), WFJ v → s.dfltsWF → Agree (visitD m env s v) (visitD m' env s v)) ∧
    (∀ (ad : Option S) (_kvs : List (String × J)), dfltsWFO ad →
        ∀ t, ad = some t → ∀ x, WFJ x → Agree (visitD m env t x) (visitD m' env t x)) ∧
    (∀ (p : List (String × S)) (_kvs : List (String × J)), dfltsWFP p →
        ∀ k s, lookup k p = some s → ∀ x, WFJ x → Agree (visitD m env s x) (visitD m' env s x)) ∧
    (∀ (i : Option S) (_xs : List J), dfltsWFO i →
        ∀ t, i = some t → ∀ x, WFJ x → Agree (visitD m env t x) (visitD m' env t x)) ∧
    (∀ (ss : List S) (v : J), WFJ v → dfltsWFL ss →
        allOK (seqD m env ss v) = allOK (seqD m' env ss v) ∧
        (allOK (seqD m env ss v) = true → seqFin (seqD m env ss v) v = seqFin (seqD m' env ss v) v)) ∧
    (∀ (ss : List S) (v : J), WFJ v → dfltsWFL ss → AgreeL (eachD m env ss v) (eachD m' env ss v)) ∧
    (∀ (dr : String) (ss : List S) (v : J), WFJ v → dfltsWFL ss →
        AgreeL (selD m env dr ss v) (selD m' env dr ss v)) ∧
    (∀ (n : Option S) (v : J), WFJ v → dfltsWFO n → notOK (notD m env n v) = notOK (notD m' env n v)) := by
  refine visitD.mutual_induct m env
    (motive_1 := fun s v => WFJ v → s.dfltsWF → Agree (visitD m env s v) (visitD m' env s v))
    (motive_2 := fun ad _ => dfltsWFO ad →
        ∀ t, ad = some t → ∀ x, WFJ x → Agree (visitD m env t x) (visitD m' env t x))
    (motive_3 := fun p _ => dfltsWFP p →
        ∀ k s, lookup k p = some s → ∀ x, WFJ x → Agree (visitD m env s x) (visitD m' env s x))
    (motive_4 := fun i _ => dfltsWFO i →
        ∀ t, i = some t → ∀ x, WFJ x → Agree (visitD m env t x) (visitD m' env t x))
    (motive_5 := fun ss v => WFJ v → dfltsWFL ss →
        allOK (seqD m env ss v) = allOK (seqD m' env ss v) ∧
        (allOK (seqD m env ss v) = true → seqFin (seqD m env ss v) v = seqFin (seqD m' env ss v) v))
    (motive_6 := fun ss v => WFJ v → dfltsWFL ss → AgreeL (eachD m env ss v) (eachD m' env ss v))
    (motive_7 := fun dr ss v => WFJ v → dfltsWFL ss → AgreeL (selD m env dr ss v) (selD m' env dr ss v))
    (motive_8 := fun n v => WFJ v → dfltsWFO n → notOK (notD m env n v) = notOK (notD m' env n v))
    ?main ?seqNil ?seqCons ?eachNil ?eachCons ?selNil ?selCons ?adNone ?adSome ?itNone ?itSome ?notNone ?notSome ?pNil ?pCons
  case seqNil => intro v _ _; simp [seqD, seqFin]
  case seqCons =>
    intro s ss v ih1 ih2 hw hs
    simp only [dfltsWFL] at hs
    have ag := ih1 hw hs.1
    simp only [seqD, allOK_cons, seqFin]
    cases hp : passesL (visitD m env s v).1 with
    | false =>
      have hp' : passesL (visitD m' env s v).1 = false := by rw [← ag.1]; exact hp
      simp [hp, hp']
    | true =>
      have hp' : passesL (visitD m' env s v).1 = true := by rw [← ag.1]; exact hp
      have e2 := ag.2 hp
      have hw2 : WFJ (visitD m env s v).2 := (visitD_wf_all m env).1 s v hw hs.1
      have := ih2 hw2 hs.2
      rw [← e2]
      simp only [hp, hp', Bool.true_and, if_true]
      exact this
  case eachNil => intro v _ _; simp only [eachD]; exact .nil
  case eachCons =>
    intro s ss v ih1 ih2 hw hs
    simp only [dfltsWFL] at hs
    simp only [eachD]
    exact .cons (ih1 hw hs.1) (ih2 hw hs.2)
  case selNil => intro dr v _ _; simp only [selD]; exact .nil
  case selCons =>
    intro dr s ss v ih1 ih2 hw hs
    simp only [dfltsWFL] at hs
    simp only [selD]
    refine .cons ?_ (ih2 hw hs.2)
    split
    · exact ih1 hw hs.1
    · exact Agree.refl _
  case adNone => intro _ _ t h; cases h
  case adSome =>
    intro t kvs ih hs t' ht x hwx
    cases ht
    exact ih ("", x) hwx (by simpa [dfltsWFO] using hs)
  case itNone => intro _ _ t h; cases h
  case itSome =>
    intro t xs ih hs t' ht x hwx
    cases ht
    exact ih x hwx (by simpa [dfltsWFO] using hs)
  case notNone => intro v _ _; simp [notD]
  case notSome =>
    intro t v ih hw hs
    simp only [notD, notOK]
    rw [(ih hw (by simpa [dfltsWFO] using hs)).1]
  case pNil => intro kvs _ k s h; simp [lookup] at h
  case pCons =>
    intro k0 s0 ps kvs ih1 ih2 hs k s hl x hwx
    simp only [dfltsWFP] at hs
    simp only [lookup] at hl
    split at hl
    · cases hl; exact ih1 x hwx hs.2.1
    · exact ih2 hs.2.2 k s hl x hwx
  case main =>
    intro kw a b c n i p ad v
    dsimp only
    intro ihn iho iha ihl ihi ihp ihad hw hs
    unfold S.dfltsWF at hs
    obtain ⟨hsa, hsb, hsc, hsn, hsi, hsp, hsad⟩ := hs
    have agn := ihn hw hsn
    have ago := iho hw hsc
    have e2 := agreeL_afterOne c kw ago v
    have w2 : WFJ (afterOne c kw (selD m env (discCheck kw v).ref c v) v) := by
      rcases afterOne_cases c kw (selD m env (discCheck kw v).ref c v) v with h | ⟨o, ho, h⟩
      · rw [h]; exact hw
      · rw [h]; exact (visitD_wf_all m env).2.2.2.2.2.2.1 _ c v hw hsc o ho
    have aga := iha w2 hsb
    have e3 := agreeL_afterAny b aga (afterOne c kw (selD m env (discCheck kw v).ref c v) v)
    have w3 : WFJ (afterAny b (eachD m env b (afterOne c kw (selD m env (discCheck kw v).ref c v) v))
        (afterOne c kw (selD m env (discCheck kw v).ref c v) v)) := by
      rcases afterAny_cases b (eachD m env b (afterOne c kw (selD m env (discCheck kw v).ref c v) v))
          (afterOne c kw (selD m env (discCheck kw v).ref c v) v) with h | ⟨o, ho, h⟩
      · rw [h]; exact w2
      · rw [h]; exact (visitD_wf_all m env).2.2.2.2.2.1 b _ w2 hsb o ho
    have agl := ihl w3 hsa
    unfold visitD
    simp only []
    rw [← e2, ← e3]
    generalize hv2 : afterOne c kw (selD m env (discCheck kw v).ref c v) v = v2 at *
    generalize hv3 : afterAny b (eachD m env b v2) v2 = v3 at *
    have w4 : WFJ (seqFin (seqD m env a v3) v3) := by
      rcases seqFin_cases (seqD m env a v3) v3 with h | ⟨o, ho, h⟩
      · rw [h]; exact w3
      · rw [h]; exact (visitD_wf_all m env).2.2.2.2.1 a v3 w3 hsa o ho
    apply nodeD_agree
    · exact agn
    · exact ago
    · exact aga
    · simp only [hv2, hv3]; exact agl
    · simp only [hv2, hv3]
      intro hall
      rw [← agl.2 hall]
      generalize seqFin (seqD m env a v3) v3 = v4 at *
      apply ownD_agree
      · cases i with
        | none => simp only [itemsD]; exact .nil
        | some t =>
          simp only [itemsD]
          apply agreeL_map
          intro x hx'
          have hwx : WFJ x := by
            cases v4 with
            | arr xs => simp only [itemsOf] at hx'; simp only [WFJ] at w4; exact wfjl_mem w4 x hx'
            | _ => simp [itemsOf] at hx'
          exact ihi hsi t rfl x hwx
      · cases i with
        | none => left; simp [itemsD]
        | some t => right; simp [itemsD]
      · intro k
        rw [propsD_lookup, propsD_lookup]
        cases hlp : lookup k p with
        | none => simp [LookAgree]
        | some s =>
          cases hlx : lookup k (ownKvs env kw p v4) with
          | none => simp [LookAgree]
          | some x =>
            simp only [LookAgree]
            have hwx : WFJ x := by
              cases v4 with
              | obj kvs =>
                simp only [WFJ] at w4
                exact wfjp_mem (ownKvs_wf env kw p kvs hsp w4.1 w4.2).2 (k, x) (lookup_some_mem _ k x hlx)
              | _ => simp [ownKvs, lookup] at hlx
            exact ihp hsp k s hlp x hwx
      · intro k
        cases ad with
        | none => simp [addlD, lookup, LookAgree]
        | some t =>
          rw [addlD_lookup, addlD_lookup]
          cases hlx : lookup k (undeclared p (ownKvs env kw p v4)) with
          | none => simp [LookAgree]
          | some x =>
            simp only [Option.map_some, LookAgree]
            have hlx' : lookup k (ownKvs env kw p v4) = some x := by
              rw [undeclared_lookup] at hlx
              split at hlx
              · exact hlx
              · cases hlx
            have hwx : WFJ x := by
              cases v4 with
              | obj kvs =>
                simp only [WFJ] at w4
                exact wfjp_mem (ownKvs_wf env kw p kvs hsp w4.1 w4.2).2 (k, x) (lookup_some_mem _ k x hlx')
              | _ => simp [ownKvs, lookup] at hlx'
            exact ihad hsad t rfl x hwx
    · intro hae
      have : a = [] := by simpa using hae
      subst this
      simp [seqD]


/-! ### C12 under default injection -/

/-- **Modes change the report, never the verdict — with DefaultsSet too** (full strength since the repair of F-C12-1:
`not` validates a deep copy): for every schema whose defaults are well-formed values, every well-formed value, every
request/response reading and option set, any two of the four modes give the same verdict, and when they accept they
hand back the SAME value (with the same defaults injected). -/
theorem modes_agree_with_defaults (m m' : Mode) (env : Env) (s : S) (v : J)
    (hw : WFJ v) (hs : s.dfltsWF) :
    (validateD m env s v).1.isOk = (validateD m' env s v).1.isOk ∧
    ((validateD m env s v).1.isOk = true → (validateD m env s v).2 = (validateD m' env s v).2) := by
  have h := (modes_agree_all m m' env).1 s v hw hs
  unfold validateD
  simp only [mode_independent]
  exact h

/-- the value handed back is well-formed again (distinct keys at every level), in every mode, accepted or not -/
theorem value_after_wellformed (m : Mode) (env : Env) (s : S) (v : J) (hw : WFJ v) (hs : s.dfltsWF) :
    WFJ (validateD m env s v).2 := (visitD_wf_all m env).1 s v hw hs

theorem passing_passes {o : Out} : ∀ {l : List Out}, o ∈ passing l → passesL o.1 = true
  | [], h => by simp [passing] at h
  | x :: xs, h => by
    simp only [passing] at h
    split at h
    · rename_i hx
      rcases List.mem_cons.mp h with rfl | h'
      · exact hx
      · exact passing_passes h'
    · exact passing_passes h

theorem firstPass_passes {o : Out} : ∀ {l : List Out}, firstPass l = some o → passesL o.1 = true
  | [], h => by simp [firstPass] at h
  | x :: xs, h => by
    simp only [firstPass] at h
    split at h
    · rename_i hx; cases h; exact hx
    · exact firstPass_passes h

/-- **Defaults of candidates that do not match never reach the value**: after `oneOf` the value is untouched, or it is
what a candidate that ACCEPTED left (the only one); a rejecting candidate only ever saw a copy -/
theorem oneOf_only_matched (c : List S) (kw : Kw) (ro : List Out) (v : J) :
    afterOne c kw ro v = v ∨ ∃ o ∈ ro, passesL o.1 = true ∧ passing ro = [o] ∧ afterOne c kw ro v = o.2 := by
  unfold afterOne
  split
  · left; rfl
  · split
    · rename_i o ho
      right
      exact ⟨o, passing_mem (by rw [ho]; simp), passing_passes (by rw [ho]; simp), ho, rfl⟩
    · left; rfl

/-- … and after `anyOf`: untouched, or what the FIRST accepting candidate left -/
theorem anyOf_only_matched (b : List S) (ra : List Out) (v : J) :
    afterAny b ra v = v ∨ ∃ o ∈ ra, passesL o.1 = true ∧ firstPass ra = some o ∧ afterAny b ra v = o.2 := by
  unfold afterAny
  split
  · left; rfl
  · split
    · rename_i o ho
      right; exact ⟨o, firstPass_mem ho, firstPass_passes ho, ho, rfl⟩
    · left; rfl

/-! ### F-C12-1 (fixed): the former witness is a regression theorem — all modes accept and leave the value alone -/

def f1Env : Env := { regex := fun _ _ => none, strFormat := fun _ _ => none, asreq := true, dfl := true }
/-- `{not: {properties: {a: {type: string}, b: {properties: {c: {default: "x"}}}}}, properties: {b: {maxProperties: 0}}}` -/
def f1Schema : S :=
  .mk {} [] [] []
    (some (.mk {} [] [] [] none none
      [("a", .mk { types := some ["string"] } [] [] [] none none [] none),
       ("b", .mk {} [] [] [] none none [("c", .mk { dflt := some (.str "x") } [] [] [] none none [] none)] none)] none))
    none [("b", .mk { maxProps := some 0 } [] [] [] none none [] none)] none
def f1Value : J := .obj [("a", .bool true), ("b", .obj [])]

theorem F_C12_1_in_class : f1Schema.dfltUnderNot = true := by decide
theorem F_C12_1_regression_default : (validateD .dflt f1Env f1Schema f1Value).1.isOk = true := by decide
/-- before the repair multi-error mode went on inside the failing `not` child, injected `c` into the value itself and
rejected `b` for having a property -/
theorem F_C12_1_regression_multi : (validateD .multi f1Env f1Schema f1Value).1.isOk = true := by decide
theorem F_C12_1_regression_silent : callbackFires .multi f1Env f1Schema f1Value = false := by decide

/-- non-vacuity: defaults outside any `not` — injected, visited, and the modes agree -/
def okSchema : S :=
  .mk { required := ["a"] } [] [] [] none none
    [("a", .mk { types := some ["string"], dflt := some (.str "d") } [] [] [] none none [] none)] none
example : okSchema.dfltUnderNot = false ∧ okSchema.hasPropDflt = true := by decide
example : (validateD .dflt f1Env okSchema (.obj [])).1.isOk = true := by decide
example : (validateD .multi f1Env okSchema (.obj [])).1.isOk = true := by decide




/-- the second sentence of C12 for `validateD` where nothing can be injected (no DefaultsSet / no reading / no property
default in the schema): every reported error points into the value handed back and quotes what is found there. With
injection this is checked per case by the run (every error of every mode is resolved in the value after validation). -/
theorem errors_point_at_data_inert (m : Mode) (env : Env) (s : S) (v : J) (hw : WFJ v)
    (h : env.injects = false ∨ s.hasPropDflt = false) :
    ∀ e ∈ (validateD m env s v).1.errs, Loc (validateD m env s v).2 e := by
  rw [validateD_inert m env s v hw h]
  exact errors_point_at_data m env s v hw



/-- the DefaultsSet callback stays silent where nothing can be injected, and (6a3f133) whenever the value comes back
as it went in — in particular when the only defaults sit in oneOf/anyOf candidates that do not match -/
theorem callback_silent_inert (m : Mode) (env : Env) (s : S) (v : J) (hw : WFJ v)
    (h : env.injects = false ∨ s.hasPropDflt = false) : callbackFires m env s v = false := by
  unfold callbackFires
  rw [visitD_inert m env s v hw h]
  simp [(jeq_iff_eq v v).mpr rfl]

theorem callback_iff_value_changed (m : Mode) (env : Env) (s : S) (v : J) :
    callbackFires m env s v = true ↔ (validateD m env s v).2 ≠ v := by
  unfold callbackFires validateD
  simp only [Bool.not_eq_true', ne_eq]
  rw [← Bool.not_eq_true, jeq_iff_eq]



/-! ### located, as far as a mode consumes the trace -/

mutual
/-- the part of the event that a visitor with stop policy `π` really executes is located in `v` -/
def Ev.locP (π : Policy) (v : J) : Ev → Prop
  | .fail e _ => Loc v e
  | .child tok sub => (runL π sub).1 = [] ∨ ∃ x, resolve1 v tok = some x ∧ locPL π x sub
  | .comp _ e _ => Loc v e
/-- … of a level: every event up to (and including) the one after which the level returns -/
def locPL (π : Policy) (v : J) : List Ev → Prop
  | [] => True
  | e :: es => e.locP π v ∧ ((e.run π).2 = false → locPL π v es)
end

theorem runL_located (π : Policy) :
    (∀ ev : Ev, ∀ v, ev.locP π v → ∀ e ∈ (ev.run π).1, Loc v e) ∧
    (∀ _ts : List (List Ev), True) ∧
    (∀ t : List Ev, ∀ v, locPL π v t → ∀ e ∈ (runL π t).1, Loc v e) := by
  refine Ev.passes.mutual_induct
    (motive_1 := fun ev => ∀ v, ev.locP π v → ∀ e ∈ (ev.run π).1, Loc v e)
    (motive_2 := fun _ => True)
    (motive_3 := fun t => ∀ v, locPL π v t → ∀ e ∈ (runL π t).1, Loc v e)
    ?f ?ch ?co ?nil ?cons ?nil2 ?cons2
  case f =>
    intro e fatal v h e' he'
    simp only [Ev.run, List.mem_singleton] at he'
    subst he'; exact h
  case ch =>
    intro tok sub ih v h e he
    simp only [Ev.run, List.mem_map] at he
    obtain ⟨e0, he0, rfl⟩ := he
    simp only [Ev.locP] at h
    rcases h with h | ⟨x, hx, hsub⟩
    · rw [h] at he0; simp at he0
    · exact loc_mark hx (ih x hsub e0 he0)
  case co =>
    intro k e subs _ v h e' he'
    simp only [Ev.run] at he'
    simp only [Ev.locP] at h
    split at he' <;> simp at he'
    subst he'; exact h
  case nil => intro v _ e he; simp [runL] at he
  case cons =>
    intro ev es ih1 ih2 v h e he
    simp only [locPL] at h
    simp only [runL] at he
    split at he
    · exact ih1 v h.1 e he
    · rename_i hs
      simp only [Bool.not_eq_true] at hs
      rcases List.mem_append.mp he with he | he
      · exact ih1 v h.1 e he
      · exact ih2 v (h.2 hs) e he
  case nil2 => trivial
  case cons2 => intros; trivial

/-- the multi-error fold IS the general fold under the MultiErrors policy -/
theorem collect_eq_run :
    (∀ ev : Ev, ev.collect = ev.run Mode.multi.policy) ∧
    (∀ ts : List (List Ev), collectCount ts = runCount Mode.multi.policy ts) ∧
    (∀ t : List Ev, collectL t = (runL Mode.multi.policy t).1) := by
  refine Ev.passes.mutual_induct
    (motive_1 := fun ev => ev.collect = ev.run Mode.multi.policy)
    (motive_2 := fun ts => collectCount ts = runCount Mode.multi.policy ts)
    (motive_3 := fun t => collectL t = (runL Mode.multi.policy t).1)
    ?f ?ch ?co ?nil ?cons ?nil2 ?cons2
  case f => intro e fatal; simp [Ev.collect, Ev.run, Mode.policy]
  case ch => intro tok sub ih; simp [Ev.collect, Ev.run, Mode.policy, ih]
  case co => intro k e subs ih; simp only [Ev.collect, Ev.run, ih]
  case nil => simp [collectL, runL]
  case cons =>
    intro e es ih1 ih2
    simp only [collectL, runL, ih1, ih2]
    split <;> rfl
  case nil2 => simp [collectCount, runCount]
  case cons2 => intro t ts ih1 ih2; simp only [collectCount, runCount, ih1, ih2]

/-- the default-mode fold is the general fold under the "every failure returns" policy -/
theorem first_eq_run :
    (∀ ev : Ev, ev.firstErr.toList = (ev.run Mode.dflt.policy).1 ∧ (ev.run Mode.dflt.policy).2 = ev.firstErr.isSome) ∧
    (∀ ts : List (List Ev), firstCount ts = runCount Mode.dflt.policy ts) ∧
    (∀ t : List Ev, (firstErrL t).toList = (runL Mode.dflt.policy t).1) := by
  refine Ev.passes.mutual_induct
    (motive_1 := fun ev => ev.firstErr.toList = (ev.run Mode.dflt.policy).1 ∧ (ev.run Mode.dflt.policy).2 = ev.firstErr.isSome)
    (motive_2 := fun ts => firstCount ts = runCount Mode.dflt.policy ts)
    (motive_3 := fun t => (firstErrL t).toList = (runL Mode.dflt.policy t).1)
    ?f ?ch ?co ?nil ?cons ?nil2 ?cons2
  case f => intro e fatal; simp [Ev.firstErr, Ev.run, Mode.policy]
  case ch =>
    intro tok sub ih
    simp only [Ev.firstErr, Ev.run, ← ih]
    cases firstErrL sub <;> simp [Mode.policy]
  case co =>
    intro k e subs ih
    simp only [Ev.firstErr, Ev.run, ih]
    split <;> simp
  case nil => simp [firstErrL, runL]
  case cons =>
    intro e es ih1 ih2
    simp only [firstErrL, runL, ih1.2, ← ih2]
    cases hf : e.firstErr with
    | none => simp [← ih1.1, hf]
    | some x => simp [← ih1.1, hf]
  case nil2 => simp [firstCount, runCount]
  case cons2 =>
    intro t ts ih1 ih2
    simp only [firstCount, runCount, ← ih1, ih2]
    cases firstErrL t <;> simp

/-- **located as far as consumed ⇒ every reported error is located**, in every mode -/
theorem pointers_located_consumed (m : Mode) (v : J) (t : List Ev) (h : locPL m.policy v t) :
    ∀ e ∈ (report m t).errs, Loc v e := by
  have hr := (runL_located m.policy).2.2 t v h
  cases m with
  | dflt =>
    simp only [report]
    have := first_eq_run.2.2 t
    cases hf : firstErrL t with
    | none => simp [Res.errs]
    | some e0 =>
      simp only [Res.errs, List.mem_singleton]
      intro e he; subst he
      exact hr e (by rw [← this, hf]; simp)
  | failfast => simp only [report]; cases firstErrL t <;> simp [Res.errs]
  | multi =>
    simp only [report]
    cases hc : collectL t with
    | nil => simp [Res.errs]
    | cons a b =>
      simp only [Res.errs]
      intro e he
      exact hr e (by rw [← collect_eq_run.2.2 t, hc]; exact he)
  | ffmulti => simp only [report]; cases (runL Mode.ffmulti.policy t).1 <;> simp [Res.errs]






theorem locP_of_located (π : Policy) :
    (∀ ev : Ev, ∀ v, ev.located v → ev.locP π v) ∧ (∀ _ts : List (List Ev), True) ∧
    (∀ t : List Ev, ∀ v, locatedL v t → locPL π v t) := by
  refine Ev.passes.mutual_induct
    (motive_1 := fun ev => ∀ v, ev.located v → ev.locP π v) (motive_2 := fun _ => True)
    (motive_3 := fun t => ∀ v, locatedL v t → locPL π v t) ?f ?ch ?co ?nil ?cons ?nil2 ?cons2
  case f => intro e f v h; simpa [Ev.located, Ev.locP] using h
  case ch =>
    intro tok sub ih v h
    simp only [Ev.located] at h
    obtain ⟨x, hx, hs⟩ := h
    simp only [Ev.locP]
    exact Or.inr ⟨x, hx, ih x hs⟩
  case co => intro k e subs _ v h; simpa [Ev.located, Ev.locP] using h
  case nil => intro v _; simp [locPL]
  case cons =>
    intro e es ih1 ih2 v h
    simp only [locatedL] at h
    simp only [locPL]
    exact ⟨ih1 v h.1, fun _ => ih2 v h.2⟩
  case nil2 => trivial
  case cons2 => intros; trivial

theorem runL_append_halt (π : Policy) : ∀ (a b : List Ev),
    (runL π (a ++ b)).2 = ((runL π a).2 || (runL π b).2)
  | [], b => by simp [runL]
  | e :: es, b => by
    simp only [List.cons_append, runL]
    split
    · rename_i h; simp [h]
    · rename_i h; simp [h, runL_append_halt π es b]

theorem locPL_append (π : Policy) (v : J) : ∀ (a b : List Ev),
    locPL π v a → ((runL π a).2 = false → locPL π v b) → locPL π v (a ++ b)
  | [], b, _, hb => by simpa using hb (by simp [runL])
  | e :: es, b, ha, hb => by
    simp only [locPL] at ha
    simp only [List.cons_append, locPL]
    refine ⟨ha.1, fun hs => locPL_append π v es b (ha.2 hs) (fun hes => hb ?_)⟩
    simp only [runL, hs, Bool.false_eq_true, if_false, hes]



theorem arrChecks_halt (π : Policy) (kw : Kw) (xs : List J) (q q' : J) :
    (runL π (checkEvs (arrChecksQ kw xs q))).2 = (runL π (checkEvs (arrChecksQ kw xs q'))).2 := by
  simp only [arrChecksQ, checkEvs, List.flatMap_cons, List.flatMap_nil, List.append_nil]
  cases (!kw.permits "array") <;> cases minItemsBad kw xs.length <;> cases maxItemsBad kw xs.length <;>
    cases (kw.uniqueItems && !uniqueB xs) <;> cases h1 : π.leaf false false <;> cases h2 : π.leaf true false <;>
    simp [chk, runL, Ev.run, here, typeErr, h1, h2]

theorem objChecks_halt (π : Policy) (kw : Kw) (kvs : List (String × J)) (q q' : J) :
    (runL π (checkEvs (objChecksQ kw kvs q))).2 = (runL π (checkEvs (objChecksQ kw kvs q'))).2 := by
  simp only [objChecksQ, checkEvs, List.flatMap_cons, List.flatMap_nil, List.append_nil]
  cases (!kw.permits "object") <;> cases minPropsBad kw kvs.length <;> cases maxPropsBad kw kvs.length <;>
    cases h1 : π.leaf false false <;> cases h2 : π.leaf true false <;> simp [chk, runL, Ev.run, here, typeErr, h1, h2]

theorem memberEvs_halt (π : Policy) (has : Option Bool) (props addl : List (String × Out)) (k : String) (q q' : J) :
    (runL π (memberEvs q has props addl k)).2 = (runL π (memberEvs q' has props addl k)).2 := by
  unfold memberEvs propEv
  cases (lookup k props) <;> cases (lookup k addl) <;> cases (has != some false) <;> cases h1 : π.leaf false false <;>
    simp [runL, Ev.run, here, h1]


theorem haltsL_single (m : Mode) (e : Ev) : haltsL m [e] = (e.run m.policy).2 := by
  unfold haltsL
  simp only [runL]
  cases h : (e.run m.policy).2 <;> simp [h]

theorem lookup_done_cons (k : String) (x : J) : ∀ (done rest : List (String × J)), k ∉ keysOf done →
    lookup k (done ++ (k, x) :: rest) = some x
  | [], rest, _ => by simp [lookup]
  | (k0, x0) :: d, rest, h => by
    simp only [keysOf, List.mem_cons, not_or] at h
    simp only [List.cons_append, lookup, h.1, if_false]
    exact lookup_done_cons k x d rest h.2

theorem keysOf_append_cons (k : String) (y : J) (t : List (String × J)) : ∀ (d : List (String × J)),
    keysOf (d ++ (k, y) :: t) = keysOf d ++ k :: keysOf t
  | [] => by simp [keysOf]
  | (a1, a2) :: d => by simp [keysOf, keysOf_append_cons k y t d]

theorem members_locP (m : Mode) (has : Option Bool) (props addl : List (String × Out)) (q : J)
    (hp : ∀ k o, lookup k props = some o → locPL m.policy o.2 o.1)
    (ha : ∀ k o, lookup k addl = some o → locPL m.policy o.2 o.1) :
    ∀ (l done : List (String × J)), (keysOf (done ++ l)).Nodup →
      q = .obj (done ++ asmKvs m has props addl false l) →
      locPL m.policy q (kvsEvs q has props addl l)
  | [], done, _, _ => by simp [kvsEvs, locPL]
  | (k, x) :: r, done, hn, hq => by
    simp only [kvsEvs]
    simp only [asmKvs, Bool.false_eq_true, if_false] at hq
    have hk : k ∉ keysOf done := by
      intro hk
      rw [keysOf_append_cons] at hn
      exact (List.nodup_append.mp hn).2.2 k hk k (by simp) rfl
    apply locPL_append
    · -- the events of this member
      unfold memberEvs propEv
      cases h1 : lookup k props with
      | some o =>
        simp only [Option.map_some, locPL, Ev.locP, and_true]
        constructor
        · right
          refine ⟨o.2, ?_, hp k o h1⟩
          rw [hq]; simp only [resolve1]
          rw [lookup_done_cons k _ done _ hk]
          simp [propSel, selFin, h1]
        · intro _; trivial
      | none =>
        simp only [Option.map_none]
        cases hh : (has != some false) with
        | false =>
          simp only [Bool.false_eq_true, if_false, locPL, Ev.locP, and_true]
          exact ⟨loc_here _ _ _, fun _ => trivial⟩
        | true =>
          simp only [if_true]
          cases h2 : lookup k addl with
          | none => simp [locPL]
          | some o =>
            simp only [Option.map_some, locPL, Ev.locP, and_true]
            constructor
            · right
              refine ⟨o.2, ?_, ha k o h2⟩
              rw [hq]; simp only [resolve1]
              rw [lookup_done_cons k _ done _ hk]
              simp [propSel, selFin, h1, h2, hh]
            · intro _; trivial
    · intro hs
      have hstop : haltsL m (memberEvs .null has props addl k) = false := by
        unfold haltsL; rw [memberEvs_halt m.policy has props addl k .null q]; exact hs
      rw [hstop] at hq
      apply members_locP m has props addl q hp ha r (done ++ [(k, selFin (propSel has (lookup k props) (lookup k addl)) x)])
      · rw [keysOf_append_cons] at hn
        rw [List.append_assoc]
        simp only [List.singleton_append]
        rw [keysOf_append_cons]; exact hn
      · rw [hq, List.append_assoc]; rfl

theorem getElem?_append_length {α} (done : List α) (x : α) (rest : List α) : (done ++ x :: rest)[done.length]? = some x := by
  simp

theorem items_locP (m : Mode) : ∀ (xs : List J) (os : List Out) (done : List J) (i : Nat),
    done.length = i → os.length = xs.length → (∀ o ∈ os, locPL m.policy o.2 o.1) →
    locPL m.policy (.arr (done ++ asmItems m false i xs os)) (itemEvs i os)
  | [], [], done, i, _, _, _ => by simp [itemEvs, locPL]
  | [], o :: os, done, i, _, h, _ => by simp at h
  | x :: xs, [], done, i, _, h, _ => by simp at h
  | x :: xs, o :: os, done, i, hd, hl, ho => by
    simp only [itemEvs, locPL, asmItems, Bool.false_eq_true, if_false]
    constructor
    · simp only [Ev.locP]
      right
      refine ⟨o.2, ?_, ho o (by simp)⟩
      simp only [resolve1]
      rw [← hd]; exact getElem?_append_length done o.2 _
    · intro hs
      rw [haltsL_single, hs]
      have := items_locP m xs os (done ++ [o.2]) (i + 1) (by simp [hd]) (by simpa using hl)
        (fun o' ho' => ho o' (List.mem_cons_of_mem _ ho'))
      simpa [List.append_assoc] using this


theorem ownD_locP (m : Mode) (env : Env) (kw : Kw) (p : List (String × S)) (v : J)
    (items : List Out) (props addl : List (String × Out))
    (hitems : ∀ o ∈ items, locPL m.policy o.2 o.1)
    (hlen : items = [] ∨ items.length = (itemsOf v).length)
    (hp : ∀ k o, lookup k props = some o → locPL m.policy o.2 o.1)
    (ha : ∀ k o, lookup k addl = some o → locPL m.policy o.2 o.1)
    (hkeys : (keysOf (ownKvs env kw p v)).Nodup) :
    locPL m.policy (ownD m env kw p v items props addl).2 (ownD m env kw p v items props addl).1 := by
  cases v with
  | null => exact (locP_of_located m.policy).2.2 _ _ (ownEvsQ_located env kw p _ _ [] (quotes_self _) (by simp [locatedL]))
  | bool b => exact (locP_of_located m.policy).2.2 _ _ (ownEvsQ_located env kw p _ _ [] (quotes_self _) (by simp [locatedL]))
  | num x => exact (locP_of_located m.policy).2.2 _ _ (ownEvsQ_located env kw p _ _ [] (quotes_self _) (by simp [locatedL]))
  | str x => exact (locP_of_located m.policy).2.2 _ _ (ownEvsQ_located env kw p _ _ [] (quotes_self _) (by simp [locatedL]))
  | arr xs =>
    simp only [ownD, arrEvsQ]
    apply locPL_append
    · apply (locP_of_located m.policy).2.2
      apply checkEvs_located
      intro c hc
      simp only [arrChecksQ, List.mem_cons, List.mem_nil_iff, or_false] at hc
      rcases hc with rfl | rfl | rfl | rfl <;> exact loc_here _ _ _
    · intro hs
      have hstop : haltsL m (checkEvs (arrChecksQ kw xs .null)) = false := by
        unfold haltsL; rw [arrChecks_halt m.policy kw xs .null _]; exact hs
      rw [hstop]
      rcases hlen with h0 | hl
      · subst h0; simp [itemEvs, locPL]
      · have := items_locP m xs items [] 0 rfl (by simpa [itemsOf] using hl) hitems
        simpa using this
  | obj kvs =>
    simp only [ownD, objEvsQ]
    apply locPL_append
    · apply locPL_append
      · apply locPL_append
        · apply (locP_of_located m.policy).2.2
          apply checkEvs_located
          intro c hc
          simp only [objChecksQ, List.mem_cons, List.mem_nil_iff, or_false] at hc
          rcases hc with rfl | rfl | rfl <;> exact loc_here _ _ _
        · intro hs
          have hstop : haltsL m (checkEvs (objChecksQ kw (ownKvs env kw p (.obj kvs)) .null)) = false := by
            unfold haltsL; rw [objChecks_halt m.policy kw _ .null _]; exact hs
          rw [hstop]
          exact members_locP m kw.addHas props addl _ hp ha (ownKvs env kw p (.obj kvs)) [] (by simpa using hkeys) (by simp)
      · intro _
        apply (locP_of_located m.policy).2.2
        apply checkEvs_located
        intro c hc
        simp only [reqChecks, List.mem_map] at hc
        obtain ⟨k, _, rfl⟩ := hc
        exact loc_required _ _ _
    · intro _
      exact (locP_of_located m.policy).2.2 _ _ (chk_located _ _ _ _ (loc_noValue _ _ rfl rfl))


theorem policy_fatal (m : Mode) (s : Bool) : m.policy.leaf true s = true := by
  cases m <;> simp [Mode.policy]

theorem discEvs_halt (m : Mode) (kw : Kw) (v : J) : (runL m.policy (discEvs kw v)).2 = !(discCheck kw v).pass := by
  unfold discEvs
  cases discCheck kw v <;> simp [runL, Ev.run, DiscRes.pass, policy_fatal]

theorem discEvs_nil_of_pass (kw : Kw) (v : J) (h : (discCheck kw v).pass = true) : discEvs kw v = [] := by
  unfold discEvs
  cases hd : discCheck kw v <;> simp [hd, DiscRes.pass] at h ⊢

/-- the compositions of a node, as events quoting `q` -/
def compEvs (kw : Kw) (a b c : List S) (v q : J) (r : Subs) : List Ev :=
  (match r.rn with
     | none => []
     | some o => [.comp .not (here "not" q [.lit "Doesn't match schema \"not\""]) [o.1]]) ++
   (if c.isEmpty then [] else discEvs kw v ++ [.comp .oneOf (here "oneOf" q (oneOfReason (outsEvs r.ro))) (outsEvs r.ro)]) ++
   (if b.isEmpty then [] else [.comp .anyOf (here "anyOf" q [.lit "doesn't match any schema from \"anyOf\""]) (outsEvs r.ra)]) ++
   (if a.isEmpty then [] else [.comp .allOf (here "allOf" q [.lit "doesn't match all schemas from \"allOf\""]) (outsEvs r.rl)])

theorem compEvs_halt (m : Mode) (kw : Kw) (a b c : List S) (v q : J) (r : Subs) :
    (runL m.policy (compEvs kw a b c v q r)).2 =
      !(notOK r.rn && oneOK c kw r.ro v && anyOK b r.ra && (a.isEmpty || allOK r.rl)) := by
  unfold compEvs
  simp only [runL_append_halt]
  have h1 : (runL m.policy (match r.rn with
     | none => []
     | some o => [Ev.comp CompKind.not (here "not" q [Frag.lit "Doesn't match schema \"not\""]) [o.1]])).2 = !notOK r.rn := by
    unfold notOK
    cases r.rn with
    | none => simp [runL]
    | some o =>
      simp only [runL, Ev.run, runCount, (run_agrees m.policy).2.2 o.1]
      cases passesL o.1 <;> simp [compOK]
  have h2 : (runL m.policy (if c.isEmpty then [] else discEvs kw v ++ [Ev.comp CompKind.oneOf (here "oneOf" q (oneOfReason (outsEvs r.ro))) (outsEvs r.ro)])).2 =
      !oneOK c kw r.ro v := by
    unfold oneOK
    cases c.isEmpty with
    | true => simp [runL]
    | false =>
      simp only [Bool.false_eq_true, if_false, runL_append_halt, discEvs_halt, Bool.false_or]
      simp only [runL, Ev.run, (run_agrees m.policy).2.1]
      cases (discCheck kw v).pass <;> cases hcnt : (passCount (outsEvs r.ro) == 1) <;> simp [compOK, hcnt]
  have h3 : (runL m.policy (if b.isEmpty then [] else [Ev.comp CompKind.anyOf (here "anyOf" q [Frag.lit "doesn't match any schema from \"anyOf\""]) (outsEvs r.ra)])).2 =
      !anyOK b r.ra := by
    unfold anyOK
    cases b.isEmpty with
    | true => simp [runL]
    | false =>
      simp only [Bool.false_eq_true, if_false, runL, Ev.run, (run_agrees m.policy).2.1, Bool.false_or]
      by_cases h : 1 ≤ passCount (outsEvs r.ra) <;> simp [compOK, h]
  have h4 : (runL m.policy (if a.isEmpty then [] else [Ev.comp CompKind.allOf (here "allOf" q [Frag.lit "doesn't match all schemas from \"allOf\""]) (outsEvs r.rl)])).2 =
      !(a.isEmpty || allOK r.rl) := by
    unfold allOK
    cases a.isEmpty with
    | true => simp [runL]
    | false =>
      simp only [Bool.false_eq_true, if_false, runL, Ev.run, (run_agrees m.policy).2.1, Bool.false_or]
      cases hcnt : (passCount (outsEvs r.rl) == r.rl.length) <;> simp [compOK, outsEvs, hcnt] <;> simp [outsEvs] at hcnt <;> simp [hcnt]
  rw [h1, h2, h3, h4]
  cases notOK r.rn <;> cases oneOK c kw r.ro v <;> cases anyOK b r.ra <;> cases (a.isEmpty || allOK r.rl) <;> rfl


theorem compEvs_located (kw : Kw) (a b c : List S) (v q : J) (r : Subs)
    (hd : c.isEmpty = false → (discCheck kw v).pass = false → q = v) : locatedL q (compEvs kw a b c v q r) := by
  unfold compEvs
  refine locatedL_append (locatedL_append (locatedL_append ?_ ?_) ?_) ?_
  · cases r.rn <;> simp [locatedL, Ev.located, loc_here]
  · cases hc : c.isEmpty with
    | true => simp [locatedL]
    | false =>
      simp only [Bool.false_eq_true, if_false]
      refine locatedL_append ?_ (by simp [locatedL, Ev.located, loc_here])
      cases hp : (discCheck kw v).pass with
      | true => rw [discEvs_nil_of_pass kw v hp]; simp [locatedL]
      | false => rw [hd hc hp]; exact discEvs_located kw v
  · cases b.isEmpty <;> simp [locatedL, Ev.located, loc_here]
  · cases a.isEmpty <;> simp [locatedL, Ev.located, loc_here]

theorem nodeD_locP (m : Mode) (env : Env) (kw : Kw) (a b c : List S) (p : List (String × S)) (sc : Bool) (v : J) (r : Subs)
    (hl : a.isEmpty = true → r.rl = [])
    (hown : locPL m.policy
      (ownD m env kw p (seqFin r.rl (afterAny b r.ra (afterOne c kw r.ro v))) r.items r.props r.addl).2
      (ownD m env kw p (seqFin r.rl (afterAny b r.ra (afterOne c kw r.ro v))) r.items r.props r.addl).1) :
    locPL m.policy (nodeD m env kw a b c p sc v r).2 (nodeD m env kw a b c p sc v r).1 := by
  unfold nodeD
  split
  · simp [locPL]
  · split
    · cases v.isNull <;> simp [locPL, Ev.locP]
      exact loc_noValue _ _ rfl rfl
    · dsimp only
      generalize hfin : (if (!notOK r.rn) = true then v else
          if (!oneOK c kw r.ro v) = true then v else
          if (!anyOK b r.ra) = true then afterOne c kw r.ro v else
          if (!allOK r.rl) = true then seqFin r.rl (afterAny b r.ra (afterOne c kw r.ro v)) else
          if (v.isNull && (!c.isEmpty || !b.isEmpty || !a.isEmpty)) = true then seqFin r.rl (afterAny b r.ra (afterOne c kw r.ro v)) else
          if (!enumOK kw (seqFin r.rl (afterAny b r.ra (afterOne c kw r.ro v)))) = true then seqFin r.rl (afterAny b r.ra (afterOne c kw r.ro v))
          else (ownD m env kw p (seqFin r.rl (afterAny b r.ra (afterOne c kw r.ro v))) r.items r.props r.addl).2) = fin
      have hd : c.isEmpty = false → (discCheck kw v).pass = false → fin = v := by
        intro hc hp
        rw [← hfin]
        have : oneOK c kw r.ro v = false := by simp [oneOK, hc, hp]
        simp only [this]
        cases notOK r.rn <;> simp
      show locPL m.policy fin (compEvs kw a b c v fin r ++ _)
      apply locPL_append
      · exact (locP_of_located m.policy).2.2 _ _ (compEvs_located kw a b c v fin r hd)
      · intro hs
        rw [compEvs_halt] at hs
        simp only [Bool.not_eq_false', Bool.and_eq_true] at hs
        obtain ⟨⟨⟨hn, ho⟩, ha⟩, hall⟩ := hs
        have hall' : allOK r.rl = true := by
          cases hae : a.isEmpty with
          | true => rw [hl hae]; exact allOK_nil
          | false => simpa [hae] using hall
        split
        · simp [locPL]
        · rename_i hskip
          apply locPL_append
          · exact (locP_of_located m.policy).2.2 _ _ (chk_located _ _ _ _ (loc_here _ _ _))
          · intro he
            have henum : enumOK kw (seqFin r.rl (afterAny b r.ra (afterOne c kw r.ro v))) = true := by
              unfold enumEvsQ chk at he
              split at he
              · simp [runL, Ev.run, policy_fatal] at he
              · rename_i hb; simpa using hb
            have : fin = (ownD m env kw p (seqFin r.rl (afterAny b r.ra (afterOne c kw r.ro v))) r.items r.props r.addl).2 := by
              rw [← hfin]
              simp [hn, ho, ha, hall', hskip, henum]
            rw [this]; exact hown


theorem visitD_locP_all (m : Mode) (env : Env) :
    (∀ (s : S) (v : J), WFJ v → s.dfltsWF → locPL m.policy (visitD m env s v).2 (visitD m env s v).1) ∧
    (∀ (ad : Option S) (_kvs : List (String × J)), dfltsWFO ad →
        ∀ t, ad = some t → ∀ x, WFJ x → locPL m.policy (visitD m env t x).2 (visitD m env t x).1) ∧
    (∀ (p : List (String × S)) (_kvs : List (String × J)), dfltsWFP p →
        ∀ k s, lookup k p = some s → ∀ x, WFJ x → locPL m.policy (visitD m env s x).2 (visitD m env s x).1) ∧
    (∀ (i : Option S) (_xs : List J), dfltsWFO i →
        ∀ t, i = some t → ∀ x, WFJ x → locPL m.policy (visitD m env t x).2 (visitD m env t x).1) ∧
    (∀ (_ss : List S) (_v : J), True) ∧ (∀ (_ss : List S) (_v : J), True) ∧
    (∀ (_dr : String) (_ss : List S) (_v : J), True) ∧ (∀ (_n : Option S) (_v : J), True) := by
  refine visitD.mutual_induct m env
    (motive_1 := fun s v => WFJ v → s.dfltsWF → locPL m.policy (visitD m env s v).2 (visitD m env s v).1)
    (motive_2 := fun ad _ => dfltsWFO ad → ∀ t, ad = some t → ∀ x, WFJ x → locPL m.policy (visitD m env t x).2 (visitD m env t x).1)
    (motive_3 := fun p _ => dfltsWFP p → ∀ k s, lookup k p = some s → ∀ x, WFJ x → locPL m.policy (visitD m env s x).2 (visitD m env s x).1)
    (motive_4 := fun i _ => dfltsWFO i → ∀ t, i = some t → ∀ x, WFJ x → locPL m.policy (visitD m env t x).2 (visitD m env t x).1)
    (motive_5 := fun _ _ => True) (motive_6 := fun _ _ => True) (motive_7 := fun _ _ _ => True) (motive_8 := fun _ _ => True)
    ?main ?seqNil ?seqCons ?eachNil ?eachCons ?selNil ?selCons ?adNone ?adSome ?itNone ?itSome ?notNone ?notSome ?pNil ?pCons
  case seqNil => intros; trivial
  case seqCons => intros; trivial
  case eachNil => intros; trivial
  case eachCons => intros; trivial
  case selNil => intros; trivial
  case selCons => intros; trivial
  case notNone => intros; trivial
  case notSome => intros; trivial
  case adNone => intro _ _ t h; cases h
  case adSome =>
    intro t kvs ih hs t' ht x hx
    cases ht
    exact ih ("", x) hx (by simpa [dfltsWFO] using hs)
  case itNone => intro _ _ t h; cases h
  case itSome =>
    intro t xs ih hs t' ht x hx
    cases ht
    exact ih x hx (by simpa [dfltsWFO] using hs)
  case pNil => intro kvs _ k s h; simp [lookup] at h
  case pCons =>
    intro k0 s0 ps kvs ih1 ih2 hs k s hl x hx
    simp only [dfltsWFP] at hs
    simp only [lookup] at hl
    split at hl
    · cases hl; exact ih1 x hx hs.2.1
    · exact ih2 hs.2.2 k s hl x hx
  case main =>
    intro kw a b c n i p ad v
    dsimp only
    intro _ _ _ _ ihi ihp ihad hw hs
    unfold S.dfltsWF at hs
    obtain ⟨hsa, hsb, hsc, hsn, hsi, hsp, hsad⟩ := hs
    have w2 : WFJ (afterOne c kw (selD m env (discCheck kw v).ref c v) v) := by
      rcases afterOne_cases c kw (selD m env (discCheck kw v).ref c v) v with h | ⟨o, ho, h⟩
      · rw [h]; exact hw
      · rw [h]; exact (visitD_wf_all m env).2.2.2.2.2.2.1 _ c v hw hsc o ho
    unfold visitD
    simp only []
    generalize hv2 : afterOne c kw (selD m env (discCheck kw v).ref c v) v = v2 at *
    have w3 : WFJ (afterAny b (eachD m env b v2) v2) := by
      rcases afterAny_cases b (eachD m env b v2) v2 with h | ⟨o, ho, h⟩
      · rw [h]; exact w2
      · rw [h]; exact (visitD_wf_all m env).2.2.2.2.2.1 b v2 w2 hsb o ho
    generalize hv3 : afterAny b (eachD m env b v2) v2 = v3 at *
    have w4 : WFJ (seqFin (seqD m env a v3) v3) := by
      rcases seqFin_cases (seqD m env a v3) v3 with h | ⟨o, ho, h⟩
      · rw [h]; exact w3
      · rw [h]; exact (visitD_wf_all m env).2.2.2.2.1 a v3 w3 hsa o ho
    generalize hv4 : seqFin (seqD m env a v3) v3 = v4 at *
    apply nodeD_locP
    · intro hae
      have : a = [] := by simpa using hae
      subst this; simp [seqD]
    · simp only [hv2, hv3, hv4]
      apply ownD_locP
      · intro o ho
        cases i with
        | none => simp [itemsD] at ho
        | some t =>
          simp only [itemsD, List.mem_map] at ho
          obtain ⟨x, hx, rfl⟩ := ho
          have hwx : WFJ x := by
            cases v4 with
            | arr xs => simp only [itemsOf] at hx; simp only [WFJ] at w4; exact wfjl_mem w4 x hx
            | _ => simp [itemsOf] at hx
          exact ihi hsi t rfl x hwx
      · cases i with
        | none => left; simp [itemsD]
        | some t => right; simp [itemsD]
      · intro k o ho
        rw [propsD_lookup] at ho
        split at ho
        · rename_i s x hls hlx
          cases ho
          have hwx : WFJ x := by
            cases v4 with
            | obj kvs =>
              simp only [WFJ] at w4
              exact wfjp_mem (ownKvs_wf env kw p kvs hsp w4.1 w4.2).2 (k, x) (lookup_some_mem _ k x hlx)
            | _ => simp [ownKvs, lookup] at hlx
          exact ihp hsp k s hls x hwx
        · cases ho
      · intro k o ho
        cases ad with
        | none => simp [addlD, lookup] at ho
        | some t =>
          rw [addlD_lookup, undeclared_lookup] at ho
          split at ho
          · cases hl : lookup k (ownKvs env kw p v4) with
            | none => simp [hl] at ho
            | some x =>
              simp only [hl, Option.map_some, Option.some.injEq] at ho
              subst ho
              have hwx : WFJ x := by
                cases v4 with
                | obj kvs =>
                  simp only [WFJ] at w4
                  exact wfjp_mem (ownKvs_wf env kw p kvs hsp w4.1 w4.2).2 (k, x) (lookup_some_mem _ k x hl)
                | _ => simp [ownKvs, lookup] at hl
              exact ihad hsad t rfl x hwx
          · simp at ho
      · cases v4 with
        | obj kvs => simp only [WFJ] at w4; exact (ownKvs_wf env kw p kvs hsp w4.1 w4.2).1
        | _ => simp [ownKvs, keysOf]

/-- **C12, second sentence, under default injection.** In every mode, for every schema (whose defaults are well-formed
values), every well-formed value and every option set, each reported error carries a pointer that resolves in the
value AS THE CALLER FINDS IT AFTER VALIDATION (to the enclosing object for a missing required property) and quotes what
is found there — although the validator mutates the value while it builds the errors. -/
theorem errors_point_at_data_after_injection (m : Mode) (env : Env) (s : S) (v : J) (hw : WFJ v) (hs : s.dfltsWF) :
    ∀ e ∈ (validateD m env s v).1.errs, Loc (validateD m env s v).2 e := by
  unfold validateD
  exact pointers_located_consumed m _ _ ((visitD_locP_all m env).1 s v hw hs)


end KinModel.Schema
