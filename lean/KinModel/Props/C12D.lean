/-
C12 with default injection (`DefaultsSet` under a request / response reading): theorems about `visitD`
(KinModel/Schema/Defaults.lean), the model that returns the event tree AND the value after validation.
-/
import KinModel.Props.C12
set_option linter.unusedSimpArgs false
set_option linter.unusedVariables false
namespace KinModel.Schema



theorem lookup_append {α} (k : String) (a b : List (String × α)) :
    lookup k (a ++ b) = (match lookup k a with | some x => some x | none => lookup k b) := by
  induction a with
  | nil => simp [lookup]
  | cons h t ih =>
    obtain ⟨k', x⟩ := h
    simp only [List.cons_append, lookup]
    by_cases hk : k = k'
    · simp [hk]
    · simp [hk, ih]

theorem propsD_lookup (m : Mode) (env : Env) (k : String) : ∀ (p : List (String × S)) (kvs : List (String × J)),
    lookup k (propsD m env p kvs) =
      (match lookup k p, lookup k kvs with | some s, some x => some (visitD m env s x) | _, _ => none)
  | [], kvs => by simp [propsD, lookup]
  | (k0, s0) :: ps, kvs => by
    rw [propsD, lookup_append, propsD_lookup m env k ps kvs]
    by_cases hk : k = k0
    · subst hk
      cases hx : lookup k kvs with
      | none => simp [lookup, hx]
      | some x => simp [lookup, hx]
    · cases hx : lookup k0 kvs with
      | none => simp [lookup, hk]
      | some x => simp [lookup, hk]

theorem addlD_lookup (m : Mode) (env : Env) (k : String) (t : S) : ∀ (l : List (String × J)),
    lookup k (addlD m env (some t) l) = (lookup k l).map (fun x => visitD m env t x)
  | [] => by simp [addlD, lookup]
  | (k0, x0) :: r => by
    have ih := addlD_lookup m env k t r
    simp only [addlD, List.map_cons, lookup] at ih ⊢
    by_cases hk : k = k0
    · simp [hk]
    · simp [hk, ih]

theorem undeclared_lookup (p : List (String × S)) (k : String) : ∀ (kvs : List (String × J)),
    lookup k (undeclared p kvs) = (if (lookup k p).isNone then lookup k kvs else none)
  | [] => by simp [undeclared, lookup]
  | (k0, x0) :: r => by
    have ih := undeclared_lookup p k r
    simp only [undeclared, List.filter_cons] at ih ⊢
    by_cases hk : k = k0
    · subst hk
      cases hp : (lookup k p).isNone <;> simp [lookup, hp, ih]
    · cases hp0 : (lookup k0 p).isNone <;> simp [lookup, hk, hp0, ih]

/-! ### T1: where nothing can be injected, `visitD` is `events` and the value is untouched -/

/-- nothing can be injected below this schema: no DefaultsSet / no reading, or no property default in the tree -/
def Inert (env : Env) (b : Bool) : Prop := env.injects = false ∨ b = false

theorem inject_id (env : Env) : ∀ (p : List (String × S)) (kvs : List (String × J)),
    hasPropDfltP p = false → inject env p kvs = kvs
  | [], kvs, _ => by simp [inject]
  | (k, s) :: ps, kvs, h => by
    simp only [hasPropDfltP, Bool.or_eq_false_iff] at h
    have hd : dfltFor env s = none := by
      unfold dfltFor; split
      · rfl
      · cases hdd : s.kw.dflt with
        | none => rfl
        | some d => simp [hdd] at h
    have : injectStep env k s kvs = kvs := by
      unfold injectStep; rw [hd]; cases lookup k kvs <;> rfl
    rw [inject, this]; exact inject_id env ps kvs h.2

theorem ownKvs_id (env : Env) (kw : Kw) (p : List (String × S)) (kvs : List (String × J))
    (h : Inert env (hasPropDfltP p)) : ownKvs env kw p (.obj kvs) = kvs := by
  unfold ownKvs
  rcases h with h | h
  · simp [h]
  · simp only; split
    · exact inject_id env p kvs h
    · rfl




theorem inert_or {env : Env} {a b : Bool} (h : Inert env (a || b)) : Inert env a ∧ Inert env b := by
  rcases h with h | h
  · exact ⟨Or.inl h, Or.inl h⟩
  · simp only [Bool.or_eq_false_iff] at h; exact ⟨Or.inr h.1, Or.inr h.2⟩

theorem passing_mem {o : Out} : ∀ {l : List Out}, o ∈ passing l → o ∈ l
  | [], h => by simp [passing] at h
  | x :: xs, h => by
    simp only [passing] at h
    split at h
    · rcases List.mem_cons.mp h with rfl | h'
      · simp
      · exact List.mem_cons_of_mem _ (passing_mem h')
    · exact List.mem_cons_of_mem _ (passing_mem h)

theorem firstPass_mem {o : Out} : ∀ {l : List Out}, firstPass l = some o → o ∈ l
  | [], h => by simp [firstPass] at h
  | x :: xs, h => by
    simp only [firstPass] at h
    split at h
    · cases h; simp
    · exact List.mem_cons_of_mem _ (firstPass_mem h)

theorem afterOne_same (c : List S) (kw : Kw) (ro : List Out) (v : J) (h : ∀ o ∈ ro, o.2 = v) : afterOne c kw ro v = v := by
  unfold afterOne
  split
  · rfl
  · split
    · rename_i o ho
      exact h o (passing_mem (by rw [ho]; simp))
    · rfl

theorem afterAny_same (b : List S) (ra : List Out) (v : J) (h : ∀ o ∈ ra, o.2 = v) : afterAny b ra v = v := by
  unfold afterAny
  split
  · rfl
  · split
    · rename_i o ho; exact h o (firstPass_mem ho)
    · rfl

theorem seqFin_same : ∀ (rl : List Out) (v : J), (∀ o ∈ rl, o.2 = v) → seqFin rl v = v
  | [], v, _ => by simp [seqFin]
  | o :: os, v, h => by
    have ho : o.2 = v := h o (by simp)
    simp only [seqFin, ho]
    split
    · exact seqFin_same os v (fun o' ho' => h o' (List.mem_cons_of_mem _ ho'))
    · rfl

theorem asmItems_map (m : Mode) (f : J → List Ev) : ∀ (xs : List J) (stop : Bool) (i : Nat),
    asmItems m stop i xs (xs.map (fun x => (f x, x))) = xs
  | [], stop, i => by simp [asmItems]
  | x :: xs, stop, i => by
    simp only [List.map_cons, asmItems]
    split <;> simp [asmItems_map m f xs]

theorem asmItems_nil (m : Mode) (stop : Bool) (i : Nat) (xs : List J) : asmItems m stop i xs [] = xs := by
  cases xs <;> simp [asmItems]

theorem itemEvs_map (env : Env) (t : S) : ∀ (xs : List J) (i : Nat),
    itemEvs i (xs.map (fun x => (events env t x, x))) = itemsEvs env t xs i
  | [], i => by simp [itemEvs, itemsEvs]
  | x :: xs, i => by simp [itemEvs, itemsEvs, itemEvs_map env t xs (i + 1)]




/-- the sub-visit results of the members of `l` are those of `events`, values untouched -/
structure MembersSame (env : Env) (p : List (String × S)) (ad : Option S) (props addl : List (String × Out))
    (l : List (String × J)) : Prop where
  prop : ∀ kx ∈ l, lookup kx.1 props = (lookup kx.1 p).map (fun s => (events env s kx.2, kx.2))
  addl : ∀ kx ∈ l, lookup kx.1 p = none → lookup kx.1 addl = ad.map (fun s => (events env s kx.2, kx.2))

theorem asmKvs_same (m : Mode) (env : Env) (p : List (String × S)) (ad : Option S) (has : Option Bool)
    (props addl : List (String × Out)) : ∀ (l : List (String × J)) (stop : Bool),
    MembersSame env p ad props addl l → asmKvs m has props addl stop l = l
  | [], _, _ => by simp [asmKvs]
  | (k, x) :: r, stop, h => by
    have hr : MembersSame env p ad props addl r :=
      ⟨fun kx hk => h.prop kx (List.mem_cons_of_mem _ hk), fun kx hk => h.addl kx (List.mem_cons_of_mem _ hk)⟩
    have hsel : selFin (propSel has (lookup k props) (lookup k addl)) x = x := by
      unfold selFin
      have hp := h.prop (k, x) (by simp)
      simp only at hp
      cases hlp : lookup k p with
      | some s => rw [hlp] at hp; simp only [Option.map_some] at hp; simp [propSel, hp]
      | none =>
        rw [hlp] at hp; simp only [Option.map_none] at hp
        have ha := h.addl (k, x) (by simp) hlp
        simp only at ha
        simp only [propSel, hp]
        split
        · rename_i o ho
          split at ho
          · rw [ha] at ho; cases ad <;> simp at ho; rw [← ho]
          · cases ho
        · rfl
    simp only [asmKvs]
    split
    · rw [asmKvs_same m env p ad has props addl r true hr]
    · rw [hsel, asmKvs_same m env p ad has props addl r _ hr]

theorem kvsEvs_same (env : Env) (p : List (String × S)) (ad : Option S) (has : Option Bool) (q : J)
    (props addl : List (String × Out)) : ∀ (l : List (String × J)),
    MembersSame env p ad props addl l → kvsEvs q has props addl l = propsEvs env p ad has q l
  | [], _ => by simp [kvsEvs, propsEvs]
  | (k, x) :: r, h => by
    have hr : MembersSame env p ad props addl r :=
      ⟨fun kx hk => h.prop kx (List.mem_cons_of_mem _ hk), fun kx hk => h.addl kx (List.mem_cons_of_mem _ hk)⟩
    rw [kvsEvs, propsEvs.eq_def, kvsEvs_same env p ad has q props addl r hr]
    congr 1
    have hp := h.prop (k, x) (by simp)
    simp only at hp
    unfold memberEvs
    cases hlp : lookup k p with
    | some s => rw [hlp] at hp; simp only [Option.map_some] at hp; simp [hp, propEv]
    | none =>
      rw [hlp] at hp; simp only [Option.map_none] at hp
      have ha := h.addl (k, x) (by simp) hlp
      simp only at ha
      rw [hp, ha]
      cases ad <;> simp



/-- the events of the items / members, as `events` builds them -/
def childEvsOf (env : Env) (kw : Kw) (i : Option S) (p : List (String × S)) (ad : Option S) (v : J) : List Ev :=
  match v with
  | .arr xs => (match i with | none => [] | some s => itemsEvs env s xs 0)
  | .obj kvs => propsEvs env p ad kw.addHas v kvs
  | _ => []

theorem events_unfold (env : Env) (kw : Kw) (a b c : List S) (n i : Option S) (p : List (String × S)) (ad : Option S) (v : J) :
    events env (S.mk kw a b c n i p ad) v =
      evCombine env kw a b c p (S.mk kw a b c n i p ad).shortcut v
        (match n with | none => [] | some s => [.comp .not (here "not" v [.lit "Doesn't match schema \"not\""]) [events env s v]])
        (eventsSel env (discCheck kw v).ref c v) (eventsEach env b v) (eventsEach env a v) (childEvsOf env kw i p ad v) := by
  rw [events.eq_def]; rfl

theorem ownD_same (m : Mode) (env : Env) (kw : Kw) (i : Option S) (p : List (String × S)) (ad : Option S) (v : J) (hw : WFJ v)
    (hip : Inert env (hasPropDfltP p))
    (hi : ∀ t, i = some t → ∀ x, WFJ x → visitD m env t x = (events env t x, x))
    (hp : ∀ k s, lookup k p = some s → ∀ x, WFJ x → visitD m env s x = (events env s x, x))
    (had : ∀ t, ad = some t → ∀ x, WFJ x → visitD m env t x = (events env t x, x)) :
    ownD m env kw p v (itemsD m env i (itemsOf v)) (propsD m env p (ownKvs env kw p v))
        (addlD m env ad (undeclared p (ownKvs env kw p v))) =
      (ownEvs env kw p v (childEvsOf env kw i p ad v), v) := by
  cases v with
  | null => simp [ownD, ownEvs, childEvsOf]
  | bool b => simp [ownD, ownEvs, childEvsOf]
  | num q => simp [ownD, ownEvs, childEvsOf]
  | str s => simp [ownD, ownEvs, childEvsOf]
  | arr xs =>
    simp only [ownD, itemsOf, ownEvs, ownEvsQ, childEvsOf]
    cases i with
    | none => simp [itemsD, asmItems_nil, itemEvs]
    | some t =>
      have hmap : itemsD m env (some t) xs = xs.map (fun x => (events env t x, x)) := by
        simp only [itemsD]
        apply List.map_congr_left
        intro x hx
        exact hi t rfl x (wfjl_mem hw x hx)
      rw [hmap, asmItems_map, itemEvs_map]
  | obj kvs =>
    have hk : ownKvs env kw p (.obj kvs) = kvs := ownKvs_id env kw p kvs hip
    simp only [WFJ] at hw
    have hmem : MembersSame env p ad (propsD m env p kvs) (addlD m env ad (undeclared p kvs)) kvs := by
      constructor
      · intro kx hkx
        have hl : lookup kx.1 kvs = some kx.2 := lookup_of_mem_nodup kvs kx.1 kx.2 hw.1 hkx
        rw [propsD_lookup, hl]
        cases hlp : lookup kx.1 p with
        | none => simp
        | some s => simp [hp kx.1 s hlp kx.2 (wfjp_mem hw.2 kx hkx)]
      · intro kx hkx hnone
        have hl : lookup kx.1 kvs = some kx.2 := lookup_of_mem_nodup kvs kx.1 kx.2 hw.1 hkx
        cases ad with
        | none => simp [addlD, lookup]
        | some t =>
          rw [addlD_lookup, undeclared_lookup, hnone, hl]
          simp [had t rfl kx.2 (wfjp_mem hw.2 kx hkx)]
    simp only [ownD, hk, ownEvs, ownEvsQ, childEvsOf]
    rw [asmKvs_same m env p ad kw.addHas _ _ kvs _ hmem, kvsEvs_same env p ad kw.addHas _ _ _ kvs hmem]




theorem afterNot_map (n : Option S) (f : S → List Ev) (v : J) :
    afterNot (match n with | none => none | some t => some (f t, v)) v = v := by
  cases n <;> simp [afterNot]

theorem outsEvs_map (l : List (List Ev)) (v : J) : outsEvs (l.map (fun t => (t, v))) = l := by
  simp [outsEvs, Function.comp_def]

theorem visitD_inert_all (m : Mode) (env : Env) :
    (∀ (s : S) (v : J), WFJ v → Inert env s.hasPropDflt → visitD m env s v = (events env s v, v)) ∧
    (∀ (ad : Option S) (_kvs : List (String × J)), Inert env (hasPropDfltO ad) →
        ∀ t, ad = some t → ∀ x, WFJ x → visitD m env t x = (events env t x, x)) ∧
    (∀ (p : List (String × S)) (_kvs : List (String × J)), Inert env (hasPropDfltP p) →
        ∀ k s, lookup k p = some s → ∀ x, WFJ x → visitD m env s x = (events env s x, x)) ∧
    (∀ (i : Option S) (_xs : List J), Inert env (hasPropDfltO i) →
        ∀ t, i = some t → ∀ x, WFJ x → visitD m env t x = (events env t x, x)) ∧
    (∀ (ss : List S) (v : J), WFJ v → Inert env (hasPropDfltL ss) →
        seqD m env ss v = (eventsEach env ss v).map (fun t => (t, v))) ∧
    (∀ (ss : List S) (v : J), WFJ v → Inert env (hasPropDfltL ss) →
        eachD m env ss v = (eventsEach env ss v).map (fun t => (t, v))) ∧
    (∀ (dr : String) (ss : List S) (v : J), WFJ v → Inert env (hasPropDfltL ss) →
        selD m env dr ss v = (eventsSel env dr ss v).map (fun t => (t, v))) ∧
    (∀ (n : Option S) (v : J), WFJ v → Inert env (hasPropDfltO n) →
        notD m env n v = (match n with | none => none | some t => some (events env t v, v))) := by
  refine visitD.mutual_induct m env
    (motive_1 := fun s v => WFJ v → Inert env s.hasPropDflt → visitD m env s v = (events env s v, v))
    (motive_2 := fun ad _ => Inert env (hasPropDfltO ad) → ∀ t, ad = some t → ∀ x, WFJ x → visitD m env t x = (events env t x, x))
    (motive_3 := fun p _ => Inert env (hasPropDfltP p) → ∀ k s, lookup k p = some s → ∀ x, WFJ x → visitD m env s x = (events env s x, x))
    (motive_4 := fun i _ => Inert env (hasPropDfltO i) → ∀ t, i = some t → ∀ x, WFJ x → visitD m env t x = (events env t x, x))
    (motive_5 := fun ss v => WFJ v → Inert env (hasPropDfltL ss) → seqD m env ss v = (eventsEach env ss v).map (fun t => (t, v)))
    (motive_6 := fun ss v => WFJ v → Inert env (hasPropDfltL ss) → eachD m env ss v = (eventsEach env ss v).map (fun t => (t, v)))
    (motive_7 := fun dr ss v => WFJ v → Inert env (hasPropDfltL ss) → selD m env dr ss v = (eventsSel env dr ss v).map (fun t => (t, v)))
    (motive_8 := fun n v => WFJ v → Inert env (hasPropDfltO n) →
        notD m env n v = (match n with | none => none | some t => some (events env t v, v)))
    ?main ?seqNil ?seqCons ?eachNil ?eachCons ?selNil ?selCons ?adNone ?adSome ?itNone ?itSome ?notNone ?notSome ?pNil ?pCons
  case seqNil => intro v _ _; simp [seqD, eventsEach]
  case seqCons =>
    intro s ss v ih1 ih2 hw hi
    simp only [hasPropDfltL] at hi
    obtain ⟨hi1, hi2⟩ := inert_or hi
    have e1 := ih1 hw hi1
    rw [seqD, e1]
    rw [e1] at ih2
    simp only [eventsEach, List.map_cons]
    rw [ih2 hw hi2]
  case eachNil => intro v _ _; simp [eachD, eventsEach]
  case eachCons =>
    intro s ss v ih1 ih2 hw hi
    simp only [hasPropDfltL] at hi
    obtain ⟨hi1, hi2⟩ := inert_or hi
    rw [eachD, ih1 hw hi1, ih2 hw hi2]
    simp [eventsEach]
  case selNil => intro dr v _ _; simp [selD, eventsSel]
  case selCons =>
    intro dr s ss v ih1 ih2 hw hi
    simp only [hasPropDfltL] at hi
    obtain ⟨hi1, hi2⟩ := inert_or hi
    rw [selD, ih1 hw hi1, ih2 hw hi2]
    simp only [eventsSel, List.map_cons]
    cases selOK dr s <;> simp
  case adNone => intro _ _ t h; cases h
  case adSome =>
    intro t kvs ih hi t' ht x hx
    cases ht
    exact ih ("", x) hx (by simpa [hasPropDfltO] using hi)
  case itNone => intro _ _ t h; cases h
  case itSome =>
    intro t xs ih hi t' ht x hx
    cases ht
    exact ih x hx (by simpa [hasPropDfltO] using hi)
  case notNone => intro v _ _; simp [notD]
  case notSome =>
    intro t v ih hw hi
    simp only [notD]
    rw [ih hw (by simpa [hasPropDfltO] using hi)]
  case pNil => intro kvs _ k s h; simp [lookup] at h
  case pCons =>
    intro k0 s0 ps kvs ih1 ih2 hi k s hl x hx
    simp only [hasPropDfltP] at hi
    obtain ⟨hi1, hi3⟩ := inert_or hi
    obtain ⟨_, hi2⟩ := inert_or hi1
    simp only [lookup] at hl
    split at hl
    · cases hl; exact ih1 x hx hi2
    · exact ih2 hi3 k s hl x hx
  case main =>
    intro kw a b c n i p ad v
    dsimp only
    intro ihn iho iha ihl ihi ihp ihad hw hi
    unfold S.hasPropDflt at hi
    obtain ⟨hi6, hiad⟩ := inert_or hi
    obtain ⟨hi5, hip⟩ := inert_or hi6
    obtain ⟨hi4, hii⟩ := inert_or hi5
    obtain ⟨hi3, hin⟩ := inert_or hi4
    obtain ⟨hi2, hic⟩ := inert_or hi3
    obtain ⟨hia, hib⟩ := inert_or hi2
    have en := ihn hw hin
    have hv1 : afterNot (notD m env n v) v = v := by rw [en]; exact afterNot_map n _ v
    rw [hv1] at iho
    have eo := iho hw hic
    have hv2 : afterOne c kw (selD m env (discCheck kw v).ref c v) v = v := by
      apply afterOne_same; rw [eo]; intro o ho; simp only [List.mem_map] at ho; obtain ⟨t, _, rfl⟩ := ho; rfl
    rw [hv1, hv2] at iha
    have ea := iha hw hib
    have hv3 : afterAny b (eachD m env b v) v = v := by
      apply afterAny_same; rw [ea]; intro o ho; simp only [List.mem_map] at ho; obtain ⟨t, _, rfl⟩ := ho; rfl
    rw [hv1, hv2, hv3] at ihl
    have el := ihl hw hia
    have hv4 : seqFin (seqD m env a v) v = v := by
      apply seqFin_same; rw [el]; intro o ho; simp only [List.mem_map] at ho; obtain ⟨t, _, rfl⟩ := ho; rfl
    have hown := ownD_same m env kw i p ad v hw hip (ihi hii) (ihp hip) (ihad hiad)
    unfold visitD
    simp only [hv1, hv2, hv3, hv4]
    rw [events_unfold]
    unfold nodeD evCombine
    simp only [hv1, hv2, hv3, hv4, hown, ite_self]
    rw [en, eo, ea, el]
    simp only [outsEvs_map]
    by_cases h1 : (v.isNull && kw.permitsNull) = true
    · simp only [h1, if_true]
    · by_cases h2 : (S.mk kw a b c n i p ad).shortcut = true
      · simp only [h1, h2, if_true, if_false, Bool.false_eq_true]
      · simp only [h1, h2, if_false, Bool.false_eq_true, enumEvs]
        cases n <;> rfl


/-- **T1 (the two models coincide).** Without `DefaultsSet` under a request/response reading, or for a schema that declares
no property default anywhere, `visitD` produces — in every mode — exactly the mode-free event tree of `events` and
returns the value untouched: every theorem about `validate` (verdict = C01's, errors located, reasons value-free)
holds for `validateD` on such inputs. -/
theorem visitD_inert (m : Mode) (env : Env) (s : S) (v : J) (hw : WFJ v) (h : env.injects = false ∨ s.hasPropDflt = false) :
    visitD m env s v = (events env s v, v) := (visitD_inert_all m env).1 s v hw h

theorem validateD_inert (m : Mode) (env : Env) (s : S) (v : J) (hw : WFJ v) (h : env.injects = false ∨ s.hasPropDflt = false) :
    validateD m env s v = (validate m env s v, v) := by
  unfold validateD validate; rw [visitD_inert m env s v hw h]

end KinModel.Schema
