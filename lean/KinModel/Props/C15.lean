/-
C15 — a loaded document can be shared by concurrent validations.
Property theorems only. Model: KinModel/Conc.lean (machine, races, clean footprints, table reading),
KinModel/ConcCase.lean (footprints of the library's operations, executable case model, outcome, spec),
KinModel/Gen/SharedWrites.lean (REGENERATED from the source: every write to shared state reachable from
FindRoute / ValidateRequest / ValidateResponse / VisitJSON / NewSchemaRefForValue).

Level: partial (DESIGN §4-C15, §8). The theorems are about footprints: the Go memory model, `regexp`,
`gorilla/mux`, `sync` are exercised by the `-race` correspondence run, not proved.
-/
import KinModel.Conc
import KinModel.ConcCase
import KinModel.ConcSlice
import KinModel.Gen.SharedWrites
import KinModel.Gen.SharedGlobals
import KinModel.Gen.ConstructionWrites
import KinModel.Lemmas.C15
import KinModel.Lemmas.C15History
import KinModel.Lemmas.C15Sched
namespace KinModel.Conc

/-! ## A. for every footprint, every number of threads, every interleaving -/

/-- Clean footprints cannot race: no trace of clean actions, from a state whose lazily initialised cells are
    initialised, contains two conflicting unsynchronised accesses by different threads. -/
theorem race_free (k : Cfg) (σ : State) (tr : Trace) (hc : CleanTrace k tr) (hl : LazyInit k σ) :
    ¬ RaceIn (events σ tr) := by
  rintro ⟨e1, h1, e2, h2, hcf⟩
  have n1 := events_no_write k tr σ hc hl e1 h1
  have n2 := events_no_write k tr σ hc hl e2 h2
  simp only [conflict, Bool.and_eq_true, Bool.or_eq_true, beq_iff_eq] at hcf
  rcases hcf.2 with h | h
  · exact n1 h
  · exact n2 h

/-- Schedule independence: in ANY interleaving with any other threads, and whatever the caches held at the
    start (`τ` differs from `σ` at most on cache cells; a cache whose content is USED holds nothing or the value
    its key determines, `Coherent`), thread `i` observes exactly what it observes when it runs alone — hence
    returns the same verdict. This covers caches that ARE filled and read back (`fillUse`: the type-info cache):
    whoever publishes first, every thread goes on with the value the key determines. -/
theorem schedule_independent (k : Cfg) (i : Nat) : ∀ (tr : Trace) (σ τ : State),
    CleanTrace k tr → LazyInit k σ → AgreeOff k σ τ → Coherent k σ → Coherent k τ →
    readsOf i σ tr = solo τ (proj i tr)
  | [], _, _, _, _, _, _, _ => rfl
  | (j, a) :: tr, σ, τ, hc, hl, hag, hcs, hct => by
    have hca : cleanAct k a = true := hc (j, a) (by simp)
    have hc' : CleanTrace k tr := fun x hx => hc x (by simp [hx])
    have hl' := lazy_step k σ a hca hl
    have hcs' := coherent_step k σ a hca hcs
    by_cases hj : j = i
    · obtain ⟨hag', hobs⟩ := agree_step k σ τ a hag hca hcs hct
      simp only [readsOf, proj, hj, if_true, solo]
      rw [hobs, schedule_independent k i tr (stepState σ a) (stepState τ a) hc' hl' hag' hcs'
            (coherent_step k τ a hca hct)]
    · simp only [readsOf, proj, hj, if_false]
      exact schedule_independent k i tr (stepState σ a) τ hc' hl' (agree_other k σ τ a hag hca hl) hcs' hct

/-- Any two complete interleavings of the same threads give every thread the same observations. -/
theorem any_two_schedules_agree (k : Cfg) (ts : Nat → List Act) (σ : State) (tr1 tr2 : Trace)
    (h1 : IsSchedule ts tr1) (h2 : IsSchedule ts tr2) (c1 : CleanTrace k tr1) (c2 : CleanTrace k tr2)
    (hl : LazyInit k σ) (hco : Coherent k σ) (i : Nat) : readsOf i σ tr1 = readsOf i σ tr2 := by
  rw [schedule_independent k i tr1 σ σ c1 hl (agree_refl k σ) hco hco,
      schedule_independent k i tr2 σ σ c2 hl (agree_refl k σ) hco hco, h1 i, h2 i]

/-- Warm or cold caches make no difference to what a thread observes. -/
theorem cache_contents_irrelevant (k : Cfg) (i : Nat) (tr : Trace) (σ τ : State) (hc : CleanTrace k tr)
    (hl : LazyInit k σ) (hl' : LazyInit k τ) (hag : AgreeOff k σ τ) (hcs : Coherent k σ) (hct : Coherent k τ) :
    readsOf i σ tr = readsOf i τ tr := by
  rw [schedule_independent k i tr σ τ hc hl hag hcs hct,
      schedule_independent k i tr τ τ hc hl' (agree_refl k τ) hct hct]

/-- A configuration without read-back caches needs no coherence: the earlier form of the theorem. -/
theorem schedule_independent_no_used_cache (k : Cfg) (hk : k.det = []) (i : Nat) (tr : Trace) (σ τ : State)
    (hc : CleanTrace k tr) (hl : LazyInit k σ) (hag : AgreeOff k σ τ) : readsOf i σ tr = solo τ (proj i tr) :=
  schedule_independent k i tr σ τ hc hl hag (fun c d h => by simp [hk] at h) (fun c d h => by simp [hk] at h)

/-- A read-back cache filled with values that do NOT depend on the key alone is not transparent: thread 0 publishes
    1000, thread 1 would have published 1001 and now goes on with 1000 (F-C15-2 was this, with descriptors). -/
theorem used_cache_needs_key_determined_values :
    readsOf 1 (fun _ => 0) [(0, .fillUse 11 1000), (1, .fillUse 11 1001)] ≠ solo (fun _ => 0) [.fillUse 11 1001] := by
  decide

/-- Schedule independence WITHOUT the hypothesis that lazily initialised cells are initialised: when every racer
    installs the value the cell's key determines and the cell is only accessed through the nil-guarded
    initialisation (`k'` lists it as a read-back cache), every thread still observes what it observes alone — the
    uninitialised cell is a data race (`uninitialised_lazy_cell_races`) but changes no verdict. -/
theorem schedule_independent_uninitialised (k' : Cfg) (i : Nat) (tr : Trace) (σ τ : State)
    (hc : CleanTrace k' (mapTrace tr)) (hlz : k'.lazy = []) (hag : AgreeOff k' σ τ)
    (hcs : Coherent k' σ) (hct : Coherent k' τ) : readsOf i σ tr = solo τ (proj i tr) := by
  rw [← readsOf_map i tr σ, schedule_independent k' i (mapTrace tr) σ τ hc (fun c h => by simp [hlz] at h) hag hcs hct, proj_map, solo_map]

/-- Frame rule. Thread `i` observes what it observes alone as soon as ITS OWN actions are clean and stay inside a
    frame `F` of cells, and every other thread's action is clean or touches no cell of `F` — other goroutines may do
    anything at all (unsynchronised writes, races among themselves) to memory this thread never looks at. -/
theorem schedule_independent_frame (k : Cfg) (F : List Cell) (i : Nat) (tr : Trace) (σ τ : State)
    (hmine : ∀ x ∈ tr, x.1 = i → actCell x.2 ∈ F)
    (hclean : ∀ x ∈ tr, cleanAct k x.2 = true ∨ (x.1 ≠ i ∧ actCell x.2 ∉ F))
    (hl : LazyInit k σ) (hag : AgreeOff k σ τ) (hcs : Coherent k σ) (hct : Coherent k τ) :
    readsOf i σ tr = solo τ (proj i tr) := by
  rw [readsOf_drop_junk F i tr σ σ (fun _ _ => rfl) hmine]
  have hc : CleanTrace k (tr.filter (fun x => !junk F i x)) := by
    intro x hx
    simp only [List.mem_filter, Bool.not_eq_true'] at hx
    rcases hclean x hx.1 with h | ⟨h1, h2⟩
    · exact h
    · have : junk F i x = true := by simp [junk, h1, h2]
      rw [this] at hx; exact absurd hx.2 (by simp)
  rw [schedule_independent k i _ σ τ hc hl hag hcs hct, proj_drop_junk]

/-- the frame matters: a plain write by another thread INSIDE the frame changes what the thread reads
    (`plain_write_schedule_dependent`), outside it does not -/
example : readsOf 1 sigma0 [(0, .write 99 9), (1, .read 0), (0, .write 99 8)] = solo sigma0 [.read 0] := by decide

/-- Validation does not write into the document: after any clean trace every non-cache cell holds what it
    held before. -/
theorem document_untouched (k : Cfg) (σ : State) (tr : Trace) (hc : CleanTrace k tr) (hl : LazyInit k σ) :
    ∀ c, c ∉ k.cache → finalState σ tr c = σ c :=
  final_agree k tr σ σ hc hl (agree_refl k σ)

/-! Both hypotheses are needed (kernel-checked witnesses; these are the shapes of the two seeded defects). -/

/-- An uninitialised lazily-initialised cell (the declaration lost its initialiser) races on first use. -/
theorem uninitialised_lazy_cell_races :
    RaceIn (events (fun _ => 0) [(0, .lazyInit 2 7), (1, .lazyInit 2 7)]) := by
  rw [← raceInB_iff]; decide

/-- …although the verdicts are unaffected (every racer installs the same value). -/
theorem uninitialised_lazy_cell_same_obs :
    readsOf 1 (fun _ => 0) [(0, .lazyInit 2 7), (1, .lazyInit 2 7)] = solo (fun _ => 0) [.lazyInit 2 7] := by
  decide

/-- A plain write into the document races with a reader … -/
theorem plain_write_races : RaceIn (events sigma0 [(0, .write 0 9), (1, .read 0)]) := by
  rw [← raceInB_iff]; decide

/-- … and makes the reader's observation depend on the schedule. -/
theorem plain_write_schedule_dependent :
    readsOf 1 sigma0 [(0, .write 0 9), (1, .read 0)] ≠ readsOf 1 sigma0 [(1, .read 0), (0, .write 0 9)] := by
  decide

/-! ## A″. history / reuse: a sequence of calls on one shared document, router and process -/

/-- History independence. Whatever happened before on the shared objects — ANY clean history `before`: any number of
    earlier calls by any threads, this thread included, in any interleaving, leaving the caches warm in whatever way —
    thread `i` observes in what follows (again interleaved with anything clean) exactly what its calls observe when
    they are the first and only calls on the freshly loaded document `σ`. -/
theorem call_after_any_history (k : Cfg) (i : Nat) (before during : Trace) (σ : State)
    (hb : CleanTrace k before) (hd : CleanTrace k during) (hl : LazyInit k σ) (hco : Coherent k σ) :
    readsOf i (finalState σ before) during = solo σ (proj i during) :=
  schedule_independent k i during (finalState σ before) σ hd (lazy_final k before σ hb hl)
    (final_agree k before σ σ hb hl (agree_refl k σ)) (coherent_final k before σ hb hco) hco

/-- … and nothing that runs after a clean history races: a long-lived process with warm caches is as race-free as a
    fresh one (no hypothesis on what the history did beyond its being clean). -/
theorem race_free_after_history (k : Cfg) (before during : Trace) (σ : State)
    (hb : CleanTrace k before) (hd : CleanTrace k during) (hl : LazyInit k σ) :
    ¬ RaceIn (events (finalState σ before) during) :=
  race_free k (finalState σ before) during hd (lazy_final k before σ hb hl)

/-- … so the observations of a thread over a whole execution split call by call: what it saw during the history,
    then what the later calls observe on a fresh document. -/
theorem later_calls_observe_fresh_document (k : Cfg) (i : Nat) (before during : Trace) (σ : State)
    (hb : CleanTrace k before) (hd : CleanTrace k during) (hl : LazyInit k σ) (hco : Coherent k σ) :
    readsOf i σ (before ++ during) = solo σ (proj i before) ++ solo σ (proj i during) := by
  rw [readsOf_append, call_after_any_history k i before during σ hb hd hl hco,
      schedule_independent k i before σ σ hb hl (agree_refl k σ) hco hco]

/-- A call run alone after any clean history returns what it returns as the very first call. -/
theorem solo_after_history (k : Cfg) (hist : Trace) (call : List Act) (σ : State)
    (hh : CleanTrace k hist) (hc : ∀ a ∈ call, cleanAct k a = true) (hl : LazyInit k σ) (hco : Coherent k σ) :
    solo (finalState σ hist) call = solo σ call := by
  have hct : CleanTrace k (call.map (fun a => ((0 : Nat), a))) := by
    intro x hx
    obtain ⟨a, ha, rfl⟩ := List.mem_map.mp hx
    exact hc a ha
  have h1 := call_after_any_history k 0 hist _ σ hh hct hl hco
  have h2 := schedule_independent k 0 _ (finalState σ hist) (finalState σ hist) hct (lazy_final k hist σ hh hl)
    (agree_refl k _) (coherent_final k hist σ hh hco) (coherent_final k hist σ hh hco)
  rw [proj_own] at h1 h2
  rw [← h2, h1]

/-- Reuse. One goroutine performing the calls `cs` one after the other on the same document / router / Validator
    observes in EACH call what that call observes as the first call on a fresh document: the list of verdicts of a
    sequence is the list of the solo verdicts (operation lists of any length, any repetition). -/
theorem sequential_reuse (k : Cfg) : ∀ (cs : List (List Act)) (σ : State),
    (∀ c ∈ cs, ∀ a ∈ c, cleanAct k a = true) → LazyInit k σ → Coherent k σ →
    solo σ cs.flatten = (cs.map (solo σ)).flatten
  | [], _, _, _, _ => rfl
  | c :: cs, σ, hc, hl, hco => by
    have hcc : ∀ a ∈ c, cleanAct k a = true := hc c (by simp)
    have hct : CleanTrace k (c.map (fun a => ((0 : Nat), a))) := by
      intro x hx
      obtain ⟨a, ha, rfl⟩ := List.mem_map.mp hx
      exact hcc a ha
    have hrest : ∀ c' ∈ cs, ∀ a ∈ c', cleanAct k a = true := fun c' h => hc c' (by simp [h])
    have hflat : ∀ a ∈ cs.flatten, cleanAct k a = true := by
      intro a ha
      obtain ⟨c', hc', hac⟩ := List.mem_flatten.mp ha
      exact hrest c' hc' a hac
    simp only [List.flatten_cons, List.map_cons]
    rw [solo_append, solo_after_history k _ cs.flatten σ hct hflat hl hco, sequential_reuse k cs σ hrest hl hco]

/-- Reuse under concurrency: thread `i` performs the calls `cs` in order while any other threads do anything clean,
    in any interleaving — every one of its calls returns its solo, first-use verdict. -/
theorem concurrent_reuse (k : Cfg) (i : Nat) (cs : List (List Act)) (tr : Trace) (σ : State)
    (hp : proj i tr = cs.flatten) (hc : CleanTrace k tr) (hcs : ∀ c ∈ cs, ∀ a ∈ c, cleanAct k a = true)
    (hl : LazyInit k σ) (hco : Coherent k σ) :
    readsOf i σ tr = (cs.map (solo σ)).flatten := by
  rw [schedule_independent k i tr σ σ hc hl (agree_refl k σ) hco hco, hp, sequential_reuse k cs σ hcs hl hco]

/-- non-vacuity of the reuse theorems: a read-back cache (cell 11, key-determined value 5), a lazily initialised cell
    (2), two calls that both use the cache — the second call finds it warm and observes what the first observed -/
example : (∀ c ∈ [[Act.read 0, .fillUse 11 5, .lazyInit 2 7], [.fillUse 11 5, .read 1]], ∀ a ∈ c,
              cleanAct ⟨[11], [2], [(11, 5)]⟩ a = true) ∧
    solo sigma0 [[Act.read 0, .fillUse 11 5, .lazyInit 2 7], [.fillUse 11 5, .read 1]].flatten = [1, 5, 7, 5, 1] ∧
    finalState sigma0 ([[Act.read 0, .fillUse 11 5, .lazyInit 2 7]].flatten.map (fun a => (0, a))) 11 = 5 := by decide

/-- History DOES matter for an unconditionally stored cache that is read back (the shape `getTypeInfo` had, and a
    `compiledPatterns.Store` in compilePattern): after a call that stored its own value, the next call is not the
    first call any more. -/
theorem history_matters_for_last_writer_wins :
    solo (finalState (fun _ => 0) [(0, .syncStore 11 1000)]) [.syncStore 11 1001, .syncRead 11]
      = solo (fun _ => 0) [.syncStore 11 1001, .syncRead 11] ∧
    solo (finalState (fun _ => 0) [(0, .syncStore 10 1)]) [.cacheUse 10 2] ≠ solo (fun _ => 0) [.cacheUse 10 2] := by
  decide

/-- … and for a plain write into the document (seeded C15-r3m1 run SEQUENTIALLY: the operation's parameter stored into
    the spare slot of the path item's list stays there for the next call). -/
theorem history_matters_for_plain_writes :
    solo (finalState sigma0 [(0, .write (sliceCell 0 3) 7)]) [.read (sliceCell 0 3)] ≠ solo sigma0 [.read (sliceCell 0 3)] := by
  decide

/-! ## A′. slices of the shared document: `append` aliases through spare capacity -/

/-- Appending to a shared slice that is FULL (cap = len: a clipped slice `s[:n:n]`, or a decoded list of 1, 2, 4, 8 …
    elements) only reads shared memory: the elements are copied into an array nobody else holds. -/
theorem append_full_only_reads (arr : Nat → Cell) (h : Hdr) (vs : List Val) (hf : h.cap ≤ h.len) (hne : vs ≠ []) :
    ∀ a ∈ appendActs arr h vs, isRead a = true := by
  intro a ha
  have hlen : 0 < vs.length := List.length_pos_iff.mpr hne
  simp only [appendActs, hne, if_false] at ha
  rw [if_neg (by omega)] at ha
  obtain ⟨d, rfl, _, _⟩ := mem_readsFrom arr _ _ a ha
  rfl

/-- With room for the new elements, the first of them is STORED, unsynchronised, at index `len` of the shared
    backing array. -/
theorem append_spare_writes_shared (arr : Nat → Cell) (h : Hdr) (v : Val) (vs : List Val)
    (hs : h.len + (v :: vs).length ≤ h.cap) : Act.write (arr h.len) v ∈ appendActs arr h (v :: vs) := by
  have hs' : h.len + (vs.length + 1) ≤ h.cap := by simpa using hs
  simp [appendActs, hs', writesFrom]

/-- `append` on a shared slice is a clean footprint exactly when there is nothing to append or no room for it. -/
theorem append_clean_iff (k : Cfg) (arr : Nat → Cell) (h : Hdr) (vs : List Val) (hnc : ∀ j, arr j ∉ k.cache) :
    (∀ a ∈ appendActs arr h vs, cleanAct k a = true) ↔ (vs = [] ∨ h.cap < h.len + vs.length) := by
  constructor
  · intro hall
    cases vs with
    | nil => exact Or.inl rfl
    | cons v vs =>
      refine Or.inr (Nat.lt_of_not_le fun hs => ?_)
      have := hall _ (append_spare_writes_shared arr h v vs hs)
      simp [cleanAct] at this
  · rintro (rfl | hlt) a ha
    · simp [appendActs] at ha
    · by_cases hne : vs = []
      · subst hne; simp [appendActs] at ha
      · simp only [appendActs, hne, if_false] at ha
        rw [if_neg (by omega)] at ha
        obtain ⟨d, rfl, _, _⟩ := mem_readsFrom arr _ _ a ha
        simpa [cleanAct] using hnc d

/-- Two calls that append to the same shared slice with spare capacity race — from every state, whatever they append. -/
theorem append_spare_races (arr : Nat → Cell) (h : Hdr) (v1 v2 : Val) (σ : State) (hs : h.len < h.cap) :
    RaceIn (events σ ((appendActs arr h [v1]).map (fun a => (0, a)) ++ (appendActs arr h [v2]).map (fun a => (1, a)))) := by
  have h1 : h.len + 1 ≤ h.cap := hs
  rw [← raceInB_iff]
  simp [appendActs, h1, writesFrom, events, stepAcc, raceInB, conflict]

/-- … and the element a call reads back through its appended slice is the OTHER call's when that one stored in
    between: the call is judged against parameters that are not its own. -/
theorem append_spare_schedule_dependent (arr : Nat → Cell) (h : Hdr) (v1 v2 : Val) (σ : State) (hv : v1 ≠ v2) :
    readsOf 0 σ [(0, .write (arr h.len) v1), (1, .write (arr h.len) v2), (0, .read (arr h.len))]
      ≠ solo σ [.write (arr h.len) v1, .read (arr h.len)] := by
  simp [readsOf, solo, stepObs, stepState, consObs, Ne.symm hv]

/-- The decoder's growth rule leaves room exactly after 3, 5-7, 9-15 elements (all lists up to 16 elements). -/
theorem decoded_spare_capacity_small :
    (List.range 17).filter spareCap = [3, 5, 6, 7, 9, 10, 11, 12, 13, 14, 15] := by decide

/-- … so it has spare capacity exactly when n is not a power of two -/
theorem decoded_spare_iff_not_power_of_two (n : Nat) (hn : 0 < n) : spareCap n = true ↔ ∀ k, n ≠ 2 ^ k := by
  obtain ⟨k, hk, h1, h2⟩ := decodedCap_pow2 n hn
  simp only [spareCap, decide_eq_true_eq, hk]
  constructor
  · intro hlt j hj
    -- n = 2^j, n < 2^k < 2n = 2^(j+1): no power of two strictly between
    subst hj
    have a : j < k := (Nat.pow_lt_pow_iff_right (by decide)).mp hlt
    have b : k < j + 1 := by
      have : 2 ^ k < 2 ^ (j + 1) := by rw [Nat.pow_succ]; omega
      exact (Nat.pow_lt_pow_iff_right (by decide)).mp this
    omega
  · intro hne
    exact Nat.lt_of_le_of_ne h1 (hne k)

/-- A decoded slice is never shorter than its content (all n). -/
theorem decoded_cap_ge (n : Nat) : n ≤ decodedCap n := decodedCap_ge n

/-- ValidateRequest with its two parameter loops merged into one loop over
    `append(pathItemParameters, operationParameters...)` (footprint: the append on the path item's decoded slice,
    then a range over the result): clean exactly when the operation has no parameters of its own or they do not
    fit into the spare capacity of the path item's list — e.g. 3 path-level parameters and 1 own parameter do fit. -/
theorem merged_parameter_loops_clean_iff (k : Cfg) (i n : Nat) (own : List Val) (hnc : ∀ j, sliceCell i j ∉ k.cache) :
    (∀ a ∈ appendActs (sliceCell i) (itemHdr n) own ++ rangeActs (sliceCell i) n, cleanAct k a = true)
      ↔ (own = [] ∨ decodedCap n < n + own.length) := by
  have key := append_clean_iff k (sliceCell i) (itemHdr n) own hnc
  simp only [itemHdr] at key
  rw [← key]
  constructor
  · intro hall a ha; exact hall a (List.mem_append_left _ ha)
  · intro hall a ha
    rcases List.mem_append.mp ha with ha | ha
    · exact hall a ha
    · obtain ⟨d, rfl, _, _⟩ := mem_readsFrom (sliceCell i) _ _ a ha
      simpa [cleanAct] using hnc d

/-- the merged loop on a path item with THREE path-level parameters (decoded cap 4), two operations with one own
    parameter each (7 and 8), validated concurrently: a data race, and the first call reads the second's parameter -/
theorem merged_parameter_loops_three :
    outcomeOf 2 ((appendActs (sliceCell 0) (itemHdr 3) [7]).map (fun a => (0, a)) ++
                 (appendActs (sliceCell 0) (itemHdr 3) [8]).map (fun a => (1, a)) ++
                 (rangeActs (sliceCell 0) 4).map (fun a => (0, a)) ++ (rangeActs (sliceCell 0) 4).map (fun a => (1, a)))
      = ⟨true, true, false⟩ := by decide

/-- … with FOUR path-level parameters (decoded cap 4) the same code is harmless: why no test noticed. -/
theorem merged_parameter_loops_four :
    outcomeOf 2 ((appendActs (sliceCell 0) (itemHdr 4) [7]).map (fun a => (0, a)) ++
                 (appendActs (sliceCell 0) (itemHdr 4) [8]).map (fun a => (1, a)) ++
                 (rangeActs (sliceCell 0) 4).map (fun a => (0, a)) ++ (rangeActs (sliceCell 0) 4).map (fun a => (1, a)))
      = specOutcome := by decide

/-! ## B. the regenerated footprint table -/

/-- The translator could read every write it met. -/
theorem table_recognised : ∀ w ∈ Gen.sharedWrites, rowClass w ≠ .unread := by decide

/-- `footprint_clean` (DESIGN §4): every write to shared state reachable from the concurrent entry points
    is synchronised (sync.Map / mutex / once), or a nil-guarded re-initialisation of a cell that its
    declaration / the constructor initialises, or caller-owned per-call output. -/
theorem footprint_clean : ∀ w ∈ Gen.sharedWrites, rowOK w = true := by decide

/-- No reachable function appends to (or edits in place: slices.Insert/Delete/Compact…) a slice of the shared
    document, router or a package-level variable, unless the slice is clipped to its length (`s[:n:n]`,
    slices.Clip) or the append is synchronised: `append` stores into the shared backing array whenever the slice
    has spare capacity (theorems of part A′). -/
theorem no_append_into_shared_slices : ∀ w ∈ Gen.sharedWrites, rowClass w ≠ .appendSpare := by decide

/-- The writes the translator sets aside as per-call state really are per call: each such type exists, no document
    struct reaches it through fields / elements / pointers, and when reachable code writes it, reachable code also
    allocates it (`newSchemaValidationSettings` inside every VisitJSON: `settings.trial++` of the oneOf/anyOf
    candidates, the multi-error and defaults flags). Making such an object part of the document — or caching one in a
    package variable, which `globals_consistent` sees — breaks this. -/
theorem per_call_types_are_per_call : ∀ r ∈ Gen.perCallState, perCallOK r = true := by decide

/-- Every explicit exemption is in use (a stale entry of `publishedAfterInit` breaks this). -/
theorem per_call_exemptions_in_use :
    ∀ n ∈ publishedAfterInit, Gen.perCallState.any (fun r => r.name == n && r.inGlobal && decide (r.writes > 0)) = true := by
  decide

/-- …and the classification is in use: validation settings are written during validation (non-vacuity). -/
theorem per_call_settings_are_written :
    Gen.perCallState.any (fun r => r.name == "openapi3.schemaValidationSettings" && decide (r.writes > 0)) = true := by decide

/-- No reachable function stores an `any`-typed value of the shared document (default, example, enum or extension
    value) into a caller-owned value without copying it: the class of finding F-C15-1, which the table could not see
    before (then only the race run found it). The footprint such a row denotes is a plain write
    (`regression_shared_default`). -/
theorem no_document_payload_escapes : ∀ w ∈ Gen.sharedWrites, rowClass w ≠ .payloadEscape := by decide

/-- F-C15-1 as the translator reads it when the deep copy is removed again (row produced by the extractor on the
    tree with `value[propName] = dflt`): rejected by `footprint_clean`. -/
theorem regression_shared_default_row :
    rowOK (.write "openapi3/schema.go" 1958 "openapi3.(*Schema).visitJSONObject" "value[propName] = dflt" .alias
      .payloadEscape "" "") = false := by decide

/-- The footprint denoted by the table is clean for the configuration denoted by the table. -/
theorem table_acts_clean :
    ∀ a ∈ tableActs Gen.sharedWrites, cleanAct (tableCfg Gen.sharedWrites) a = true := by decide

/-- A process-wide cache whose content the callers USE (`compiledPatterns.Load` in visitJSONString: the matcher
    found there is applied whatever regex compiler the call was given) is filled by nothing reachable from the
    concurrent entry points. This is what makes per-call options (Options.RegexCompiler, SetSchemaRegexCompiler)
    safe next to a cache keyed by the pattern text alone; a `Store` in compilePattern breaks it. -/
theorem used_caches_never_filled :
    ∀ a ∈ tableActs Gen.sharedWrites, useOK (tableCfg Gen.sharedWrites) a = true := by
  decide

/-- …and the table does contain such a use (non-vacuity). -/
theorem table_has_cache_use : (tableActs Gen.sharedWrites).any isUse = true := by decide

/-- Every row of the table is accounted for by the concrete operation footprints of `ConcCase`. -/
theorem table_rows_modelled : ∀ w ∈ Gen.sharedWrites, rowKey w ∈ modelledRows := by decide

/-- Race freedom for the code's own footprint: threads whose shared accesses are the table's writes and
    plain reads of non-cache cells never race, under any interleaving. -/
theorem table_race_free (σ : State) (tr : Trace) (hl : LazyInit (tableCfg Gen.sharedWrites) σ)
    (h : ∀ x ∈ tr, x.2 ∈ tableActs Gen.sharedWrites ∨
                   ∃ c, x.2 = .read c ∧ c ∉ (tableCfg Gen.sharedWrites).cache) :
    ¬ RaceIn (events σ tr) := by
  apply race_free (tableCfg Gen.sharedWrites) σ tr _ hl
  intro x hx
  rcases h x hx with hm | ⟨c, hc, hn⟩
  · exact table_acts_clean x.2 hm
  · rw [hc]; simpa [cleanAct] using hn

/-- Schedule independence for the code's own footprint (read-back caches — the type-info cache — hold nothing or
    the value their key determines). -/
theorem table_schedule_independent (σ : State) (tr : Trace) (i : Nat)
    (hl : LazyInit (tableCfg Gen.sharedWrites) σ) (hco : Coherent (tableCfg Gen.sharedWrites) σ)
    (h : ∀ x ∈ tr, x.2 ∈ tableActs Gen.sharedWrites ∨
                   ∃ c, x.2 = .read c ∧ c ∉ (tableCfg Gen.sharedWrites).cache) :
    readsOf i σ tr = solo σ (proj i tr) := by
  apply schedule_independent (tableCfg Gen.sharedWrites) i tr σ σ _ hl (agree_refl _ σ) hco hco
  intro x hx
  rcases h x hx with hm | ⟨c, hc, hn⟩
  · exact table_acts_clean x.2 hm
  · rw [hc]; simpa [cleanAct] using hn

/-- the code's own footprint: calls made of the table's writes and plain reads of non-cache cells, repeated in any
    number and order by one goroutine while others do the same: every call returns its first-use verdict -/
theorem table_concurrent_reuse (σ : State) (tr : Trace) (i : Nat) (cs : List (List Act))
    (hp : proj i tr = cs.flatten)
    (hl : LazyInit (tableCfg Gen.sharedWrites) σ) (hco : Coherent (tableCfg Gen.sharedWrites) σ)
    (h : ∀ x ∈ tr, x.2 ∈ tableActs Gen.sharedWrites ∨
                   ∃ c, x.2 = .read c ∧ c ∉ (tableCfg Gen.sharedWrites).cache) :
    readsOf i σ tr = (cs.map (solo σ)).flatten := by
  have hclean : ∀ a, (a ∈ tableActs Gen.sharedWrites ∨ ∃ c, a = .read c ∧ c ∉ (tableCfg Gen.sharedWrites).cache) →
      cleanAct (tableCfg Gen.sharedWrites) a = true := by
    intro a ha
    rcases ha with hm | ⟨c, hc, hn⟩
    · exact table_acts_clean a hm
    · rw [hc]; simpa [cleanAct] using hn
  have hct : CleanTrace (tableCfg Gen.sharedWrites) tr := fun x hx => hclean x.2 (h x hx)
  refine concurrent_reuse _ i cs tr σ hp hct ?_ hl hco
  intro c hc a ha
  have hmem : a ∈ proj i tr := by rw [hp]; exact List.mem_flatten.mpr ⟨c, hc, ha⟩
  obtain ⟨x, hx, rfl⟩ := mem_proj i tr a hmem
  exact hct x hx

/-- Every mutex-guarded store and every sync.Map store reachable from the concurrent entry points is a load-or-publish
    (first writer wins; `LoadOrStore`, not `Store`):
    an unconditional `cache[k] = v` under the lock — the shape `getTypeInfo` had before commit 9118e72 — is not a data
    race but makes what a caller gets back depend on the schedule (`regression_type_info`). -/
theorem mutex_stores_are_first_wins : ∀ w ∈ Gen.sharedWrites, rowClass w ≠ .lastWriterWins := by decide

/-- …and the table does contain such a load-or-publish whose result is used (non-vacuity of the `fillUse` part). -/
theorem table_has_first_wins_cache : (tableCfg Gen.sharedWrites).det ≠ [] := by decide

/-- non-vacuity: the table does denote synchronised fills and a lazily re-initialised cell -/
example : (tableCfg Gen.sharedWrites).cache ≠ [] ∧ (tableCfg Gen.sharedWrites).lazy ≠ [] ∧
    (tableActs Gen.sharedWrites).length ≥ 3 := by decide

/-! ## B′. package-level variables READ by the concurrent code (table `Gen.sharedGlobals`, regenerated)

`Gen.sharedWrites` lists what the concurrent entry points write; a plain read is safe only if nobody else writes.
The table lists every package-level variable that reachable code accesses and that ANY function of the library
writes after initialisation (`init` excluded), with all accesses and the mutex held at each. -/

/-- Every such variable is a synchronisation object itself, or all its accesses (reads included, in every function
    of the library) are under one and the same mutex, or it is never written (only its address is handed out), or the
    reachable code only reads it and every writer is a registration function (`registrationAPIs`: the calls the
    property does not quantify over). A new unsynchronised writer, a read that forgets the lock, a registry changed
    from a validation path: each breaks this. -/
theorem globals_consistent :
    ∀ r ∈ Gen.sharedGlobals, globalClass (lazyGlobals Gen.sharedWrites) r ≠ .bad := by decide

/-- What each mutex of the library protects (read off the code: the variables accessed while it is held) is
    accessed under that mutex everywhere: the invariant of `typeInfosMutex` is "typeInfos is only touched under me",
    of `bodyEncodersM` "bodyEncoders is only touched under me". -/
theorem mutex_invariants :
    ∀ o ∈ Gen.syncObjects, ∀ v ∈ o.protects, ∀ r ∈ Gen.sharedGlobals, r.name = v →
      globalClass (lazyGlobals Gen.sharedWrites) r = .mutexGuarded := by decide

/-- the classes that occur (non-vacuity: all four mechanisms are in use) -/
example : (Gen.sharedGlobals.map (globalClass (lazyGlobals Gen.sharedWrites))).eraseDups.length = 4 := by decide

/-- a registry written by a function that is not a registration API is rejected (witness for `globals_consistent`) -/
example : globalClass [] ⟨"openapi3filter", "bodyDecoders", "map", false,
    [⟨"openapi3filter.decodeBody", .read, "", true⟩, ⟨"openapi3filter.ValidateRequest", .write, "", true⟩]⟩ = .bad := by decide

/-- … and so is a mutex-guarded map with one access that forgot the lock -/
example : globalClass [] ⟨"openapi3gen", "typeInfos", "map", false,
    [⟨"openapi3gen.getTypeInfo", .read, "", true⟩, ⟨"openapi3gen.getTypeInfo", .write, "typeInfosMutex", true⟩]⟩ = .bad := by decide

/-! ## B″. the boundary of the property: calls that PREPARE the document (table `Gen.ConstructionWrites`, regenerated)

The property is about FindRoute / ValidateRequest / ValidateResponse / VisitJSON / schema generation on a loaded,
validated document. What the preparation calls write into the document, by the same translator rule: -/

/-- `(*T).Validate` writes into the document only through `Paths.Set`, i.e. only to replace a missing (nil) path
    item (openapi3/paths.go `if pathItem == nil`): re-validating an already validated document writes nothing, so
    it may overlap the concurrent calls (as `legacy.NewRouter` does when a second router is built). -/
theorem validate_writes_only_missing_path_items :
    ∀ w ∈ Gen.validateWrites, rowFn w = "openapi3.(*Paths).Set" := by decide

/-- `gorillamux.NewRouter` writes nothing into the document. -/
theorem gorillamux_construction_leaves_document_alone : Gen.gorillaCtorWrites = [] := by decide

/-- `legacy.NewRouter` validates the document (same nil path-item fill) and otherwise writes its own, new tree. -/
theorem legacy_construction_writes :
    ∀ w ∈ Gen.legacyCtorWrites, rowFn w ∈ ["openapi3.(*Paths).Set", "routers/legacy/pathpattern.(*Node).Add",
      "routers/legacy/pathpattern.(*Node).CreateNode"] := by decide

/-- `(*T).InternalizeRefs` is NOT read-only (it keeps its visited-sets in the document, `doc.visited`, and rewrites
    references and components): it is a preparation step and outside the property's concurrent calls — a call of it
    that overlaps a validation is a data race by `plain_write_races`. -/
theorem internalize_refs_is_not_read_only :
    Gen.internalizeWrites.any (fun w => rowFn w == "openapi3.(*T).isVisitedSchema") = true ∧
    Gen.internalizeWrites.any (fun w => rowFn w == "openapi3.(*T).resetVisited") = true := by decide

/-! ## C. the executable case model used by the correspondence run

Full strength (the exclusions `SharedObjectDefault` / `TypeInfoIdentity` of findings F-C15-1 / F-C15-2 are gone:
both were repaired in the library, commits afcfd61 and 9118e72, and the model follows the repaired code). -/

/-- The model of EVERY case — any operations (object-valued defaults and self-referential Go types included),
    any number of goroutines, any interleaving seed — shows no race, no verdict that differs from the solo
    run, no write to the document. -/
theorem outcome_clean (c : CaseM) : outcome c = specOutcome := by
  have hc := caseTrace_clean c
  have hl := sigma0_lazy c
  have hr : raceInB (events sigma0 (caseTrace c)) = false := by
    cases h : raceInB (events sigma0 (caseTrace c)) with
    | false => rfl
    | true => exact absurd ((raceInB_iff _).mp h) (race_free _ _ _ hc hl)
  have hd : (List.range c.g).any (fun i => readsOf i sigma0 (caseTrace c) != solo sigma0 (proj i (caseTrace c))) = false := by
    rw [List.any_eq_false]
    intro i _
    simp [schedule_independent (caseCfg c) i (caseTrace c) sigma0 sigma0 hc hl (agree_refl _ _)
            (sigma0_coherent c) (sigma0_coherent c)]
  have hdoc : docCells.any (fun d => finalState sigma0 (caseTrace c) d != sigma0 d) = false := by
    rw [List.any_eq_false]
    intro d hdm
    have hlt : (d : Nat) < 10 := by
      simp only [docCells, docCell, routerCell, uniqCell, dfltCell, regCell, List.mem_cons, List.not_mem_nil, or_false] at hdm
      rcases hdm with rfl | rfl | rfl | rfl | rfl <;> decide
    have hn : d ∉ (caseCfg c).cache := fun hm => by
      have h1 : 10 ≤ (d : Nat) := (cache_cell_ge c d hm).1
      exact absurd h1 (Nat.not_le.mpr hlt)
    simp [document_untouched (caseCfg c) sigma0 (caseTrace c) hc hl d hn]
  simp [outcome, outcomeOf, specOutcome, hr, hd, hdoc]

/-- The seeded change C15-m2 for EVERY case: from a state in which the uniqueness checker is nil, no thread of any
    case, under any interleaving, observes anything it does not observe alone … -/
theorem uninitialised_checker_changes_no_verdict (c : CaseM) (i : Nat) :
    readsOf i sigmaU (caseTrace c) = solo sigmaU (proj i (caseTrace c)) :=
  schedule_independent_uninitialised (caseCfgU c) i (caseTrace c) sigmaU sigmaU (caseTrace_cleanU c)
    rfl (agree_refl _ _) (sigmaU_coherent c) (sigmaU_coherent c)

/-- … although two first array validations race (only the detector sees the defect). -/
theorem uninitialised_checker_races :
    RaceIn (events sigmaU (caseTrace { ops := [{ kind := .visit, arrays := true }], g := 2, per := 1, sched := 0 })) := by
  rw [← raceInB_iff]; decide

/-! Regression theorems: the footprints the two repaired defects had (kept as traces of the machine; the
    corpus replays their inputs on the library on every run). -/

/-- F-C15-1 as it was (`value[propName] = dflt`, then nested defaults injected into that shared object): a
    nil-guarded plain write to a document cell that starts empty — two validations race and the document
    changes. The repaired footprint (`read dfltCell`, see `opActs`) is covered by `outcome_clean`. -/
theorem regression_shared_default :
    outcomeOf 2 [(0, .read docCell), (0, .lazyInit dfltCell 5), (1, .read docCell), (1, .lazyInit dfltCell 5)]
      = ⟨true, false, true⟩ := by
  decide

/-- F-C15-2 as it was (`typeInfos[t] = typeInfo` unconditionally, cycle detection by descriptor pointer): each
    first user stores its own descriptor and reads back whatever is there — no data race, but thread 0's
    observation differs from its solo run when thread 1 stores in between … -/
theorem regression_type_info :
    outcomeOf 2 [(0, .syncStore (typeCell 3) 1000), (1, .syncStore (typeCell 3) 1001),
                 (0, .syncRead (typeCell 3)), (1, .syncRead (typeCell 3))] = ⟨false, true, false⟩ := by
  decide

/-- … and not when it does not: the defect was schedule-dependent. -/
theorem regression_type_info_schedule_dependent :
    outcomeOf 2 [(0, .syncStore (typeCell 3) 1000), (0, .syncRead (typeCell 3)),
                 (1, .syncStore (typeCell 3) 1001), (1, .syncRead (typeCell 3))] = specOutcome := by
  decide

/-- Seeded defect of round 2 (`compiledPatterns.Store(pattern, cp)` in compilePattern): the cache, keyed by the
    pattern text alone, is really filled, with a matcher that depends on the call's regex compiler. Two calls
    with DIFFERENT compilers on the same pattern: whoever comes second uses the other's matcher — no data race
    (sync.Map), but a verdict that is not the solo verdict. -/
theorem regression_pattern_cache_filled_two_dialects :
    outcomeOf 2 [(0, .cacheUse (patCell 0) 1), (0, .syncStore (patCell 0) 1),
                 (1, .cacheUse (patCell 0) 2), (1, .syncStore (patCell 0) 2)] = ⟨false, true, false⟩ := by
  decide

/-- …with ONE compiler used everywhere the filled cache is transparent (why no existing test notices). -/
theorem regression_pattern_cache_filled_one_dialect :
    outcomeOf 2 [(0, .cacheUse (patCell 0) 1), (0, .syncStore (patCell 0) 1),
                 (1, .cacheUse (patCell 0) 1), (1, .syncStore (patCell 0) 1)] = specOutcome := by
  decide

/-- the code as it is: calls with different regex compilers on the same pattern, any schedule (instance of
    `outcome_clean`; the compilers are per-call options, field `dialect`) -/
example : outcome { ops := [{ kind := .vreq, patterns := [0], dialect := 1 }, { kind := .visit, patterns := [0] },
                            { kind := .vresp, patterns := [0, 1], dialect := 1 }], g := 6, per := 2, sched := 3 }
    = specOutcome := by decide

/-- the repaired `getTypeInfo` on the same schedule: first published descriptor wins and is used (`fillUse`) -/
example : outcome { ops := [{ kind := .gen, genType := 3, recursive := true }], g := 2, per := 1, sched := 9 }
    = specOutcome := by decide

/-- the repaired default injection with two concurrent validations of the F-C15-1 schema -/
example : outcome { ops := [{ kind := .vreq, defaultsOn := true, sharedDefault := true }], g := 2, per := 1, sched := 1 }
    = specOutcome := by decide

/-- non-vacuity of `outcome_clean`: a case mixing all six operation kinds, with patterns, arrays, an object-valued
    default and generation for a recursive type, on 4 goroutines; its trace is not empty -/
def busyCase : CaseM :=
  { ops := [ { kind := .frg }, { kind := .frl },
             { kind := .vreq, patterns := [0, 1], arrays := true, defaultsOn := true, sharedDefault := true },
             { kind := .vresp, patterns := [1], arrays := true },
             { kind := .visit, patterns := [2], defaultsOn := true },
             { kind := .gen, genType := 3, recursive := true } ],
    g := 4, per := 2, sched := 7 }

example : (caseTrace busyCase).length = 28 ∧ (outcomeOf 4 (caseTrace busyCase)).race = false := by
  decide

/-! ## C′. the case model's traces are schedules; reuse inside a case -/

/-- The trace of EVERY case is a complete interleaving of its goroutines (`IsSchedule`): goroutine `j < g` performs
    exactly its own operation list `threadActs c j`, in order, and nothing else is in the trace — so `outcome_clean`
    and the theorems below speak about interleavings of the goroutines' calls, whatever the seed. -/
theorem case_trace_is_schedule (c : CaseM) :
    IsSchedule (fun j => if j < c.g then threadActs c j else []) (caseTrace c) :=
  fun j => caseTrace_proj c j

/-- Reuse in the case model: in every case — any operations, any number of goroutines, any number `per` of calls per
    goroutine on the one shared document, any interleaving seed — EACH call of each goroutine observes what that call
    observes alone as the first call on the freshly loaded document. -/
theorem case_calls_return_first_use_verdicts (c : CaseM) (j : Nat) (hj : j < c.g) :
    readsOf j sigma0 (caseTrace c) = ((List.range c.per).map (fun r => solo sigma0 (getOp j c.ops (j + r)))).flatten := by
  have hp : proj j (caseTrace c) = ((List.range c.per).map (fun r => getOp j c.ops (j + r))).flatten := by
    rw [caseTrace_proj, if_pos hj, threadActs, List.flatMap_def]
  have hc := caseTrace_clean c
  have h := concurrent_reuse (caseCfg c) j _ (caseTrace c) sigma0 hp hc ?_ (sigma0_lazy c) (sigma0_coherent c)
  · rw [h, List.map_map]; rfl
  · intro call hcall a ha
    have hmem : a ∈ proj j (caseTrace c) := by rw [hp]; exact List.mem_flatten.mpr ⟨call, hcall, ha⟩
    obtain ⟨x, hx, rfl⟩ := mem_proj j (caseTrace c) a hmem
    exact hc x hx

/-- non-vacuity: in `busyCase` goroutine 1 performs two calls on the shared document (a legacy FindRoute, then a
    ValidateRequest with patterns, arrays and an object default): the observations of the two calls, one after the other -/
example : readsOf 1 sigma0 (caseTrace busyCase) = [1, 1] ++ [1, 1, 1, 1, 7, 0] ∧
    (List.range busyCase.per).map (fun r => solo sigma0 (getOp 1 busyCase.ops (1 + r))) = [[1, 1], [1, 1, 1, 1, 7, 0]] := by decide

/-- What a goroutine of a case observes depends on ITS OWN calls only: not on the interleaving seed, not on how many
    other goroutines run next to it (two cases with the same operations and the same number of calls per goroutine,
    any seeds, any numbers of goroutines). -/
theorem case_observations_depend_on_own_calls_only (c c' : CaseM) (hops : c'.ops = c.ops) (hper : c'.per = c.per)
    (j : Nat) (hj : j < c.g) (hj' : j < c'.g) :
    readsOf j sigma0 (caseTrace c) = readsOf j sigma0 (caseTrace c') := by
  rw [case_calls_return_first_use_verdicts c j hj, case_calls_return_first_use_verdicts c' j hj', hops, hper]

/-- instance: another seed and 60 more goroutines change nothing for goroutine 1 of `busyCase` -/
example : readsOf 1 sigma0 (caseTrace busyCase) = readsOf 1 sigma0 (caseTrace { busyCase with sched := 12345, g := 64 }) := by
  apply case_observations_depend_on_own_calls_only busyCase { busyCase with sched := 12345, g := 64 } rfl rfl 1
  · show 1 < 4; omega
  · show 1 < 64; omega

end KinModel.Conc
