/-
C01 — schema validation accepts exactly the values the schema allows.
Model: KinModel/Schema/Visit.lean (`visit`), spec: KinModel/Schema/Spec.lean (`Sat`, `satB`).
All theorems hold for every schema tree, every JSON value and every behaviour of the regular-expression
engine / format validators (`env`), with no bound on size or depth and — after the repair of the
IsEmpty shortcut (known_findings.json, fixed) — with no exclusion.
-/
import KinModel.Schema.Spec
import KinModel.Schema.History
import KinModel.Schema.Pattern
import KinModel.Gen.PatternCache
import KinModel.Schema.Defaults
import KinModel.Gen.SubVisits
namespace KinModel.Schema

theorem isEmpty_list_iff {α} (l : List α) : l.isEmpty = true ↔ l = [] := by cases l <;> simp

/-! ### leaf keywords: the validator's checks are the keyword's meaning -/

theorem enumOK_iff (kw : Kw) (v : J) : enumOK kw v = true ↔ enumSpec kw v := by
  simp [enumOK, enumSpec]

theorem or_iff_imp {A B : Prop} [Decidable A] : (A ∨ B) ↔ (¬A → B) := by
  by_cases h : A <;> simp [h]

theorem numTypeOK_iff (kw : Kw) (q : Rat) :
    numTypeOK kw q = true ↔ (if kw.permits "number" = true then True else kw.permits "integer" = true ∧ q.isInt = true) := by
  unfold numTypeOK Kw.requireInt
  cases hn : kw.permits "number" <;> cases hi : kw.permits "integer" <;> simp

theorem numFormatOK_iff (kw : Kw) (q : Rat) :
    numFormatOK kw q = true ↔
      (kw.permits "number" = false → kw.permits "integer" = true → kw.format ≠ "" →
        ∀ lo hi, intFormatRange kw.format = some (lo, hi) → lo ≤ truncInt q ∧ truncInt q ≤ hi) := by
  unfold numFormatOK Kw.requireInt
  cases hn : kw.permits "number" <;> cases hi : kw.permits "integer" <;> simp
  by_cases hf : kw.format = ""
  · simp [hf]
  · simp only [hf, not_false_eq_true, if_true, forall_const]
    cases hr : intFormatRange kw.format with
    | none => simp
    | some r => obtain ⟨lo, hi'⟩ := r; simp

theorem minOK_iff (kw : Kw) (q : Rat) :
    minOK kw q = true ↔ (∀ m, kw.minimum = some m → m ≤ q ∧ (kw.exclMin = true → m < q)) := by
  unfold minOK
  cases hmn : kw.minimum <;> cases hem : kw.exclMin <;> simp
  exact and_comm

theorem maxOK_iff (kw : Kw) (q : Rat) :
    maxOK kw q = true ↔ (∀ m, kw.maximum = some m → q ≤ m ∧ (kw.exclMax = true → q < m)) := by
  unfold maxOK
  cases hmx : kw.maximum <;> cases hex : kw.exclMax <;> simp
  exact and_comm

theorem numBoundsOK_iff (kw : Kw) (q : Rat) :
    numBoundsOK kw q = true ↔
      ((∀ m, kw.minimum = some m → m ≤ q ∧ (kw.exclMin = true → m < q)) ∧
       (∀ m, kw.maximum = some m → q ≤ m ∧ (kw.exclMax = true → q < m))) := by
  unfold numBoundsOK
  rw [Bool.and_eq_true, minOK_iff, maxOK_iff]

theorem multipleOK_iff (kw : Kw) (q : Rat) :
    multipleOK kw q = true ↔ (∀ m, kw.multipleOf = some m → m ≠ 0 ∧ (q / m).isInt = true) := by
  unfold multipleOK
  cases hmo : kw.multipleOf <;> simp

theorem numOK_iff (kw : Kw) (q : Rat) : numOK kw q = true ↔ numSpec kw q := by
  unfold numOK numSpec
  simp only [Bool.and_eq_true, numTypeOK_iff, numFormatOK_iff, numBoundsOK_iff, multipleOK_iff, and_assoc]

theorem strOK_iff (env : Env) (kw : Kw) (s : String) : strOK env kw s = true ↔ strSpec env kw s := by
  unfold strOK strSpec
  have h0 : (kw.minLength = 0 ∨ kw.minLength ≤ s.length) ↔ kw.minLength ≤ s.length := by omega
  cases hml : kw.maxLength <;> simp [and_assoc, h0, or_iff_imp]

theorem arrOK_iff (kw : Kw) (xs : List J) : arrOK kw xs = true ↔ arrSpec kw xs := by
  unfold arrOK arrSpec
  have h0 : (kw.minItems = 0 ∨ kw.minItems ≤ xs.length) ↔ kw.minItems ≤ xs.length := by omega
  cases hml : kw.maxItems <;> cases hu : kw.uniqueItems <;> simp [and_assoc, h0]

theorem roBad_false_iff (env : Env) (p : List (String × S)) (kvs : List (String × J)) :
    roBad env p kvs = false ↔ (∀ ks ∈ p, forbidden env ks.2 = true → (lookup ks.1 kvs).isSome = false) := by
  unfold roBad
  rw [List.any_eq_false]
  constructor
  · intro h ks hks hf
    have := h ks hks
    simp only [Bool.and_eq_true, not_and, Bool.not_eq_true] at this
    exact this hf
  · intro h ks hks
    simp only [Bool.and_eq_true, not_and, Bool.not_eq_true]
    exact h ks hks

theorem reqOK_iff (env : Env) (p : List (String × S)) (kvs : List (String × J)) (k : String) :
    reqOK env p kvs k = true ↔ ((lookup k kvs).isSome = true ∨ ∃ s, lookup k p = some s ∧ exempt env s = true) := by
  unfold reqOK
  cases lookup k p <;> simp

theorem objOK_iff (env : Env) (kw : Kw) (p : List (String × S)) (kvs : List (String × J)) :
    objOK env kw p kvs = true ↔ objSpec env kw p kvs := by
  unfold objOK objSpec
  have h0 : (kw.minProps = 0 ∨ kw.minProps ≤ kvs.length) ↔ kw.minProps ≤ kvs.length := by omega
  have hro : (!roBad env p kvs) = true ↔ (∀ ks ∈ p, forbidden env ks.2 = true → (lookup ks.1 kvs).isSome = false) := by
    rw [Bool.not_eq_true', roBad_false_iff]
  cases hml : kw.maxProps <;>
    simp only [Bool.and_eq_true, hro, Bool.or_eq_true, beq_iff_eq, decide_eq_true_eq, h0, List.all_eq_true, reqOK_iff,
      and_assoc, Bool.and_true, reduceCtorEq, false_implies, implies_true, true_and, and_true, Option.some.injEq, forall_eq']

theorem ownOK_iff (env : Env) (kw : Kw) (p : List (String × S)) (v : J) (rChild : Bool) (PChild : Prop) (hc : rChild = true ↔ PChild)
    (hv : v.isNull = false) :
    ownOK env kw p v rChild = true ↔ (ownSpec env kw p v ∧ (match v with | .arr _ => PChild | .obj _ => PChild | _ => True)) := by
  cases v with
  | null => simp [J.isNull] at hv
  | bool x => simp [ownOK, ownSpec]
  | num q => simp [ownOK, ownSpec, numOK_iff]
  | str x => simp [ownOK, ownSpec, strOK_iff]
  | arr xs => simp [ownOK, ownSpec, arrOK_iff, hc]
  | obj kvs => simp [ownOK, ownSpec, objOK_iff, hc]

/-! ### the unconstrained-schema shortcut is sound -/

theorem bare_facts {kw : Kw} (h : kw.bare = true) :
    kw.types = none ∧ kw.format = "" ∧ kw.enum = [] ∧ kw.uniqueItems = false ∧ kw.exclMin = false ∧ kw.exclMax = false ∧
    kw.nullable = false ∧ kw.minimum = none ∧ kw.maximum = none ∧ kw.multipleOf = none ∧ kw.minLength = 0 ∧
    kw.maxLength = none ∧ kw.pattern = "" ∧ kw.minItems = 0 ∧ kw.maxItems = none ∧ kw.required = [] ∧
    kw.minProps = 0 ∧ kw.maxProps = none := by
  unfold Kw.bare at h
  simp only [Bool.and_eq_true, Option.isNone_iff_eq_none, beq_iff_eq, isEmpty_list_iff, Bool.not_eq_true'] at h
  obtain ⟨⟨⟨⟨⟨⟨⟨⟨⟨⟨⟨⟨⟨⟨⟨⟨⟨⟨⟨⟨h1, h2⟩, h3⟩, h4⟩, h5⟩, h6⟩, h7⟩, _⟩, _⟩, _⟩, h11⟩, h12⟩, h13⟩, h14⟩, h15⟩, h16⟩, h17⟩, h18⟩, h19⟩, h20⟩, h21⟩ := h
  exact ⟨h1, h2, h3, h4, h5, h6, h7, h11, h12, h13, h14, h15, h16, h17, h18, h19, h20, h21⟩

theorem satProps_trivial (env : Env) (has : Option Bool) (h : has ≠ some false) (kvs : List (String × J)) :
    SatProps env [] none has kvs := by
  induction kvs with
  | nil => simp [SatProps]
  | cons kv r ih => obtain ⟨k, x⟩ := kv; rw [SatProps]; simp [lookup, h, ih]

theorem bare_own (env : Env) {kw : Kw} (h : kw.bare = true) (v : J) (hv : v.isNull = false) :
    enumSpec kw v ∧ ownSpec env kw [] v := by
  obtain ⟨f1, f2, f3, f4, f5, f6, f7, f8, f9, f10, f11, f12, f13, f14, f15, f16, f17, f18⟩ := bare_facts h
  refine ⟨Or.inl f3, ?_⟩
  cases v with
  | null => simp [J.isNull] at hv
  | bool x => simp [ownSpec, Kw.permits, f1]
  | num q => simp [ownSpec, numSpec, Kw.permits, f1, f8, f9, f10]
  | str x => simp [ownSpec, strSpec, Kw.permits, f1, f11, f12, f13, f2]
  | arr xs => simp [ownSpec, arrSpec, Kw.permits, f1, f14, f15, f4]
  | obj kvs => simp [ownSpec, objSpec, Kw.permits, f1, f16, f17, f18]

theorem shortcut_facts {kw : Kw} {a b c : List S} {n i : Option S} {p : List (String × S)} {ad : Option S}
    (h : (S.mk kw a b c n i p ad).shortcut = true) :
    a = [] ∧ b = [] ∧ c = [] ∧ n = none ∧ i = none ∧ p = [] ∧ ad = none ∧ kw.bare = true ∧ kw.addHas ≠ some false := by
  unfold S.shortcut at h
  simp only [Bool.and_eq_true, Bool.not_eq_true'] at h
  obtain ⟨hs, he⟩ := h
  simp only [S.hasSub, Bool.or_eq_false_iff, Option.isSome_eq_false_iff, Option.isNone_iff_eq_none,
    Bool.not_eq_false', isEmpty_list_iff] at hs
  obtain ⟨⟨⟨⟨⟨⟨hn, hi⟩, had⟩, hp⟩, hc⟩, hb⟩, ha⟩ := hs
  subst hn hi had hp hc hb ha
  simp only [S.isEmpty, isEmptyO, isEmptyP, isEmptyL, Bool.and_true, Bool.and_eq_true, bne_iff_ne, ne_eq] at he
  exact ⟨rfl, rfl, rfl, rfl, rfl, rfl, rfl, he.1, he.2⟩

theorem combine_iff (env : Env) (kw : Kw) (a b c : List S) (p : List (String × S)) (sc : Bool) (v : J)
    (rNot : Bool) (rCount : Nat) (rAny rAll rChild : Bool) (PNot PCount PAny PAll PChild : Prop)
    (hNot : rNot = true ↔ PNot) (hCnt : rCount = 1 ↔ PCount) (hAny : rAny = true ↔ PAny)
    (hAll : rAll = true ↔ PAll) (hChild : rChild = true ↔ PChild)
    (hleaf : match v with | .arr _ => True | .obj _ => True | _ => PChild)
    (hsc : sc = true → a = [] ∧ b = [] ∧ c = [] ∧ p = [] ∧ kw.bare = true ∧ PNot ∧ PAll ∧ PChild) :
    combine env kw a b c p sc v rNot rCount rAny rAll rChild = true ↔
      (if v.isNull = true then
        kw.permitsNull = true ∨ ((a ≠ [] ∨ b ≠ [] ∨ c ≠ []) ∧ (PNot ∧ (c = [] ∨ ((discCheck kw v).pass = true ∧ PCount)) ∧ (b = [] ∨ PAny) ∧ PAll))
       else
        (PNot ∧ (c = [] ∨ ((discCheck kw v).pass = true ∧ PCount)) ∧ (b = [] ∨ PAny) ∧ PAll) ∧ enumSpec kw v ∧ ownSpec env kw p v ∧ PChild) := by
  unfold combine
  by_cases h1 : (v.isNull && kw.permitsNull) = true
  · have hn : v.isNull = true := by simp_all
    have hp : kw.permitsNull = true := by simp_all
    simp [hn, hp]
  · simp only [h1, Bool.false_eq_true, if_false]
    by_cases hs : sc = true
    · simp only [hs, if_true]
      obtain ⟨ha, hb, hc, hp0, hbare, pn, pa, pc⟩ := hsc hs
      subst ha hb hc hp0
      cases hv : v.isNull with
      | true =>
        have : kw.permitsNull = false := by simpa [hv] using h1
        simp [this]
      | false =>
        obtain ⟨e1, e2⟩ := bare_own env hbare v hv
        simp only [Bool.not_false, Bool.false_eq_true, if_false, true_iff]
        exact ⟨⟨pn, by simp, by simp, pa⟩, e1, e2, pc⟩
    · simp only [hs, Bool.false_eq_true, if_false]
      have hcomps : (rNot && (c.isEmpty || ((discCheck kw v).pass && rCount == 1)) && (b.isEmpty || rAny) && rAll) = true ↔
          (PNot ∧ (c = [] ∨ ((discCheck kw v).pass = true ∧ PCount)) ∧ (b = [] ∨ PAny) ∧ PAll) := by
        simp only [Bool.and_eq_true, Bool.or_eq_true, isEmpty_list_iff, beq_iff_eq, hNot, hCnt, hAny, hAll]
        exact ⟨fun ⟨⟨⟨x1, x2⟩, x3⟩, x4⟩ => ⟨x1, x2, x3, x4⟩, fun ⟨x1, x2, x3, x4⟩ => ⟨⟨⟨x1, x2⟩, x3⟩, x4⟩⟩
      rw [Bool.and_eq_true, hcomps]
      cases hv : v.isNull with
      | true =>
        have hp : kw.permitsNull = false := by simpa [hv] using h1
        simp only [hp, Bool.false_eq_true, false_or, Bool.true_and, if_true]
        by_cases hh : (!c.isEmpty || !b.isEmpty || !a.isEmpty) = true
        · have : a ≠ [] ∨ b ≠ [] ∨ c ≠ [] := by
            simp only [Bool.or_eq_true, Bool.not_eq_true', List.isEmpty_eq_false_iff] at hh
            rcases hh with (h | h) | h
            · exact Or.inr (Or.inr h)
            · exact Or.inr (Or.inl h)
            · exact Or.inl h
          simp only [hh, if_true, and_true]
          exact ⟨fun h => ⟨this, h⟩, fun h => h.2⟩
        · have hv' : v = .null := J.isNull_iff.mp hv
          subst hv'
          have hne : ¬ (a ≠ [] ∨ b ≠ [] ∨ c ≠ []) := by
            simp only [Bool.or_eq_true, Bool.not_eq_true', List.isEmpty_eq_false_iff, not_or] at hh
            rintro (h | h | h)
            · exact hh.2 h
            · exact hh.1.2 h
            · exact hh.1.1 h
          simp only [hh, Bool.false_eq_true, if_false, ownOK, Bool.and_false, and_false, false_iff]
          exact fun h => hne h.1
      | false =>
        simp only [Bool.false_and, Bool.false_eq_true, if_false, Bool.and_eq_true, enumOK_iff]
        rw [ownOK_iff env kw p v _ _ hChild hv]
        cases v with
        | arr xs => simp only [and_assoc]
        | obj kvs => simp only [and_assoc]
        | null => simp [J.isNull] at hv
        | bool x => simp only at hleaf; simp only [and_true, hleaf]
        | num q => simp only at hleaf; simp only [and_true, hleaf]
        | str x => simp only at hleaf; simp only [and_true, hleaf]

theorem notRes_iff (env : Env) (n : Option S) (v : J) :
    (match n with | none => True | some s => (visit env s v = true ↔ Sat env s v)) →
    ((match n with | none => true | some s => !visit env s v) = true ↔ (∀ t, n = some t → ¬ Sat env t v)) := by
  intro ihn
  cases n with
  | none => simp
  | some t => simp only at ihn; simp [← ihn]

theorem childRes_iff (env : Env) (kw : Kw) (i : Option S) (p : List (String × S)) (ad : Option S) (v : J) :
    (match v with
      | .arr xs => (match i with | none => True | some s => (visitItems env s xs = true ↔ SatItems env s xs))
      | .obj kvs => (visitProps env p ad kw.addHas kvs = true ↔ SatProps env p ad kw.addHas kvs)
      | _ => True) →
    ((match v with
       | .arr xs => (match i with | none => true | some s => visitItems env s xs)
       | .obj kvs => visitProps env p ad kw.addHas kvs
       | _ => true) = true ↔
      (match v with
       | .arr xs => ∀ t, i = some t → SatItems env t xs
       | .obj kvs => SatProps env p ad kw.addHas kvs
       | _ => True)) := by
  intro ihc
  cases v with
  | arr xs =>
    cases i with
    | none => simp
    | some t => simp only at ihc; simp [ihc]
  | obj kvs => simpa using ihc
  | null => simp
  | bool x => simp
  | num q => simp
  | str x => simp

/-- **C01 main theorem** (with its list-level companions): for every schema, every value and every
regex/format environment, validation succeeds exactly when the value satisfies the schema. -/
theorem visit_iff_sat_all (env : Env) :
    (∀ s v, visit env s v = true ↔ Sat env s v) ∧
    (∀ p ad has kvs, visitProps env p ad has kvs = true ↔ SatProps env p ad has kvs) ∧
    (∀ s xs, visitItems env s xs = true ↔ SatItems env s xs) ∧
    (∀ ss v, visitAll env ss v = true ↔ SatAll env ss v) ∧
    (∀ ss v, visitAny env ss v = true ↔ SatAny env ss v) ∧
    (∀ dr ss v, ∀ m, SatCount env dr ss v m ↔ m = countOK env dr ss v) := by
  refine visit.mutual_induct
    (motive1 := fun s v => visit env s v = true ↔ Sat env s v)
    (motive2 := fun p ad has kvs => visitProps env p ad has kvs = true ↔ SatProps env p ad has kvs)
    (motive3 := fun s xs => visitItems env s xs = true ↔ SatItems env s xs)
    (motive4 := fun ss v => visitAll env ss v = true ↔ SatAll env ss v)
    (motive5 := fun ss v => visitAny env ss v = true ↔ SatAny env ss v)
    (motive6 := fun dr ss v => ∀ m, SatCount env dr ss v m ↔ m = countOK env dr ss v)
    ?node ?pnil ?pcons ?inil ?icons ?anil ?acons ?ynil ?ycons ?cnil ?ccons
  case node =>
    intro kw a b c n i p ad v ihn ih6 ih5 ih4 ihc
    rw [visit.eq_def, Sat.eq_def]
    simp only
    have hNOT := notRes_iff env n v ihn
    have hCH := childRes_iff env kw i p ad v ihc
    have hCNT : countOK env (discCheck kw v).ref c v = 1 ↔ SatCount env (discCheck kw v).ref c v 1 :=
      ⟨fun h => (ih6 1).mpr h.symm, fun h => ((ih6 1).mp h).symm⟩
    refine combine_iff env kw a b c p _ v _ _ _ _ _ _ _ _ _ _ hNOT hCNT ih5 ih4 hCH ?_ ?_
    · cases v <;> simp
    · intro hs
      obtain ⟨ha, hb, hc, hn, hi, hp, had, hbare, hhas⟩ := shortcut_facts hs
      subst ha hb hc hn hi hp had
      refine ⟨rfl, rfl, rfl, rfl, hbare, by simp, by simp [SatAll], ?_⟩
      cases v with
      | arr xs => simp
      | obj kvs => exact satProps_trivial env _ hhas kvs
      | null => trivial
      | bool x => trivial
      | num q => trivial
      | str x => trivial
  case pnil => intro p ad has; simp [visitProps, SatProps]
  case pcons =>
    intro p ad has k x r ih1 ih2 ih3
    rw [visitProps.eq_def, SatProps]
    simp only [Bool.and_eq_true, ih3]
    cases hl : lookup k p with
    | some s => simp [propRes, ih1 s]
    | none =>
      cases ad with
      | none => cases has with
        | none => simp [propRes]
        | some hb => cases hb <;> simp [propRes]
      | some s =>
        simp only at ih2
        cases has with
        | none => simp [propRes, ih2]
        | some hb => cases hb <;> simp [propRes, ih2]
  case inil => intro s; simp [visitItems, SatItems]
  case icons => intro s x xs ih1 ih2; rw [visitItems, SatItems]; simp [ih1, ih2]
  case anil => intro v; simp [visitAll, SatAll]
  case acons => intro s ss v ih1 ih2; rw [visitAll, SatAll]; simp [ih1, ih2]
  case ynil => intro v; simp [visitAny, SatAny]
  case ycons => intro s ss v ih1 ih2; rw [visitAny, SatAny]; simp [ih1, ih2]
  case cnil => intro dr v m; simp [countOK, SatCount]
  case ccons =>
    intro dr s ss v ih1 ih2 m
    rw [countOK, SatCount]
    cases hs : (selOK dr s && visit env s v) with
    | true =>
      have h : selOK dr s = true ∧ Sat env s v := by
        simp only [Bool.and_eq_true] at hs; exact ⟨hs.1, ih1.mp hs.2⟩
      simp only [h, and_self, not_true_eq_false, false_and, or_false, true_and, if_true]
      constructor
      · rintro ⟨m', rfl, hm'⟩; rw [(ih2 m').mp hm']; omega
      · intro hm; exact ⟨countOK env dr ss v, by omega, (ih2 _).mpr rfl⟩
    | false =>
      have h : ¬ (selOK dr s = true ∧ Sat env s v) := by
        rintro ⟨h1, h2⟩
        have := ih1.mpr h2
        simp [h1, this] at hs
      simp only [h, false_and, false_or, not_false_eq_true, true_and, Bool.false_eq_true, if_false, Nat.zero_add]
      exact ih2 m

/-- **C01.** Validation of `v` against `s` succeeds if and only if `v` satisfies every keyword of `s`. -/
theorem visit_iff_sat (env : Env) (s : S) (v : J) : visit env s v = true ↔ Sat env s v :=
  (visit_iff_sat_all env).1 s v

/-- a value that violates the schema is never accepted -/
theorem violation_never_accepted (env : Env) (s : S) (v : J) (h : ¬ Sat env s v) : visit env s v = false := by
  cases hv : visit env s v with
  | false => rfl
  | true => exact absurd ((visit_iff_sat env s v).mp hv) h

/-- a value that violates nothing is never rejected -/
theorem conforming_never_rejected (env : Env) (s : S) (v : J) (h : Sat env s v) : visit env s v = true :=
  (visit_iff_sat env s v).mpr h

/-! ### the executable oracle agrees with the declarative specification -/

theorem numSpecB_iff (kw : Kw) (q : Rat) : numSpecB kw q = true ↔ numSpec kw q := by
  unfold numSpecB numSpec
  have hfmt : (kw.permits "number" || !kw.permits "integer" || kw.format == "" ||
       (match intFormatRange kw.format with
        | some (lo, hi) => decide (lo ≤ truncInt q) && decide (truncInt q ≤ hi)
        | none => true)) = true ↔
      (kw.permits "number" = false → kw.permits "integer" = true → kw.format ≠ "" →
        ∀ lo hi, intFormatRange kw.format = some (lo, hi) → lo ≤ truncInt q ∧ truncInt q ≤ hi) := by
    cases hn : kw.permits "number" <;> cases hi : kw.permits "integer" <;> simp
    by_cases hf : kw.format = ""
    · simp [hf]
    · simp only [hf, false_or, not_false_eq_true, forall_const]
      cases hr : intFormatRange kw.format with
      | none => simp
      | some r => obtain ⟨lo, hi'⟩ := r; simp
  have htype : (kw.permits "number" || (kw.permits "integer" && q.isInt)) = true ↔
      (if kw.permits "number" = true then True else kw.permits "integer" = true ∧ q.isInt = true) := by
    cases hn : kw.permits "number" <;> simp
  have hmin : (match kw.minimum with | some m => decide (m ≤ q) && (!kw.exclMin || decide (m < q)) | none => true) = true ↔
      (∀ m, kw.minimum = some m → m ≤ q ∧ (kw.exclMin = true → m < q)) := by
    cases hmn : kw.minimum <;> cases hem : kw.exclMin <;> simp
  have hmax : (match kw.maximum with | some m => decide (q ≤ m) && (!kw.exclMax || decide (q < m)) | none => true) = true ↔
      (∀ m, kw.maximum = some m → q ≤ m ∧ (kw.exclMax = true → q < m)) := by
    cases hmx : kw.maximum <;> cases hex : kw.exclMax <;> simp
  have hmul : (match kw.multipleOf with | some m => m != 0 && (q / m).isInt | none => true) = true ↔
      (∀ m, kw.multipleOf = some m → m ≠ 0 ∧ (q / m).isInt = true) := by
    cases hmo : kw.multipleOf <;> simp
  rw [Bool.and_eq_true, Bool.and_eq_true, Bool.and_eq_true, Bool.and_eq_true]
  exact ⟨fun ⟨⟨⟨⟨x1, x2⟩, x3⟩, x4⟩, x5⟩ => ⟨htype.mp x1, hfmt.mp x2, hmin.mp x3, hmax.mp x4, hmul.mp x5⟩,
         fun ⟨x1, x2, x3, x4, x5⟩ => ⟨⟨⟨⟨htype.mpr x1, hfmt.mpr x2⟩, hmin.mpr x3⟩, hmax.mpr x4⟩, hmul.mpr x5⟩⟩

theorem ownSpecB_iff (env : Env) (kw : Kw) (p : List (String × S)) (v : J) : ownSpecB env kw p v = true ↔ ownSpec env kw p v := by
  cases v with
  | null => simp [ownSpecB, ownSpec]
  | bool x => simp [ownSpecB, ownSpec]
  | num q => simp [ownSpecB, ownSpec, numSpecB_iff]
  | str x =>
    simp only [ownSpecB, ownSpec, strSpecB, strSpec]
    cases hml : kw.maxLength <;> simp [and_assoc, or_iff_imp]
  | arr xs =>
    simp only [ownSpecB, ownSpec, arrSpecB, arrSpec]
    cases hml : kw.maxItems <;> cases hu : kw.uniqueItems <;> simp [and_assoc]
  | obj kvs =>
    simp only [ownSpecB, ownSpec, objSpecB, objSpec]
    have hall : (p.all fun ks => !forbidden env ks.2 || !(lookup ks.1 kvs).isSome) = true ↔
        (∀ ks ∈ p, forbidden env ks.2 = true → (lookup ks.1 kvs).isSome = false) := by
      simp only [List.all_eq_true, Bool.or_eq_true, Bool.not_eq_true']
      constructor
      · intro h ks hks hf
        rcases h ks hks with h1 | h1
        · rw [hf] at h1; cases h1
        · exact h1
      · intro h ks hks
        cases hf : forbidden env ks.2 with
        | false => exact Or.inl rfl
        | true => exact Or.inr (h ks hks hf)
    have hreq : (kw.required.all (reqOK env p kvs)) = true ↔
        (∀ k ∈ kw.required, (lookup k kvs).isSome = true ∨ ∃ s, lookup k p = some s ∧ exempt env s = true) := by
      simp only [List.all_eq_true, reqOK_iff]
    cases hml : kw.maxProps <;>
      simp only [Bool.and_eq_true, hall, hreq, decide_eq_true_eq, and_assoc, Bool.and_true, reduceCtorEq, false_implies,
        implies_true, true_and, and_true, Option.some.injEq, forall_eq']

theorem satCount_unique (env : Env) (dr : String) : ∀ (ss : List S) (v : J) (m n : Nat), SatCount env dr ss v m → SatCount env dr ss v n → m = n := by
  intro ss v
  induction ss with
  | nil => intro m n hm hn; rw [SatCount] at hm hn; omega
  | cons s ss ih =>
    intro m n hm hn
    rw [SatCount] at hm hn
    rcases hm with ⟨h1, m', rfl, hm'⟩ | ⟨h1, hm'⟩ <;> rcases hn with ⟨h2, n', rfl, hn'⟩ | ⟨h2, hn'⟩
    · rw [ih _ _ hm' hn']
    · exact absurd h1 h2
    · exact absurd h2 h1
    · exact ih _ _ hm' hn'

theorem combineB_iff (env : Env) (kw : Kw) (a b c : List S) (p : List (String × S)) (v : J)
    (rNot : Bool) (rCount : Nat) (rAny rAll rChild : Bool) (PNot PCount PAny PAll PChild : Prop)
    (hNot : rNot = true ↔ PNot) (hCnt : rCount = 1 ↔ PCount) (hAny : rAny = true ↔ PAny)
    (hAll : rAll = true ↔ PAll) (hChild : rChild = true ↔ PChild) :
    combineB env kw a b c p v rNot rCount rAny rAll rChild = true ↔
      (if v.isNull = true then
        kw.permitsNull = true ∨ ((a ≠ [] ∨ b ≠ [] ∨ c ≠ []) ∧ (PNot ∧ (c = [] ∨ ((discCheck kw v).pass = true ∧ PCount)) ∧ (b = [] ∨ PAny) ∧ PAll))
       else
        (PNot ∧ (c = [] ∨ ((discCheck kw v).pass = true ∧ PCount)) ∧ (b = [] ∨ PAny) ∧ PAll) ∧ enumSpec kw v ∧ ownSpec env kw p v ∧ PChild) := by
  have hcomps : (rNot && (c.isEmpty || ((discCheck kw v).pass && rCount == 1)) && (b.isEmpty || rAny) && rAll) = true ↔
      (PNot ∧ (c = [] ∨ ((discCheck kw v).pass = true ∧ PCount)) ∧ (b = [] ∨ PAny) ∧ PAll) := by
    simp only [Bool.and_eq_true, Bool.or_eq_true, isEmpty_list_iff, beq_iff_eq, hNot, hCnt, hAny, hAll]
    exact ⟨fun ⟨⟨⟨x1, x2⟩, x3⟩, x4⟩ => ⟨x1, x2, x3, x4⟩, fun ⟨x1, x2, x3, x4⟩ => ⟨⟨⟨x1, x2⟩, x3⟩, x4⟩⟩
  unfold combineB
  generalize (rNot && (c.isEmpty || ((discCheck kw v).pass && rCount == 1)) && (b.isEmpty || rAny) && rAll) = comps at hcomps ⊢
  by_cases hn : v.isNull = true
  · simp only [hn, if_true, Bool.or_eq_true, Bool.and_eq_true, hcomps]
    simp [isEmpty_list_iff, or_assoc]
  · have hn' : v.isNull = false := by simpa using hn
    simp only [hn', Bool.false_eq_true, if_false, Bool.and_eq_true]
    rw [hcomps, enumOK_iff, ownSpecB_iff, hChild]
    simp only [and_assoc]

/-- the executable oracle `satB` decides `Sat` -/
theorem satB_iff_all (env : Env) :
    (∀ s v, satB env s v = true ↔ Sat env s v) ∧
    (∀ p ad has kvs, satPropsB env p ad has kvs = true ↔ SatProps env p ad has kvs) ∧
    (∀ s xs, satItemsB env s xs = true ↔ SatItems env s xs) ∧
    (∀ ss v, satAllB env ss v = true ↔ SatAll env ss v) ∧
    (∀ ss v, satAnyB env ss v = true ↔ SatAny env ss v) ∧
    (∀ dr ss v, SatCount env dr ss v (satCountB env dr ss v)) := by
  refine satB.mutual_induct
    (motive1 := fun s v => satB env s v = true ↔ Sat env s v)
    (motive2 := fun p ad has kvs => satPropsB env p ad has kvs = true ↔ SatProps env p ad has kvs)
    (motive3 := fun s xs => satItemsB env s xs = true ↔ SatItems env s xs)
    (motive4 := fun ss v => satAllB env ss v = true ↔ SatAll env ss v)
    (motive5 := fun ss v => satAnyB env ss v = true ↔ SatAny env ss v)
    (motive6 := fun dr ss v => SatCount env dr ss v (satCountB env dr ss v))
    ?node ?pnil ?pcons ?inil ?icons ?anil ?acons ?ynil ?ycons ?cnil ?ccons
  case node =>
    intro kw a b c n i p ad v ihn ih6 ih5 ih4 ihc
    rw [satB.eq_def, Sat.eq_def]
    simp only
    refine combineB_iff env kw a b c p v _ _ _ _ _ _ _ _ _ _ ?_ ?_ ih5 ih4 ?_
    · cases n with
      | none => simp
      | some t => simp only at ihn; simp [← ihn]
    · exact ⟨fun h => h ▸ ih6, fun h => satCount_unique env _ c v _ _ ih6 h⟩
    · cases v with
      | arr xs =>
        cases i with
        | none => simp
        | some t => simp only at ihc; simp [ihc]
      | obj kvs => simp only at ihc; simpa using ihc
      | null => simp
      | bool x => simp
      | num q => simp
      | str x => simp
  case pnil => intro p ad has; simp [satPropsB, SatProps]
  case pcons =>
    intro p ad has k x r ih1 ih2 ih3
    rw [satPropsB.eq_def, SatProps]
    simp only [Bool.and_eq_true, ih3]
    cases hl : lookup k p with
    | some s => simp [ih1 s]
    | none =>
      cases ad with
      | none => simp
      | some s => simp only at ih2; simp [ih2]
  case inil => intro s; simp [satItemsB, SatItems]
  case icons => intro s x xs ih1 ih2; rw [satItemsB, SatItems]; simp [ih1, ih2]
  case anil => intro v; simp [satAllB, SatAll]
  case acons => intro s ss v ih1 ih2; rw [satAllB, SatAll]; simp [ih1, ih2]
  case ynil => intro v; simp [satAnyB, SatAny]
  case ycons => intro s ss v ih1 ih2; rw [satAnyB, SatAny]; simp [ih1, ih2]
  case cnil => intro dr v; simp [satCountB, SatCount]
  case ccons =>
    intro dr s ss v ih1 ih2
    rw [satCountB, SatCount]
    cases hs : (selOK dr s && satB env s v) with
    | true =>
      left
      simp only [Bool.and_eq_true] at hs
      exact ⟨⟨hs.1, ih1.mp hs.2⟩, satCountB env dr ss v, by simp; omega, ih2⟩
    | false =>
      right
      refine ⟨?_, by simpa using ih2⟩
      rintro ⟨h1, h2⟩
      have := ih1.mpr h2
      simp [h1, this] at hs

theorem satB_iff (env : Env) (s : S) (v : J) : satB env s v = true ↔ Sat env s v := (satB_iff_all env).1 s v

/-- the validator and the oracle always agree (what the correspondence run checks on concrete inputs) -/
theorem visit_eq_satB (env : Env) (s : S) (v : J) : visit env s v = satB env s v := by
  apply Bool.eq_iff_iff.mpr
  rw [visit_iff_sat, satB_iff]

/-! ### consequences named in the property -/

theorem satProps_mem (env : Env) (p : List (String × S)) (ad : Option S) (has : Option Bool) :
    ∀ kvs, SatProps env p ad has kvs → ∀ k x, (k, x) ∈ kvs →
      (∀ ps, lookup k p = some ps → Sat env ps x) ∧
      (lookup k p = none → has ≠ some false ∧ ∀ t, ad = some t → Sat env t x) := by
  intro kvs
  induction kvs with
  | nil => intro _ k x h; simp at h
  | cons kv r ih =>
    obtain ⟨k', x'⟩ := kv
    intro h k x hm
    rw [SatProps] at h
    rcases List.mem_cons.mp hm with heq | hm'
    · cases heq
      constructor
      · intro ps hl; have := h.1; simp only [hl] at this; exact this
      · intro hl; have := h.1; simp only [hl] at this; exact this
    · exact ih h.2 k x hm'

theorem satItems_mem (env : Env) (t : S) : ∀ xs, SatItems env t xs → ∀ x ∈ xs, Sat env t x := by
  intro xs
  induction xs with
  | nil => intro _ x h; simp at h
  | cons y ys ih =>
    intro h x hm
    rw [SatItems] at h
    rcases List.mem_cons.mp hm with rfl | hm'
    · exact h.1
    · exact ih h.2 x hm'

theorem satAll_mem (env : Env) (v : J) : ∀ ss, SatAll env ss v → ∀ t ∈ ss, Sat env t v := by
  intro ss
  induction ss with
  | nil => intro _ t h; simp at h
  | cons y ys ih =>
    intro h t hm
    rw [SatAll] at h
    rcases List.mem_cons.mp hm with rfl | hm'
    · exact h.1
    · exact ih h.2 t hm'

/-- A violation inside a member of an object is never accepted: if the object is accepted, every member
satisfies its declared property schema, and every undeclared member the additionalProperties schema. -/
theorem accepted_object_members (env : Env) (kw : Kw) (a b c : List S) (n i : Option S) (p : List (String × S))
    (ad : Option S) (kvs : List (String × J))
    (h : visit env (S.mk kw a b c n i p ad) (.obj kvs) = true) (k : String) (x : J) (hm : (k, x) ∈ kvs) :
    (∀ ps, lookup k p = some ps → visit env ps x = true) ∧
    (lookup k p = none → kw.addHas ≠ some false ∧ ∀ t, ad = some t → visit env t x = true) := by
  have hs := (visit_iff_sat env _ _).mp h
  rw [Sat.eq_def] at hs
  simp only [J.isNull, Bool.false_eq_true, if_false] at hs
  have := satProps_mem env p ad kw.addHas kvs hs.2.2.2 k x hm
  exact ⟨fun ps hl => (visit_iff_sat env ps x).mpr (this.1 ps hl),
         fun hl => ⟨(this.2 hl).1, fun t ht => (visit_iff_sat env t x).mpr ((this.2 hl).2 t ht)⟩⟩

/-- A violation inside an item of an array is never accepted. -/
theorem accepted_array_items (env : Env) (kw : Kw) (a b c : List S) (n : Option S) (t : S) (p : List (String × S))
    (ad : Option S) (xs : List J)
    (h : visit env (S.mk kw a b c n (some t) p ad) (.arr xs) = true) (x : J) (hm : x ∈ xs) :
    visit env t x = true := by
  have hs := (visit_iff_sat env _ _).mp h
  rw [Sat.eq_def] at hs
  simp only [J.isNull, Bool.false_eq_true, if_false] at hs
  exact (visit_iff_sat env t x).mpr (satItems_mem env t xs (hs.2.2.2 t rfl) x hm)

theorem satCount_pos_mem (env : Env) (dr : String) (v : J) : ∀ ss m, SatCount env dr ss v (m + 1) → ∃ t ∈ ss, Sat env t v := by
  intro ss
  induction ss with
  | nil => intro m h; rw [SatCount] at h; omega
  | cons y ys ih =>
    intro m h
    rw [SatCount] at h
    rcases h with ⟨h1, _⟩ | ⟨_, h2⟩
    · exact ⟨y, by simp, h1.2⟩
    · obtain ⟨t, ht, hs⟩ := ih m h2; exact ⟨t, by simp [ht], hs⟩

theorem satAny_mem (env : Env) (v : J) : ∀ ss, SatAny env ss v → ∃ t ∈ ss, Sat env t v := by
  intro ss
  induction ss with
  | nil => intro h; rw [SatAny] at h; exact h.elim
  | cons y ys ih =>
    intro h
    rw [SatAny] at h
    rcases h with h | h
    · exact ⟨y, by simp, h⟩
    · obtain ⟨t, ht, hs⟩ := ih h; exact ⟨t, by simp [ht], hs⟩

/-- For a non-null value every `allOf` member must accept and the `not` schema must reject. -/
theorem accepted_nonnull_compositions (env : Env) (kw : Kw) (a b c : List S) (n i : Option S) (p : List (String × S))
    (ad : Option S) (v : J) (hv : v.isNull = false)
    (h : visit env (S.mk kw a b c n i p ad) v = true) :
    (∀ t ∈ a, visit env t v = true) ∧ (∀ t, n = some t → visit env t v = false) ∧
    (b ≠ [] → ∃ t ∈ b, visit env t v = true) := by
  have hs := (visit_iff_sat env _ _).mp h
  rw [Sat.eq_def] at hs
  simp only [hv, Bool.false_eq_true, if_false] at hs
  obtain ⟨⟨hn, _, hb, ha⟩, _⟩ := hs
  refine ⟨fun t ht => (visit_iff_sat env t v).mpr (satAll_mem env v a ha t ht), ?_, ?_⟩
  · intro t ht
    cases hv' : visit env t v with
    | false => rfl
    | true => exact absurd ((visit_iff_sat env t v).mp hv') (hn t ht)
  · intro hne
    rcases hb with hb | hb
    · exact absurd hb hne
    · obtain ⟨t, ht, hst⟩ := satAny_mem env v b hb
      exact ⟨t, ht, (visit_iff_sat env t v).mpr hst⟩

/-- a schema reachable through compositions permits null -/
inductive NullableIn : S → Prop
  | here {kw a b c n i p ad} : kw.permitsNull = true → NullableIn (S.mk kw a b c n i p ad)
  | allOf {kw a b c n i p ad t} : t ∈ a → NullableIn t → NullableIn (S.mk kw a b c n i p ad)
  | anyOf {kw a b c n i p ad t} : t ∈ b → NullableIn t → NullableIn (S.mk kw a b c n i p ad)
  | oneOf {kw a b c n i p ad t} : t ∈ c → NullableIn t → NullableIn (S.mk kw a b c n i p ad)

/-- **Null is admitted only where the schema is nullable**: if `null` is accepted, then the schema itself,
or a schema reachable from it through allOf/anyOf/oneOf, permits null (`nullable: true` or type "null"). -/
theorem null_only_where_nullable (env : Env) :
    (∀ s v, v = J.null → Sat env s v → NullableIn s) ∧
    (∀ (_ : List (String × S)) (_ : Option S) (_ : Option Bool) (_ : List (String × J)), True) ∧
    (∀ (_ : S) (_ : List J), True) ∧
    (∀ (ss : List S) v, v = J.null → ∀ t ∈ ss, Sat env t v → NullableIn t) ∧
    (∀ (ss : List S) v, v = J.null → ∀ t ∈ ss, Sat env t v → NullableIn t) ∧
    (∀ (_dr : String) (ss : List S) v, v = J.null → ∀ t ∈ ss, Sat env t v → NullableIn t) := by
  refine visit.mutual_induct
    (motive1 := fun s v => v = J.null → Sat env s v → NullableIn s)
    (motive2 := fun _ _ _ _ => True)
    (motive3 := fun _ _ => True)
    (motive4 := fun ss v => v = J.null → ∀ t ∈ ss, Sat env t v → NullableIn t)
    (motive5 := fun ss v => v = J.null → ∀ t ∈ ss, Sat env t v → NullableIn t)
    (motive6 := fun _ ss v => v = J.null → ∀ t ∈ ss, Sat env t v → NullableIn t)
    ?node ?pnil ?pcons ?inil ?icons ?anil ?acons ?ynil ?ycons ?cnil ?ccons
  case node =>
    intro kw a b c n i p ad v _ ih6 ih5 ih4 _ hv hs
    subst hv
    rw [Sat.eq_def] at hs
    simp only [J.isNull, if_true] at hs
    rcases hs with hp | ⟨hne, _, hc, hb, ha⟩
    · exact NullableIn.here hp
    · rcases hne with hne | hne | hne
      · cases a with
        | nil => exact absurd rfl hne
        | cons y ys =>
          rw [SatAll] at ha
          exact NullableIn.allOf (by simp) (ih4 rfl y (by simp) ha.1)
      · rcases hb with hb | hb
        · exact absurd hb hne
        · obtain ⟨t, ht, hst⟩ := satAny_mem env _ b hb
          exact NullableIn.anyOf ht (ih5 rfl t ht hst)
      · rcases hc with hc | hc
        · exact absurd hc hne
        · obtain ⟨t, ht, hst⟩ := satCount_pos_mem env _ _ c 0 hc.2
          exact NullableIn.oneOf ht (ih6 rfl t ht hst)
  case pnil => intros; trivial
  case pcons => intros; trivial
  case inil => intros; trivial
  case icons => intros; trivial
  case anil => intro v _ t ht; simp at ht
  case acons =>
    intro s ss v ih1 ih2 hv t ht hst
    rcases List.mem_cons.mp ht with rfl | ht'
    · exact ih1 hv hst
    · exact ih2 hv t ht' hst
  case ynil => intro v _ t ht; simp at ht
  case ycons =>
    intro s ss v ih1 ih2 hv t ht hst
    rcases List.mem_cons.mp ht with rfl | ht'
    · exact ih1 hv hst
    · exact ih2 hv t ht' hst
  case cnil => intro _ v _ t ht; simp at ht
  case ccons =>
    intro _ s ss v ih1 ih2 hv t ht hst
    rcases List.mem_cons.mp ht with rfl | ht'
    · exact ih1 hv hst
    · exact ih2 hv t ht' hst

theorem accepted_null_is_nullable (env : Env) (s : S) (h : visit env s .null = true) : NullableIn s :=
  (null_only_where_nullable env).1 s .null rfl ((visit_iff_sat env s .null).mp h)

/-! ### `jeq` (enum membership, uniqueItems) is equality of JSON values -/

theorem jeq_iff_eq_all :
    (∀ a b : J, jeq a b = true ↔ a = b) ∧
    (∀ a b : List (String × J), jeqO a b = true ↔ a = b) ∧
    (∀ a b : List J, jeqL a b = true ↔ a = b) := by
  refine jeq.mutual_induct
    (motive_1 := fun a b => jeq a b = true ↔ a = b)
    (motive_2 := fun a b => jeqO a b = true ↔ a = b)
    (motive_3 := fun a b => jeqL a b = true ↔ a = b)
    ?_ ?_ ?_ ?_ ?_ ?_ ?_ ?_ ?_ ?_ ?_ ?_ ?_
  · simp [jeq]
  · intro a b; simp [jeq]
  · intro a b; simp [jeq]
  · intro a b; simp [jeq]
  · intro a b ih; simp [jeq, ih]
  · intro a b ih; simp [jeq, ih]
  · intro t x h1 h2 h3 h4 h5 h6
    cases t <;> cases x <;> simp [jeq] <;> first | (exact (h1 rfl rfl).elim) | (exact (h2 _ _ rfl rfl).elim) | (exact (h3 _ _ rfl rfl).elim) | (exact (h4 _ _ rfl rfl).elim) | (exact (h5 _ _ rfl rfl).elim) | (exact (h6 _ _ rfl rfl).elim)
  · simp [jeqL]
  · intro x xs y ys ih1 ih2; simp [jeqL, ih1, ih2]
  · intro t x h1 h2
    cases t <;> cases x <;> simp [jeqL] <;> first | (exact (h1 rfl rfl).elim) | (exact (h2 _ _ _ _ rfl rfl).elim)
  · simp [jeqO]
  · intro k x xs l y ys ih1 ih2; simp [jeqO, ih1, ih2, and_assoc]
  · intro t x h1 h2
    cases t with
    | nil => cases x with
      | nil => exact (h1 rfl rfl).elim
      | cons b bs => obtain ⟨l, y⟩ := b; simp [jeqO]
    | cons a as =>
      obtain ⟨k, z⟩ := a
      cases x with
      | nil => simp [jeqO]
      | cons b bs => obtain ⟨l, y⟩ := b; exact (h2 _ _ _ _ _ _ rfl rfl).elim

/-- enum membership and uniqueness are decided by equality of (canonical) JSON values -/
theorem jeq_iff_eq (a b : J) : jeq a b = true ↔ a = b := jeq_iff_eq_all.1 a b

theorem enumSpec_iff_mem (kw : Kw) (v : J) : enumSpec kw v ↔ (kw.enum = [] ∨ v ∈ kw.enum) := by
  unfold enumSpec
  constructor
  · rintro (h | ⟨e, he, hj⟩)
    · exact Or.inl h
    · exact Or.inr ((jeq_iff_eq e v).mp hj ▸ he)
  · rintro (h | h)
    · exact Or.inl h
    · exact Or.inr ⟨v, h, (jeq_iff_eq v v).mpr rfl⟩

theorem uniqueB_iff_nodup (xs : List J) : uniqueB xs = true ↔ xs.Nodup := by
  induction xs with
  | nil => simp [uniqueB]
  | cons x xs ih =>
    simp only [uniqueB, Bool.and_eq_true, Bool.not_eq_true', List.nodup_cons, ih]
    constructor
    · rintro ⟨h1, h2⟩
      refine ⟨fun hm => ?_, h2⟩
      have : xs.any (jeq x) = true := List.any_eq_true.mpr ⟨x, hm, (jeq_iff_eq x x).mpr rfl⟩
      simp [this] at h1
    · rintro ⟨h1, h2⟩
      refine ⟨?_, h2⟩
      cases ha : xs.any (jeq x) with
      | false => rfl
      | true =>
        obtain ⟨y, hy, hj⟩ := List.any_eq_true.mp ha
        exact absurd ((jeq_iff_eq x y).mp hj ▸ hy) h1

/-! ### `multipleOf` and `integer` mean what draft-4 says -/

theorem isInt_iff_int (r : Rat) : r.isInt = true ↔ ∃ k : Int, r = (k : Rat) := by
  constructor
  · intro h
    refine ⟨r.num, ?_⟩
    have hd : r.den = 1 := by simpa [Rat.isInt] using h
    apply Rat.ext
    · simp
    · simp [hd]
  · rintro ⟨k, rfl⟩; simp [Rat.isInt]

/-- "A numeric instance is valid only if division by this keyword's value results in an integer": the
check `(q / m).isInt` holds exactly when `q` is an integral multiple of `m` (and a zero `multipleOf` admits nothing) -/
theorem multipleOf_meaning (kw : Kw) (q m : Rat) (h : kw.multipleOf = some m) :
    multipleOK kw q = true ↔ (m ≠ 0 ∧ ∃ k : Int, q = (k : Rat) * m) := by
  rw [multipleOK_iff]
  constructor
  · intro hm
    obtain ⟨h0, hi⟩ := hm m h
    refine ⟨h0, ?_⟩
    obtain ⟨k, hk⟩ := (isInt_iff_int _).mp hi
    exact ⟨k, by rw [← hk, Rat.div_mul_cancel h0]⟩
  · rintro ⟨h0, k, rfl⟩ m' hm'
    rw [h] at hm'; cases hm'
    exact ⟨h0, (isInt_iff_int _).mpr ⟨k, Rat.mul_div_cancel h0⟩⟩

/-! ### history independence: an earlier call cannot change a later verdict -/

/-- can this use of `compiledPatterns` put a matcher into the map? -/
def cacheUseStores (u : Gen.CacheUse) : Bool :=
  !(u.method == "Load" || (u.method == "CompareAndSwap" && u.shape == "old=nil"))

/-- obligation over the regenerated table: the source has no statement that stores into the pattern cache (every
use is a `Load`, or the `CompareAndSwap(_, nil, _)` that cannot succeed), and no use the rule could not read -/
theorem pattern_cache_never_written : Gen.patternCacheUses.all (fun u => !cacheUseStores u) = true := by decide

theorem pattern_cache_is_consulted : Gen.patternCacheUses.any (fun u => u.fn == "visitJSONString" && u.method == "Load") = true := by decide

theorem withCache_empty (env : Env) : env.withCache Cache.empty = env := by
  cases env; simp [Env.withCache, Cache.empty]

/-- **History independence.** Starting from the empty cache of a fresh process, the verdict of every call in any sequence
of validations — whatever schemas, values, regex compilers and options the earlier calls used — is the verdict of that
call alone, i.e. a function of the call's own environment (and hence `↔ Sat` for its own regex engine). -/
theorem history_independent (calls : List Call) :
    runCalls Cache.empty calls = calls.map (fun k => visit k.env k.s k.v) := by
  induction calls with
  | nil => simp [runCalls]
  | cons k ks ih => simp only [runCalls, cacheAfter, List.map_cons, withCache_empty, ih]

theorem history_independent_sat (pre : List Call) (k : Call) (post : List Call) :
    (runCalls Cache.empty (pre ++ k :: post))[pre.length]? = some (decide (satB k.env k.s k.v = true)) := by
  rw [history_independent]
  simp [visit_eq_satB]

/-- non-vacuity of the cache model: a cache that DID hold a matcher would override the call's own engine -/
example : (({ regex := fun _ _ => some true, strFormat := fun _ _ => none } : Env).withCache
    (fun p => if p = "^a" then some (fun _ => false) else none)).regex "^a" "abc" = some false := by
  simp [Env.withCache]

/-! ### validation with default injection: what a `not` child (and an unmatched candidate) does never reaches the value -/

/-- how the model reads a row of table SubVisits -/
def subVisitRunsOn (u : Gen.SubVisit) : Option RunsOn :=
  if u.arg == "value" then some .self
  else if u.arg == "elem" then some .elem
  else if u.arg == "copy" && u.guard == "settings.asreq || settings.asrep" then some .copyUnderReading
  else none   -- a copy under another condition (e.g. only for objects), or a shape the rule could not read

/-- obligation over the regenerated table: every sub-schema visit of the source runs on the value the model gives it —
`not`, the oneOf and the anyOf candidates on a private copy under EXACTLY `settings.asreq || settings.asrep`, everything
else on the value itself or on its items / members; no call the rule could not read, none missing, none added -/
theorem sub_visits_run_where_modelled :
    Gen.subVisits.map (fun u => (u.fn, subVisitRunsOn u)) = modelSubVisits.map (fun r => (r.1, some r.2)) := by decide

/-- the copies cover every injection: defaults are written only under a request / response reading -/
theorem injection_only_under_reading (env : Env) (h : env.injects = true) : (env.asreq || env.asrep) = true := by
  simp only [Env.injects, Bool.and_eq_true] at h
  exact h.1

/-- **Nothing a `not` child writes is ever read**: the visit of a node — events, hence the verdict in every mode, and the
value handed back — is the same whatever value the `not` child left behind (lifted to the code by
`sub_visits_run_where_modelled`: there the child runs on a private copy whenever it could write) -/
theorem not_child_leaves_nothing (m : Mode) (env : Env) (kw : Kw) (a b c : List S) (p : List (String × S)) (sc : Bool) (v x : J)
    (r : Subs) :
    nodeD m env kw a b c p sc v { r with rn := r.rn.map (fun o => (o.1, x)) } = nodeD m env kw a b c p sc v r := by
  cases r with
  | mk rn ro ra rl items props addl => cases rn <;> rfl

/-- the same for the verdict alone, in the reading of the seeded class: a `not` child that writes defaults into the items of
an ARRAY value (x = the array with the defaults in it) changes nothing -/
theorem not_child_verdict_unchanged (m : Mode) (env : Env) (kw : Kw) (a b c : List S) (p : List (String × S)) (sc : Bool) (v x : J)
    (r : Subs) :
    passesL (nodeD m env kw a b c p sc v { r with rn := r.rn.map (fun o => (o.1, x)) }).1 = passesL (nodeD m env kw a b c p sc v r).1 := by
  rw [not_child_leaves_nothing]

/-- **Nothing a oneOf / anyOf candidate that does not accept writes is ever read** (such a candidate runs on a private
copy, table SubVisits rows 2 and 4): the visit of a node is the same whatever those candidates left behind -/
theorem failed_candidates_leave_nothing (m : Mode) (env : Env) (kw : Kw) (a b c : List S) (p : List (String × S)) (sc : Bool)
    (v x y : J) (r : Subs) :
    nodeD m env kw a b c p sc v { r with ro := dropFailed x r.ro, ra := dropFailed y r.ra } = nodeD m env kw a b c p sc v r := by
  cases r with
  | mk rn ro ra rl items props addl =>
    simp only [nodeD, afterOne, oneOK, afterAny, anyOK, outsEvs_dropFailed, passing_dropFailed, firstPass_dropFailed]

/-- non-vacuity of `dropFailed`: the accepting candidate keeps what it wrote, the failing one does not -/
example : (dropFailed .null [([], .str "kept"), ([.fail nullErr true], .str "dropped")]).map (fun o => jeq o.2 (.str "kept")) = [true, false] := by
  decide

/-- **Every default is accounted for**: a `default` the injection loop can reach is reachable without passing a `not`
(it can be written into the caller's value: `hasOwnDflt`) or lives below a `not` (`dfltUnderNot`, where what is written is
dropped) — the three predicates of Schema/Defaults.lean partition as the check's case split assumes -/
theorem hasPropDflt_split_all :
    (∀ s : S, s.hasPropDflt = (s.hasOwnDflt || s.dfltUnderNot)) ∧
    (∀ p : List (String × S), hasPropDfltP p = (hasOwnDfltP p || dfltUnderNotP p)) ∧
    (∀ o : Option S, hasPropDfltO o = (hasOwnDfltO o || dfltUnderNotO o)) ∧
    (∀ l : List S, hasPropDfltL l = (hasOwnDfltL l || dfltUnderNotL l)) := by
  refine S.hasPropDflt.mutual_induct
    (motive_1 := fun s => s.hasPropDflt = (s.hasOwnDflt || s.dfltUnderNot))
    (motive_4 := fun l => hasPropDfltL l = (hasOwnDfltL l || dfltUnderNotL l))
    (motive_3 := fun o => hasPropDfltO o = (hasOwnDfltO o || dfltUnderNotO o))
    (motive_2 := fun p => hasPropDfltP p = (hasOwnDfltP p || dfltUnderNotP p))
    ?_ ?_ ?_ ?_ ?_ ?_ ?_
  · intro kw a b c n i p ad iha ihb ihc ihn ihi ihp ihad
    rw [S.hasPropDflt, S.hasOwnDflt, S.dfltUnderNot, iha, ihb, ihc, ihn, ihi, ihp, ihad]
    grind
  · simp [hasPropDfltL, hasOwnDfltL, dfltUnderNotL]
  · intro s ss ih1 ih2
    rw [hasPropDfltL, hasOwnDfltL, dfltUnderNotL, ih1, ih2]
    cases s.hasOwnDflt <;> cases s.dfltUnderNot <;> simp
  · simp [hasPropDfltO, hasOwnDfltO, dfltUnderNotO]
  · intro s ih; simpa [hasPropDfltO, hasOwnDfltO, dfltUnderNotO] using ih
  · simp [hasPropDfltP, hasOwnDfltP, dfltUnderNotP]
  · intro k s ps ih1 ih2
    rw [hasPropDfltP, hasOwnDfltP, dfltUnderNotP, ih1, ih2]
    cases s.kw.dflt.isSome <;> cases s.hasOwnDflt <;> cases s.dfltUnderNot <;> simp

theorem hasPropDflt_split (s : S) : s.hasPropDflt = (s.hasOwnDflt || s.dfltUnderNot) := hasPropDflt_split_all.1 s

/-- a schema that cannot write into the caller's value has all its defaults below `not`s -/
theorem defaults_only_under_not (s : S) (h : s.hasOwnDflt = false) : s.hasPropDflt = s.dfltUnderNot := by
  rw [hasPropDflt_split, h, Bool.false_or]

/-- non-vacuity: a `not` child that fails (so `not` is satisfied) and left an enlarged array behind — the node still
hands back the caller's value -/
example : jeq (nodeD .dflt { regex := fun _ _ => none, strFormat := fun _ _ => none, asreq := true, dfl := true }
    {} [] [] [] [] false (.arr [.obj []])
    { rn := some ([.fail nullErr true], .arr [.obj [("a", .str "d")]]), ro := [], ra := [], rl := [], items := [], props := [], addl := [] }).2
    (.arr [.obj []]) = true := by decide

/-- non-vacuity of the table reading: a copy that is only made for object values is NOT what the model has -/
example : subVisitRunsOn ⟨"visitNotOperation", "copy", "isObject && (settings.asreq || settings.asrep)"⟩ = none := by decide

/-! ### the pattern translation `intoGoRegexp` inside the model -/


theorem lookup_pats {k : String} {s : S} : ∀ {p : List (String × S)}, lookup k p = some s → ∀ x ∈ s.pats, x ∈ patsP p
  | [], h => by simp [lookup] at h
  | (k0, s0) :: ps, h => by
    intro x hx
    simp only [lookup] at h
    simp only [patsP, List.mem_append]
    split at h
    · cases h; exact Or.inl hx
    · exact Or.inr (lookup_pats h x hx)

/-- the verdict depends on the regex oracle only at the schema's own patterns -/
theorem visit_regex_congr_all (env : Env) (r' : String → String → Option Bool) :
    (∀ s v, (∀ p ∈ s.pats, env.regex p = r' p) → visit env s v = visit { env with regex := r' } s v) ∧
    (∀ p ad has kvs, (∀ x ∈ patsP p ++ patsO ad, env.regex x = r' x) →
        visitProps env p ad has kvs = visitProps { env with regex := r' } p ad has kvs) ∧
    (∀ s xs, (∀ p ∈ s.pats, env.regex p = r' p) → visitItems env s xs = visitItems { env with regex := r' } s xs) ∧
    (∀ ss v, (∀ p ∈ patsL ss, env.regex p = r' p) → visitAll env ss v = visitAll { env with regex := r' } ss v) ∧
    (∀ ss v, (∀ p ∈ patsL ss, env.regex p = r' p) → visitAny env ss v = visitAny { env with regex := r' } ss v) ∧
    (∀ dr ss v, (∀ p ∈ patsL ss, env.regex p = r' p) → countOK env dr ss v = countOK { env with regex := r' } dr ss v) := by
  refine visit.mutual_induct
    (motive1 := fun s v => (∀ p ∈ s.pats, env.regex p = r' p) → visit env s v = visit { env with regex := r' } s v)
    (motive2 := fun p ad has kvs => (∀ x ∈ patsP p ++ patsO ad, env.regex x = r' x) →
        visitProps env p ad has kvs = visitProps { env with regex := r' } p ad has kvs)
    (motive3 := fun s xs => (∀ p ∈ s.pats, env.regex p = r' p) → visitItems env s xs = visitItems { env with regex := r' } s xs)
    (motive4 := fun ss v => (∀ p ∈ patsL ss, env.regex p = r' p) → visitAll env ss v = visitAll { env with regex := r' } ss v)
    (motive5 := fun ss v => (∀ p ∈ patsL ss, env.regex p = r' p) → visitAny env ss v = visitAny { env with regex := r' } ss v)
    (motive6 := fun dr ss v => (∀ p ∈ patsL ss, env.regex p = r' p) → countOK env dr ss v = countOK { env with regex := r' } dr ss v)
    ?node ?pnil ?pcons ?inil ?icons ?anil ?acons ?ynil ?ycons ?cnil ?ccons
  case node =>
    intro kw a b c n i p ad v ihn ih6 ih5 ih4 ihc h
    simp only [S.pats, List.mem_cons, List.mem_append, forall_eq_or_imp] at h
    obtain ⟨hk, hrest⟩ := h
    rw [visit.eq_def, visit.eq_def]
    simp only
    have hstr : ∀ x, strOK env kw x = strOK { env with regex := r' } kw x := by
      intro x; simp only [strOK, hk]
    have hreq : ∀ kvs, reqOK env p kvs = reqOK { env with regex := r' } p kvs := by
      intro kvs; funext k; simp [reqOK, exempt]
    have hown : ∀ rc, ownOK env kw p v rc = ownOK { env with regex := r' } kw p v rc := by
      intro rc; cases v <;> simp [ownOK, hstr, objOK, roBad, forbidden, hreq]
    have hc := ih6 (fun q hq => hrest q (by simp [hq]))
    have hb := ih5 (fun q hq => hrest q (by simp [hq]))
    have ha := ih4 (fun q hq => hrest q (by simp [hq]))
    have hcomb : ∀ sc x1 x2 x3 x4 x5, combine env kw a b c p sc v x1 x2 x3 x4 x5 =
        combine { env with regex := r' } kw a b c p sc v x1 x2 x3 x4 x5 := by
      intros; unfold combine; simp only [hown]
    rw [hcomb, hc, hb, ha]
    congr 1
    · cases n with
      | none => rfl
      | some t =>
        simp only at ihn ⊢
        rw [ihn (fun q hq => hrest q (by simp [patsO, hq]))]
    · cases v with
      | arr xs =>
        cases i with
        | none => rfl
        | some t => simp only at ihc ⊢; rw [ihc (fun q hq => hrest q (by simp [patsO, hq]))]
      | obj kvs =>
        simp only at ihc ⊢
        rw [ihc (fun q hq => hrest q (by
          rcases List.mem_append.mp hq with h | h
          · simp [h]
          · simp [h]))]
      | null => rfl
      | bool _ => rfl
      | num _ => rfl
      | str _ => rfl
  case pnil => intro p ad has _; simp [visitProps]
  case pcons =>
    intro p ad has k x r ih1 ih2 ih3 h
    rw [visitProps.eq_def, visitProps.eq_def]
    simp only
    rw [ih3 h]
    congr 2
    · cases hl : lookup k p with
      | none => rfl
      | some s =>
        simp only
        rw [ih1 s (fun q hq => h q (List.mem_append.mpr (Or.inl (lookup_pats hl q hq))))]
    · cases ad with
      | none => rfl
      | some s =>
        simp only at ih2 ⊢
        rw [ih2 (fun q hq => h q (List.mem_append.mpr (Or.inr (by simpa [patsO] using hq))))]
  case inil => intro s _; simp [visitItems]
  case icons => intro s x xs ih1 ih2 h; rw [visitItems, visitItems, ih1 h, ih2 h]
  case anil => intro v _; simp [visitAll]
  case acons =>
    intro s ss v ih1 ih2 h
    simp only [patsL, List.mem_append] at h
    rw [visitAll, visitAll, ih1 (fun q hq => h q (Or.inl hq)), ih2 (fun q hq => h q (Or.inr hq))]
  case ynil => intro v _; simp [visitAny]
  case ycons =>
    intro s ss v ih1 ih2 h
    simp only [patsL, List.mem_append] at h
    rw [visitAny, visitAny, ih1 (fun q hq => h q (Or.inl hq)), ih2 (fun q hq => h q (Or.inr hq))]
  case cnil => intro dr v _; simp [countOK]
  case ccons =>
    intro dr s ss v ih1 ih2 h
    simp only [patsL, List.mem_append] at h
    rw [countOK, countOK, ih1 (fun q hq => h q (Or.inl hq)), ih2 (fun q hq => h q (Or.inr hq))]

theorem visit_regex_congr (env : Env) (r' : String → String → Option Bool) (s : S) (v : J)
    (h : ∀ p ∈ s.pats, env.regex p = r' p) : visit env s v = visit { env with regex := r' } s v :=
  (visit_regex_congr_all env r').1 s v h

/-- **C01 with the pattern translation inside the model.** With the default engine the validator asks Go's regexp about
`intoGo pattern`; the property reads the pattern as ECMA-262 (`ecmaToGo`). For every schema none of whose patterns is
in the class `patternTranslationDiffers`, validation with the library's translation accepts exactly the values that
satisfy the schema under the ECMA reading. -/
theorem visit_iff_sat_ecma_partial (env : Env) (go : String → String → Option Bool) (s : S) (v : J)
    (hx : ∀ p ∈ s.pats, patternTranslationDiffers p = false) :
    visit (env.viaGo go intoGo) s v = true ↔ Sat (env.viaGo go ecmaToGo) s v := by
  rw [← visit_iff_sat]
  have : visit (env.viaGo go intoGo) s v = visit { env.viaGo go intoGo with regex := fun p x => go (ecmaToGo p) x } s v := by
    apply visit_regex_congr
    intro p hp
    have := hx p hp
    simp only [patternTranslationDiffers, bne_eq_false_iff_eq] at this
    simp only [Env.viaGo, intoGo, ecmaToGo, this]
  rw [this]
  rfl

/-- F-C01-1: lower-case hex digits — `^\u00e9$` is handed to Go untouched (Go: invalid escape, nothing matches) -/
theorem F_C01_1_witness : patternTranslationDiffers "^\\u00e9$" = true := by decide
/-- F-C01-2: the backslash of `\\u00E9` is itself escaped (ECMA: a literal backslash, then the letters u00E9) — rewritten all the same -/
theorem F_C01_2_witness : patternTranslationDiffers "^\\\\u00E9$" = true := by decide
/-- non-vacuity: the intended use, upper-case hex after a real backslash, and patterns without escapes, are translated as read -/
example : patternTranslationDiffers "^\\u00E9[a-z]+$" = false ∧ patternTranslationDiffers "^a.{2}$" = false ∧
    patternTranslationDiffers "^\\\\\\u00E9\\d$" = false := by decide


/-! ### non-vacuity: concrete schemas and values on both sides of the equivalence -/

def exEnv : Env := { regex := fun _ _ => some true, strFormat := fun _ _ => none }
/-- `{type: object, required: [a], properties: {a: {type: integer, minimum: 1}}, additionalProperties: false}` -/
def exSchema : S :=
  .mk { types := some ["object"], required := ["a"], addHas := some false } [] [] [] none none
    [("a", .mk { types := some ["integer"], minimum := some 1 } [] [] [] none none [] none)] none

example : satB exEnv exSchema (.obj [("a", .num 2)]) = true := by
  simp [satB.eq_def, satPropsB.eq_def, combineB, exSchema, J.isNull, enumOK, ownSpecB, objSpecB, numSpecB, Kw.permits,
    Kw.permitsNull, Kw.includes, lookup, satCountB, satAnyB, satAllB, intFormatRange]
  decide
example : Sat exEnv exSchema (.obj [("a", .num 2)]) := (satB_iff _ _ _).mp (by
  simp [satB.eq_def, satPropsB.eq_def, combineB, exSchema, J.isNull, enumOK, ownSpecB, objSpecB, numSpecB, Kw.permits,
    Kw.permitsNull, Kw.includes, lookup, satCountB, satAnyB, satAllB, intFormatRange]
  decide)
example : visit exEnv exSchema (.obj [("a", .num 0)]) = false := by
  rw [visit_eq_satB]
  simp [satB.eq_def, satPropsB.eq_def, combineB, exSchema, J.isNull, enumOK, ownSpecB, objSpecB, numSpecB, Kw.permits,
    Kw.permitsNull, Kw.includes, lookup, satCountB, satAnyB, satAllB, intFormatRange]
  decide

end KinModel.Schema
