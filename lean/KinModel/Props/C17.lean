/-
C17 — v2 ↔ v3 conversion preserves the API a document describes.
Property theorems only. Model and abstraction: KinModel/Conv.lean; helper lemmas: KinModel/Lemmas/C17.lean.

Full-strength statements (goal shapes), for every v2 document `d` of the convertible fragment:
    toV3 d = .ok d3  ∧  validates3 d3  ∧  api3 d3 = api2 d  ∧  api2 (fromV3 d3) = api2 d
    ∧ every reference of fromV3 d3 is a v2 location.
The code deviates (DESIGN §7 #21, #26, #38, #39 and the findings F-C17-4, -8 … -11); what is proved below is
the statement per component of the `Api` (schema, parameter, form field, response, security scheme,
servers), each at full strength or `_partial` under the decidable exclusion that names the deviation,
with a kernel-checked witness inside the exclusion and a non-vacuity example outside it.
-/
import KinModel.Lemmas.C17
namespace KinModel.Conv

/-! ## schemas -/

/-- a reference-free, `x-nullable`-free, `file`-free schema means the same read as v2 or as v3 -/
theorem abs3S_eq_abs2S_of_refFree {V : Type} (s : Sch V) (h : refFree s = true) (hw : v2Refs s = true) :
    abs3S s = abs2S s := by
  refine (Sch.induct (P := fun s => refFree s = true → v2Refs s = true → abs3S s = abs2S s)
    (Q := fun ks => refFreeKids ks = true → v2RefsKids ks = true → abs3Kids ks = abs2Kids ks) ?_ ?_ ?_ ?_).1 s h hw
  · intro k n h; simp [refFree] at h
  · intro hd kids ih h hw
    simp only [refFree, Bool.and_eq_true, Bool.not_eq_true', beq_eq_false_iff_ne, ne_eq] at h
    simp only [v2Refs, Bool.and_eq_true, Bool.not_eq_true'] at hw
    simp only [abs3S, abs2S, ih h.2 hw.2]
    congr 1
    simp [abs3Hd, abs2Hd, fileToBinary, h.1.1, h.1.2, hw.1]
  · intro _ _; simp [abs3Kids, abs2Kids]
  · intro sl c rest ihc ihr h hw
    simp only [refFreeKids, Bool.and_eq_true] at h
    simp only [v2RefsKids, Bool.and_eq_true] at hw
    simp [abs3Kids, abs2Kids, ihc h.1 hw.1, ihr h.2 hw.2]

/-- convertRefsInV3SchemaRef is complete on a pure additionalProperties sub-schema -/
theorem addlToV3_preserves {V : Type} (s : Sch V) (h : addlPure s = true) (hw : v2Refs s = true) :
    abs3S (addlToV3 s) = abs2S s := by
  refine (Sch.induct (P := fun s => addlPure s = true → v2Refs s = true → abs3S (addlToV3 s) = abs2S s)
    (Q := fun ks => addlPureKids ks = true → v2RefsKids ks = true → abs3Kids (addlKids ks) = abs2Kids ks)
    ?_ ?_ ?_ ?_).1 s h hw
  · intro k n _ hw; cases k <;> simp_all [addlToV3, abs3S, abs2S, toV3RK, absRK3, absRK2, v2Refs, RK.isV2]
  · intro hd kids ih h hw
    simp only [addlPure, Bool.and_eq_true, Bool.not_eq_true', beq_eq_false_iff_ne, ne_eq] at h
    simp only [v2Refs, Bool.and_eq_true, Bool.not_eq_true'] at hw
    simp only [addlToV3, abs3S, abs2S, ih h.2 hw.2]
    congr 1
    simp [abs3Hd, abs2Hd, fileToBinary, h.1.1, h.1.2, hw.1]
  · intro _ _; simp [addlKids, abs3Kids, abs2Kids]
  · intro sl c rest ihc ihr h hw
    simp only [addlPureKids, Bool.and_eq_true] at h
    simp only [v2RefsKids, Bool.and_eq_true] at hw
    by_cases hs : sl = Slot.addl
    · simp only [hs, if_true] at h
      simp [addlKids, abs3Kids, abs2Kids, hs, ihc h.1 hw.1, ihr h.2 hw.2]
    · simp only [hs, if_false] at h
      simp [addlKids, abs3Kids, abs2Kids, hs, abs3S_eq_abs2S_of_refFree c h.1 hw.1, ihr h.2 hw.2]

/-- Full statement: `∀ s, abs3S (toV3S s) = abs2S s`. It fails inside `addlImpure` (finding F-C17-8).
    **ToV3SchemaRef preserves what a schema says**: same type/format (file = binary string), nullability,
    discriminator, required list, every constraint keyword, the same sub-schemas in the same slots, every
    reference rewritten to its v3 location. -/
theorem toV3S_preserves_partial {V : Type} (s : Sch V) (h : addlImpure s = false) (hw : v2Refs s = true) :
    abs3S (toV3S s) = abs2S s := by
  refine (Sch.induct (P := fun s => addlImpure s = false → v2Refs s = true → abs3S (toV3S s) = abs2S s)
    (Q := fun ks => addlImpureKids ks = false → v2RefsKids ks = true → abs3Kids (toV3Kids ks) = abs2Kids ks)
    ?_ ?_ ?_ ?_).1 s h hw
  · intro k n _ hw; cases k <;> simp_all [toV3S, abs3S, abs2S, toV3RK, absRK3, absRK2, v2Refs, RK.isV2]
  · intro hd kids ih h hw
    simp only [addlImpure] at h
    simp only [v2Refs, Bool.and_eq_true] at hw
    simp only [toV3S, abs3S, abs2S, ih h hw.2, abs3Hd_toV3Hd]
  · intro _ _; simp [toV3Kids, abs3Kids, abs2Kids]
  · intro sl c rest ihc ihr h hw
    simp only [addlImpureKids, Bool.or_eq_false_iff] at h
    simp only [v2RefsKids, Bool.and_eq_true] at hw
    by_cases hs : sl = Slot.addl
    · simp only [hs, if_true, Bool.not_eq_false'] at h
      simp [toV3Kids, abs3Kids, abs2Kids, hs, addlToV3_preserves c h.1 hw.1, ihr h.2 hw.2]
    · simp only [hs, if_false] at h
      simp [toV3Kids, abs3Kids, abs2Kids, hs, ihc h.1 hw.1, ihr h.2 hw.2]

/-- witness (F-C17-8): `additionalProperties: {type: string, x-nullable: true}` — the converted schema is
    not nullable -/
theorem toV3S_witness_addl :
    let s : Sch Nat := .node {} [(Slot.addl, .node { ty := some "string", xnull := true } [])]
    addlImpure s = true ∧ abs3S (toV3S s) ≠ abs2S s := by
  simp [addlImpure, addlImpureKids, addlPure, addlPureKids, toV3S, toV3Kids, addlToV3, addlKids, abs3S, abs3Kids,
    abs2S, abs2Kids, abs3Hd, abs2Hd]

/-- without a reference on its chain an additionalProperties sub-schema is left as it is -/
theorem addlToV3_id {V : Type} (s : Sch V) (h : chainRef s = false) : addlToV3 s = s := by
  refine (Sch.induct (P := fun s => chainRef s = false → addlToV3 s = s)
    (Q := fun ks => chainRefKids ks = false → addlKids ks = ks) ?_ ?_ ?_ ?_).1 s h
  · intro k n h; simp [chainRef] at h
  · intro hd kids ih h
    simp only [chainRef] at h
    simp [addlToV3, ih h]
  · intro _; simp [addlKids]
  · intro sl c rest ihc ihr h
    simp only [chainRefKids, Bool.or_eq_false_iff] at h
    by_cases hs : sl = Slot.addl
    · simp only [hs, if_true] at h
      simp [addlKids, hs, ihc h.1, ihr h.2]
    · simp [addlKids, hs, ihr h.2]

/-- Full statement: `∀ s, abs2S (fromV3S (toV3S s)) = abs2S s`. It fails inside `hasDisc` (finding #21:
    the discriminator is not copied back) and inside `addlRef` (finding #21: a reference inside
    additionalProperties stays a v3 reference).
    **The round trip gives back a v2 schema that says the same.** -/
theorem roundtripS_partial {V : Type} (s : Sch V) (h1 : hasDisc s = false) (h2 : addlRef s = false)
    (h3 : v2Refs s = true) : abs2S (fromV3S (toV3S s)) = abs2S s := by
  refine (Sch.induct (P := fun s => hasDisc s = false → addlRef s = false → v2Refs s = true →
      abs2S (fromV3S (toV3S s)) = abs2S s)
    (Q := fun ks => hasDiscKids ks = false → addlRefKids ks = false → v2RefsKids ks = true →
      abs2Kids (fromV3Kids (toV3Kids ks)) = abs2Kids ks) ?_ ?_ ?_ ?_).1 s h1 h2 h3
  · intro k n _ _ h
    cases k <;> simp_all [toV3S, fromV3S, abs2S, toV3RK, fromV3RK, v2Refs, RK.isV2]
  · intro hd kids ih h1 h2 h3
    simp only [hasDisc, Bool.or_eq_false_iff, Option.isSome_eq_false_iff, Option.isNone_iff_eq_none] at h1
    simp only [addlRef] at h2
    simp only [v2Refs, Bool.and_eq_true] at h3
    simp only [toV3S, fromV3S, abs2S, ih h1.2 h2 h3.2, abs2Hd_roundtrip hd h1.1]
  · intro _ _ _; simp [toV3Kids, fromV3Kids, abs2Kids]
  · intro sl c rest ihc ihr h1 h2 h3
    simp only [hasDiscKids, Bool.or_eq_false_iff] at h1
    simp only [addlRefKids, Bool.or_eq_false_iff] at h2
    simp only [v2RefsKids, Bool.and_eq_true] at h3
    by_cases hs : sl = Slot.addl
    · simp only [hs, if_true] at h2
      simp [toV3Kids, fromV3Kids, abs2Kids, hs, addlToV3_id c h2.1, ihr h1.2 h2.2 h3.2]
    · simp only [hs, if_false] at h1 h2
      simp [toV3Kids, fromV3Kids, abs2Kids, hs, ihc h1.1 h2.1 h3.1, ihr h1.2 h2.2 h3.2]

/-- witness (#21a): a discriminator is lost by the round trip -/
theorem roundtripS_witness_discriminator :
    let s : Sch Nat := .node { ty := some "object", disc := some "kind" } []
    hasDisc s = true ∧ abs2S (fromV3S (toV3S s)) ≠ abs2S s := by
  simp [hasDisc, toV3S, toV3Kids, fromV3S, fromV3Kids, abs2S, abs2Kids, abs2Hd, fromV3Hd, toV3Hd]

/-- witness (#21b): `additionalProperties: {$ref: "#/definitions/A"}` comes back as a v3 reference -/
theorem roundtripS_witness_addlRef :
    let s : Sch Nat := .node { ty := some "object" } [(Slot.addl, .ref RK.def2 "A")]
    addlRef s = true ∧ abs2S (fromV3S (toV3S s)) ≠ abs2S s ∧ refsOf (fromV3S (toV3S s)) = [RK.def3] := by
  simp [addlRef, addlRefKids, chainRef, toV3S, toV3Kids, addlToV3, fromV3S, fromV3Kids, abs2S, abs2Kids, refsOf,
    refsOfKids, toV3RK, absRK2]

/-- non-vacuity: a nested schema with allOf, a nullable property, a reference, a pure additionalProperties
    sub-schema satisfies every hypothesis of the two theorems above -/
example :
    let s : Sch Nat := .node { ty := some "object", req := ["a"], sc := [("minProperties", 1)] }
      [(Slot.prop "a", .node { ty := some "string", xnull := true, sc := [("minLength", 2)] } []),
       (Slot.prop "b", .ref RK.def2 "B"),
       (Slot.allOf 0, .node { ty := some "array" } [(Slot.items, .ref RK.def2 "B")]),
       (Slot.addl, .node { ty := some "integer", sc := [("maximum", 9)] } [])]
    addlImpure s = false ∧ hasDisc s = false ∧ addlRef s = false ∧ v2Refs s = true := by
  decide

/-- Full statement: every reference of `fromV3S (toV3S s)` is a v2 location; fails inside `addlRef`.
    **refs_rewritten** -/
theorem refs_rewritten_partial {V : Type} (s : Sch V) (h2 : addlRef s = false) (h3 : v2Refs s = true) :
    ∀ k ∈ refsOf (fromV3S (toV3S s)), k.isV2 = true := by
  refine (Sch.induct (P := fun s => addlRef s = false → v2Refs s = true →
      ∀ k ∈ refsOf (fromV3S (toV3S s)), k.isV2 = true)
    (Q := fun ks => addlRefKids ks = false → v2RefsKids ks = true →
      ∀ k ∈ refsOfKids (fromV3Kids (toV3Kids ks)), k.isV2 = true) ?_ ?_ ?_ ?_).1 s h2 h3
  · intro k n _ h
    cases k <;> simp_all [toV3S, fromV3S, refsOf, toV3RK, fromV3RK, v2Refs, RK.isV2]
  · intro hd kids ih h2 h3
    simp only [addlRef] at h2
    simp only [v2Refs, Bool.and_eq_true] at h3
    simpa [toV3S, fromV3S, refsOf] using ih h2 h3.2
  · intro _ _; simp [toV3Kids, fromV3Kids, refsOfKids]
  · intro sl c rest ihc ihr h2 h3
    simp only [addlRefKids, Bool.or_eq_false_iff] at h2
    simp only [v2RefsKids, Bool.and_eq_true] at h3
    by_cases hs : sl = Slot.addl
    · simp only [hs, if_true] at h2
      simp only [toV3Kids, fromV3Kids, hs, if_true, addlToV3_id c h2.1, refsOfKids, List.mem_append]
      rintro k (hk | hk)
      · exact refsOf_v2 c h3.1 k hk
      · exact ihr h2.2 h3.2 k hk
    · simp only [hs, if_false] at h2
      simp only [toV3Kids, fromV3Kids, hs, if_false, refsOfKids, List.mem_append]
      rintro k (hk | hk)
      · exact ihc h2.1 h3.1 k hk
      · exact ihr h2.2 h3.2 k hk

/-! ## parameters and headers -/

/-- items of a parameter / header inside the fragment of `toV3S_preserves_partial` -/
def itemsOK3 {V : Type} (o : Option (Sch V)) : Bool := o.all (fun s => !addlImpure s && v2Refs s)
/-- … and of `roundtripS_partial` -/
def itemsOKBack {V : Type} (o : Option (Sch V)) : Bool := o.all (fun s => !hasDisc s && !addlRef s && v2Refs s)

/-- the schema ToV3Parameter builds carries exactly the parameter's constraints -/
theorem paramSchema_preserves {V : Type} (p : Param2 V) (hi : itemsOK3 p.items = true) :
    abs3S (toV3S (paramSchema2 p)) = paramCons2 p := by
  unfold paramSchema2 paramCons2
  simp only [toV3S, abs3S, abs2S]
  congr 1
  · simp [abs3Hd, toV3Hd, abs2Hd, sc_param_toV3]
  · cases hit : p.items with
    | none => simp [itemsKids, toV3Kids, abs3Kids, abs2Kids]
    | some s =>
      simp only [itemsOK3, hit, Option.all_some, Bool.and_eq_true, Bool.not_eq_true'] at hi
      simp [itemsKids, toV3Kids, abs3Kids, abs2Kids, toV3S_preserves_partial s hi.1 hi.2]

/-- **each (query / header / path) parameter keeps name, location, requiredness and constraints** in ToV3 -/
theorem toV3Param_preserves {V : Type} (p : Param2 V) (h1 : p.loc ≠ "body") (h2 : p.loc ≠ "formData")
    (hi : itemsOK3 p.items = true) : paramA3 (.val (toV3Param p)) = inputA2 (.val p) := by
  simp [paramA3, inputA2, toV3Param, h1, h2, paramSchema_preserves p hi]

theorem paramSchema_roundtrip {V : Type} (p : Param2 V) (hi : itemsOKBack p.items = true) :
    paramCons2 (fromV3Param (toV3Param p)) = paramCons2 p := by
  unfold fromV3Param toV3Param paramSchema2 paramCons2
  simp only [toV3S, fromV3S, abs2S]
  congr 1
  · simp [abs2Hd, fromV3Hd, toV3Hd, fileToBinary_idem, sc_param_roundtrip]
  · cases hit : p.items with
    | none => simp [itemsKids, toV3Kids, fromV3Kids, kidItems, abs2Kids]
    | some s =>
      simp only [itemsOKBack, hit, Option.all_some, Bool.and_eq_true, Bool.not_eq_true'] at hi
      simp [itemsKids, toV3Kids, fromV3Kids, kidItems, abs2Kids, roundtripS_partial s hi.1.1 hi.1.2 hi.2]

/-- **… and gets them back** from FromV3Parameter -/
theorem roundtripParam {V : Type} (p : Param2 V) (h1 : p.loc ≠ "body") (h2 : p.loc ≠ "formData")
    (hi : itemsOKBack p.items = true) :
    inputA2 (.val (fromV3Param (toV3Param p))) = inputA2 (.val p) := by
  have hc := paramSchema_roundtrip p hi
  have hl : (fromV3Param (toV3Param p)).loc = p.loc := by simp [fromV3Param, toV3Param, toV3S, paramSchema2, fromV3S]
  have hn : (fromV3Param (toV3Param p)).name = p.name := by simp [fromV3Param, toV3Param, toV3S, paramSchema2, fromV3S]
  have hr : (fromV3Param (toV3Param p)).required = (p.required || p.loc == "path") := by
    simp [fromV3Param, toV3Param, toV3S, paramSchema2, fromV3S]
  simp only [inputA2, hl, hn, hr, hc, h1, h2, if_false, Bool.or_assoc, Bool.or_self]

/-! ## form-data fields -/

/-- **a form parameter becomes a property of the request body's object schema with the same constraints**,
    and the bookkeeping `required` entry formDataBody reads is the parameter's requiredness -/
theorem toV3Form_preserves {V : Type} (p : Param2 V) (hi : itemsOK3 p.items = true) :
    abs3S (clearReq (toV3FormProp p)) = paramCons2 p ∧ propRequired p.name (toV3FormProp p) = p.required := by
  constructor
  · unfold toV3FormProp paramCons2
    simp only [clearReq, abs3S, abs2S]
    congr 1
    · simp [abs3Hd, abs2Hd, sc_form_toV3]
    · cases hit : p.items with
      | none => simp [itemsKids, abs3Kids, abs2Kids]
      | some s =>
        simp only [itemsOK3, hit, Option.all_some, Bool.and_eq_true, Bool.not_eq_true'] at hi
        simp [itemsKids, abs3Kids, abs2Kids, toV3S_preserves_partial s hi.1 hi.2]
  · cases hr : p.required <;> simp [toV3FormProp, propRequired, hr]

/-- exclusion (findings #21c and F-C17-4): the way back loses `required` and `format` of an inline form field -/
def formLossy {V : Type} (p : Param2 V) : Bool :=
  p.required || (p.cons.fmt.isSome && p.cons.ty != some "file")

/-- Full statement: `inputA2 (fromV3FormProp p.name (clearReq (toV3FormProp p))) = inputA2 (.val p)` for every
    formData parameter. It fails inside `formLossy`. -/
theorem roundtripForm_partial {V : Type} (p : Param2 V) (hl : p.loc = "formData") (hx : formLossy p = false)
    (hi : itemsOKBack p.items = true) :
    inputA2 (fromV3FormProp p.name (clearReq (toV3FormProp p))) = inputA2 (.val p) := by
  simp only [formLossy, Bool.or_eq_false_iff, Bool.and_eq_false_iff] at hx
  have hreq := hx.1
  unfold toV3FormProp
  simp only [clearReq, fromV3FormProp, inputA2, hl, hreq]
  simp only [show ("formData" : String) ≠ "body" by decide, if_false, if_true, List.contains_nil]
  congr 1
  unfold paramCons2
  simp only [abs2S]
  congr 1
  · rcases hx.2 with hf | ht
    · have : p.cons.fmt = none := by simpa using hf
      by_cases hfile : p.cons.ty = some "file"
      · simp [abs2Hd, fileToBinary, hfile, sc_form_roundtrip]
      · simp [abs2Hd, fileToBinary, hfile, this, sc_form_roundtrip]
    · have hfile : p.cons.ty = some "file" := by simpa using ht
      simp [abs2Hd, fileToBinary, hfile, sc_form_roundtrip]
  · cases hit : p.items with
    | none => simp [itemsKids, kidItems, abs2Kids]
    | some s =>
      simp only [itemsOKBack, hit, Option.all_some, Bool.and_eq_true, Bool.not_eq_true'] at hi
      simp [itemsKids, kidItems, abs2Kids, roundtripS_partial s hi.1.1 hi.1.2 hi.2]

/-- witness (#21c): a required form field comes back optional -/
theorem roundtripForm_witness_required :
    let p : Param2 Nat := { name := "f", loc := "formData", required := true, cons := { ty := some "string" },
                            items := none, schema := none }
    formLossy p = true ∧ inputA2 (fromV3FormProp p.name (clearReq (toV3FormProp p))) ≠ inputA2 (.val p) := by
  simp [formLossy, toV3FormProp, clearReq, fromV3FormProp, inputA2]

/-- witness (F-C17-4): `format: date` of a form field is lost -/
theorem roundtripForm_witness_format :
    let p : Param2 Nat := { name := "f", loc := "formData", required := false,
                            cons := { ty := some "string", fmt := some "date" }, items := none, schema := none }
    formLossy p = true ∧ inputA2 (fromV3FormProp p.name (clearReq (toV3FormProp p))) ≠ inputA2 (.val p) := by
  simp [formLossy, toV3FormProp, clearReq, fromV3FormProp, inputA2, paramCons2, abs2S, abs2Hd, fileToBinary]

/-- non-vacuity: an optional file upload and an optional constrained array field are outside the exclusion -/
example :
    let p : Param2 Nat := { name := "up", loc := "formData", required := false, cons := { ty := some "file" },
                            items := none, schema := none }
    let q : Param2 Nat := { name := "l", loc := "formData", required := false,
                            cons := { ty := some "array", sc := [("maxItems", 3)] },
                            items := some (.node { ty := some "integer", sc := [("minimum", 1)] } []), schema := none }
    formLossy p = false ∧ formLossy q = false ∧ itemsOKBack q.items = true ∧ itemsOK3 q.items = true := by
  decide

/-! ## responses -/

def headerOK3 {V : Type} (h : String × Param2 V) : Bool := itemsOK3 h.2.items
def headerOKBack {V : Type} (h : String × Param2 V) : Bool := itemsOKBack h.2.items
def schemaOK3 {V : Type} (o : Option (Sch V)) : Bool := o.all (fun s => !addlImpure s && v2Refs s)
def schemaOKBack {V : Type} (o : Option (Sch V)) : Bool := o.all (fun s => !hasDisc s && !addlRef s && v2Refs s)

theorem headers_preserved {V : Type} (hs : List (String × Param2 V)) (h : hs.all headerOK3 = true) :
    (hs.map (fun (x : String × Param2 V) => (x.1, toV3Param { x.2 with name := "", loc := "" }))).map
      (fun (x : String × Param3 V) => (x.1, abs3S x.2.schema)) =
    hs.map (fun (x : String × Param2 V) => (x.1, paramCons2 x.2)) := by
  induction hs with
  | nil => rfl
  | cons x rest ih =>
    simp only [List.all_cons, Bool.and_eq_true] at h
    simp only [List.map_cons, ih h.2]
    congr 1
    have := paramSchema_preserves { x.2 with name := "", loc := "" } (by simpa [headerOK3] using h.1)
    simp only [toV3Param]
    rw [this]
    rfl

/-- **each response keeps its description, its headers (with their constraints) and its schema** in
    ToV3Response — with or without a schema, whatever `produces` says; a reference is rewritten -/
theorem toV3Resp_preserves {V : Type} (produces : List String) (r : RRef2 V)
    (hok : match r with
      | .ref k _ => k.isV2 = true
      | .val x => x.headers.all headerOK3 = true ∧ schemaOK3 x.schema = true) :
    respA3 (toV3Resp produces r) = respA2 r := by
  cases r with
  | ref k n => cases k <;> simp_all [toV3Resp, respA3, respA2, toV3RK, absRK3, absRK2, RK.isV2]
  | val x =>
    simp only at hok
    simp only [toV3Resp, respA3, respA2]
    congr 1
    have hh := headers_preserved x.headers hok.1
    cases hs : x.schema with
    | none =>
      simp only [Option.map_none, List.isEmpty_nil, if_true]
      congr 1
    | some s =>
      have hne : (effProduces produces).isEmpty = false := by
        unfold effProduces; cases hp : produces.isEmpty <;> simp [hp]
      simp only [schemaOK3, hs, Option.all_some, Bool.and_eq_true, Bool.not_eq_true'] at hok
      simp only [Option.map_some, hne, toV3S_preserves_partial s hok.2.1 hok.2.2]
      congr 1

/-- exclusion (finding #26): the response has a schema and `produces` lacks application/json -/
def respLossy {V : Type} (produces : List String) : RRef2 V → Bool
  | .ref _ _ => false
  | .val x => x.schema.isSome && !(effProduces produces).contains "application/json"

theorem headers_roundtrip {V : Type} (hs : List (String × Param2 V)) (h : hs.all headerOKBack = true) :
    ((hs.map (fun (x : String × Param2 V) => (x.1, toV3Param { x.2 with name := "", loc := "" }))).map
      (fun (x : String × Param3 V) => (x.1, { fromV3Param x.2 with name := "", loc := "" }))).map
      (fun (x : String × Param2 V) => (x.1, paramCons2 x.2)) =
    hs.map (fun (x : String × Param2 V) => (x.1, paramCons2 x.2)) := by
  induction hs with
  | nil => rfl
  | cons x rest ih =>
    simp only [List.all_cons, Bool.and_eq_true] at h
    simp only [List.map_cons, ih h.2]
    congr 1
    have := paramSchema_roundtrip { x.2 with name := "", loc := "" } (by simpa [headerOKBack] using h.1)
    simp only [paramCons2] at this ⊢
    simpa [fromV3Param, toV3Param, toV3S, fromV3S, paramSchema2] using this

/-- Full statement: `respA2 (fromV3Resp (toV3Resp produces r)) = respA2 r`. It fails inside `respLossy`. -/
theorem roundtripResp_partial {V : Type} (produces : List String) (r : RRef2 V) (hx : respLossy produces r = false)
    (hok : match r with
      | .ref k _ => k.isV2 = true
      | .val x => x.headers.all headerOKBack = true ∧ schemaOKBack x.schema = true) :
    respA2 (fromV3Resp (toV3Resp produces r)) = respA2 r := by
  cases r with
  | ref k n => cases k <;> simp_all [toV3Resp, fromV3Resp, respA2, toV3RK, fromV3RK, absRK2, RK.isV2]
  | val x =>
    simp only at hok
    simp only [toV3Resp, fromV3Resp, respA2]
    congr 1
    have hh := headers_roundtrip x.headers hok.1
    cases hs : x.schema with
    | none => simp only [Option.map_none, ite_self]; congr 1
    | some s =>
      simp only [respLossy, hs, Option.isSome_some, Bool.true_and, Bool.not_eq_false'] at hx
      simp only [schemaOKBack, hs, Option.all_some, Bool.and_eq_true, Bool.not_eq_true'] at hok
      simp only [Option.map_some, hx, if_true, roundtripS_partial s hok.2.1.1 hok.2.1.2 hok.2.2]
      congr 1

/-- witness (#26): `produces: [application/xml]` — the response schema does not come back -/
theorem roundtripResp_witness_produces :
    let r : RRef2 Nat := .val { desc := "ok", headers := [], schema := some (.node { ty := some "string" } []) }
    respLossy ["application/xml"] r = true ∧
    respA2 (fromV3Resp (toV3Resp ["application/xml"] r)) ≠ respA2 r := by
  simp [respLossy, effProduces, toV3Resp, fromV3Resp, respA2]

/-- non-vacuity: a 302 with a Location header and no schema, under `produces: [application/xml]`, is outside
    the exclusion (and inside the hypotheses of both response theorems) -/
example :
    let h : Param2 Nat := { name := "", loc := "", required := false, cons := { ty := some "string" },
                            items := none, schema := none }
    let r : RRef2 Nat := .val { desc := "moved", schema := none, headers := [("Location", h)] }
    respLossy ["application/xml"] r = false ∧
    (match r with | .ref k _ => k.isV2 = true | .val x => x.headers.all headerOKBack = true ∧ schemaOKBack x.schema = true) := by
  decide

/-! ## security schemes -/

/-- the schemes of the fragment: basic, apiKey, and oauth2 with one of the four flows -/
def secInFragment (s : Sec2) : Bool :=
  s.type == "basic" || s.type == "apiKey" ||
  (s.type == "oauth2" && (s.flow == "implicit" || s.flow == "accessCode" || s.flow == "password" || s.flow == "application"))

/-- **security definitions become the corresponding schemes** -/
theorem toV3Sec_preserves (s : Sec2) (h : secInFragment s = true) :
    ∃ t, toV3Sec s = some t ∧ secA3 t = secA2 s := by
  simp only [secInFragment, Bool.or_eq_true, Bool.and_eq_true, beq_iff_eq] at h
  rcases h with (h | h) | ⟨h, hf⟩
  · simp [toV3Sec, secA3, secA2, h]
  · simp [toV3Sec, secA3, secA2, h]
  · rcases hf with ((hf | hf) | hf) | hf <;> simp [toV3Sec, secA3, secA2, h, hf, usesAuth, usesToken]

/-- **… and come back as the same scheme**: every flow gets back the URLs it uses and its scopes -/
theorem roundtripSec (s : Sec2) (h : secInFragment s = true) :
    ∃ t s', toV3Sec s = some t ∧ fromV3Sec t = .ok s' ∧ secA2 s' = secA2 s := by
  simp only [secInFragment, Bool.or_eq_true, Bool.and_eq_true, beq_iff_eq] at h
  rcases h with (h | h) | ⟨h, hf⟩
  · simp [toV3Sec, fromV3Sec, secA2, h]
  · simp [toV3Sec, fromV3Sec, secA2, h]
  · rcases hf with ((hf | hf) | hf) | hf <;> simp [toV3Sec, fromV3Sec, secA2, h, hf, usesAuth, usesToken]

/-- non-vacuity: the accessCode flow (the one with both URLs) is in the fragment -/
example : secInFragment { type := "oauth2", flow := "accessCode", authUrl := "https://a/x", tokenUrl := "https://a/t",
                          scopes := [("r", "read")] } = true := by decide

/-! ## servers -/

/-- Full statement: `toV3Servers l = serversA2 l`. It fails when `host` is absent (finding #39).
    **host, base path and schemes become servers** -/
theorem servers_preserved_partial (l : Loc2) (h : l.host ≠ "") : toV3Servers l = serversA2 l := by
  simp [toV3Servers, serversA2, h]

/-- witness (#39): `basePath: /v1` without `host` — no server, the base path is lost -/
theorem servers_witness_basePath :
    let l : Loc2 := { host := "", basePath := "/v1", schemes := [] }
    toV3Servers l ≠ serversA2 l := by
  decide

/-- Full statement: the servers of `fromV3Servers (toV3Servers l)` are those of `l` (as a set). It fails when
    `host` is absent (#39) or a scheme other than http/https is listed (F-C17-10). -/
theorem servers_roundtrip_partial (l : Loc2) (h : l.host ≠ "")
    (hs : ∀ x ∈ l.schemes, x = "http" ∨ x = "https") :
    ∀ x, x ∈ serversA2 (fromV3Servers (toV3Servers l)) ↔ x ∈ serversA2 l := by
  intro x
  cases hsch : l.schemes with
  | nil =>
    simp [toV3Servers, fromV3Servers, serversA2, h, hsch]
    by_cases hb : l.basePath = "" <;> simp [hb]
  | cons s0 rest =>
    have hb : (if l.basePath = "" then "/" else l.basePath) ≠ "" := by
      by_cases hb : l.basePath = "" <;> simp [hb]
    have hs' : ∀ y, y ∈ s0 :: rest → y = "http" ∨ y = "https" := by simpa [hsch] using hs
    simp only [toV3Servers, fromV3Servers, serversA2, h, hsch, if_false, List.isEmpty_cons, List.map_cons,
      List.any_cons, List.any_map, Function.comp_def, false_and, Bool.false_eq_true]
    have key : ∀ y, y ∈ ((if (s0 == "https" || rest.any (· == "https")) = true then ["https"] else []) ++
        (if (s0 == "http" || rest.any (· == "http")) = true then ["http"] else [])) ↔ y ∈ s0 :: rest := by
      intro y
      constructor
      · intro hy
        simp only [List.mem_append] at hy
        rcases hy with hy | hy
        · split at hy
          · rename_i hc
            simp only [List.mem_singleton] at hy; subst hy
            simp only [Bool.or_eq_true, beq_iff_eq, List.any_eq_true] at hc
            rcases hc with hc | ⟨z, hz, hzz⟩
            · simp [hc]
            · simp [← hzz, hz]
          · simp at hy
        · split at hy
          · rename_i hc
            simp only [List.mem_singleton] at hy; subst hy
            simp only [Bool.or_eq_true, beq_iff_eq, List.any_eq_true] at hc
            rcases hc with hc | ⟨z, hz, hzz⟩
            · simp [hc]
            · simp [← hzz, hz]
          · simp at hy
      · intro hy
        rcases hs' y hy with hy' | hy'
        · subst hy'
          have : (s0 == "http" || rest.any (· == "http")) = true := by
            simp only [List.mem_cons] at hy
            rcases hy with hy | hy
            · simp [← hy]
            · simp only [Bool.or_eq_true, List.any_eq_true]; exact Or.inr ⟨_, hy, by simp⟩
          simp [this]
        · subst hy'
          have : (s0 == "https" || rest.any (· == "https")) = true := by
            simp only [List.mem_cons] at hy
            rcases hy with hy | hy
            · simp [← hy]
            · simp only [Bool.or_eq_true, List.any_eq_true]; exact Or.inr ⟨_, hy, by simp⟩
          simp [this]
    have hne : (((if (s0 == "https" || rest.any (· == "https")) = true then ["https"] else []) ++
        (if (s0 == "http" || rest.any (· == "http")) = true then ["http"] else [])) : List String).isEmpty = false := by
      rcases hs' s0 (by simp) with h0 | h0 <;> simp [h0]
    simp only [hne, Bool.false_eq_true, if_false, hb]
    simp only [List.mem_map, List.mem_cons]
    constructor
    · rintro ⟨y, hy, rfl⟩
      have hm := (key y).1 hy
      simp only [List.mem_cons] at hm
      rcases hm with rfl | hm
      · exact Or.inl rfl
      · exact Or.inr ⟨y, hm, rfl⟩
    · rintro (rfl | ⟨y, hy, rfl⟩)
      · exact ⟨s0, (key s0).2 (by simp), rfl⟩
      · exact ⟨y, (key y).2 (by simp [hy]), rfl⟩

/-- witness (F-C17-10): scheme `ws` is lost by the round trip (the result is read as https) -/
theorem servers_witness_ws :
    let l : Loc2 := { host := "h", basePath := "/", schemes := ["ws"] }
    serversA2 (fromV3Servers (toV3Servers l)) ≠ serversA2 l := by
  decide

end KinModel.Conv
