import KinModel.Conv
namespace KinModel.Conv

theorem toV3RK_fromV3RK_v2 (k : RK) (h : k.isV2 = true) : fromV3RK (toV3RK k) = k := by
  cases k <;> simp_all [RK.isV2, toV3RK, fromV3RK]

end KinModel.Conv
