/-
C17 — v2 ↔ v3 conversion preserves the API a document describes.
Property theorems only. Model and abstraction: KinModel/Conv.lean; helper lemmas: KinModel/Lemmas/C17.lean.

Full-strength statements (goal shapes), for every v2 document `d` of the convertible fragment:
    toV3 d = .ok d3  ∧  validates3 d3  ∧  api3 d3 = api2 d  ∧  api2 (fromV3 d3) = api2 d
    ∧ every reference of fromV3 d3 is a v2 location.
The code deviates (DESIGN §7 #21, #26, #38, #39 and the findings F-C17-4, -8 … -11); what is proved below is
the statement per component of the `Api` (schema, parameter, form field, response, security scheme,
servers), each at full strength or `_partial` under the decidable exclusion that names the deviation,
with a kernel-checked witness inside the exclusion and a non-vacuity example outside it.
-/
import KinModel.Lemmas.C17
namespace KinModel.Conv

/-! ## schemas -/

/-- a reference-free, `x-nullable`-free, `file`-free schema means the same read as v2 or as v3 -/
theorem abs3S_eq_abs2S_of_refFree {V : Type} (s : Sch V) (h : refFree s = true) (hw : v2Refs s = true) :
    abs3S s = abs2S s := by
  refine (Sch.induct (P := fun s => refFree s = true → v2Refs s = true → abs3S s = abs2S s)
    (Q := fun ks => refFreeKids ks = true → v2RefsKids ks = true → abs3Kids ks = abs2Kids ks) ?_ ?_ ?_ ?_).1 s h hw
  · intro k n h; simp [refFree] at h
  · intro hd kids ih h hw
    simp only [refFree, Bool.and_eq_true, Bool.not_eq_true', beq_eq_false_iff_ne, ne_eq] at h
    simp only [v2Refs, Bool.and_eq_true, Bool.not_eq_true'] at hw
    simp only [abs3S, abs2S, ih h.2 hw.2]
    congr 1
    simp [abs3Hd, abs2Hd, fileToBinary, h.1.1, h.1.2, hw.1]
  · intro _ _; simp [abs3Kids, abs2Kids]
  · intro sl c rest ihc ihr h hw
    simp only [refFreeKids, Bool.and_eq_true] at h
    simp only [v2RefsKids, Bool.and_eq_true] at hw
    simp [abs3Kids, abs2Kids, ihc h.1 hw.1, ihr h.2 hw.2]

/-- convertRefsInV3SchemaRef is complete on a pure additionalProperties sub-schema -/
theorem addlToV3_preserves {V : Type} (s : Sch V) (h : addlPure s = true) (hw : v2Refs s = true) :
    abs3S (addlToV3 s) = abs2S s := by
  refine (Sch.induct (P := fun s => addlPure s = true → v2Refs s = true → abs3S (addlToV3 s) = abs2S s)
    (Q := fun ks => addlPureKids ks = true → v2RefsKids ks = true → abs3Kids (addlKids ks) = abs2Kids ks)
    ?_ ?_ ?_ ?_).1 s h hw
  · intro k n _ hw; cases k <;> simp_all [addlToV3, abs3S, abs2S, toV3RK, absRK3, absRK2, v2Refs, RK.isV2]
  · intro hd kids ih h hw
    simp only [addlPure, Bool.and_eq_true, Bool.not_eq_true', beq_eq_false_iff_ne, ne_eq] at h
    simp only [v2Refs, Bool.and_eq_true, Bool.not_eq_true'] at hw
    simp only [addlToV3, abs3S, abs2S, ih h.2 hw.2]
    congr 1
    simp [abs3Hd, abs2Hd, fileToBinary, h.1.1, h.1.2, hw.1]
  · intro _ _; simp [addlKids, abs3Kids, abs2Kids]
  · intro sl c rest ihc ihr h hw
    simp only [addlPureKids, Bool.and_eq_true] at h
    simp only [v2RefsKids, Bool.and_eq_true] at hw
    by_cases hs : sl = Slot.addl
    · simp only [hs, if_true] at h
      simp [addlKids, abs3Kids, abs2Kids, hs, ihc h.1 hw.1, ihr h.2 hw.2]
    · simp only [hs, if_false] at h
      simp [addlKids, abs3Kids, abs2Kids, hs, abs3S_eq_abs2S_of_refFree c h.1 hw.1, ihr h.2 hw.2]

/-- Full statement: `∀ s, abs3S (toV3S s) = abs2S s`. It fails inside `addlImpure` (finding F-C17-8).
    **ToV3SchemaRef preserves what a schema says**: same type/format (file = binary string), nullability,
    discriminator, required list, every constraint keyword, the same sub-schemas in the same slots, every
    reference rewritten to its v3 location. -/
theorem toV3S_preserves_partial {V : Type} (s : Sch V) (h : addlImpure s = false) (hw : v2Refs s = true) :
    abs3S (toV3S s) = abs2S s := by
  refine (Sch.induct (P := fun s => addlImpure s = false → v2Refs s = true → abs3S (toV3S s) = abs2S s)
    (Q := fun ks => addlImpureKids ks = false → v2RefsKids ks = true → abs3Kids (toV3Kids ks) = abs2Kids ks)
    ?_ ?_ ?_ ?_).1 s h hw
  · intro k n _ hw; cases k <;> simp_all [toV3S, abs3S, abs2S, toV3RK, absRK3, absRK2, v2Refs, RK.isV2]
  · intro hd kids ih h hw
    simp only [addlImpure] at h
    simp only [v2Refs, Bool.and_eq_true] at hw
    simp only [toV3S, abs3S, abs2S, ih h hw.2, abs3Hd_toV3Hd]
  · intro _ _; simp [toV3Kids, abs3Kids, abs2Kids]
  · intro sl c rest ihc ihr h hw
    simp only [addlImpureKids, Bool.or_eq_false_iff] at h
    simp only [v2RefsKids, Bool.and_eq_true] at hw
    by_cases hs : sl = Slot.addl
    · simp only [hs, if_true, Bool.not_eq_false'] at h
      simp [toV3Kids, abs3Kids, abs2Kids, hs, addlToV3_preserves c h.1 hw.1, ihr h.2 hw.2]
    · simp only [hs, if_false] at h
      simp [toV3Kids, abs3Kids, abs2Kids, hs, ihc h.1 hw.1, ihr h.2 hw.2]

/-- witness (F-C17-8): `additionalProperties: {type: string, x-nullable: true}` — the converted schema is
    not nullable -/
theorem toV3S_witness_addl :
    let s : Sch Nat := .node {} [(Slot.addl, .node { ty := some "string", xnull := true } [])]
    addlImpure s = true ∧ abs3S (toV3S s) ≠ abs2S s := by
  simp [addlImpure, addlImpureKids, addlPure, addlPureKids, toV3S, toV3Kids, addlToV3, addlKids, abs3S, abs3Kids,
    abs2S, abs2Kids, abs3Hd, abs2Hd]

/-- without a reference on its chain an additionalProperties sub-schema is left as it is -/
theorem addlToV3_id {V : Type} (s : Sch V) (h : chainRef s = false) : addlToV3 s = s := by
  refine (Sch.induct (P := fun s => chainRef s = false → addlToV3 s = s)
    (Q := fun ks => chainRefKids ks = false → addlKids ks = ks) ?_ ?_ ?_ ?_).1 s h
  · intro k n h; simp [chainRef] at h
  · intro hd kids ih h
    simp only [chainRef] at h
    simp [addlToV3, ih h]
  · intro _; simp [addlKids]
  · intro sl c rest ihc ihr h
    simp only [chainRefKids, Bool.or_eq_false_iff] at h
    by_cases hs : sl = Slot.addl
    · simp only [hs, if_true] at h
      simp [addlKids, hs, ihc h.1, ihr h.2]
    · simp [addlKids, hs, ihr h.2]

/-- Full statement: `∀ s, abs2S (fromV3S (toV3S s)) = abs2S s`. It fails inside `hasDisc` (finding #21:
    the discriminator is not copied back) and inside `addlRef` (finding #21: a reference inside
    additionalProperties stays a v3 reference).
    **The round trip gives back a v2 schema that says the same.** -/
theorem roundtripS_partial {V : Type} (s : Sch V) (h1 : hasDisc s = false) (h2 : addlRef s = false)
    (h3 : v2Refs s = true) : abs2S (fromV3S (toV3S s)) = abs2S s := by
  refine (Sch.induct (P := fun s => hasDisc s = false → addlRef s = false → v2Refs s = true →
      abs2S (fromV3S (toV3S s)) = abs2S s)
    (Q := fun ks => hasDiscKids ks = false → addlRefKids ks = false → v2RefsKids ks = true →
      abs2Kids (fromV3Kids (toV3Kids ks)) = abs2Kids ks) ?_ ?_ ?_ ?_).1 s h1 h2 h3
  · intro k n _ _ h
    cases k <;> simp_all [toV3S, fromV3S, abs2S, toV3RK, fromV3RK, v2Refs, RK.isV2]
  · intro hd kids ih h1 h2 h3
    simp only [hasDisc, Bool.or_eq_false_iff, Option.isSome_eq_false_iff, Option.isNone_iff_eq_none] at h1
    simp only [addlRef] at h2
    simp only [v2Refs, Bool.and_eq_true] at h3
    simp only [toV3S, fromV3S, abs2S, ih h1.2 h2 h3.2, abs2Hd_roundtrip hd h1.1]
  · intro _ _ _; simp [toV3Kids, fromV3Kids, abs2Kids]
  · intro sl c rest ihc ihr h1 h2 h3
    simp only [hasDiscKids, Bool.or_eq_false_iff] at h1
    simp only [addlRefKids, Bool.or_eq_false_iff] at h2
    simp only [v2RefsKids, Bool.and_eq_true] at h3
    by_cases hs : sl = Slot.addl
    · simp only [hs, if_true] at h2
      simp [toV3Kids, fromV3Kids, abs2Kids, hs, addlToV3_id c h2.1, ihr h1.2 h2.2 h3.2]
    · simp only [hs, if_false] at h1 h2
      simp [toV3Kids, fromV3Kids, abs2Kids, hs, ihc h1.1 h2.1 h3.1, ihr h1.2 h2.2 h3.2]

/-- witness (#21a): a discriminator is lost by the round trip -/
theorem roundtripS_witness_discriminator :
    let s : Sch Nat := .node { ty := some "object", disc := some "kind" } []
    hasDisc s = true ∧ abs2S (fromV3S (toV3S s)) ≠ abs2S s := by
  simp [hasDisc, toV3S, toV3Kids, fromV3S, fromV3Kids, abs2S, abs2Kids, abs2Hd, fromV3Hd, toV3Hd]

/-- witness (#21b): `additionalProperties: {$ref: "#/definitions/A"}` comes back as a v3 reference -/
theorem roundtripS_witness_addlRef :
    let s : Sch Nat := .node { ty := some "object" } [(Slot.addl, .ref RK.def2 "A")]
    addlRef s = true ∧ abs2S (fromV3S (toV3S s)) ≠ abs2S s ∧ refsOf (fromV3S (toV3S s)) = [RK.def3] := by
  simp [addlRef, addlRefKids, chainRef, toV3S, toV3Kids, addlToV3, fromV3S, fromV3Kids, abs2S, abs2Kids, refsOf,
    refsOfKids, toV3RK, absRK2]

/-- non-vacuity: a nested schema with allOf, a nullable property, a reference, a pure additionalProperties
    sub-schema satisfies every hypothesis of the two theorems above -/
example :
    let s : Sch Nat := .node { ty := some "object", req := ["a"], sc := [("minProperties", 1)] }
      [(Slot.prop "a", .node { ty := some "string", xnull := true, sc := [("minLength", 2)] } []),
       (Slot.prop "b", .ref RK.def2 "B"),
       (Slot.allOf 0, .node { ty := some "array" } [(Slot.items, .ref RK.def2 "B")]),
       (Slot.addl, .node { ty := some "integer", sc := [("maximum", 9)] } [])]
    addlImpure s = false ∧ hasDisc s = false ∧ addlRef s = false ∧ v2Refs s = true := by
  decide

/-- Full statement: every reference of `fromV3S (toV3S s)` is a v2 location; fails inside `addlRef`.
    **refs_rewritten** -/
theorem refs_rewritten_partial {V : Type} (s : Sch V) (h2 : addlRef s = false) (h3 : v2Refs s = true) :
    ∀ k ∈ refsOf (fromV3S (toV3S s)), k.isV2 = true := by
  refine (Sch.induct (P := fun s => addlRef s = false → v2Refs s = true →
      ∀ k ∈ refsOf (fromV3S (toV3S s)), k.isV2 = true)
    (Q := fun ks => addlRefKids ks = false → v2RefsKids ks = true →
      ∀ k ∈ refsOfKids (fromV3Kids (toV3Kids ks)), k.isV2 = true) ?_ ?_ ?_ ?_).1 s h2 h3
  · intro k n _ h
    cases k <;> simp_all [toV3S, fromV3S, refsOf, toV3RK, fromV3RK, v2Refs, RK.isV2]
  · intro hd kids ih h2 h3
    simp only [addlRef] at h2
    simp only [v2Refs, Bool.and_eq_true] at h3
    simpa [toV3S, fromV3S, refsOf] using ih h2 h3.2
  · intro _ _; simp [toV3Kids, fromV3Kids, refsOfKids]
  · intro sl c rest ihc ihr h2 h3
    simp only [addlRefKids, Bool.or_eq_false_iff] at h2
    simp only [v2RefsKids, Bool.and_eq_true] at h3
    by_cases hs : sl = Slot.addl
    · simp only [hs, if_true] at h2
      simp only [toV3Kids, fromV3Kids, hs, if_true, addlToV3_id c h2.1, refsOfKids, List.mem_append]
      rintro k (hk | hk)
      · exact refsOf_v2 c h3.1 k hk
      · exact ihr h2.2 h3.2 k hk
    · simp only [hs, if_false] at h2
      simp only [toV3Kids, fromV3Kids, hs, if_false, refsOfKids, List.mem_append]
      rintro k (hk | hk)
      · exact ihc h2.1 h3.1 k hk
      · exact ihr h2.2 h3.2 k hk

end KinModel.Conv
