/-
C17 — v2 ↔ v3 conversion preserves the API a document describes.
Property theorems only. Model and abstraction: KinModel/Conv.lean; helper lemmas: KinModel/Lemmas/C17.lean.

Full-strength statements (goal shapes), for every v2 document `d` of the convertible fragment:
    toV3 d = .ok d3  ∧  validates3 d3  ∧  api3 d3 = api2 d  ∧  api2 (fromV3 d3) = api2 d
    ∧ every reference of fromV3 d3 is a v2 location.
The code deviates (DESIGN §7 #21c, #26, #38, #39 and the findings F-C17-4, -8 … -15; F-C17-1 and F-C17-2 — the
discriminator and a reference inside additionalProperties on the way back — are repaired: e0e4b64, dfc5235, and
the schema round trip is now proved at full strength); what is proved below is
the statement per component of the `Api` (schema, parameter, form field, response, security scheme,
servers), each at full strength or `_partial` under the decidable exclusion that names the deviation,
with a kernel-checked witness inside the exclusion and a non-vacuity example outside it.
Document level: Props/C17Doc.lean (round trip, simple fragment), Props/C17Body.lean (both directions with body
parameters, inline and shared, as `Api.sim`), Props/C17Form.lean (ToV3 with inline form parameters).
-/
import KinModel.Lemmas.C17
import KinModel.Gen.CopyTables
namespace KinModel.Conv

/-! ## the field-copy tables (T tie): regenerated from openapi2conv on every run -/

/-- every composite literal / assignment the translator met had a shape it can read -/
theorem copyTables_recognised : KinModel.Gen.copyTablesUnrecognised = [] := by decide

/-- the model's tables are the code's tables (a changed copy breaks one of these) -/
theorem toV3SchemaTable_is_code : KinModel.Gen.toV3SchemaTable = toV3SchemaTable := by decide
theorem fromV3SchemaTable_is_code : KinModel.Gen.fromV3SchemaTable = fromV3SchemaTable := by decide
theorem toV3ParamTable_is_code : KinModel.Gen.toV3ParamTable = toV3ParamTable := by decide
theorem toV3FormTable_is_code : KinModel.Gen.toV3FormTable = toV3FormTable := by decide
theorem fromV3ParamTable_is_code : KinModel.Gen.fromV3ParamTable = fromV3ParamTable := by decide
theorem fromV3FormTable_is_code : KinModel.Gen.fromV3FormTable = fromV3FormTable := by decide
theorem fromV3FileTable_is_code : KinModel.Gen.fromV3FileTable = fromV3FileTable := by decide
theorem toV3FlowTable_is_code : KinModel.Gen.toV3FlowTable = toV3FlowTable := by decide
theorem fromV3SecTable_is_code : KinModel.Gen.fromV3SecTable = fromV3SecTable := by decide
theorem toV3OpTable_is_code : KinModel.Gen.toV3OpTable = toV3OpTable := by decide
theorem fromV3OpTable_is_code : KinModel.Gen.fromV3OpTable = fromV3OpTable := by decide

/-- the reference prefixes and the candidate names of the body parameter are the code's -/
theorem ref2To3_is_code : KinModel.Gen.ref2To3 = ref2To3 := by decide
theorem bodyParamNames_is_code : KinModel.Gen.bodyParamNameRows.map (·.1) = bodyParamNames := by decide

/-- **copies_complete**: at every site every constraint field of that site (and type / format / required where
    the site copies them itself) is copied from the field of the same name -/
theorem copies_complete :
    Complete ("type" :: "format" :: "required" :: constraintFields) KinModel.Gen.toV3SchemaTable = true ∧
    Complete ("type" :: "format" :: "required" :: constraintFields) KinModel.Gen.fromV3SchemaTable = true ∧
    Complete ("type" :: "format" :: "items" :: paramConstraintFields) KinModel.Gen.toV3ParamTable = true ∧
    Complete ("type" :: "format" :: "items" :: paramConstraintFields) KinModel.Gen.fromV3ParamTable = true ∧
    Complete paramConstraintFields KinModel.Gen.toV3FormTable = true ∧
    Complete paramConstraintFields KinModel.Gen.fromV3FormTable = true ∧
    Complete ["authorizationUrl", "tokenUrl"] KinModel.Gen.toV3FlowTable = true ∧
    Complete ("operationId" :: opMetaFields) KinModel.Gen.toV3OpTable = true ∧
    Complete ("operationId" :: opMetaFields) KinModel.Gen.fromV3OpTable = true := by decide

/-- the way back copies, per OAuth2 flow, the URLs that flow uses (and names the flow) -/
theorem copies_complete_flows :
    [("implicit.flow", "=implicit"), ("implicit.authorizationUrl", "authorizationUrl"),
     ("authorizationCode.flow", "=accessCode"), ("authorizationCode.authorizationUrl", "authorizationUrl"),
     ("authorizationCode.tokenUrl", "tokenUrl"), ("password.flow", "=password"), ("password.tokenUrl", "tokenUrl"),
     ("clientCredentials.flow", "=application"), ("clientCredentials.tokenUrl", "tokenUrl")].all
      (fun row => KinModel.Gen.fromV3SecTable.contains row) = true := by decide

/-- F-C17-4 repaired (ddd71cc): FromV3RequestBodyFormData has a `format` row — the local that is `val.Format`
    unless that is `binary` (formerly `copies_missing_rows`: no such row) -/
theorem form_format_copied :
    lookupSrc "format" KinModel.Gen.fromV3FormTable = some "<local>" := by decide

/-- the typed fields both schema converters set by statements after the literal are the ones the model handles
    outside its tables — in particular the discriminator is assigned in both directions (e0e4b64) -/
theorem schemaAssigned_is_code :
    KinModel.Gen.toV3SchemaAssigned = toV3SchemaAssigned ∧
    KinModel.Gen.fromV3SchemaAssigned = fromV3SchemaAssigned := by decide

/-- the operation fields set by statements after the literal: the security requirements are assigned in both
    directions (next to parameters / request body or consumes / responses) -/
theorem opAssigned_is_code :
    KinModel.Gen.toV3OpAssigned = toV3OpAssigned ∧ KinModel.Gen.fromV3OpAssigned = fromV3OpAssigned ∧
    KinModel.Gen.toV3OpAssigned.contains "security" = true ∧ KinModel.Gen.fromV3OpAssigned.contains "security" = true := by
  decide

/-- the nullable copy reads the VALUE of the extension (not its presence), and the way back writes the constant
    `true` under `PermitsNull` -/
theorem nullableTable_is_code : KinModel.Gen.nullableTable = nullableTable := by decide

theorem discriminator_assigned_both_ways :
    KinModel.Gen.toV3SchemaAssigned.contains "discriminator" = true ∧
    KinModel.Gen.fromV3SchemaAssigned.contains "discriminator" = true := by decide

/-- **conv_preserves**: chains of copies that read every field of interest from the field of the same name
    preserve the record on those fields (the lemma that lifts the `decide`d table facts to all records) -/
theorem conv_preserves {V : Type} (fields : List String) (tables : List (List (String × String))) (r : Rec V)
    (hnd : tables.all NoDupDst = true) (hp : fields.all (fun f => pathSrc tables f == some f) = true) :
    normRec fields (convs tables r) = normRec fields r :=
  normRec_convs_eq fields tables [] r hnd (by simp) (by simpa [pathSrc] using hp)

/-- **missing_row_loses**: a field without a row is lost for some record — the table condition is exact -/
theorem missing_row_loses {V : Type} [Inhabited V] (f : String) (table : List (String × String))
    (h : lookupSrc f table = none) : ∃ r : Rec V, rlookup f (conv table r) ≠ rlookup f r :=
  ⟨[(f, default)], by simp [rlookup_conv_none f table _ h, rlookup]⟩

/-! ## schemas -/

/-- convertRefsInV3SchemaRef is complete on an additionalProperties sub-schema without `x-nullable` / `file`:
    every reference below it is rewritten (00eb646) -/
theorem addlToV3_preserves {V : Type} (s : Sch V) (h : addlPure s = true) (hw : v2Refs s = true) :
    abs3S (addlToV3 s) = abs2S s := by
  refine (Sch.induct (P := fun s => addlPure s = true → v2Refs s = true → abs3S (addlToV3 s) = abs2S s)
    (Q := fun ks => addlPureKids ks = true → v2RefsKids ks = true → abs3Kids (addlKids ks) = abs2Kids ks)
    ?_ ?_ ?_ ?_).1 s h hw
  · intro k n _ hw; cases k <;> simp_all [addlToV3, abs3S, abs2S, toV3RK, absRK3, absRK2, v2Refs, RK.isV2]
  · intro hd kids ih h hw
    simp only [addlPure, Bool.and_eq_true, Bool.not_eq_true', beq_eq_false_iff_ne, ne_eq] at h
    simp only [v2Refs, Bool.and_eq_true, Bool.not_eq_true'] at hw
    simp only [addlToV3, abs3S, abs2S, ih h.2 hw.2]
    congr 1
    simp [abs3Hd, abs2Hd, fileToBinary, h.1.1, h.1.2, hw.1]
  · intro _ _; simp [addlKids, abs3Kids, abs2Kids]
  · intro sl c rest ihc ihr h hw
    simp only [addlPureKids, Bool.and_eq_true] at h
    simp only [v2RefsKids, Bool.and_eq_true] at hw
    simp [addlKids, abs3Kids, abs2Kids, ihc h.1 hw.1, ihr h.2 hw.2]

/-- Full statement: `∀ s, abs3S (toV3S s) = abs2S s`. It fails inside `addlImpure` (what is left of F-C17-8:
    `x-nullable` / `type: file` inside an additionalProperties sub-schema; the references part is repaired, 00eb646).
    **ToV3SchemaRef preserves what a schema says**: same type/format (file = binary string), nullability,
    discriminator, required list, every constraint keyword, the same sub-schemas in the same slots, every
    reference rewritten to its v3 location. -/
theorem toV3S_preserves_partial {V : Type} (s : Sch V) (h : addlImpure s = false) (hw : v2Refs s = true) :
    abs3S (toV3S s) = abs2S s := by
  refine (Sch.induct (P := fun s => addlImpure s = false → v2Refs s = true → abs3S (toV3S s) = abs2S s)
    (Q := fun ks => addlImpureKids ks = false → v2RefsKids ks = true → abs3Kids (toV3Kids ks) = abs2Kids ks)
    ?_ ?_ ?_ ?_).1 s h hw
  · intro k n _ hw; cases k <;> simp_all [toV3S, abs3S, abs2S, toV3RK, absRK3, absRK2, v2Refs, RK.isV2]
  · intro hd kids ih h hw
    simp only [addlImpure] at h
    simp only [v2Refs, Bool.and_eq_true] at hw
    simp only [toV3S, abs3S, abs2S, ih h hw.2, abs3Hd_toV3Hd]
  · intro _ _; simp [toV3Kids, abs3Kids, abs2Kids]
  · intro sl c rest ihc ihr h hw
    simp only [addlImpureKids, Bool.or_eq_false_iff] at h
    simp only [v2RefsKids, Bool.and_eq_true] at hw
    by_cases hs : sl = Slot.addl
    · simp only [hs, if_true, Bool.not_eq_false'] at h
      simp [toV3Kids, abs3Kids, abs2Kids, hs, addlToV3_preserves c h.1 hw.1, ihr h.2 hw.2]
    · simp only [hs, if_false] at h
      simp [toV3Kids, abs3Kids, abs2Kids, hs, ihc h.1 hw.1, ihr h.2 hw.2]

/-- witness (F-C17-8): `additionalProperties: {type: string, x-nullable: true}` — the converted schema is
    not nullable -/
theorem toV3S_witness_addl :
    let s : Sch Nat := .node {} [(Slot.addl, .node { ty := some "string", xnull := true } [])]
    addlImpure s = true ∧ abs3S (toV3S s) ≠ abs2S s := by
  simp [addlImpure, addlImpureKids, addlPure, addlPureKids, toV3S, toV3Kids, addlToV3, addlKids, abs3S, abs3Kids,
    abs2S, abs2Kids, abs3Hd, abs2Hd]

/-- regression (F-C17-8, references part, fixed by 00eb646): a reference below `items` of an additionalProperties
    sub-schema is rewritten — on the way to v3 (so ResolveRefsIn does not fail) and on the way back -/
theorem toV3S_regression_addlItemsRef :
    let s : Sch Nat := .node { ty := some "object" } [(Slot.addl, .node { ty := some "array" } [(Slot.items, .ref RK.def2 "E")])]
    addlImpure s = false ∧ abs3S (toV3S s) = abs2S s ∧ refsOf (toV3S s) = [RK.def3] ∧
    refsOf (fromV3S (toV3S s)) = [RK.def2] := by
  exact ⟨rfl, rfl, rfl, rfl⟩

/-- fromV3AdditionalProperties undoes toV3AdditionalProperties on a v2 additionalProperties sub-schema: every
    reference on the additionalProperties chain is back in its v2 form, everything else is untouched -/
theorem addl_roundtrip {V : Type} (s : Sch V) (h : v2Refs s = true) : addlFromV3 (addlToV3 s) = s := by
  refine (Sch.induct (P := fun s => v2Refs s = true → addlFromV3 (addlToV3 s) = s)
    (Q := fun ks => v2RefsKids ks = true → addlBackKids (addlKids ks) = ks) ?_ ?_ ?_ ?_).1 s h
  · intro k n h
    cases k <;> simp_all [addlToV3, addlFromV3, toV3RK, fromV3RK, v2Refs, RK.isV2]
  · intro hd kids ih h
    simp only [v2Refs, Bool.and_eq_true] at h
    simp [addlToV3, addlFromV3, ih h.2]
  · intro _; simp [addlKids, addlBackKids]
  · intro sl c rest ihc ihr h
    simp only [v2RefsKids, Bool.and_eq_true] at h
    simp [addlKids, addlBackKids, ihc h.1, ihr h.2]

/-- **The round trip gives back a v2 schema that says the same**: for every v2 schema (v2 references, no v3
    keyword), `abs2S (fromV3S (toV3S s)) = abs2S s` — type/format, nullability, discriminator, required list, every
    constraint keyword, every sub-schema, every reference. Full strength since e0e4b64 (discriminator) and dfc5235
    (references inside additionalProperties); formerly `roundtripS_partial` outside `hasDisc` / `addlRef`. -/
theorem roundtripS {V : Type} (s : Sch V) (h3 : v2Refs s = true) : abs2S (fromV3S (toV3S s)) = abs2S s := by
  refine (Sch.induct (P := fun s => v2Refs s = true → abs2S (fromV3S (toV3S s)) = abs2S s)
    (Q := fun ks => v2RefsKids ks = true → abs2Kids (fromV3Kids (toV3Kids ks)) = abs2Kids ks) ?_ ?_ ?_ ?_).1 s h3
  · intro k n h
    cases k <;> simp_all [toV3S, fromV3S, abs2S, toV3RK, fromV3RK, v2Refs, RK.isV2]
  · intro hd kids ih h3
    simp only [v2Refs, Bool.and_eq_true] at h3
    simp only [toV3S, fromV3S, abs2S, ih h3.2, abs2Hd_roundtrip hd]
  · intro _; simp [toV3Kids, fromV3Kids, abs2Kids]
  · intro sl c rest ihc ihr h3
    simp only [v2RefsKids, Bool.and_eq_true] at h3
    by_cases hs : sl = Slot.addl
    · simp [toV3Kids, fromV3Kids, abs2Kids, hs, addl_roundtrip c h3.1, ihr h3.2]
    · simp [toV3Kids, fromV3Kids, abs2Kids, hs, ihc h3.1, ihr h3.2]

/-- regression (F-C17-1, fixed by e0e4b64; formerly the witness of `DiscriminatorLost`): the discriminator
    survives the round trip — model = spec on the former witness -/
theorem roundtripS_regression_discriminator :
    let s : Sch Nat := .node { ty := some "object", disc := some "kind" } []
    abs2S (fromV3S (toV3S s)) = abs2S s ∧ (fromV3Hd (toV3Hd ({ ty := some "object", disc := some "kind" } : Hd Nat))).disc = some "kind" := by
  exact ⟨rfl, rfl⟩

/-- regression (F-C17-2, fixed by dfc5235; formerly the witness of `AddlRefKept`):
    `additionalProperties: {$ref: "#/definitions/A"}` comes back as that v2 reference -/
theorem roundtripS_regression_addlRef :
    let s : Sch Nat := .node { ty := some "object" } [(Slot.addl, .ref RK.def2 "A")]
    abs2S (fromV3S (toV3S s)) = abs2S s ∧ refsOf (fromV3S (toV3S s)) = [RK.def2] := by
  exact ⟨rfl, rfl⟩

/-- regression (dfc5235 as amended): a reference two levels down the additionalProperties chain is rewritten too,
    and the rewrite stops at a reference (its resolved value is not entered) -/
theorem roundtripS_regression_addlChain :
    let s : Sch Nat := .node { ty := some "object" } [(Slot.addl, .node { ty := some "object" } [(Slot.addl, .ref RK.def2 "A")])]
    refsOf (fromV3S (toV3S s)) = [RK.def2] ∧ addlFromV3 (.ref RK.def3 "Self" : Sch Nat) = .ref RK.def2 "Self" := by
  simp [toV3S, toV3Kids, addlToV3, addlKids, fromV3S, fromV3Kids, addlFromV3, addlBackKids, refsOf, refsOfKids,
    toV3RK, fromV3RK]

/-- non-vacuity: a nested schema with allOf, a nullable property, a discriminator, references (one inside
    additionalProperties) satisfies every hypothesis of the theorems above -/
example :
    let s : Sch Nat := .node { ty := some "object", disc := some "a", req := ["a"], sc := [("minProperties", 1)] }
      [(Slot.prop "a", .node { ty := some "string", xnull := true, sc := [("minLength", 2)] } []),
       (Slot.prop "b", .ref RK.def2 "B"),
       (Slot.allOf 0, .node { ty := some "array" } [(Slot.items, .ref RK.def2 "B")]),
       (Slot.addl, .node { ty := some "object", sc := [("maxProperties", 9)] } [(Slot.addl, .ref RK.def2 "B")])]
    addlImpure s = false ∧ v2Refs s = true := by
  decide

/-- **refs_rewritten**: every reference of `fromV3S (toV3S s)` is a v2 location (full strength since dfc5235) -/
theorem refs_rewritten {V : Type} (s : Sch V) (h3 : v2Refs s = true) :
    ∀ k ∈ refsOf (fromV3S (toV3S s)), k.isV2 = true := by
  refine (Sch.induct (P := fun s => v2Refs s = true → ∀ k ∈ refsOf (fromV3S (toV3S s)), k.isV2 = true)
    (Q := fun ks => v2RefsKids ks = true → ∀ k ∈ refsOfKids (fromV3Kids (toV3Kids ks)), k.isV2 = true)
    ?_ ?_ ?_ ?_).1 s h3
  · intro k n h
    cases k <;> simp_all [toV3S, fromV3S, refsOf, toV3RK, fromV3RK, v2Refs, RK.isV2]
  · intro hd kids ih h3
    simp only [v2Refs, Bool.and_eq_true] at h3
    simpa [toV3S, fromV3S, refsOf] using ih h3.2
  · intro _; simp [toV3Kids, fromV3Kids, refsOfKids]
  · intro sl c rest ihc ihr h3
    simp only [v2RefsKids, Bool.and_eq_true] at h3
    by_cases hs : sl = Slot.addl
    · simp only [toV3Kids, fromV3Kids, hs, if_true, addl_roundtrip c h3.1, refsOfKids, List.mem_append]
      rintro k (hk | hk)
      · exact refsOf_v2 c h3.1 k hk
      · exact ihr h3.2 k hk
    · simp only [toV3Kids, fromV3Kids, hs, if_false, refsOfKids, List.mem_append]
      rintro k (hk | hk)
      · exact ihc h3.1 k hk
      · exact ihr h3.2 k hk

/-! ### the executable way back (`fromV3SO`: what FromV3SchemaRef returns, nil included) -/

/-- outside the binary-string class FromV3SchemaRef returns the schema `fromV3S` describes -/
theorem fromV3SO_eq {V : Type} (bin : List String) (s : Sch V) (h : noBinary3 bin s = true) :
    fromV3SO bin s = some (fromV3S s) := by
  refine (Sch.induct (P := fun s => noBinary3 bin s = true → fromV3SO bin s = some (fromV3S s))
    (Q := fun ks => noBinary3Kids bin ks = true → fromV3KidsO bin ks = fromV3Kids ks) ?_ ?_ ?_ ?_).1 s h
  · intro k n h
    simp only [noBinary3, Bool.not_eq_true', decide_eq_false_iff_not] at h
    simp only [fromV3SO, fromV3S, h, if_false]
  · intro hd kids ih h
    simp only [noBinary3, Bool.and_eq_true, Bool.not_eq_true', decide_eq_false_iff_not] at h
    simp [fromV3SO, fromV3S, h.1, ih h.2]
  · intro _; simp [fromV3KidsO, fromV3Kids]
  · intro sl c rest ihc ihr h
    simp only [noBinary3Kids, Bool.and_eq_true] at h
    by_cases hs : sl = Slot.addl
    · simp [fromV3KidsO, fromV3Kids, hs, ihr h.2]
    · simp only [hs, if_false] at h
      simp [fromV3KidsO, fromV3Kids, hs, ihc h.1, ihr h.2, consO]

/-- a v2 schema without `file` / binary strings converts to a v3 schema without binary strings -/
theorem noBinary3_toV3S {V : Type} (s : Sch V) (h : noBinary2 s = true) : noBinary3 [] (toV3S s) = true := by
  refine (Sch.induct (P := fun s => noBinary2 s = true → noBinary3 [] (toV3S s) = true)
    (Q := fun ks => noBinary2Kids ks = true → noBinary3Kids [] (toV3Kids ks) = true) ?_ ?_ ?_ ?_).1 s h
  · intro k n _; simp [toV3S, noBinary3]
  · intro hd kids ih h
    simp only [noBinary2, Bool.and_eq_true, Bool.not_eq_true', beq_eq_false_iff_ne, ne_eq,
      Bool.and_eq_false_iff] at h
    simp only [toV3S, noBinary3, Bool.and_eq_true, ih h.2, and_true, Bool.not_eq_true', decide_eq_false_iff_not]
    simp only [toV3Hd, fileToBinary, h.1.1, if_false]
    intro hc
    rcases h.1.2 with h2 | h2
    · exact h2 hc.1
    · exact h2 hc.2
  · intro _; simp [toV3Kids, noBinary3Kids]
  · intro sl c rest ihc ihr h
    simp only [noBinary2Kids, Bool.and_eq_true] at h
    by_cases hs : sl = Slot.addl
    · simp [toV3Kids, noBinary3Kids, hs, ihr h.2]
    · simp only [hs, if_false] at h
      simp [toV3Kids, noBinary3Kids, hs, ihc h.1, ihr h.2]

/-- Full statement: for every v2 schema `s`, FromV3SchemaRef (ToV3SchemaRef s) is a schema that says what `s`
    says. Fails for `file` / binary strings (F-C17-12). -/
theorem roundtripS_exec_partial {V : Type} (s : Sch V) (h0 : noBinary2 s = true) (h3 : v2Refs s = true) :
    ∃ s', fromV3SO [] (toV3S s) = some s' ∧ abs2S s' = abs2S s :=
  ⟨_, fromV3SO_eq [] (toV3S s) (noBinary3_toV3S s h0), roundtripS s h3⟩

/-- witness (F-C17-12): a `file` / binary-string schema has no schema on the way back, and a query parameter
    of that type makes FromV3Parameter dereference nil (`none` = panic) -/
theorem roundtrip_witness_binary :
    let s : Sch Nat := .node { ty := some "file" } []
    let p : Param2 Nat := { name := "q", loc := "query", required := false,
                            cons := { ty := some "string", fmt := some "binary" }, items := none, schema := none }
    noBinary2 s = false ∧ fromV3SO [] (toV3S s) = none ∧ (fromV3ParamO [] (toV3Param p)).isNone = true := by
  simp [noBinary2, toV3S, toV3Kids, fromV3SO, toV3Hd, fileToBinary, fromV3ParamO, toV3Param, paramSchema2, itemsKids, conv]

/-! ## parameters and headers -/


/-- the schema ToV3Parameter builds carries exactly the parameter's constraints -/
theorem paramSchema_preserves {V : Type} (p : Param2 V) (hi : itemsOK3 p.items = true) :
    abs3S (toV3S (paramSchema2 p)) = paramCons2 p := by
  unfold paramSchema2 paramCons2
  simp only [toV3S, abs3S, abs2S]
  congr 1
  · simp [abs3Hd, toV3Hd, abs2Hd, sc_param_toV3]
  · cases hit : p.items with
    | none => simp [itemsKids, toV3Kids, abs3Kids, abs2Kids]
    | some s =>
      simp only [itemsOK3, hit, Option.all_some, Bool.and_eq_true, Bool.not_eq_true'] at hi
      simp [itemsKids, toV3Kids, abs3Kids, abs2Kids, toV3S_preserves_partial s hi.1 hi.2]

/-- **each (query / header / path) parameter keeps name, location, requiredness and constraints** in ToV3 -/
theorem toV3Param_preserves {V : Type} (p : Param2 V) (h1 : p.loc ≠ "body") (h2 : p.loc ≠ "formData")
    (hi : itemsOK3 p.items = true) : paramA3 (.val (toV3Param p)) = inputA2 (.val p) := by
  simp [paramA3, inputA2, toV3Param, h1, h2, paramSchema_preserves p hi]

theorem paramSchema_roundtrip {V : Type} (p : Param2 V) (hi : itemsOKBack p.items = true) :
    paramCons2 (fromV3Param (toV3Param p)) = paramCons2 p := by
  unfold fromV3Param toV3Param paramSchema2 paramCons2
  simp only [toV3S, fromV3S, abs2S]
  congr 1
  · simp [abs2Hd, fromV3Hd, toV3Hd, fileToBinary_idem, sc_param_roundtrip]
  · cases hit : p.items with
    | none => simp [itemsKids, toV3Kids, fromV3Kids, kidItems, abs2Kids]
    | some s =>
      simp only [itemsOKBack, hit, Option.all_some] at hi
      simp [itemsKids, toV3Kids, fromV3Kids, kidItems, abs2Kids, roundtripS s hi]

/-- **… and gets them back** from FromV3Parameter -/
theorem roundtripParam {V : Type} (p : Param2 V) (h1 : p.loc ≠ "body") (h2 : p.loc ≠ "formData")
    (hi : itemsOKBack p.items = true) :
    inputA2 (.val (fromV3Param (toV3Param p))) = inputA2 (.val p) := by
  have hc := paramSchema_roundtrip p hi
  have hl : (fromV3Param (toV3Param p)).loc = p.loc := by simp [fromV3Param, toV3Param, toV3S, paramSchema2, fromV3S]
  have hn : (fromV3Param (toV3Param p)).name = p.name := by simp [fromV3Param, toV3Param, toV3S, paramSchema2, fromV3S]
  have hr : (fromV3Param (toV3Param p)).required = (p.required || p.loc == "path") := by
    simp [fromV3Param, toV3Param, toV3S, paramSchema2, fromV3S]
  simp only [inputA2, hl, hn, hr, hc, h1, h2, if_false, Bool.or_assoc, Bool.or_self]

/-! ## form-data fields -/

/-- **a form parameter becomes a property of the request body's object schema with the same constraints**,
    and the bookkeeping `required` entry formDataBody reads is the parameter's requiredness -/
theorem toV3Form_preserves {V : Type} (p : Param2 V) (hi : itemsOK3 p.items = true) :
    abs3S (clearReq (toV3FormProp p)) = paramCons2 p ∧ propRequired p.name (toV3FormProp p) = p.required := by
  constructor
  · unfold toV3FormProp paramCons2
    simp only [clearReq, abs3S, abs2S]
    congr 1
    · simp [abs3Hd, abs2Hd, sc_form_toV3]
    · cases hit : p.items with
      | none => simp [itemsKids, abs3Kids, abs2Kids]
      | some s =>
        simp only [itemsOK3, hit, Option.all_some, Bool.and_eq_true, Bool.not_eq_true'] at hi
        simp [itemsKids, abs3Kids, abs2Kids, toV3S_preserves_partial s hi.1 hi.2]
  · cases hr : p.required <;> simp [toV3FormProp, propRequired, hr]


/-- **a form field comes back with its name, requiredness, type / format and constraints** — full strength since
    ddd71cc (format) and 9a423cc (required, read from the object schema `objReq` where formDataBody put it);
    formerly `roundtripForm_partial` outside `formLossy` -/
theorem roundtripForm {V : Type} (objReq : List String) (p : Param2 V) (hl : p.loc = "formData")
    (hreq : objReq.contains p.name = p.required) (hi : itemsOKBack p.items = true) (hf : formFmtOK p = true) :
    inputA2 (fromV3FormProp objReq p.name (clearReq (toV3FormProp p))) = inputA2 (.val p) := by
  simp only [formFmtOK, Bool.or_eq_true, bne_iff_ne, ne_eq, beq_iff_eq] at hf
  unfold toV3FormProp
  simp only [clearReq, fromV3FormProp, inputA2, hl, hreq]
  simp only [show ("formData" : String) ≠ "body" by decide, if_false, if_true, List.contains_nil, Bool.false_or]
  congr 1
  unfold paramCons2
  simp only [abs2S]
  congr 1
  · by_cases hfile : p.cons.ty = some "file"
    · simp [abs2Hd, fileToBinary, hfile, sc_form_roundtrip]
    · by_cases hb : p.cons.fmt = some "binary"
      · have hstr : p.cons.ty = some "string" := by
          rcases hf with (hf | hf) | hf
          · exact absurd hb hf
          · exact hf
          · exact absurd hf hfile
        simp [abs2Hd, fileToBinary, hb, hstr, sc_form_roundtrip]
      · simp [abs2Hd, fileToBinary, hfile, hb, sc_form_roundtrip]
  · cases hit : p.items with
    | none => simp [itemsKids, kidItems, abs2Kids]
    | some s =>
      simp only [itemsOKBack, hit, Option.all_some] at hi
      simp [itemsKids, kidItems, abs2Kids, roundtripS s hi]

/-- regression (F-C17-3, fixed by 9a423cc; formerly the witness of `FormRequiredLost`): a required form field
    comes back required — the object schema lists it -/
theorem roundtripForm_regression_required :
    let p : Param2 Nat := { name := "f", loc := "formData", required := true, cons := { ty := some "string" },
                            items := none, schema := none }
    inputA2 (fromV3FormProp ["f"] p.name (clearReq (toV3FormProp p))) = inputA2 (.val p) := by
  rfl

/-- regression (F-C17-4, fixed by ddd71cc; formerly the witness of `FormFormatLost`): `format: date` of a form
    field comes back -/
theorem roundtripForm_regression_format :
    let p : Param2 Nat := { name := "f", loc := "formData", required := false,
                            cons := { ty := some "string", fmt := some "date" }, items := none, schema := none }
    inputA2 (fromV3FormProp [] p.name (clearReq (toV3FormProp p))) = inputA2 (.val p) := by
  rfl

/-- non-vacuity: a required constrained array field satisfies the hypotheses -/
example :
    let q : Param2 Nat := { name := "l", loc := "formData", required := true,
                            cons := { ty := some "array", sc := [("maxItems", 3)] },
                            items := some (.node { ty := some "integer", sc := [("minimum", 1)] } []), schema := none }
    itemsOKBack q.items = true ∧ itemsOK3 q.items = true ∧ ["l"].contains q.name = q.required ∧ formFmtOK q = true := by
  decide

/-! ## responses -/


theorem headers_preserved {V : Type} (hs : List (String × Param2 V)) (h : hs.all headerOK3 = true) :
    (hs.map (fun (x : String × Param2 V) => (x.1, toV3Param { x.2 with name := "", loc := "" }))).map
      (fun (x : String × Param3 V) => (x.1, abs3S x.2.schema)) =
    hs.map (fun (x : String × Param2 V) => (x.1, paramCons2 x.2)) := by
  induction hs with
  | nil => rfl
  | cons x rest ih =>
    simp only [List.all_cons, Bool.and_eq_true] at h
    simp only [List.map_cons, ih h.2]
    congr 1
    have := paramSchema_preserves { x.2 with name := "", loc := "" } (by simpa [headerOK3] using h.1)
    simp only [toV3Param]
    rw [this]
    rfl

/-- **each response keeps its description, its headers (with their constraints) and its schema** in
    ToV3Response — with or without a schema, whatever `produces` says; a reference is rewritten -/
theorem toV3Resp_preserves {V : Type} (produces : List String) (r : RRef2 V)
    (hok : match r with
      | .ref k _ => k.isV2 = true
      | .val x => x.headers.all headerOK3 = true ∧ schemaOK3 x.schema = true) :
    respA3 (toV3Resp produces r) = respA2 r := by
  cases r with
  | ref k n => cases k <;> simp_all [toV3Resp, respA3, respA2, toV3RK, absRK3, absRK2, RK.isV2]
  | val x =>
    simp only at hok
    simp only [toV3Resp, respA3, respA2]
    congr 1
    have hh := headers_preserved x.headers hok.1
    cases hs : x.schema with
    | none =>
      simp only [Option.map_none, List.isEmpty_nil, if_true]
      congr 1
    | some s =>
      have hne : (effProduces produces).isEmpty = false := by
        unfold effProduces; cases hp : produces.isEmpty <;> simp [hp]
      simp only [schemaOK3, hs, Option.all_some, Bool.and_eq_true, Bool.not_eq_true'] at hok
      simp only [Option.map_some, hne, toV3S_preserves_partial s hok.2.1 hok.2.2]
      congr 1


theorem headers_roundtrip {V : Type} (hs : List (String × Param2 V)) (h : hs.all headerOKBack = true) :
    ((hs.map (fun (x : String × Param2 V) => (x.1, toV3Param { x.2 with name := "", loc := "" }))).map
      (fun (x : String × Param3 V) => (x.1, { fromV3Param x.2 with name := "", loc := "" }))).map
      (fun (x : String × Param2 V) => (x.1, paramCons2 x.2)) =
    hs.map (fun (x : String × Param2 V) => (x.1, paramCons2 x.2)) := by
  induction hs with
  | nil => rfl
  | cons x rest ih =>
    simp only [List.all_cons, Bool.and_eq_true] at h
    simp only [List.map_cons, ih h.2]
    congr 1
    have := paramSchema_roundtrip { x.2 with name := "", loc := "" } (by simpa [headerOKBack] using h.1)
    simp only [paramCons2] at this ⊢
    simpa [fromV3Param, toV3Param, toV3S, fromV3S, paramSchema2] using this

/-- **each response comes back with its description, headers and schema**, whatever `produces` says — full strength
    since bf34df1 (the schema is taken from the first media type when there is no application/json); formerly
    `roundtripResp_partial` outside `respLossy` -/
theorem roundtripResp {V : Type} (produces : List String) (r : RRef2 V)
    (hok : match r with
      | .ref k _ => k.isV2 = true
      | .val x => x.headers.all headerOKBack = true ∧ schemaOKBack x.schema = true) :
    respA2 (fromV3Resp (toV3Resp produces r)) = respA2 r := by
  cases r with
  | ref k n => cases k <;> simp_all [toV3Resp, fromV3Resp, respA2, toV3RK, fromV3RK, absRK2, RK.isV2]
  | val x =>
    simp only at hok
    simp only [toV3Resp, fromV3Resp, respA2]
    congr 1
    have hh := headers_roundtrip x.headers hok.1
    cases hs : x.schema with
    | none => simp only [Option.map_none, ite_self]; congr 1
    | some s =>
      have hne : (effProduces produces).isEmpty = false := by
        unfold effProduces; cases hp : produces.isEmpty <;> simp [hp]
      simp only [schemaOKBack, hs, Option.all_some] at hok
      simp only [Option.map_some, hne, Bool.false_eq_true, if_false, roundtripS s hok.2]
      congr 1

/-- regression (F-C17-5, fixed by bf34df1; formerly the witness of `ResponseSchemaNonJSON`):
    `produces: [application/xml]` — the response schema comes back -/
theorem roundtripResp_regression_produces :
    let r : RRef2 Nat := .val { desc := "ok", headers := [], schema := some (.node { ty := some "string" } []) }
    respA2 (fromV3Resp (toV3Resp ["application/xml"] r)) = respA2 r := by
  rfl

/-- non-vacuity: a 302 with a Location header and no schema, under `produces: [application/xml]` -/
example :
    let h : Param2 Nat := { name := "", loc := "", required := false, cons := { ty := some "string" },
                            items := none, schema := none }
    let r : RRef2 Nat := .val { desc := "moved", schema := none, headers := [("Location", h)] }
    (match r with | .ref k _ => k.isV2 = true | .val x => x.headers.all headerOKBack = true ∧ schemaOKBack x.schema = true) := by
  decide

/-! ## security schemes -/


/-- **security definitions become the corresponding schemes** -/
theorem toV3Sec_preserves (s : Sec2) (h : secInFragment s = true) :
    ∃ t, toV3Sec s = some t ∧ secA3 t = secA2 s := by
  simp only [secInFragment, Bool.or_eq_true, Bool.and_eq_true, beq_iff_eq] at h
  rcases h with (h | h) | ⟨h, hf⟩
  · simp [toV3Sec, secA3, secA2, h]
  · simp [toV3Sec, secA3, secA2, h]
  · rcases hf with ((hf | hf) | hf) | hf <;> simp [toV3Sec, secA3, secA2, h, hf, usesAuth, usesToken]

/-- **… and come back as the same scheme**: every flow gets back the URLs it uses and its scopes -/
theorem roundtripSec (s : Sec2) (h : secInFragment s = true) :
    ∃ t s', toV3Sec s = some t ∧ fromV3Sec t = .ok s' ∧ secA2 s' = secA2 s := by
  simp only [secInFragment, Bool.or_eq_true, Bool.and_eq_true, beq_iff_eq] at h
  rcases h with (h | h) | ⟨h, hf⟩
  · simp [toV3Sec, fromV3Sec, secA2, h]
  · simp [toV3Sec, fromV3Sec, secA2, h]
  · rcases hf with ((hf | hf) | hf) | hf <;> simp [toV3Sec, fromV3Sec, secA2, h, hf, usesAuth, usesToken]

/-- non-vacuity: the accessCode flow (the one with both URLs) is in the fragment -/
example : secInFragment { type := "oauth2", flow := "accessCode", authUrl := "https://a/x", tokenUrl := "https://a/t",
                          scopes := [("r", "read")] } = true := by decide

/-! ## servers -/

/-- Full statement: `toV3Servers l = serversA2 l`. It fails when `host` is absent (finding #39).
    **host, base path and schemes become servers** -/
theorem servers_preserved_partial (l : Loc2) (h : l.host ≠ "") : toV3Servers l = serversA2 l := by
  simp [toV3Servers, serversA2, h]

/-- witness (#39): `basePath: /v1` without `host` — no server, the base path is lost -/
theorem servers_witness_basePath :
    let l : Loc2 := { host := "", basePath := "/v1", schemes := [] }
    toV3Servers l ≠ serversA2 l := by
  decide

/-- Full statement: the servers of `fromV3Servers (toV3Servers l)` are those of `l` (as a set). It fails when
    `host` is absent (#39). The four schemes of OpenAPI 2 all come back since a84c8a2 (formerly http / https only). -/
theorem servers_roundtrip_partial (l : Loc2) (h : l.host ≠ "")
    (hs : ∀ x ∈ l.schemes, schemeOK x = true) :
    ∀ x, x ∈ serversA2 (fromV3Servers (toV3Servers l)) ↔ x ∈ serversA2 l := by
  intro x
  have h3 : toV3Servers l = (if l.schemes.isEmpty then ["https"] else l.schemes).map
      (fun sch => ({ scheme := sch, host := l.host, base := if l.basePath = "" then "/" else l.basePath } : Server)) := by
    simp [toV3Servers, h]
  have h2 : serversA2 l = (if l.schemes.isEmpty then ["https"] else l.schemes).map
      (fun sch => ({ scheme := sch, host := l.host, base := if l.basePath = "" then "/" else l.basePath } : Server)) := by
    simp [serversA2, h]
  have hEok : ∀ y ∈ (if l.schemes.isEmpty then ["https"] else l.schemes), y ∈ schemeOrder := by
    intro y hy
    cases hsch : l.schemes with
    | nil => simp [hsch] at hy; subst hy; decide
    | cons a r =>
      simp only [hsch, List.isEmpty_cons, Bool.false_eq_true, if_false] at hy
      have := hs y (by rw [hsch]; exact hy)
      simp only [schemeOK, Bool.or_eq_true, beq_iff_eq] at this
      rcases this with ((h1 | h1) | h1) | h1 <;> subst h1 <;> decide
  have hEne : (if l.schemes.isEmpty then ["https"] else l.schemes) ≠ [] := by
    cases hsch : l.schemes <;> simp
  rw [h2, h3]
  generalize (if l.schemes.isEmpty then ["https"] else l.schemes) = E at hEok hEne
  have hBne : (if l.basePath = "" then "/" else l.basePath) ≠ "" := by
    by_cases hb : l.basePath = "" <;> simp [hb]
  generalize (if l.basePath = "" then "/" else l.basePath) = B at hBne
  -- what comes back: host, base path and the schemes found among the four, in FromV3's order
  have hS : ∀ y, y ∈ schemeOrder.filter (fun c => E.contains c) ↔ y ∈ E := by
    intro y
    simp only [List.mem_filter, List.contains_iff_mem]
    constructor
    · exact fun hy => hy.2
    · exact fun hy => ⟨hEok y hy, hy⟩
  have hSne : (schemeOrder.filter (fun c => E.contains c)).isEmpty = false := by
    cases hE : E with
    | nil => exact absurd hE hEne
    | cons a r =>
      have : a ∈ schemeOrder.filter (fun c => (a :: r).contains c) := by
        rw [← hE]; exact (hS a).2 (by rw [hE]; simp)
      cases hf : schemeOrder.filter (fun c => (a :: r).contains c) with
      | nil => rw [hf] at this; simp at this
      | cons _ _ => rfl
  have hback : fromV3Servers (E.map (fun sch => ({ scheme := sch, host := l.host, base := B } : Server))) =
      { host := l.host, basePath := B, schemes := schemeOrder.filter (fun c => E.contains c) } := by
    cases hE : E with
    | nil => exact absurd hE hEne
    | cons a r =>
      simp only [fromV3Servers, List.map_cons]
      congr 1
      apply List.filter_congr
      intro c _
      have := any_scheme_map l.host B c (a :: r)
      simpa using this
  rw [hback]
  simp only [serversA2, h, hBne, false_and, if_false, hSne, Bool.false_eq_true, List.mem_map]
  constructor
  · rintro ⟨y, hy, rfl⟩
    exact ⟨y, (hS y).1 hy, rfl⟩
  · rintro ⟨y, hy, rfl⟩
    exact ⟨y, (hS y).2 hy, rfl⟩

/-- regression (F-C17-10, fixed by a84c8a2; formerly the witness of `SchemeNotHttp`): scheme `ws` comes back -/
theorem servers_regression_ws :
    let l : Loc2 := { host := "h", basePath := "/", schemes := ["ws"] }
    serversA2 (fromV3Servers (toV3Servers l)) = serversA2 l := by
  decide

/-! ## documents -/

theorem toV3P_simple {V : Type} (c : List String) (q : PRef2 V) (h : paramSimple q = true) :
    toV3P { cbodies := [], cschemas := [] } c q = .param (toV3PS q) := by
  cases q with
  | ref k n => cases k <;> simp [toV3P, toV3PS, alookup, toV3RK]
  | val p =>
    simp only [paramSimple, Bool.and_eq_true, bne_iff_ne, ne_eq] at h
    simp [toV3P, toV3PS, h.1.1, h.1.2]

theorem splitP3_params {V : Type} (l : List (PRef3 V)) :
    splitP3 (l.map P3.param) = (l, ([] : List (BRef3 V)), ([] : List (String × Sch V))) := by
  induction l with
  | nil => rfl
  | cons a rest ih => simp [splitP3, ih]

theorem inputs_simple {V : Type} (l : List (PRef2 V)) (h : l.all paramSimple = true) :
    (l.map toV3PS).map paramA3 = l.map inputA2 := by
  induction l with
  | nil => rfl
  | cons q rest ih =>
    simp only [List.all_cons, Bool.and_eq_true] at h
    simp only [List.map_cons, ih h.2]
    congr 1
    cases q with
    | ref k n =>
      have hq := h.1
      cases k <;> simp_all [paramSimple, toV3PS, paramA3, inputA2, toV3RK, absRK3, absRK2, RK.isV2]
    | val p =>
      have hq := h.1
      simp only [paramSimple, Bool.and_eq_true, bne_iff_ne, ne_eq] at hq
      exact toV3Param_preserves p hq.1.1 hq.1.2 hq.2

theorem responses_simple {V : Type} (produces : List String) (l : List (String × RRef2 V))
    (h : l.all (fun kr => respOK3 kr.2) = true) :
    (l.map (fun (kr : String × RRef2 V) => (kr.1, toV3Resp produces kr.2))).map
      (fun (kr : String × RRef3 V) => (kr.1, respA3 kr.2)) =
    l.map (fun (kr : String × RRef2 V) => (kr.1, respA2 kr.2)) := by
  induction l with
  | nil => rfl
  | cons kr rest ih =>
    simp only [List.all_cons, Bool.and_eq_true] at h
    simp only [List.map_cons, ih h.2]
    congr 1
    have : respA3 (toV3Resp produces kr.2) = respA2 kr.2 := by
      apply toV3Resp_preserves
      have h1 := h.1
      cases hr : kr.2 with
      | ref k n => simpa [respOK3, hr] using h1
      | val x => simpa [respOK3, hr] using h1
    rw [this]

theorem toV3Op_simple {V : Type} (dc : List String) (o : Op2 V) (h : opSimple o = true) :
    toV3Op { cbodies := [], cschemas := [] } dc o = .ok (toV3OpS o) := by
  simp only [opSimple, Bool.and_eq_true] at h
  have hm : o.params.map (toV3P { cbodies := [], cschemas := [] } (if o.consumes.isEmpty then dc else o.consumes)) =
      (o.params.map toV3PS).map P3.param := by
    rw [List.map_map]
    apply List.map_congr_left
    intro q hq
    exact toV3P_simple _ q (List.all_eq_true.mp h.1 q hq)
  unfold toV3Op
  simp only [hm, splitP3_params]
  simp [toV3OpS]

theorem toV3Path_simple {V : Type} (dc : List String) (p : Path2 V) (h : pathSimple p = true) :
    toV3Path { cbodies := [], cschemas := [] } dc p = .ok (toV3PathS p) := by
  simp only [pathSimple, Bool.and_eq_true] at h
  have h1 : mapRes (toV3Op { cbodies := [], cschemas := [] } dc) p.ops = .ok (p.ops.map toV3OpS) :=
    mapRes_ok _ _ _ (fun o ho => toV3Op_simple dc o (List.all_eq_true.mp h.2 o ho))
  have h2 : mapRes (pathParam3 { cbodies := [], cschemas := [] } dc) p.params = .ok (p.params.map toV3PS) :=
    mapRes_ok _ _ _ (fun q hq => by simp [pathParam3, toV3P_simple dc q (List.all_eq_true.mp h.1 q hq)])
  simp [toV3Path, h1, h2, toV3PathS]

/-- every operation of the simple fragment: **same path, method, operation id, parameters, responses**, and the
    same summary / description / deprecated / tags and security requirements -/
theorem opA_simple {V : Type} (path : String) (o : Op2 V) (h : opSimple o = true) :
    opA3 path (toV3OpS o) = opA2 path o := by
  simp only [opSimple, Bool.and_eq_true] at h
  simp only [opA3, opA2, toV3OpS, List.append_nil, inputs_simple o.params h.1,
    responses_simple o.produces o.responses h.2, meta_toV3]

theorem mapSecs_preserves (l : List (String × Sec2)) (h : l.all (fun ks => secInFragment ks.2) = true) :
    ∃ l', mapSecs l = .ok l' ∧
      l'.map (fun (ks : String × Sec3) => (ks.1, secA3 ks.2)) = l.map (fun (ks : String × Sec2) => (ks.1, secA2 ks.2)) := by
  induction l with
  | nil => exact ⟨[], rfl, rfl⟩
  | cons ks rest ih =>
    simp only [List.all_cons, Bool.and_eq_true] at h
    obtain ⟨l', hl, hm⟩ := ih h.2
    obtain ⟨t, ht, hs⟩ := toV3Sec_preserves ks.2 h.1
    obtain ⟨k, s⟩ := ks
    exact ⟨(k, t) :: l', by simp [mapSecs, ht, hl], by simp [hm, hs]⟩

/-- distinct definition names: the component schemas are the converted definitions, in order -/
theorem mergeSchemas_nodup {V : Type} (defs : List (String × Sch V)) (acc : List (String × CSchema V))
    (hn : nodupKeys defs = true) (hacc : ∀ kv ∈ defs, alookup kv.1 acc = none) :
    defs.foldl (fun acc (d : String × Sch V) => ainsert d.1 { formName := none, schema := toV3S d.2 } acc) acc =
    acc ++ defs.map (fun d => (d.1, ({ formName := none, schema := toV3S d.2 } : CSchema V))) := by
  induction defs generalizing acc with
  | nil => simp
  | cons d rest ih =>
    obtain ⟨k, s⟩ := d
    simp only [nodupKeys, Bool.and_eq_true, Option.isNone_iff_eq_none] at hn
    simp only [List.foldl_cons]
    rw [ainsert_fresh k _ acc (hacc (k, s) (by simp))]
    rw [ih _ hn.2]
    · simp
    · intro kv hkv
      apply alookup_append_none
      · exact hacc kv (by simp [hkv])
      · obtain ⟨k2, v2⟩ := kv
        by_cases hk : k2 = k
        · subst hk
          have : alookup k2 rest = none := hn.1
          -- kv ∈ rest with key k2 contradicts alookup k2 rest = none
          exfalso
          clear ih hacc hn
          induction rest with
          | nil => simp at hkv
          | cons x xs ihx =>
            obtain ⟨kx, vx⟩ := x
            simp only [alookup] at this
            split at this
            · simp at this
            · rename_i hne
              simp only [List.mem_cons, Prod.mk.injEq] at hkv
              rcases hkv with ⟨hk, _⟩ | hkv
              · exact hne hk
              · exact ihx hkv this
        · simp [alookup, hk]

theorem ops_simple {V : Type} (paths : List (Path2 V)) (h : paths.all pathSimple = true) :
    (paths.map toV3PathS).flatMap (fun p => p.ops.map (opA3 p.path)) =
    paths.flatMap (fun p => p.ops.map (opA2 p.path)) := by
  induction paths with
  | nil => rfl
  | cons p rest ih =>
    simp only [List.all_cons, Bool.and_eq_true] at h
    simp only [List.map_cons, List.flatMap_cons, ih h.2]
    congr 1
    have hp := h.1
    simp only [pathSimple, Bool.and_eq_true] at hp
    simp only [toV3PathS, List.map_map]
    apply List.map_congr_left
    intro o ho
    exact opA_simple p.path o (List.all_eq_true.mp hp.2 o ho)

theorem pathParams_simple {V : Type} (paths : List (Path2 V)) (h : paths.all pathSimple = true) :
    ((paths.map toV3PathS).filter (fun p => !p.params.isEmpty)).map (fun p => (p.path, p.params.map paramA3)) =
    (paths.filter (fun p => !p.params.isEmpty)).map (fun p => (p.path, p.params.map inputA2)) := by
  induction paths with
  | nil => rfl
  | cons p rest ih =>
    simp only [List.all_cons, Bool.and_eq_true] at h
    have hp := h.1
    simp only [pathSimple, Bool.and_eq_true] at hp
    have he : (toV3PathS p).params.isEmpty = p.params.isEmpty := by simp [toV3PathS]
    simp only [List.map_cons, List.filter_cons, he]
    cases hpe : p.params.isEmpty with
    | true => simpa using ih h.2
    | false =>
      simp only [Bool.not_false, if_true, List.map_cons, ih h.2]
      congr 1
      simp [toV3PathS, inputs_simple p.params hp.1]

/-- shared query / header / path parameters become component parameters (no request body, no form schema) -/
theorem sharedP3_simple {V : Type} (c : List String) (l : List (String × PRef2 V))
    (h : l.all (fun kp => sharedSimple kp.2) = true) :
    sharedP3 c l = (l.map (fun kp => (kp.1, toV3PS kp.2)), [], []) := by
  induction l with
  | nil => rfl
  | cons kp rest ih =>
    obtain ⟨k, p⟩ := kp
    simp only [List.all_cons, Bool.and_eq_true] at h
    have hs : paramSimple p = true := by
      cases p with
      | ref k n => simp [sharedSimple] at h
      | val q => simpa [sharedSimple, paramSimple] using h.1
    simp [sharedP3, ih h.2, toV3P_simple c p hs]

theorem shared_simple {V : Type} (l : List (String × PRef2 V)) (h : l.all (fun kp => sharedSimple kp.2) = true) :
    (l.map (fun kp => (kp.1, toV3PS kp.2))).map (fun (kp : String × PRef3 V) => (kp.1, paramA3 kp.2)) =
    l.map (fun (kp : String × PRef2 V) => (kp.1, inputA2 kp.2)) := by
  induction l with
  | nil => rfl
  | cons kp rest ih =>
    simp only [List.all_cons, Bool.and_eq_true] at h
    simp only [List.map_cons, ih h.2]
    congr 1
    cases hp : kp.2 with
    | ref k n => simp [sharedSimple, hp] at h
    | val q =>
      have hq := h.1
      simp only [sharedSimple, hp, Bool.and_eq_true, bne_iff_ne, ne_eq] at hq
      simp only [toV3PS]
      rw [toV3Param_preserves q hq.1.1 hq.1.2 hq.2]

/-- the v3 document ToV3 builds on the simple fragment, explicitly -/
theorem toV3Raw_simple {V : Type} (d : Doc2 V) (h : docSimple d = true) (secs : List (String × Sec3))
    (hsecs1 : mapSecs d.secs = .ok secs) :
    toV3Raw d = .ok { servers := toV3Servers d.loc, cparams := d.params.map (fun kp => (kp.1, toV3PS kp.2)), cbodies := [],
                      cschemas := d.defs.map (fun ks => (ks.1, ({ formName := none, schema := toV3S ks.2 } : CSchema V))),
                      cresponses := d.responses.map (fun kr => (kr.1, toV3Resp d.produces kr.2)), secs := secs,
                      paths := d.paths.map toV3PathS, security := d.security } := by
  simp only [docSimple, Bool.and_eq_true] at h
  obtain ⟨⟨⟨⟨⟨⟨hparams, hpaths⟩, hresps⟩, hnodup⟩, hdefs⟩, hsecs⟩, hloc⟩ := h
  have hp : mapRes (toV3Path { cbodies := [], cschemas := [] } d.consumes) d.paths = .ok (d.paths.map toV3PathS) :=
    mapRes_ok _ _ _ (fun p hp => toV3Path_simple _ p (List.all_eq_true.mp hpaths p hp))
  have hmerge : mergeSchemas ([] : List (String × CSchema V)) d.defs =
      d.defs.map (fun ks => (ks.1, ({ formName := none, schema := toV3S ks.2 } : CSchema V))) := by
    have := mergeSchemas_nodup d.defs [] hnodup (by intro kv _; rfl)
    simpa [mergeSchemas] using this
  simp [toV3Raw, sharedP3_simple d.consumes d.params hparams, hp, hsecs1, hmerge]

/-- **Document level, ToV3** (full Api equality on the simple fragment): a document whose shared parameters are
    query / header / path parameters and whose operations and path items take such parameters inline or by
    reference (a shared parameter may carry the key of a definition, a shared response or a security
    definition: the namespaces do not interact) converts, and the converted document describes the same API — the same paths, methods, operation ids, parameters, responses (inline or
    shared, with headers and schema), definitions with rewritten references, servers and security schemes.
    (Body and form parameters and shared parameters are covered per component by the theorems above and
    by the differential run; `toV3` additionally fails when `ResolveRefsIn` meets an unrewritten reference,
    which `addlImpure`-free schemas exclude.) -/
theorem api3_toV3_simple {V : Type} (d : Doc2 V) (h : docSimple d = true) :
    ∃ d3, toV3Raw d = .ok d3 ∧ api3 d3 = api2 d := by
  have hsimple := h
  simp only [docSimple, Bool.and_eq_true] at h
  obtain ⟨⟨⟨⟨⟨⟨hparams, hpaths⟩, hresps⟩, hnodup⟩, hdefs⟩, hsecs⟩, hloc⟩ := h
  obtain ⟨secs, hsecs1, hsecs2⟩ := mapSecs_preserves d.secs hsecs
  have hmerge : mergeSchemas ([] : List (String × CSchema V)) d.defs =
      d.defs.map (fun ks => (ks.1, ({ formName := none, schema := toV3S ks.2 } : CSchema V))) := by
    have := mergeSchemas_nodup d.defs [] hnodup (by intro kv _; rfl)
    simpa [mergeSchemas] using this
  refine ⟨_, toV3Raw_simple d hsimple secs hsecs1, ?_⟩
  · have hserv : toV3Servers d.loc = serversA2 d.loc := by
      simp only [locOK, Bool.or_eq_true, bne_iff_ne, ne_eq, Bool.and_eq_true, beq_iff_eq, List.isEmpty_iff] at hloc
      rcases hloc with hh | ⟨hb, hs⟩
      · exact servers_preserved_partial d.loc hh
      · by_cases hh : d.loc.host = ""
        · simp [toV3Servers, serversA2, hh, hb, hs]
        · exact servers_preserved_partial d.loc hh
    have hdefs' : ∀ l : List (String × Sch V), l.all (fun ks => !addlImpure ks.2 && v2Refs ks.2) = true →
        (l.map (fun ks => (ks.1, ({ formName := none, schema := toV3S ks.2 } : CSchema V)))).filterMap
        (fun kc => match kc.2.formName with | none => some (kc.1, abs3S kc.2.schema) | some _ => none) =
        l.map (fun ks => (ks.1, abs2S ks.2)) := by
      intro l hl
      induction l with
      | nil => rfl
      | cons ks rest ih =>
        simp only [List.all_cons, Bool.and_eq_true, Bool.not_eq_true'] at hl
        simp only [List.map_cons, List.filterMap_cons, ih hl.2, toV3S_preserves_partial ks.2 hl.1.1 hl.1.2]
    have hshared : ∀ l : List (String × Sch V),
        (l.map (fun ks => (ks.1, ({ formName := none, schema := toV3S ks.2 } : CSchema V)))).filterMap
        (fun kc => kc.2.formName.map (fun n => (kc.1, sharedForm3 n kc.2))) = [] := by
      intro l
      induction l with
      | nil => rfl
      | cons ks rest ih => simp [ih]
    apply Api_ext
    · exact ops_simple d.paths hpaths
    · exact pathParams_simple d.paths hpaths
    · show List.map _ (List.map _ d.params) ++ [] ++ _ = List.map _ d.params
      rw [hshared, shared_simple d.params hparams]; simp
    · exact responses_simple d.produces d.responses hresps
    · exact hdefs' d.defs hdefs
    · exact hserv
    · exact hsecs2
    · rfl

/-- non-vacuity of `api3_toV3_simple`: a document with a path parameter, a constrained array query parameter,
    a response with headers but no schema, a shared response, two definitions (one referring to the other,
    one nullable property), an accessCode security scheme and host + base path -/
example :
    let idp : Param2 Nat := { name := "id", loc := "path", required := true, cons := { ty := some "string" },
                              items := none, schema := none }
    let q : Param2 Nat := { name := "tags", loc := "query", required := false,
                            cons := { ty := some "array", sc := [("uniqueItems", 1)] },
                            items := some (.node { ty := some "string", sc := [("enum", 2)] } []), schema := none }
    let hdr : Param2 Nat := { name := "", loc := "", required := false, cons := { ty := some "integer", sc := [("minimum", 1)] },
                              items := none, schema := none }
    let r302 : RRef2 Nat := .val { desc := "moved", headers := [("X-Rate", hdr)], schema := none }
    let r200 : RRef2 Nat := .val { desc := "ok", headers := [], schema := some (.ref RK.def2 "A") }
    let d : Doc2 Nat := {
      loc := { host := "api.example.com", basePath := "/v1", schemes := ["https"] }, consumes := [], produces := [],
      params := [("lim", .val { q with name := "limit" }), ("A", .val idp)], responses := [("nf", .val { desc := "not found", headers := [], schema := none })],
      defs := [("A", .node { ty := some "object", req := ["b"] } [(Slot.prop "b", .ref RK.def2 "B")]),
               ("B", .node { ty := some "string", xnull := true } [])],
      secs := [("o", { type := "oauth2", flow := "accessCode", authUrl := "https://a/x", tokenUrl := "https://a/t" })],
      paths := [{ path := "/p/{id}", params := [.ref RK.par2 "A"],
                  ops := [{ method := "get", opId := "g", consumes := [], produces := [], params := [.val q, .ref RK.par2 "lim"],
                            responses := [("200", r200), ("302", r302), ("404", .ref RK.resp2 "nf")] }] }] }
    docSimple d = true := by
  decide

/-! ## validation of the converted document -/

theorem sharedP3_names {V : Type} (c : List String) (l : List (String × PRef2 V))
    (h : l.all (fun kv => identOK kv.1) = true) :
    (sharedP3 c l).1.all (fun kv => identOK kv.1) = true ∧ (sharedP3 c l).2.1.all (fun kv => identOK kv.1) = true ∧
    (sharedP3 c l).2.2.all (fun kv => identOK kv.1) = true := by
  induction l with
  | nil => simp [sharedP3]
  | cons kp rest ih =>
    obtain ⟨k, p⟩ := kp
    simp only [List.all_cons, Bool.and_eq_true] at h
    have ih' := ih h.2
    unfold sharedP3
    split
    rename_i a b cc heq
    rw [heq] at ih'
    simp only at ih'
    cases toV3P { cbodies := [], cschemas := [] } c p with
    | param q => simp [h.1, ih'.1, ih'.2.1, ih'.2.2]
    | body x => simp [h.1, ih'.1, ih'.2.1, ih'.2.2]
    | form n s => simp [h.1, ih'.1, ih'.2.1, ih'.2.2]

theorem mapSecs_names (l : List (String × Sec2)) (l' : List (String × Sec3)) (h : mapSecs l = .ok l')
    (hn : l.all (fun kv => identOK kv.1) = true) : l'.all (fun kv => identOK kv.1) = true := by
  induction l generalizing l' with
  | nil => simp [mapSecs] at h; subst h; rfl
  | cons ks rest ih =>
    obtain ⟨k, s⟩ := ks
    simp only [List.all_cons, Bool.and_eq_true] at hn
    unfold mapSecs at h
    split at h
    · simp at h
    · split at h
      · simp at h
      · rename_i ts hts
        simp only [Res.ok.injEq] at h
        subst h
        simp [hn.1, ih ts hts hn.2]

theorem mergeSchemas_names {V : Type} (defs : List (String × Sch V)) (acc : List (String × CSchema V))
    (ha : acc.all (fun kv => identOK kv.1) = true) (hd : defs.all (fun kv => identOK kv.1) = true) :
    (mergeSchemas acc defs).all (fun kv => identOK kv.1) = true := by
  unfold mergeSchemas
  induction defs generalizing acc with
  | nil => simpa using ha
  | cons d rest ih =>
    simp only [List.all_cons, Bool.and_eq_true] at hd
    simp only [List.foldl_cons]
    exact ih _ (ainsert_all identOK d.1 _ acc hd.1 ha) hd.2

theorem toV3P_body_content {V : Type} (env : Env3 V) (c : List String) (q : PRef2 V) (b : BRef3 V)
    (hq : bodyParamOK q = true) (h : toV3P env c q = .body b) : bodyHasContent b = true := by
  cases q with
  | ref k n =>
    simp only [toV3P] at h
    by_cases hk : k = RK.par2
    · by_cases hb : (alookup n env.cbodies).isSome = true
      · simp only [hk, hb, if_true, P3.body.injEq] at h
        subst h; rfl
      · cases hc : alookup n env.cschemas <;> simp [hk, hb, hc] at h
    · simp [hk] at h
  | val p =>
    simp only [toV3P] at h
    simp only [bodyParamOK, Bool.or_eq_true, bne_iff_ne, ne_eq] at hq
    by_cases hl : p.loc = "body"
    · simp only [hl, if_true, P3.body.injEq] at h
      subst h
      rcases hq with hq | hq
      · exact absurd hl hq
      · cases hs : p.schema with
        | none => simp [hs] at hq
        | some s => by_cases hc : c.isEmpty <;> simp [bodyHasContent, hc]
    · by_cases hf : p.loc = "formData" <;> simp [hl, hf] at h

theorem splitP3_bodies {V : Type} (l : List (P3 V)) : ∀ b ∈ (splitP3 l).2.1, P3.body b ∈ l := by
  induction l with
  | nil => simp [splitP3]
  | cons x rest ih =>
    intro b hb
    cases x with
    | param p => simp only [splitP3] at hb; simp [ih b hb]
    | body y =>
      simp only [splitP3, List.mem_cons] at hb
      rcases hb with rfl | hb
      · simp
      · simp [ih b hb]
    | form n s => simp only [splitP3] at hb; simp [ih b hb]

theorem toV3Op_body_content {V : Type} (env : Env3 V) (dc : List String) (o : Op2 V) (o3 : Op3 V)
    (hq : o.params.all bodyParamOK = true) (h : toV3Op env dc o = .ok o3) :
    (match o3.body with | none => true | some b => bodyHasContent b) = true := by
  unfold toV3Op at h
  simp only at h
  generalize hsp : splitP3 (o.params.map (toV3P env (if o.consumes.isEmpty then dc else o.consumes))) = sp at h
  obtain ⟨ps, bodies, forms⟩ := sp
  simp only at h
  split at h
  · simp at h
  · split at h
    · simp at h
    · simp only [Res.ok.injEq] at h
      subst h
      simp only
      cases bodies with
      | nil =>
        simp only
        by_cases hf : forms.isEmpty
        · simp [hf]
        · simp only [hf, Bool.false_eq_true, if_false]
          generalize (if o.consumes.isEmpty then dc else o.consumes) = cs
          cases cs <;> simp [bodyHasContent, formBody]
      | cons b rest =>
        simp only
        have hb : P3.body b ∈ o.params.map (toV3P env (if o.consumes.isEmpty then dc else o.consumes)) := by
          apply splitP3_bodies
          rw [hsp]; simp
        simp only [List.mem_map] at hb
        obtain ⟨q, hqm, hqe⟩ := hb
        exact toV3P_body_content env _ q b (List.all_eq_true.mp hq q hqm) hqe

theorem mapRes_mem {α β : Type} (f : α → Res β) (l : List α) (l' : List β) (h : mapRes f l = .ok l') :
    ∀ b ∈ l', ∃ a ∈ l, f a = .ok b := by
  induction l generalizing l' with
  | nil => simp [mapRes] at h; subst h; simp
  | cons a rest ih =>
    unfold mapRes at h
    split at h
    · simp at h
    · rename_i b0 hb0
      split at h
      · simp at h
      · rename_i bs hbs
        simp only [Res.ok.injEq] at h
        subst h
        intro b hb
        simp only [List.mem_cons] at hb
        rcases hb with rfl | hb
        · exact ⟨a, by simp, hb0⟩
        · obtain ⟨a', ha', hfa⟩ := ih bs hbs b hb
          exact ⟨a', by simp [ha'], hfa⟩

theorem sharedP3_body_content {V : Type} (c : List String) (l : List (String × PRef2 V))
    (h : l.all (fun kp => bodyParamOK kp.2) = true) :
    (sharedP3 c l).2.1.all (fun kb => bodyHasContent kb.2) = true := by
  induction l with
  | nil => simp [sharedP3]
  | cons kp rest ih =>
    obtain ⟨k, p⟩ := kp
    simp only [List.all_cons, Bool.and_eq_true] at h
    have ih' := ih h.2
    unfold sharedP3
    split
    rename_i a b cc heq
    rw [heq] at ih'
    simp only at ih'
    cases hp : toV3P { cbodies := [], cschemas := [] } c p with
    | param q => simpa using ih'
    | body x => simp [ih', toV3P_body_content _ c p x h.1 hp]
    | form n s => simpa using ih'

/-- Full statement: the converted document passes validation. It fails when a shared name is outside the v3
    identifier alphabet (finding #38) or a body parameter has no schema (F-C17-14). **toV3_validates** — for the
    parts of `Validate` the conversion itself can break (component names, request bodies without content); the
    rest of `Validate` is exercised by the differential run, not modelled. -/
theorem toV3_validates_partial {V : Type} (d : Doc2 V) (d3 : Doc3 V) (h : toV3Raw d = .ok d3)
    (hn : namesOK d = true) (hb : bodiesOK d = true) : validates3 d3 = true := by
  simp only [namesOK, Bool.and_eq_true] at hn
  obtain ⟨⟨⟨hp, hr⟩, hd⟩, hs⟩ := hn
  simp only [bodiesOK, Bool.and_eq_true] at hb
  have hsh := sharedP3_names d.consumes d.params hp
  have hshb := sharedP3_body_content d.consumes d.params hb.1
  unfold toV3Raw at h
  simp only at h
  split at h
  · simp at h
  · rename_i paths hpaths
    split at h
    · simp at h
    · rename_i secs hsecs
      simp only [Res.ok.injEq] at h
      subst h
      simp only [validates3, Bool.and_eq_true]
      refine ⟨⟨⟨⟨⟨⟨hsh.1, hsh.2.1⟩, mergeSchemas_names d.defs _ hsh.2.2 hd⟩, ?_⟩, mapSecs_names d.secs secs hsecs hs⟩, hshb⟩, ?_⟩
      · simpa [List.all_map] using hr
      · apply List.all_eq_true.mpr
        intro p3 hp3
        obtain ⟨p2, hp2, hpe⟩ := mapRes_mem _ d.paths paths hpaths p3 hp3
        unfold toV3Path at hpe
        split at hpe
        · simp at hpe
        · rename_i ops hops
          split at hpe
          · simp at hpe
          · simp only [Res.ok.injEq] at hpe
            subst hpe
            apply List.all_eq_true.mpr
            intro o3 ho3
            obtain ⟨o2, ho2, hoe⟩ := mapRes_mem _ p2.ops ops hops o3 ho3
            exact toV3Op_body_content _ _ o2 o3
              (List.all_eq_true.mp (List.all_eq_true.mp hb.2 p2 hp2) o2 ho2) hoe

/-- witness (#38): a definition named `My Def` — the converted document has a component that is not an
    identifier -/
theorem toV3_validates_witness :
    let d : Doc2 Nat := { loc := { host := "", basePath := "", schemes := [] }, consumes := [], produces := [],
                          params := [], responses := [], defs := [("My Def", .node {} [])], secs := [], paths := [] }
    namesOK d = false ∧ (match toV3Raw d with | .ok d3 => validates3 d3 | .error _ => true) = false := by
  decide

/-- witness (F-C17-14): a body parameter without a schema — the converted request body has no content -/
theorem toV3_validates_witness_body :
    let b : Param2 Nat := { name := "b", loc := "body", required := true, cons := {}, items := none, schema := none }
    let d : Doc2 Nat := { loc := { host := "", basePath := "", schemes := [] }, consumes := [], produces := [],
                          params := [], responses := [], defs := [], secs := [],
                          paths := [{ path := "/x", params := [],
                                      ops := [{ method := "post", opId := "p", consumes := [], produces := [],
                                                params := [.val b], responses := [] }] }] }
    bodiesOK d = false ∧ (match toV3Raw d with | .ok d3 => validates3 d3 | .error _ => true) = false := by
  decide

end KinModel.Conv
