/- C20: the shape of the generated struct table (go/cmd/extract/c20types.go → KinModel/Gen/C20Types.lean). -/
namespace KinModel.LoadTypes

/-- structural Go types as `reflect` (drillIntoField) and `encoding/json` see them -/
inductive Ty
  | scalar
  | any
  | struct (name : String)
  | ptr (t : Ty)
  | mapOf (t : Ty)
  | sliceOf (t : Ty)
  | unrecognised (at_ : String)
  deriving DecidableEq, Repr, Inhabited

/-- one tagged struct field: owner struct, yaml tag name, type -/
structure Field where
  owner : String
  tag   : String
  ty    : Ty
  deriving DecidableEq, Repr

/-- one `resolve*Ref` routine of loader.go: type of `var resolved …`, type asserted by its backtrack
    callback, whether that assertion is in comma-ok form -/
structure ResolverRow where
  fn       : String
  resolved : String
  asserted : String
  commaOk  : Bool
  deriving DecidableEq, Repr

/-- one call `x.validate(…)` / `x.Validate(…)` inside `(*Schema).validate`: the field `x` was read from,
    the method, whether `stack` is an argument, whether the result is assigned back to `stack` -/
structure EdgeRow where
  src     : String
  method  : String
  threads : Bool
  assigns : Bool
  deriving DecidableEq, Repr

def Ty.recognised : Ty → Bool
  | .unrecognised _ => false
  | .ptr t => t.recognised
  | .mapOf t => t.recognised
  | .sliceOf t => t.recognised
  | _ => true

end KinModel.LoadTypes
