/-
C03, the Loader route — the reference branch of a resolver as a small program.

`resolveG` (KinModel/Marshal.lean) keeps the `Ref` text of every node it resolves. The code that this stands for is
the block `if ref := x.Ref; ref != "" { … }` of each `resolve<Kind>Ref` in openapi3/loader.go: for a reference
wrapper nothing in it writes `x.Ref`; for a path item the block replaces the whole node (`*pathItem = p`,
`*pathItem = resolved`, `*pathItem = *v` in the in-progress callback) and restores the text afterwards
(`pathItem.Ref = ref`). This file models the block statement by statement (table C03RefWrites: one `RTop` per top-level
statement) with every choice the control flow has, and proves that a block that passes the decidable check `okFrom`
leaves `x.Ref = ref` however it is left (fall through or early return). Core-only.
-/
import KinModel.Marshal
namespace KinModel.Marshal

/-- one top-level statement of the block -/
structure RTop where
  overwrite : Bool   -- contains `*x = …` outside a function literal
  retAfter  : Bool   -- a return can be reached after that overwrite before the statement is left
  hasReturn : Bool   -- contains a return statement
  restore   : Bool   -- is the statement `x.Ref = ref`
  litCopy   : Bool   -- contains `*x = *v` inside the in-progress callback (copy of the registered value)
  deriving DecidableEq, Repr

/-- what the control flow does inside one statement (chosen by the data: arbitrary) -/
inductive RChoice
  | skip                          -- no overwrite, no return is executed
  | write (srcRef : String)       -- the overwrite runs (the source's `Ref` is arbitrary), then the statement is left
  | writeReturn (srcRef : String) -- the overwrite runs and a return is reached after it
  | ret                           -- a return is reached, no overwrite before it
  | copyReg                       -- the callback copies the value registered under this block's key
  | copyRegReturn                 -- … and the function returns (`if !shouldVisitRef(…) { return nil }`)

/-- the `Ref` of `x` when the block is left, by fall through or by return. `regRef` = the `Ref` of the value
    registered under the block's key. A choice the statement does not offer is a `skip`. -/
def runTops (ref regRef : String) : List RTop → List RChoice → String → String
  | [], _, cur => cur
  | t :: ts, cs, cur =>
    if t.restore then runTops ref regRef ts cs.tail ref
    else match cs.head? with
      | some (.write s) => if t.overwrite then runTops ref regRef ts cs.tail s else runTops ref regRef ts cs.tail cur
      | some (.writeReturn s) => if t.overwrite && t.retAfter then s else runTops ref regRef ts cs.tail cur
      | some .ret => if t.hasReturn then cur else runTops ref regRef ts cs.tail cur
      | some .copyReg => if t.litCopy then runTops ref regRef ts cs.tail regRef else runTops ref regRef ts cs.tail cur
      | some .copyRegReturn => if t.litCopy && t.hasReturn then regRef else runTops ref regRef ts cs.tail cur
      | _ => runTops ref regRef ts cs.tail cur

/-- the decidable check: `dirty` = an overwrite may have happened that is not yet restored. No return while dirty,
    no return after an overwrite inside its statement, not dirty at the end. -/
def okFrom : Bool → List RTop → Bool
  | dirty, [] => !dirty
  | dirty, t :: ts =>
    if t.restore then okFrom false ts
    else !(dirty && t.hasReturn) && !(t.overwrite && t.retAfter) && okFrom (dirty || t.overwrite) ts

/-- A block that passes the check leaves `x.Ref = ref`, whatever the control flow chooses and whatever the `Ref` of
    the copied sources is — provided the value registered under the block's key carries the block's text. -/
theorem runTops_keeps_ref (ref : String) (tops : List RTop) :
    ∀ (dirty : Bool) (cs : List RChoice) (cur : String), (dirty = false → cur = ref) → okFrom dirty tops = true →
      runTops ref ref tops cs cur = ref := by
  induction tops with
  | nil =>
    intro dirty cs cur hc hok
    cases dirty with
    | false => simpa [runTops] using hc rfl
    | true => simp [okFrom] at hok
  | cons t ts ih =>
    intro dirty cs cur hc hok
    by_cases hr : t.restore = true
    · simp only [runTops, hr, if_true]
      simp only [okFrom, hr, if_true] at hok
      exact ih false _ ref (fun _ => rfl) hok
    · have hr' : t.restore = false := by simpa using hr
      simp only [okFrom, hr', Bool.false_eq_true, if_false, Bool.and_eq_true, Bool.not_eq_true',
        Bool.and_eq_false_iff] at hok
      obtain ⟨⟨hdr, hwr⟩, hrest⟩ := hok
      -- the continuation when nothing is written by this statement
      have keep : runTops ref ref ts cs.tail cur = ref := by
        apply ih (dirty || t.overwrite) _ cur _ hrest
        intro h
        have : dirty = false := by cases dirty <;> simp_all
        exact hc this
      simp only [runTops, hr', Bool.false_eq_true, if_false]
      cases hcs : cs.head? with
      | none => simpa using keep
      | some c =>
        cases c with
        | skip => simpa using keep
        | write s =>
          by_cases ho : t.overwrite = true
          · simp only [ho, if_true]
            apply ih (dirty || t.overwrite) _ s _ hrest
            intro h; simp [ho] at h
          · have ho' : t.overwrite = false := by simpa using ho
            simpa [ho'] using keep
        | writeReturn s =>
          have : (t.overwrite && t.retAfter) = false := by
            cases hwr with
            | inl h => simp [h]
            | inr h => simp [h]
          simpa [this] using keep
        | ret =>
          by_cases hh : t.hasReturn = true
          · simp only [hh, if_true]
            have : dirty = false := by
              cases hdr with
              | inl h => exact h
              | inr h => simp [hh] at h
            exact hc this
          · have hh' : t.hasReturn = false := by simpa using hh
            simpa [hh'] using keep
        | copyReg =>
          by_cases hl : t.litCopy = true
          · simp only [hl, if_true]
            -- the registered value carries `ref`: the node is as clean as before
            apply ih (dirty || t.overwrite) _ ref _ hrest
            intro _; rfl
          · have hl' : t.litCopy = false := by simpa using hl
            simpa [hl'] using keep
        | copyRegReturn =>
          by_cases hl : (t.litCopy && t.hasReturn) = true
          · simp [hl]
          · have hl' : (t.litCopy && t.hasReturn) = false := by simpa using hl
            simpa [hl'] using keep

/-- … in particular from the state in which the block is entered (`x.Ref = ref`, nothing overwritten yet) -/
theorem refBlock_keeps_ref (ref : String) (tops : List RTop) (cs : List RChoice) (h : okFrom false tops = true) :
    runTops ref ref tops cs ref = ref :=
  runTops_keeps_ref ref tops false cs ref (fun _ => rfl) h

/-- a block without any overwrite, restore or callback copy (the nine wrapper resolvers) never changes `Ref` -/
def RTop.inert (t : RTop) : Bool := !t.overwrite && !t.restore && !t.litCopy

theorem runTops_inert (ref regRef : String) (tops : List RTop) (h : tops.all RTop.inert = true) :
    ∀ (cs : List RChoice) (cur : String), runTops ref regRef tops cs cur = cur := by
  induction tops with
  | nil => intro cs cur; rfl
  | cons t ts ih =>
    intro cs cur
    simp only [List.all_cons, Bool.and_eq_true, RTop.inert, Bool.not_eq_true'] at h
    obtain ⟨⟨⟨ho, hr⟩, hl⟩, hts⟩ := h
    have ih' := ih (by simpa [RTop.inert] using hts)
    simp only [runTops, hr, Bool.false_eq_true, if_false]
    cases hcs : cs.head? with
    | none => simpa using ih' _ _
    | some c => cases c <;> simp [ho, hl, ih']

/-! ### the queued callbacks (state kept between calls)

When the key of a block is in progress (`shouldVisitRef` false) the callback `*x = *v` is only queued and the call
returns at once (choice `ret`); it runs later, from the deferred `unvisitRef(key, value)` of the call that owns the
key, with the node that call has just resolved. So inside a block no copy happens synchronously (`RChoice.sync`), and
what the queued nodes receive is the final `Ref` of the owner's block. -/

def RChoice.sync : RChoice → Bool
  | .copyReg => false
  | .copyRegReturn => false
  | _ => true

/-- without a synchronous copy the registered value plays no role -/
theorem runTops_sync_regRef (ref a b : String) (tops : List RTop) :
    ∀ (cs : List RChoice) (cur : String), cs.all RChoice.sync = true →
      runTops ref a tops cs cur = runTops ref b tops cs cur := by
  induction tops with
  | nil => intro cs cur _; rfl
  | cons t ts ih =>
    intro cs cur h
    have ht : cs.tail.all RChoice.sync = true := by
      cases cs with
      | nil => rfl
      | cons c r => simp only [List.all_cons, Bool.and_eq_true] at h; simpa using h.2
    by_cases hr : t.restore = true
    · simp only [runTops, hr, if_true]; exact ih _ _ ht
    · have hr' : t.restore = false := by simpa using hr
      simp only [runTops, hr', Bool.false_eq_true, if_false]
      cases cs with
      | nil => simpa using ih [] cur rfl
      | cons c r =>
        simp only [List.all_cons, Bool.and_eq_true] at h
        have hr2 : r.all RChoice.sync = true := h.2
        cases c with
        | skip => simpa using ih r cur hr2
        | write s => by_cases ho : t.overwrite = true <;> simp [ho, ih r _ hr2]
        | writeReturn s => by_cases ho : (t.overwrite && t.retAfter) = true <;> simp [ho, ih r _ hr2]
        | ret => by_cases ho : t.hasReturn = true <;> simp [ho, ih r _ hr2]
        | copyReg => simp [RChoice.sync] at h
        | copyRegReturn => simp [RChoice.sync] at h

/-- nodes queued on in-progress keys: (text of the key = the node's own `Ref` when it was queued, its `Ref` now) -/
def finishKey (key out : String) (queued : List (String × String)) : List (String × String) :=
  queued.map fun q => if q.1 == key then (q.1, out) else q

/-- every queued node carries the text under which it was queued -/
def queuedOK (queued : List (String × String)) : Bool := queued.all fun q => q.2 == q.1

/-- one event of a load: a call of the resolver on a node with text `ref` that runs the block (with its control
    flow) and then, deferred, hands its node to everything queued under its key; or a call that finds its key in
    progress and queues its node -/
inductive REvent
  | run (ref : String) (cs : List RChoice)
  | queue (ref : String)

/-- the history of a load over the queue; also returns the `Ref` each `run` leaves in its node -/
def runEvents (tops : List RTop) (regRef : String) : List REvent → List (String × String) → List (String × String) × List (String × String)
  | [], q => ([], q)
  | .run ref cs :: es, q =>
    let out := runTops ref regRef tops cs ref
    let (outs, q') := runEvents tops regRef es (finishKey ref out q)
    ((ref, out) :: outs, q')
  | .queue ref :: es, q => runEvents tops regRef es ((ref, ref) :: q)

def REvent.sync : REvent → Bool
  | .run _ cs => cs.all RChoice.sync
  | .queue _ => true

/-- For every history of calls on one loader (any number of blocks run, any nodes queued on keys in progress, in any
    order): every block leaves its node's `Ref` as written, and every queued node — overwritten by the deferred
    callback with the owner's node — still carries its own text. No proviso on the registered value. -/
theorem runEvents_keeps_ref (tops : List RTop) (hok : okFrom false tops = true) (regRef : String) :
    ∀ (es : List REvent) (q : List (String × String)), es.all REvent.sync = true → queuedOK q = true →
      queuedOK (runEvents tops regRef es q).1 = true ∧ queuedOK (runEvents tops regRef es q).2 = true := by
  intro es
  induction es with
  | nil => intro q _ hq; exact ⟨rfl, hq⟩
  | cons e es ih =>
    intro q hs hq
    simp only [List.all_cons, Bool.and_eq_true] at hs
    cases e with
    | queue ref =>
      simp only [runEvents]
      apply ih _ hs.2
      simp [queuedOK, List.all_cons] at hq ⊢
      exact hq
    | run ref cs =>
      have hout : runTops ref regRef tops cs ref = ref := by
        rw [runTops_sync_regRef ref regRef ref tops cs ref hs.1]
        exact refBlock_keeps_ref ref tops cs hok
      have hq' : queuedOK (finishKey ref ref q) = true := by
        simp only [queuedOK, finishKey, List.all_map, List.all_eq_true] at hq ⊢
        intro x hx
        have := hq x hx
        by_cases hk : (x.1 == ref) = true
        · simp [Function.comp, hk]
          have : x.1 = ref := by simpa using hk
          exact this.symm
        · have hk' : (x.1 == ref) = false := by simpa using hk
          simpa [Function.comp, hk'] using this
      have := ih (finishKey ref ref q) hs.2 hq'
      simp only [runEvents, hout]
      refine ⟨?_, this.2⟩
      simp only [queuedOK, List.all_cons, Bool.and_eq_true] at this ⊢
      exact ⟨by simp, this.1⟩

/-- the reference text a node of the tree model carries -/
def GoV.refText : GoV → String
  | .wrapper ref _ _ => ref
  | .struct ref _ _ => ref
  | _ => ""

end KinModel.Marshal
