/-
C15 — the concrete footprints of the library's operations (read off the current source, and tied to it by
the generated table `Gen.sharedWrites` and by the `-race` differential run), the executable model of one
correspondence case, its outcome and the specification.

Footprints, per operation kind (cells: 0 document, 1 routers, 2 `sliceUniqueItemsChecker`, 3 an object-valued
`default` stored in the document, 4 the process-wide format / body-decoder registries, 10+3p compiled pattern p, 11+3t type info of Go type t, 12+3(64i+j) element j of the
backing array of `PathItem.Parameters` of path item i — `decodedCap n` of them exist for n declared parameters):

  FindRoute (gorillamux / legacy)   read doc, read router
  ValidateRequest                   ranges over the path-level parameters of its path item (reads of the slice's
                                    elements), then over the operation's own parameters (document reads). The two loops
                                    are separate; a merged loop over `append(pathItemParameters, operationParameters...)`
                                    would STORE the operation's parameters in the path item's backing array whenever the
                                    decoded slice has spare capacity (3, 5-7, 9-15 … parameters): `appendActs`,
                                    theorems `merged_parameter_loops_*`
  Validator.Middleware handler      FindRoute + ValidateRequest + ValidateResponse footprints; the Validator and its Options are
                                    only read (a write to the shared Options would be a `plain` row of the table)
  ValidateRequest / ValidateResponse / VisitJSON
                                    read doc (+ router); per `pattern` keyword reached: cacheUse of the process-wide
                                    pattern cache, keyed by pattern text (the cached matcher is used if there is one,
                                    else the call's own regex compiler — a per-call option — compiles; nothing fills it);
                                    when an array-typed schema is reached: lazyInit of the uniqueness checker
                                    (declared WITH an initialiser → never nil); default injection writes into
                                    the decoded request value, which is per call; an object-valued default is
                                    deep-copied first (`value[propName] = deepcopy.Copy(dflt)`; before commit
                                    afcfd61 it was shared and nested defaults were written INTO the document:
                                    F-C15-1, now a regression theorem) — the document's default is only read
  openapi3gen.NewSchemaRefForValue  fillUse of the type-info cache under `typeInfosMutex`: the first published
                                    descriptor wins and is the one every caller uses (before commit 9118e72 every first user stored its own and
                                    cycle detection by pointer could see two: F-C15-2, now a regression theorem)
-/
import KinModel.Conc
import KinModel.ConcSlice
namespace KinModel.Conc

inductive OpKind | frg | frl | vreq | vresp | visit | gen
  | dval  -- (*T).Validate on the already validated document (re-validation: legacy.NewRouter does it): by table
          -- ConstructionWrites it writes only missing path items, of which a validated document has none — reads
  | mw    -- the handler of (*openapi3filter.Validator).Middleware: FindRoute, ValidateRequest, the wrapped handler, ValidateResponse,
          -- on ONE Validator whose Options every request shares (`Options: &v.options`)
  deriving DecidableEq, Repr

/-- one operation of a correspondence case, reduced to what determines its footprint -/
structure OpM where
  kind : OpKind
  patterns : List Nat := []      -- indices of the `pattern` keywords its schemas contain
  arrays : Bool := false         -- an array-typed schema is reachable
  defaultsOn : Bool := false     -- default injection enabled (ValidateRequest without SkipSettingDefaults; VisitJSON with DefaultsSet)
  sharedDefault : Bool := false  -- the schema has an object-valued default that itself receives nested defaults
  genType : Nat := 0
  recursive : Bool := false      -- the Go type handed to the generator refers to itself
  dialect : Nat := 0             -- per-call regex compiler (Options.RegexCompiler / SetSchemaRegexCompiler): 0 = default
  item : Nat := 0                -- the path item the operation belongs to (operations under one path share it)
  itemParams : Nat := 0          -- number of path-level parameters of that path item
  ownParams : Nat := 0           -- number of the operation's own parameters
  registries : Bool := false     -- reads a process-wide registry: a `format` keyword is reached (SchemaStringFormats /
                                 -- SchemaNumberFormats / SchemaIntegerFormats), a body is decoded (bodyDecoders)
  deriving DecidableEq, Repr

def docCell : Cell := 0
def routerCell : Cell := 1
def uniqCell : Cell := 2
def dfltCell : Cell := 3
def regCell : Cell := 4          -- the format / body-decoder registries: written by registration functions only
def patCell (p : Nat) : Cell := 10 + 3 * p
def typeCell (t : Nat) : Cell := 11 + 3 * t
def sliceCell (i j : Nat) : Cell := 12 + 3 * (64 * i + j)

/-- `PathItem.Parameters` of path item `i` with `n` declared parameters, as encoding/json leaves it -/
def itemHdr (n : Nat) : Hdr := ⟨n, decodedCap n⟩

def usesRouter : OpKind → Bool
  | .frg | .frl | .vreq | .vresp | .mw => true
  | _ => false

def validates : OpKind → Bool
  | .vreq | .vresp | .visit | .mw | .dval => true
  | _ => false

/-- footprint of operation `o` when run by thread `tid` (the thread does not matter any more: both
    footprints that depended on it were defects, F-C15-1 and F-C15-2, repaired in the library) -/
def opActs (_tid : Nat) (o : OpM) : List Act :=
  [Act.read docCell] ++
  (if usesRouter o.kind then [Act.read routerCell] else []) ++
  -- ValidateRequest: `for _, parameterRef := range pathItemParameters` (the operation's own parameters: document reads)
  (if o.kind = .vreq ∨ o.kind = .mw then rangeActs (sliceCell o.item) o.itemParams else []) ++
  -- visitJSONString USES the matcher the process-wide cache holds for the pattern TEXT, else compiles with the
  -- call's own regex compiler; `compilePattern` never fills the cache (CompareAndSwap(pattern, nil, cp))
  (if validates o.kind then o.patterns.map (fun p => Act.cacheUse (patCell p) (1 + o.dialect)) else []) ++
  (if validates o.kind && o.arrays then [Act.lazyInit uniqCell 7] else []) ++
  -- getTypeInfo: the first published descriptor wins, and the caller goes on with the PUBLISHED one (cycle detection
  -- compares descriptor pointers): a load-or-publish whose result is used; the descriptor is a function of the type
  (if o.kind = .gen then [Act.fillUse (typeCell o.genType) (o.genType + 1)] else []) ++
  -- an object-valued default is deep-copied into the request value; error texts print the schema: plain reads
  (if validates o.kind && o.sharedDefault then [Act.read dfltCell] else []) ++
  -- `SchemaStringFormats[format]`, `bodyDecoders[mediaType]`: plain reads of maps that only registration functions write
  (if validates o.kind && o.registries then [Act.read regCell] else [])

structure CaseM where
  ops : List OpM
  g : Nat          -- goroutines
  per : Nat        -- operations per goroutine
  sched : Nat      -- seed of the interleaving
  deriving Repr

def caseCfg (c : CaseM) : Cfg :=
  { cache := c.ops.map (fun o => typeCell o.genType),   -- the pattern cells are NOT caches: nothing fills them
    lazy := [uniqCell],
    det := c.ops.map (fun o => (typeCell o.genType, o.genType + 1)) }   -- one descriptor per Go type

/-- initial state: document and routers built, the uniqueness checker initialised by its declaration,
    caches cold, the shared default object without the nested key -/
def sigma0 : State := fun c => if c = docCell then 1 else if c = routerCell then 1 else if c = uniqCell then 7 else 0

def getOp (tid : Nat) (ops : List OpM) (i : Nat) : List Act :=
  match ops[i % ops.length]? with | some o => opActs tid o | none => []

def threadActs (c : CaseM) (j : Nat) : List Act :=
  (List.range c.per).flatMap (fun r => getOp j c.ops (j + r))

def nextSeed (s : Nat) : Nat := (s * 1103515245 + 12345) % 2147483648

/-- take the next action of the k-th live thread -/
def takeAt : Nat → List (Nat × List Act) → Option ((Nat × Act) × List (Nat × List Act))
  | _, [] => none
  | k, (_, []) :: rest => takeAt k rest
  | 0, (t, a :: as) :: rest => some ((t, a), (t, as) :: rest)
  | k + 1, (t, a :: as) :: rest =>
    match takeAt k rest with
    | some (r, rest') => some (r, (t, a :: as) :: rest')
    | none => some ((t, a), (t, as) :: rest)

def schedule : Nat → Nat → List (Nat × List Act) → Trace
  | 0, _, _ => []
  | fuel + 1, seed, live =>
    match takeAt (seed % (live.length + 1)) live with
    | some (x, live') => x :: schedule fuel (nextSeed seed) live'
    | none => []

def caseThreads (c : CaseM) : List (Nat × List Act) :=
  (List.range c.g).map (fun j => (j, threadActs c j))

def caseTrace (c : CaseM) : Trace :=
  let th := caseThreads c
  schedule ((th.map (fun x => x.2.length)).sum + 1) c.sched th

structure Outcome where
  race : Bool
  diverge : Bool
  docChanged : Bool
  deriving DecidableEq, Repr

def docCells : List Cell := [docCell, routerCell, uniqCell, dfltCell, regCell]

def outcomeOf (n : Nat) (tr : Trace) : Outcome :=
  { race := raceInB (events sigma0 tr),
    diverge := (List.range n).any (fun i => readsOf i sigma0 tr != solo sigma0 (proj i tr)),
    docChanged := docCells.any (fun d => finalState sigma0 tr d != sigma0 d) }

/-- the model's outcome of a correspondence case -/
def outcome (c : CaseM) : Outcome := outcomeOf c.g (caseTrace c)

/-- configuration in which the uniqueness checker is NOT assumed initialised: it is treated as a read-back cache whose
    key (the one checker variable) determines the value every racer installs (`isSliceOfUniqueItems`, 7) -/
def caseCfgU (c : CaseM) : Cfg :=
  { cache := uniqCell :: c.ops.map (fun o => typeCell o.genType),
    lazy := [],
    det := (uniqCell, 7) :: c.ops.map (fun o => (typeCell o.genType, o.genType + 1)) }

/-- the state of a process in which the checker's declaration lost its initialiser (seeded change C15-m2) -/
def sigmaU : State := fun c => if c = docCell then 1 else if c = routerCell then 1 else 0

/-- the specification: no data race, every verdict as when run alone, the document untouched -/
def specOutcome : Outcome := ⟨false, false, false⟩

end KinModel.Conc
