/-
C02 — abstract model of `openapi3.Loader` reference resolution (openapi3/loader.go) and its specification.

Objects (`Obj`) are the Go objects at reference-capable positions (`*HeaderRef`, …, `*PathItem`): a reference
(`ref = some text`), a value with child positions, or an EMPTY entry (`empty`: a null member of a map or list
that a resolver is called on — `isEmpty()`, the sentinel `errMUST<kind>`). `kids` are the child positions the
resolver of that kind walks (in the order of the Go code). `home` is the context the object is written in.

A context (`Loc`) is the pair `(doc, documentPath)` a resolver runs with. The loader passes it along as
parameters, it is NOT a function of the object: after `component.Value = resolved.Value` every resolver
walks the children of the value with the REFERRING context, and `loadSingleElementFromURI` switches
`documentPath` but not `doc`. The model therefore takes the context as a parameter of `resolve` and records
(`foreign`) whether a reference was ever evaluated in a context other than its home.

`World.target cx text k` is the ONE-STEP meaning of a reference text evaluated in context `cx`. The concrete
layer (`LoaderJson.lean`) instantiates it with the loader's own path joining + typed drill-down (`stepGo`); the
specification side follows RFC 3986 + RFC 6901 in the raw JSON (`stepSpec`). This file is parametric in it.

`resolve` follows the ten `resolve*Ref` routines (one skeleton, checked against the generated table
`Gen.resolverSkeleton` statement by statement):
  * `isEmpty()` → `errMUST<kind>` (an error that keeps its identity until it crosses a document load),
  * `component.Value != nil`           → nothing to do,
  * `shouldVisitRef` false (the KEY — this routine's kind plus the reference text, 7245059 — is in
    `visitedRefs`) → a backtrack callback is registered under the key,
  * `visitRef`; `resolveRefAndDocument` loads and WALKS the referenced document the first time it is seen
    (`visitedDocuments`, which a Loader keeps from one load to the next), with the current in-progress set,
  * an empty target (`#`: `errMUST…` swallowed, no `unvisitRef`), drill-down, type check,
  * whole-file reference: the value is set, `unvisitRef` deferred, the children are walked in the moved context
    (a path item file that is itself a reference is resolved first, 376b90f);
  * fragment reference: recursive resolve of the target (a local copy when the target is itself a reference) in
    ITS context — path items only `if resolved.Ref != ""` —; an error coming out of that call is returned (the
    sentinel `errMUST<own kind>` is swallowed only for an empty copy, 3c3716e: the `#` case above);
  * `component.Value = …`, `defer unvisitRef`, then the walk of the value's children: in the REFERRING context for
    the nine component kinds, in the TARGET's context for path items; an error in that walk still runs the deferred
    `unvisitRef` (the callbacks fire) before it is returned;
  * `unvisitRef`: with a non-nil value the callbacks registered under this key are run; with a nil value they are
    dropped (#34; counted in `nnil`).
Errors carry the loader state they leave behind; every entry point resets the in-progress set, the backtrack table
and (c555d93) the documents cache (`loadEntry`, entry rows of `Gen.resolverSkeleton`): a load on a used Loader is
the load of a fresh one.
Fuel measures nesting depth only (`foldRes` iterates siblings with the same fuel); `Lemmas/C02Term.lean`
proves an explicit bound under which `outOfFuel` cannot occur.
-/
namespace KinModel.Loader

inductive Kind
  | header | parameter | requestBody | response | schema | securityScheme | example | callback | link | pathItem
  deriving DecidableEq, Repr

def Kind.idx : Kind → Nat
  | .header => 0 | .parameter => 1 | .requestBody => 2 | .response => 3 | .schema => 4 | .securityScheme => 5
  | .example => 6 | .callback => 7 | .link => 8 | .pathItem => 9

abbrev Loc := Nat
abbrev Text := Nat
abbrev Obj := Nat

/-- the key of `visitedRefs` / `backtrack`: `"<Kind> " + ref` -/
def key (k : Kind) (t : Text) : Nat := 10 * t + k.idx

structure Node where
  kind    : Kind
  ref     : Option Text
  kids    : List Obj := []
  home    : Loc := 0
  /-- set on the local copy `resolved` that a resolver makes of a target that is itself a reference:
      the copy is taken when the target is reached, with whatever value the original has by then -/
  orig    : Option Obj := none
  /-- a null entry: `isEmpty()` -/
  empty   : Bool := false
  deriving Repr

structure World where
  nodes  : List Node
  /-- top-level positions of the document of context `loc` in the order `ResolveRefsIn` walks them -/
  roots  : Loc → List Obj
  /-- the document context that `resolveRefAndDocument` loads for this reference (external `file#/frag` only) -/
  docOf  : Loc → Text → Option Loc
  /-- one-step meaning of a reference text evaluated in context `cx`, expected as an object of kind `k`
      (the kind only matters for whole-file and untyped targets, which are decoded as that kind):
      the context to continue in, and the target object -/
  target : Loc → Text → Kind → Option (Loc × Obj)
  /-- the reference has a fragment (`resolveComponent` branch); `false`: a whole-file reference -/
  fragment : Loc → Text → Kind → Bool := fun _ _ _ => true
  /-- the drill-down yields an EMPTY component (no `$ref`, no value — the fragment `#` of a document
      without extensions): `errMUST…` is swallowed and the routine returns before `unvisitRef` is deferred -/
  emptyTarget : Loc → Text → Kind → Bool := fun _ _ _ => false

def World.node (w : World) (o : Obj) : Option Node := w.nodes[o]?

structure St where
  value   : List (Obj × Obj) := []    -- reference object ↦ the value object it was given
  docs    : List Loc := []            -- visitedDocuments                                          (reset by every entry point, c555d93)
  inprog  : List Nat := []            -- visitedRefs (keys)                                        (reset by every entry point)
  pending : List (Nat × Obj) := []    -- backtrack callbacks (key, component)                      (reset by every entry point)
  foreign : Bool := false             -- some reference was evaluated in a context that is not its home
  tclash  : Bool := false             -- some callback fired for a reference whose own one-step target differs from the visitor's (#29)
  done    : List Obj := []            -- objects whose resolver call has returned nil (instrumentation only)
  walking : List Obj := []            -- values that have been assigned and whose children are being walked (instrumentation only)
  nback   : Nat := 0                  -- callbacks ever registered (instrumentation only)
  nnil    : Nat := 0                  -- `unvisitRef` calls with a nil value (instrumentation only)
  nempty  : Nat := 0                  -- swallowed `errMUST…` of an empty TARGET (`#`) (instrumentation only)
  deriving Repr

def St.get (s : St) (o : Obj) : Option Obj := (s.value.find? (·.1 = o)).map (·.2)

inductive Res
  | ok (s : St)
  /-- load error: `e = some k` while it still is the sentinel `errMUST<k>`; `s` is the state the loader is left in -/
  | err (e : Option Kind) (s : St)
  | outOfFuel
  deriving Repr

def Res.isOk : Res → Bool | .ok _ => true | _ => false

/-- the state a call leaves behind, whether it returned nil or an error -/
def Res.st? : Res → Option St
  | .ok s => some s
  | .err _ s => some s
  | .outOfFuel => none

def foldRes (f : Nat → St → Res) : List Nat → St → Res
  | [], s => .ok s
  | k :: ks, s => match f k s with
    | .ok s' => foldRes f ks s'
    | e => e

/-- `Value` of an object as a resolver sees it: its own, or (a copy) the one its original had when copied -/
def getC (w : World) (s : St) (o : Obj) : Option Obj :=
  match s.get o with
  | some v => some v
  | none => ((w.node o).bind (·.orig)).bind s.get

/-- what `component.Value` is after the target has been processed -/
def valueOf (w : World) (tgt : Obj) (s : St) : Option Obj :=
  match (w.node tgt).bind (·.ref) with
  | none => some tgt
  | some _ => getC w s tgt

def kindOf (w : World) (o : Obj) : Option Kind := (w.node o).map (·.kind)

/-- the one-step target of a reference object evaluated where it is written -/
def homeTarget (w : World) (t : Text) (m : Obj) : Option (Loc × Obj) :=
  (w.node m).bind (fun nm => w.target nm.home t nm.kind)

/-- `unvisitRef(key, value)`: the callbacks registered under the key run when the value is non-nil. `tg` is the
    visitor's own one-step target: `tclash` records that a callback fired for a reference which, read where it is
    written, goes somewhere else (the table is keyed by kind and text, not by location: #29). -/
def unvisit (w : World) (kt : Nat) (t : Text) (tg : Option (Loc × Obj)) (v : Option Obj) (s : St) : Res :=
  match v with
  | none => .ok { s with inprog := s.inprog.erase kt, pending := s.pending.filter (·.1 ≠ kt), nnil := s.nnil + 1 }
  | some v =>
    let mine := s.pending.filter (·.1 = kt)
    .ok { s with value := s.value ++ mine.map (fun p => (p.2, v)),
                 inprog := s.inprog.erase kt,
                 pending := s.pending.filter (·.1 ≠ kt),
                 tclash := s.tclash || mine.any (fun p => homeTarget w t p.2 != tg) }

/-- an error that crosses `resolveRefAndDocument` is wrapped (`error resolving reference …`): no sentinel any more -/
def wrapErr : Res → Res
  | .err _ s => .err none s
  | r => r

/-- `loadFromDataWithPathInternal`: a document not yet in `visitedDocuments` is registered and walked; a cached
    one is returned as it is -/
def loadDoc (w : World) (rs : Loc → Nat → St → Res) (d : Option Loc) (s : St) : Res :=
  match d with
  | none => .ok s
  | some l =>
    if s.docs.contains l then .ok s
    else wrapErr (foldRes (rs l) (w.roots l) { s with docs := s.docs ++ [l] })

/-- the deferred `unvisitRef` runs also when the walk of the children failed -/
def unvisitThen (w : World) (kt : Nat) (t : Text) (tg : Option (Loc × Obj)) (v : Obj) : Res → Res
  | .ok s2 => unvisit w kt t tg (some v) { s2 with walking := s2.walking.tail }
  | .err e s2 => (match unvisit w kt t tg (some v) { s2 with walking := s2.walking.tail } with
    | .ok s3 => .err e s3
    | r => r)
  | .outOfFuel => .outOfFuel

/-- `component.Value = value`, `defer unvisitRef`, the walk of the value's children (`rv v`: the routine's walk of
    the value `v`, in the context the routine continues with) -/
def finish (w : World) (rv : Nat → St → Res) (kt : Nat) (t : Text) (tg : Option (Loc × Obj)) (o : Obj) (v : Option Obj) (s : St) : Res :=
  match v with
  | none => unvisit w kt t tg none s
  | some v =>
    unvisitThen w kt t tg v (rv v { s with value := s.value ++ [(o, v)], walking := v :: s.walking })

/-- the resolver call on `o` returned nil -/
def markDone (o : Obj) : Res → Res
  | .ok s => .ok { s with done := s.done ++ [o] }
  | e => e

/-- the recursive call on the local copy / the loaded element, when the routine makes one (`pre`). An error coming
    out of it is returned: since 3c3716e the nine component routines swallow `errMUST<own kind>` only when the copy
    ITSELF is empty (`&& resolved.isEmpty()`: the `emptyTarget` case, decided before) -/
def preResolve (pre : Bool) (r : Unit → Res) (s2 : St) (cont : St → Res) : Res :=
  if pre then
    match r () with
    | .ok s3 => cont s3
    | e => e
  else cont s2

def resolve (w : World) : Nat → Loc → Obj → St → Res
  | 0, _, _, _ => .outOfFuel
  | fuel + 1, cx, o, s =>
    match w.node o with
    | none => .err none s
    | some n =>
      if n.empty then .err (some n.kind) s else
      match n.ref with
      | none => markDone o (foldRes (fun k s => resolve w fuel cx k s) n.kids s)
      | some t =>
        if (getC w s o).isSome then markDone o (.ok s)
        else if s.inprog.contains (key n.kind t) then
          markDone o (.ok { s with pending := s.pending ++ [(key n.kind t, o)], nback := s.nback + 1 })
        else
          let s1 := { s with inprog := s.inprog ++ [key n.kind t], foreign := s.foreign || (cx != n.home) }
          -- resolveRefAndDocument → loadFromURIInternal → ResolveRefsIn of a document seen for the first time
          match loadDoc w (fun l k s => resolve w fuel l k s) (w.docOf cx t) s1 with
          | .ok s2 =>
            if w.emptyTarget cx t n.kind then markDone o (.ok { s2 with nempty := s2.nempty + 1 }) else
            match w.target cx t n.kind with
            | none => .err none s2                                     -- dangling
            | some (cx', tgt) =>
              match w.node tgt with
              | none => .err none s2
              | some tn =>
                if tn.kind ≠ n.kind then .err none s2                -- wrong kind ("bad data in …")
                else if tn.empty then .err none s2                   -- a nil pointer: drill error
                else
                  let frag := w.fragment cx t n.kind
                  let isPI := decide (n.kind = Kind.pathItem)
                  -- the recursive call: fragment branch of the nine component routines always; path items (both
                  -- branches) only when the copy / the loaded file is itself a reference
                  let pre := if isPI then tn.ref.isSome else frag
                  -- the children of the value are walked in the referring context by the fragment branch of the
                  -- nine component routines, in the target's context otherwise
                  let wcx := if frag && !isPI then cx else cx'
                  preResolve pre (fun _ => resolve w fuel cx' tgt s2) s2 (fun s3 =>
                    markDone o (finish w (fun k s => resolve w fuel wcx k s) (key n.kind t) t (some (cx', tgt)) o
                      (valueOf w tgt s3) s3))
          | e => e

/-- `LoadFromFile` / `LoadFromDataWithPath` on a fresh Loader: the root document is registered, then walked -/
def load (w : World) (fuel : Nat) (root : Loc) : Res :=
  foldRes (fun k s => resolve w fuel root k s) (w.roots root) { docs := [root] }

/-! ### One Loader, several loads -/

/-- an entry point of the Loader as a load uses it -/
structure Entry where
  root    : Loc
  /-- the root document has a location: it goes through `loadFromDataWithPathInternal` (documents cache) -/
  located : Bool := true
  /-- the entry point calls `resetVisitedPathItemRefs()` first (all of them do: table `Gen.loaderEntries`) -/
  resets  : Bool := true

/-- `resetVisitedPathItemRefs()`: what a load starts with — the in-progress set, the backtrack table and (c555d93) the
    documents cache are emptied; the documents are read and decoded anew, so nothing of the objects of an earlier load
    takes part either -/
def St.reset (_ : St) : St := {}

/-- … and what it would start with without the reset -/
def St.noReset (s : St) : St := { value := s.value, docs := s.docs, inprog := s.inprog, pending := s.pending }

def loadEntry (w : World) (fuel : Nat) (e : Entry) (s : St) : Res :=
  let s0 := if e.resets then s.reset else s.noReset
  if e.located then
    -- loadFromDataWithPathInternal: a root that is in the cache is returned as it is
    if s0.docs.contains e.root then .ok s0
    else foldRes (fun k s => resolve w fuel e.root k s) (w.roots e.root) { s0 with docs := s0.docs ++ [e.root] }
  else foldRes (fun k s => resolve w fuel e.root k s) (w.roots e.root) s0

/-- the loads of a history, each from the state the previous one left (whether it returned a document or an error) -/
def loadSeq (w : World) (fuel : Nat) : List Entry → St → List Res
  | [], _ => []
  | e :: es, s =>
    match loadEntry w fuel e s with
    | .outOfFuel => [.outOfFuel]
    | r => r :: loadSeq w fuel es ((r.st?).getD s)

/-! ### Specification -/
/-- what a reference object stands for: follow the text from the context it is written in (`home`), check
    the kind of every hop, follow chains; a chain that does not end within the fuel designates nothing -/
def designates (w : World) : Nat → Obj → Option Obj
  | 0, _ => none
  | fuel + 1, o =>
    match w.node o with
    | none => none
    | some n =>
      match n.ref with
      | none => if n.empty then none else some o
      | some t =>
        match w.target n.home t n.kind with
        | none => none
        | some (_, tgt) =>
          match w.node tgt with
          | none => none
          | some tn => if tn.kind = n.kind then designates w fuel tgt else none

/-- #29, the static condition: within one load a reference text designates the same target from every home it is
    written in. (The theorems use the weaker per-run flag `tclash`; a world with this property never raises it.) -/
def TextIsGlobal (w : World) : Prop :=
  ∀ a b na nb t, w.node a = some na → w.node b = some nb → na.ref = some t → nb.ref = some t →
    na.kind = nb.kind → w.target na.home t na.kind = w.target nb.home t nb.kind

/-- well-formedness of copies: a copy carries the reference, kind and home of its original -/
def CopyOK (w : World) : Prop :=
  ∀ c n r, w.node c = some n → n.orig = some r →
    ∃ nr, w.node r = some nr ∧ nr.ref = n.ref ∧ nr.kind = n.kind ∧ nr.home = n.home

/-- recorded values are right -/
def Good (w : World) (s : St) : Prop := ∀ o v, (o, v) ∈ s.value → ∃ f, designates w f o = some v

/-- a pending entry is a reference object carrying exactly the kind and text of the key it waits under -/
def PendingOK (w : World) (s : St) : Prop :=
  ∀ kt m, (kt, m) ∈ s.pending → ∃ n t, w.node m = some n ∧ n.ref = some t ∧ kt = key n.kind t

/-- the objects the loaded document graph consists of: the root positions, the children of reached values,
    and the value a reached reference was given -/
inductive Reach (w : World) (s : St) (root : Loc) : Obj → Prop
  | root {o} : o ∈ w.roots root → Reach w s root o
  | kid {o k n} : Reach w s root o → w.node o = some n → n.ref = none → k ∈ n.kids → Reach w s root k
  | val {o v} : Reach w s root o → s.get o = some v → Reach w s root v

end KinModel.Loader
