/-
C02 — abstract model of `openapi3.Loader` reference resolution (openapi3/loader.go) and its specification.

The store is a family of node tables, one per location (`Loc`, a file or URL as the loader spells it).
A node is one object at a reference-capable position (`*HeaderRef`, …, `*PathItem`): either a reference
(`ref = some text`) or a value with child positions. `kids` are the child positions the resolver of that
kind walks (in the order of the Go code); `skipped` are the reference-capable child positions that no
resolver ever visits (DESIGN §7 #13).

`World.target loc text` is the ONE-STEP meaning of a reference text written in `loc`. The concrete layer
(`LoaderJson.lean`) instantiates it twice: with the loader's own path joining + typed drill-down
(`stepGo`, the model) and with RFC 3986 resolution + RFC 6901 pointer in the raw JSON (`stepSpec`, the
specification). Everything in this file is parametric in it.

`resolve` follows the ten `resolve*Ref` routines (they share one skeleton — checked by the generated
table `Gen.resolverSkeleton`):
  * `component.Value != nil`           → nothing to do,
  * `shouldVisitRef` false (the reference TEXT is in `visitedRefs`) → a backtrack callback is registered,
  * `visitRef`; `resolveRefAndDocument` loads and WALKS the referenced document the first time it is
    seen (`visitedDocuments`), with the current in-progress set,
  * drill-down to the target, type check of the target (wrong kind → error),
  * recursive resolve of the target in ITS OWN location,
  * `unvisitRef`: with a non-nil value the callbacks registered under this TEXT are run — the type
    assertion inside a callback of another kind panics (#12); with a nil value they are dropped (#34),
  * a value node: walk of the children.
Path items have no recursive call on the target (`resolvePathItemRef` copies the target struct): a
target that is itself an unresolved reference leaves the path item empty.
Fuel measures nesting depth only (`foldRes` iterates siblings with the same fuel).
-/
namespace KinModel.Loader

inductive Kind
  | header | parameter | requestBody | response | schema | securityScheme | example | callback | link | pathItem
  deriving DecidableEq, Repr

abbrev Loc := Nat
abbrev Text := Nat
abbrev Id := Loc × Nat

structure Node where
  kind    : Kind
  ref     : Option Text
  kids    : List Nat := []
  skipped : List Nat := []
  deriving Repr

structure World where
  files  : Loc → List Node
  /-- top-level positions of the document at `loc` in the order `ResolveRefsIn` walks them -/
  roots  : Loc → List Nat
  /-- the document that `resolveRefAndDocument` loads for this reference (external `file#/frag` only) -/
  docOf  : Loc → Text → Option Loc
  target : Loc → Text → Option Id

def World.node (w : World) (i : Id) : Option Node := (w.files i.1)[i.2]?

structure St where
  value   : List (Id × Id) := []     -- reference node ↦ the value node it was given
  inprog  : List Text := []          -- visitedRefs (keyed by TEXT)
  pending : List (Text × Id) := []   -- backtrack callbacks
  docs    : List Loc := []           -- visitedDocuments
  deriving Repr

def St.get (s : St) (i : Id) : Option Id := (s.value.find? (·.1 = i)).map (·.2)

inductive Res
  | ok (s : St)
  | err            -- load error
  | panic          -- interface-conversion panic inside a backtrack callback
  | outOfFuel
  deriving Repr

def Res.isOk : Res → Bool | .ok _ => true | _ => false

def foldRes (f : Nat → St → Res) : List Nat → St → Res
  | [], s => .ok s
  | k :: ks, s => match f k s with
    | .ok s' => foldRes f ks s'
    | e => e

/-- what `component.Value` is after the target has been processed -/
def valueOf (w : World) (tgt : Id) (s : St) : Option Id :=
  match (w.node tgt).bind (·.ref) with
  | none => some tgt
  | some _ => s.get tgt

def kindOf (w : World) (i : Id) : Option Kind := (w.node i).map (·.kind)

/-- `unvisitRef(ref, value)` -/
def unvisit (w : World) (k : Kind) (t : Text) (i : Id) (v : Option Id) (s : St) : Res :=
  match v with
  | none => .ok { s with inprog := s.inprog.erase t, pending := s.pending.filter (·.1 ≠ t) }
  | some v =>
    let mine := s.pending.filter (·.1 = t)
    if mine.any (fun p => kindOf w p.2 != some k) then .panic
    else .ok { s with value := s.value ++ [(i, v)] ++ mine.map (fun p => (p.2, v)),
                      inprog := s.inprog.erase t,
                      pending := s.pending.filter (·.1 ≠ t) }

/-- `loadFromDataWithPathInternal`: a document not yet in `visitedDocuments` is registered and walked -/
def loadDoc (w : World) (rs : Loc → Nat → St → Res) (d : Option Loc) (s : St) : Res :=
  match d with
  | none => .ok s
  | some l =>
    if s.docs.contains l then .ok s
    else foldRes (rs l) (w.roots l) { s with docs := s.docs ++ [l] }

def resolve (w : World) : Nat → Id → St → Res
  | 0, _, _ => .outOfFuel
  | fuel + 1, i, s =>
    match w.node i with
    | none => .err
    | some n =>
      match n.ref with
      | none => foldRes (fun k s => resolve w fuel (i.1, k) s) n.kids s
      | some t =>
        if (s.get i).isSome then .ok s
        else if s.inprog.contains t then .ok { s with pending := s.pending ++ [(t, i)] }
        else
          let s1 := { s with inprog := s.inprog ++ [t] }
          -- resolveRefAndDocument → loadFromURIInternal → ResolveRefsIn of a document seen for the first time
          match loadDoc w (fun l k s => resolve w fuel (l, k) s) (w.docOf i.1 t) s1 with
          | .ok s2 =>
            match w.target i.1 t with
            | none => .err                                       -- dangling
            | some tgt =>
              match w.node tgt with
              | none => .err
              | some tn =>
                if tn.kind ≠ n.kind then .err                    -- wrong kind ("bad data in …")
                else if n.kind = Kind.pathItem ∧ tn.ref.isSome then
                  -- resolvePathItemRef: struct copy, no recursive resolution of the target
                  unvisit w n.kind t i (s2.get tgt) s2
                else
                  match resolve w fuel tgt s2 with
                  | .ok s3 => unvisit w n.kind t i (valueOf w tgt s3) s3
                  | e => e
          | e => e

/-- `LoadFromFile` / `LoadFromDataWithPath`: the root document is registered, then walked -/
def load (w : World) (fuel : Nat) (root : Loc) : Res :=
  foldRes (fun k s => resolve w fuel (root, k) s) (w.roots root) { docs := [root] }

/-! ### Specification -/

/-- what a reference node stands for: follow the text from the location it is written in, check the
    kind of every hop, follow chains; a chain that does not end within the fuel designates nothing -/
def designates (w : World) : Nat → Id → Option Id
  | 0, _ => none
  | fuel + 1, i =>
    match w.node i with
    | none => none
    | some n =>
      match n.ref with
      | none => some i
      | some t =>
        match w.target i.1 t with
        | none => none
        | some tgt =>
          match w.node tgt with
          | none => none
          | some tn => if tn.kind = n.kind then designates w fuel tgt else none

/-- #29: within one load a reference text designates the same target from every location it is written in -/
def TextIsGlobal (w : World) : Prop := ∀ l l' t, w.target l t = w.target l' t

/-- #12: a reference text is used by reference nodes of one kind only -/
def NoKindClash (w : World) : Prop :=
  ∀ a b na nb t, w.node a = some na → w.node b = some nb → na.ref = some t → nb.ref = some t → na.kind = nb.kind

/-- recorded values are right -/
def Good (w : World) (s : St) : Prop := ∀ i v, (i, v) ∈ s.value → ∃ f, designates w f i = some v

/-- a pending entry is a reference node carrying exactly the text it waits for -/
def PendingOK (w : World) (s : St) : Prop :=
  ∀ t m, (t, m) ∈ s.pending → ∃ n, w.node m = some n ∧ n.ref = some t

end KinModel.Loader
