/-
C02 — abstract model of `openapi3.Loader` reference resolution (openapi3/loader.go) and its specification.

Objects (`Obj`) are the Go objects at reference-capable positions (`*HeaderRef`, …, `*PathItem`): either a
reference (`ref = some text`) or a value with child positions. `kids` are the child positions the resolver
of that kind walks (in the order of the Go code; since cbb0d05 every reference-capable position is walked).
`home` is the context the object is written in.

A context (`Loc`) is the pair `(doc, documentPath)` a resolver runs with. The loader passes it along as
parameters, it is NOT a function of the object: after `component.Value = resolved.Value` every resolver
walks the children of the value once more with the REFERRING context, and `loadSingleElementFromURI`
switches `documentPath` but not `doc`. The model therefore takes the context as a parameter of `resolve`
and records (`foreign`) whether a reference was ever evaluated in a context other than its home.

`World.target cx text k` is the ONE-STEP meaning of a reference text evaluated in context `cx`: the context
to continue in and the target object. The concrete layer (`LoaderJson.lean`) instantiates it with the
loader's own path joining + typed drill-down (`stepGo`); the specification side follows RFC 3986 +
RFC 6901 in the raw JSON (`stepSpec`). Everything in this file is parametric in it.

`resolve` follows the ten `resolve*Ref` routines (one skeleton, checked against the generated table
`Gen.resolverSkeleton` statement by statement):
  * `component.Value != nil`           → nothing to do,
  * `shouldVisitRef` false (the reference TEXT is in `visitedRefs`) → a backtrack callback is registered,
  * `visitRef`; `resolveRefAndDocument` loads and WALKS the referenced document the first time it is
    seen (`visitedDocuments`), with the current in-progress set,
  * an empty target (`errMUST…` swallowed, no `unvisitRef`: the text STAYS in `visitedRefs`), drill-down,
    type check (wrong kind → error; a nil pointer on the way → error since 25200f7),
  * recursive resolve of the target (a local copy when the target is itself a reference) in ITS context —
    since 9b25d89 for path items too (`if resolved.Ref != ""`),
  * `component.Value = …`, then the second walk of the value's children: in the REFERRING context for the
    nine component kinds (`doc, componentPath, err :=` are locals of the else-block), in the TARGET's context
    for path items (`doc, documentPath, err =` overwrites the parameters),
  * deferred `unvisitRef`: with a non-nil value the callbacks registered under this TEXT are run — a callback
    of another kind leaves its component unresolved (ok-checked type assertion since a04fe6c; counted in
    `nskip`); with a nil value they are dropped (#34; counted in `nnil`).
Fuel measures nesting depth only (`foldRes` iterates siblings with the same fuel); `Lemmas/C02Term.lean`
proves an explicit bound under which `outOfFuel` cannot occur.
-/
namespace KinModel.Loader

inductive Kind
  | header | parameter | requestBody | response | schema | securityScheme | example | callback | link | pathItem
  deriving DecidableEq, Repr

abbrev Loc := Nat
abbrev Text := Nat
abbrev Obj := Nat

structure Node where
  kind    : Kind
  ref     : Option Text
  kids    : List Obj := []
  home    : Loc := 0
  /-- set on the local copy `resolved` that a resolver makes of a target that is itself a reference:
      the copy is taken when the target is reached, with whatever value the original has by then -/
  orig    : Option Obj := none
  deriving Repr

structure World where
  nodes  : List Node
  /-- top-level positions of the document of context `loc` in the order `ResolveRefsIn` walks them -/
  roots  : Loc → List Obj
  /-- the document context that `resolveRefAndDocument` loads for this reference (external `file#/frag` only) -/
  docOf  : Loc → Text → Option Loc
  /-- one-step meaning of a reference text evaluated in context `cx`, expected as an object of kind `k`
      (the kind only matters for whole-file and untyped targets, which are decoded as that kind):
      the context to continue in, and the target object -/
  target : Loc → Text → Kind → Option (Loc × Obj)
  /-- the resolver of a component kind walks the children of the value a second time in the referring
      context (fragment references; a whole-file load sets the value and walks it once) -/
  rewalk : Loc → Text → Kind → Bool := fun _ _ _ => true
  /-- the drill-down yields an EMPTY component (no `$ref`, no value — the fragment `#` of a document
      without extensions): `errMUST…` is swallowed and the routine returns before `unvisitRef` is deferred -/
  emptyTarget : Loc → Text → Kind → Bool := fun _ _ _ => false

def World.node (w : World) (o : Obj) : Option Node := w.nodes[o]?

structure St where
  value   : List (Obj × Obj) := []    -- reference object ↦ the value object it was given
  inprog  : List Text := []           -- visitedRefs (keyed by TEXT)
  pending : List (Text × Obj) := []   -- backtrack callbacks
  docs    : List Loc := []            -- visitedDocuments
  foreign : Bool := false             -- some reference was evaluated in a context that is not its home
  tclash  : Bool := false             -- some callback fired for a reference whose own one-step target differs from the visitor's (#29)
  done    : List Obj := []            -- objects whose resolver call has returned nil (instrumentation only)
  nback   : Nat := 0                  -- callbacks ever registered (instrumentation only)
  nnil    : Nat := 0                  -- `unvisitRef` calls with a nil value (instrumentation only)
  nskip   : Nat := 0                  -- callbacks that found a value of another kind and returned (instrumentation only)
  nempty  : Nat := 0                  -- swallowed `errMUST…`: returns without `unvisitRef` (instrumentation only)
  deriving Repr

def St.get (s : St) (o : Obj) : Option Obj := (s.value.find? (·.1 = o)).map (·.2)

/-- the two event flags of a run (kept in errors for classification only) -/
structure Flags where
  foreign : Bool
  tclash  : Bool
  deriving Repr

def St.flags (s : St) : Flags := ⟨s.foreign, s.tclash⟩

inductive Res
  | ok (s : St)
  | err (fl : Flags)         -- load error (with the event flags at that moment, for classification only)
  | outOfFuel
  deriving Repr

def Res.isOk : Res → Bool | .ok _ => true | _ => false

def foldRes (f : Nat → St → Res) : List Nat → St → Res
  | [], s => .ok s
  | k :: ks, s => match f k s with
    | .ok s' => foldRes f ks s'
    | e => e

/-- `Value` of an object as a resolver sees it: its own, or (a copy) the one its original had when copied -/
def getC (w : World) (s : St) (o : Obj) : Option Obj :=
  match s.get o with
  | some v => some v
  | none => ((w.node o).bind (·.orig)).bind s.get

/-- what `component.Value` is after the target has been processed -/
def valueOf (w : World) (tgt : Obj) (s : St) : Option Obj :=
  match (w.node tgt).bind (·.ref) with
  | none => some tgt
  | some _ => getC w s tgt

def kindOf (w : World) (o : Obj) : Option Kind := (w.node o).map (·.kind)

/-- the one-step target of a reference object evaluated where it is written -/
def homeTarget (w : World) (t : Text) (m : Obj) : Option (Loc × Obj) :=
  (w.node m).bind (fun nm => w.target nm.home t nm.kind)

/-- `unvisitRef(ref, value)`: the callbacks registered under the text run when the value is non-nil; a
    callback registered by a resolver of another kind returns without doing anything. `tg` is the visitor's own
    one-step target: `tclash` records that a callback fired for a reference which, read where it is written, goes
    somewhere else (the table is keyed by the text alone, #29). -/
def unvisit (w : World) (k : Kind) (t : Text) (tg : Option (Loc × Obj)) (v : Option Obj) (s : St) : Res :=
  match v with
  | none => .ok { s with inprog := s.inprog.erase t, pending := s.pending.filter (·.1 ≠ t), nnil := s.nnil + 1 }
  | some v =>
    let mine := s.pending.filter (·.1 = t)
    let fit := mine.filter (fun p => kindOf w p.2 == some k)
    .ok { s with value := s.value ++ fit.map (fun p => (p.2, v)),
                 inprog := s.inprog.erase t,
                 pending := s.pending.filter (·.1 ≠ t),
                 tclash := s.tclash || fit.any (fun p => homeTarget w t p.2 != tg),
                 nskip := s.nskip + (mine.length - fit.length) }

/-- `loadFromDataWithPathInternal`: a document not yet in `visitedDocuments` is registered and walked -/
def loadDoc (w : World) (rs : Loc → Nat → St → Res) (d : Option Loc) (s : St) : Res :=
  match d with
  | none => .ok s
  | some l =>
    if s.docs.contains l then .ok s
    else foldRes (rs l) (w.roots l) { s with docs := s.docs ++ [l] }

/-- `component.Value = value`, the second walk of the value's children (`rw`; `rs` runs in the context the
    routine continues with), then the deferred `unvisitRef` -/
def finish (w : World) (rs : Nat → St → Res) (k : Kind) (t : Text) (tg : Option (Loc × Obj)) (o : Obj) (rw : Bool) (v : Option Obj) (s : St) : Res :=
  match v with
  | none => unvisit w k t tg none s
  | some v =>
    let s1 := { s with value := s.value ++ [(o, v)] }
    let kids := if rw then ((w.node v).map (·.kids)).getD [] else []
    match foldRes rs kids s1 with
    | .ok s2 => unvisit w k t tg (some v) s2
    | e => e

/-- the resolver call on `o` returned nil -/
def markDone (o : Obj) : Res → Res
  | .ok s => .ok { s with done := s.done ++ [o] }
  | e => e

def resolve (w : World) : Nat → Loc → Obj → St → Res
  | 0, _, _, _ => .outOfFuel
  | fuel + 1, cx, o, s =>
    match w.node o with
    | none => .err s.flags
    | some n =>
      match n.ref with
      | none => markDone o (foldRes (fun k s => resolve w fuel cx k s) n.kids s)
      | some t =>
        if (getC w s o).isSome then markDone o (.ok s)
        else if s.inprog.contains t then markDone o (.ok { s with pending := s.pending ++ [(t, o)], nback := s.nback + 1 })
        else
          let s1 := { s with inprog := s.inprog ++ [t], foreign := s.foreign || (cx != n.home) }
          -- resolveRefAndDocument → loadFromURIInternal → ResolveRefsIn of a document seen for the first time
          match loadDoc w (fun l k s => resolve w fuel l k s) (w.docOf cx t) s1 with
          | .ok s2 =>
            if w.emptyTarget cx t n.kind then markDone o (.ok { s2 with nempty := s2.nempty + 1 }) else
            match w.target cx t n.kind with
            | none => .err s2.flags                                     -- dangling
            | some (cx', tgt) =>
              match w.node tgt with
              | none => .err s2.flags
              | some tn =>
                if tn.kind ≠ n.kind then .err s2.flags                -- wrong kind ("bad data in …")
                else
                  match resolve w fuel cx' tgt s2 with
                  | .ok s3 =>
                    -- path items: `doc, documentPath, err = resolveComponent(…)` — the rest of the routine runs
                    -- in the target's context; the copy is resolved only `if resolved.Ref != ""`
                    let wcx := if n.kind = Kind.pathItem then cx' else cx
                    let rw := if n.kind = Kind.pathItem then tn.ref.isSome else w.rewalk cx t n.kind
                    markDone o (finish w (fun k s => resolve w fuel wcx k s) n.kind t (some (cx', tgt)) o rw (valueOf w tgt s3) s3)
                  | e => e
          | e => e

/-- `LoadFromFile` / `LoadFromDataWithPath`: the root document is registered, then walked -/
def load (w : World) (fuel : Nat) (root : Loc) : Res :=
  foldRes (fun k s => resolve w fuel root k s) (w.roots root) { docs := [root] }

/-! ### Specification -/

/-- what a reference object stands for: follow the text from the context it is written in (`home`), check
    the kind of every hop, follow chains; a chain that does not end within the fuel designates nothing -/
def designates (w : World) : Nat → Obj → Option Obj
  | 0, _ => none
  | fuel + 1, o =>
    match w.node o with
    | none => none
    | some n =>
      match n.ref with
      | none => some o
      | some t =>
        match w.target n.home t n.kind with
        | none => none
        | some (_, tgt) =>
          match w.node tgt with
          | none => none
          | some tn => if tn.kind = n.kind then designates w fuel tgt else none

/-- #29, the static condition: within one load a reference text designates the same target from every home it is
    written in. (The theorems use the weaker per-run flag `tclash`; a world with this property never raises it.) -/
def TextIsGlobal (w : World) : Prop :=
  ∀ a b na nb t, w.node a = some na → w.node b = some nb → na.ref = some t → nb.ref = some t →
    na.kind = nb.kind → w.target na.home t na.kind = w.target nb.home t nb.kind

/-- a reference text is used by reference objects of one kind only -/
def NoKindClash (w : World) : Prop :=
  ∀ a b na nb t, w.node a = some na → w.node b = some nb → na.ref = some t → nb.ref = some t → na.kind = nb.kind

/-- well-formedness of copies: a copy carries the reference, kind and home of its original -/
def CopyOK (w : World) : Prop :=
  ∀ c n r, w.node c = some n → n.orig = some r →
    ∃ nr, w.node r = some nr ∧ nr.ref = n.ref ∧ nr.kind = n.kind ∧ nr.home = n.home

/-- recorded values are right -/
def Good (w : World) (s : St) : Prop := ∀ o v, (o, v) ∈ s.value → ∃ f, designates w f o = some v

/-- a pending entry is a reference object carrying exactly the text it waits for -/
def PendingOK (w : World) (s : St) : Prop :=
  ∀ t m, (t, m) ∈ s.pending → ∃ n, w.node m = some n ∧ n.ref = some t

/-- the objects the loaded document graph consists of: the root positions, the children of reached values,
    and the value a reached reference was given -/
inductive Reach (w : World) (s : St) (root : Loc) : Obj → Prop
  | root {o} : o ∈ w.roots root → Reach w s root o
  | kid {o k n} : Reach w s root o → w.node o = some n → n.ref = none → k ∈ n.kids → Reach w s root k
  | val {o v} : Reach w s root o → s.get o = some v → Reach w s root v

end KinModel.Loader
