/-
C02 — histories of loads on ONE Loader over a store that CHANGES between the loads (round 5).

`Loader.loadSeq` keeps one `World` for the whole history. Here every load brings its own world (the files as they
are when that load is made) and its own fuel (the bound of `load_terminates` depends on the world). The loader state
`St` speaks of objects by index and of reference texts by number only, so a state left by a load in one world is a
well-typed start state for a load in another one — which is exactly the situation of the real Loader, whose
in-progress set, backtrack table and documents cache survive in the struct while the files on disk are edited.
Core-only.
-/
import KinModel.Loader
namespace KinModel.Loader

/-- one load of a history: the store as it is at that moment, the fuel for it, the entry point -/
structure LoadW where
  w    : World
  fuel : Nat
  e    : Entry

/-- the loads of a history over a changing store, each from the state the previous one left -/
def loadSeqW : List LoadW → St → List Res
  | [], _ => []
  | l :: ls, s =>
    match loadEntry l.w l.fuel l.e s with
    | .outOfFuel => [.outOfFuel]
    | r => r :: loadSeqW ls ((r.st?).getD s)

/-- a history over an unchanged store is the special case -/
theorem loadSeq_eq_loadSeqW (w : World) (fuel : Nat) :
    ∀ (es : List Entry) (s : St), loadSeq w fuel es s = loadSeqW (es.map (fun e => ⟨w, fuel, e⟩)) s
  | [], _ => by simp [loadSeq, loadSeqW]
  | e :: es, s => by
    unfold loadSeq
    simp only [List.map_cons]
    unfold loadSeqW
    cases hl : loadEntry w fuel e s with
    | outOfFuel => rfl
    | ok s1 => simp only; rw [loadSeq_eq_loadSeqW w fuel es]
    | err k s1 => simp only; rw [loadSeq_eq_loadSeqW w fuel es]

end KinModel.Loader
