/-
C10 — the panic-site table: shape of the regenerated rows (`KinModel/Gen/PanicSites.lean`, written by
`go/cmd/extract/panicsites.go` on every run), the hand-written expectations that discharge the rows the
extractor could not discharge syntactically, and the decision procedure `allDischarged`.

A row is a *group*: all potentially panicking operations of one kind, with one syntactic guard, inside one
function that is statically reachable from the traffic entry points. `count` is the number of individual
operations in the group; an expectation names the same (file, function, kind) **and the same count**, so a
new unguarded operation in an already-listed function changes the count and breaks the obligation, exactly
like a new function does.
-/
namespace KinModel.PanicSites

inductive Kind
  | derefOptScalar      -- *x, x a pointer to a basic type (optional scalar field)
  | derefRefValue       -- y.Value.f where y is a *…Ref
  | derefOptStruct      -- y.g.f through a pointer field g of a repository struct
  | typeAssert          -- x.(T)
  | index               -- x[i], x[i:j] on slice / string / array
  | explicitPanic       -- panic(…)
  | bigFloat            -- big.NewFloat(x) (panics on NaN)
  | intDiv              -- integer / or % by a non-constant
  | nilMapWrite         -- m[k] = v where m is a field, a parameter or a call result (not a map made in the function)
  | nilFuncCall         -- a call through a func-typed struct field or package-level variable
  deriving DecidableEq, Repr

/-- what the extractor read syntactically -/
inductive Guard
  | none
  | nilCheck            -- enclosing condition / `&&` left operand / `== nil ||` / earlier early-return on the same expression
  | lenCheck            -- dominated by a length test, a range index of the same expression, or a checked index variable
  | commaOk             -- v, ok := x.(T)
  | apiInput            -- the pointer is a field of an API input struct (Request, Route, …Input): caller contract (DESIGN §8.1)
  deriving DecidableEq, Repr

inductive Row
  | site (file fn : String) (kind : Kind) (guard : Guard) (count : Nat) (exprs : List String)
  | unrecognised (what : String)
  deriving Repr

/-- how a row without a syntactic guard is discharged by hand -/
inductive Why
  | invariant (lemma_ : String)        -- a proved lemma of the model (named; lives in Props/C10.lean or next to the model)
  | refsResolved                        -- `.Value` of a reference the document gate has resolved (C04 corollary `RefsResolved`)
  | libraryContract (what : String)     -- documented behaviour of a trusted library (strconv, regexp, sort)
  | unreachable (why : String)          -- not on the traffic path for well-formed API inputs (registration time, marshal of own data)
  | knownFinding (id : String)          -- genuinely undischarged: an open finding (listed in known_findings.d/C10.json)
  deriving DecidableEq, Repr

structure Expect where
  file  : String
  fn    : String
  kind  : Kind
  count : Nat
  why   : Why
  deriving Repr

/-- which hand-written reasons are acceptable for which kind -/
def Why.fits : Why → Kind → Bool
  | .refsResolved, .derefRefValue => true
  | .refsResolved, .derefOptStruct => true      -- a chain that ends in `.Value` of a resolved reference
  | .refsResolved, _ => false
  | .invariant _, _ => true
  | .libraryContract _, .typeAssert => true
  | .libraryContract _, .index => true
  | .libraryContract _, .nilMapWrite => true
  | .libraryContract _, _ => false
  | .unreachable _, .explicitPanic => true
  | .unreachable _, _ => false
  | .knownFinding _, _ => true

def Expect.covers (e : Expect) (file fn : String) (kind : Kind) (count : Nat) : Bool :=
  e.kind == kind && e.count == count && e.fn == fn && e.file == file && e.why.fits kind

def Row.discharged (exp : List Expect) : Row → Bool
  | .unrecognised _ => false
  | .site file fn kind guard count _ =>
    match guard with
    | .none => exp.any (fun e => e.covers file fn kind count)
    | .nilCheck => kind == .derefOptScalar || kind == .derefRefValue || kind == .derefOptStruct ||
                   kind == .nilMapWrite || kind == .nilFuncCall
    | .lenCheck => kind == .index
    | .commaOk => kind == .typeAssert
    | .apiInput => kind == .derefOptStruct || kind == .derefRefValue

def allDischarged (exp : List Expect) (rows : List Row) : Bool := rows.all (·.discharged exp)

def recognised : Row → Bool
  | .unrecognised _ => false
  | .site .. => true

/-- rows that are discharged only as an open finding -/
def openFindingRows (exp : List Expect) (rows : List Row) : List (String × String) :=
  rows.filterMap fun
    | .site file fn kind .none count _ =>
      (exp.find? (fun e => e.covers file fn kind count)).bind fun e =>
        match e.why with | .knownFinding id => some (fn, id) | _ => none
    | _ => none

/-- an expectation no row needs any more is stale (the code it described is gone or is guarded now) -/
def Expect.used (e : Expect) (rows : List Row) : Bool :=
  rows.any fun
    | .site file fn kind .none count _ => e.covers file fn kind count
    | _ => false

def allUsed (exp : List Expect) (rows : List Row) : Bool := exp.all (·.used rows)

/-- general lemma lifting the decided table fact to every row -/
theorem discharged_of_all {exp : List Expect} {rows : List Row} (h : allDischarged exp rows = true) :
    ∀ r ∈ rows, r.discharged exp = true := by
  intro r hr
  exact (List.all_eq_true.mp h) r hr

theorem recognised_of_discharged {exp : List Expect} {r : Row} (h : r.discharged exp = true) :
    recognised r = true := by
  cases r with
  | unrecognised w => simp [Row.discharged] at h
  | site => rfl

/-! ## The hand-written expectations (one per unguarded group of the table on the current tree) -/

def expectations : List Expect := [
  -- routers
  ⟨"gorillamux/router.go", "Router.FindRoute", .index, 1,
     .invariant "r.routes and r.muxes are appended together in NewRouter; i ranges over r.muxes"⟩,
  ⟨"gorillamux/router.go", "makeServers", .index, 2,
     .libraryContract "serverURL[lhs+2:] after lhs = Index(url, \":{\") > 0; submatch[1] of a one-group regexp that matched (rest[:rhs] is guarded since a0fa632: Router.gorillaPortBranch_no_panic)"⟩,
  ⟨"gorillamux/router.go", "newSrv", .index, 2,
     .libraryContract "strings.Split returns at least one element; permutePart returns a non-empty list (Router.permute_nonempty)"⟩,
  ⟨"gorillamux/router.go", "permutePart", .intDiv, 1,
     .invariant "mas.s holds the default value: len ≥ 1 (every variable contributes {Default})"⟩,
  ⟨"legacy/router.go", "Router.FindRoute", .index, 2,
     .invariant "one value per variable: ParameterNames/MatchRawURL and pathpattern tokens; node != nil on this path since 8654816 (Router.legacyAfterServer_no_panic)"⟩,
  ⟨"legacy/router.go", "Routers.FindRoute", .derefOptStruct, 2,
     .invariant "routers built by NewRouter carry a non-nil doc"⟩,
  ⟨"openapi3/path_item.go", "PathItem.GetOperation", .explicitPanic, 1,
     .invariant "MuxMatchedMethod: Router.gorilla_getOperation_no_panic (legacy no longer calls GetOperation)"⟩,
  ⟨"openapi3/response.go", "Responses.Status", .index, 1,
     .libraryContract "strconv.Itoa of a status ≥ 100 has ≥ 3 digits (guarded by the range test before it)"⟩,
  ⟨"openapi3/schema.go", "Schema.visitJSONNumber", .bigFloat, 2,
     .invariant "Traffic.multipleOf_guard: value is finite (NaN/Inf rejected first) and the divisor is non-zero on this path"⟩,
  ⟨"openapi3/schema.go", "Schema.visitJSONObject", .derefRefValue, 5, .refsResolved⟩,
  ⟨"openapi3/schema.go", "Schema.visitXOFOperations", .index, 1,
     .invariant "ok = 1 ⇒ exactly one index recorded"⟩,
  ⟨"openapi3/schema.go", "Types.Is", .index, 1,
     .invariant "second conjunct after len(*types) == 1 (guard is on the dereferenced slice)"⟩,
  ⟨"openapi3/server.go", "Server.MatchRawURL", .index, 1,
     .invariant "Server.matchRawURL_no_panic (input was just defaulted to \"/\" when empty)"⟩,
  ⟨"pathpattern/node.go", "Node.MustAdd", .explicitPanic, 1,
     .unreachable "Must-helper of the exported pathpattern API: panics by contract on a malformed pattern; the library itself only calls Add (legacy.NewRouter returns the error)"⟩,
  ⟨"pathpattern/node.go", "PathFromHost", .index, 3,
     .invariant "0 ≤ start < end ≤ len(host) throughout the loop: end starts at len(host) and is only ever set to start (exported helper, not called by the library)"⟩,
  ⟨"pathpattern/node.go", "SuffixList.Less", .index, 2,
     .libraryContract "sort.Interface: sort.Sort calls Less with 0 ≤ i, j < Len()"⟩,
  ⟨"pathpattern/node.go", "SuffixList.Swap", .index, 4,
     .libraryContract "sort.Interface: sort.Sort calls Swap with 0 ≤ i, j < Len()"⟩,
  -- writes into maps that are not made in the same function, calls through func-typed fields / package variables
  ⟨"gorillamux/router.go", "makeServers", .nilMapWrite, 2,
     .libraryContract "the closures are only called by FindRoute with match.Vars of a route gorilla/mux matched: mux.Route.Match allocates Vars before it sets variables"⟩,
  ⟨"openapi3/schema.go", "Schema.visitJSONArray", .nilFuncCall, 1,
     .invariant "sliceUniqueItemsChecker is reset to isSliceOfUniqueItems two lines above when it is nil (the test is on the variable, the call is in the next statement)"⟩,
  ⟨"openapi3/schema.go", "Schema.visitJSONObject", .nilMapWrite, 1,
     .invariant "value is the map[string]any the type switch of visitJSON matched: produced by encoding/json, yaml3 or a make(…) of a body / parameter decoder, never a nil map"⟩,
  ⟨"openapi3filter/middleware.go", "Validator.Middleware", .nilFuncCall, 7,
     .invariant "NewValidator installs errFunc and logFunc; OnErr / OnLog replace them with the caller's function (set-up time)"⟩,
  ⟨"openapi3filter/req_resp_decoder.go", "RegisterBodyDecoder", .nilMapWrite, 1,
     .invariant "bodyDecoders is made at package level (var bodyDecoders = make(…))"⟩,
  ⟨"openapi3filter/req_resp_encoder.go", "RegisterBodyEncoder", .nilMapWrite, 1,
     .invariant "bodyEncoders is a package-level map literal"⟩,
  ⟨"openapi3filter/req_resp_decoder.go", "decodeSchemaConstructs", .nilMapWrite, 1,
     .invariant "obj is made by its only root caller UrlencodedBodyDecoder (obj := make(map[string]any)) and passed down unchanged"⟩,
  ⟨"openapi3filter/req_resp_decoder.go", "deepSet", .nilMapWrite, 2,
     .invariant "m is makeObject's mobj := make(…) or a nested map deepSet itself created (comma-ok assertion before it descends)"⟩,
  ⟨"openapi3filter/validate_request.go", "ValidateRequestBody", .nilFuncCall, 2,
     .invariant "req.GetBody is assigned a function literal in the statement before each of the two calls"⟩,
  ⟨"openapi3filter/validate_request.go", "validateSecurityRequirement", .nilFuncCall, 2,
     .invariant "input.Request.GetBody is assigned a function literal in the statement before each of the two calls"⟩,
  ⟨"openapi3filter/validation_error_encoder.go", "ValidationErrorEncoder.Encode", .nilFuncCall, 1,
     .invariant "API input: the caller constructs ValidationErrorEncoder{Encoder: …}; a nil Encoder is a malformed value of the API's type (DESIGN §8.1)"⟩,
  ⟨"openapi3filter/validation_handler.go", "ValidationHandler.before", .nilFuncCall, 1,
     .invariant "ValidationHandler.Load installs DefaultErrorEncoder when the field is nil; before Load the router is nil as well (API misuse)"⟩,
  -- decoders
  ⟨"openapi3filter/req_resp_decoder.go", "MultipartBodyDecoder", .derefRefValue, 20, .refsResolved⟩,
  ⟨"openapi3filter/req_resp_decoder.go", "RegisterBodyDecoder", .explicitPanic, 2,
     .unreachable "registration time (init and user set-up), not traffic"⟩,
  ⟨"openapi3filter/req_resp_decoder.go", "UnregisterBodyDecoder", .explicitPanic, 1,
     .unreachable "registration time (user set-up), not traffic"⟩,
  ⟨"openapi3filter/req_resp_encoder.go", "RegisterBodyEncoder", .explicitPanic, 2,
     .unreachable "registration time (user set-up), not traffic"⟩,
  ⟨"openapi3filter/req_resp_encoder.go", "UnregisterBodyEncoder", .explicitPanic, 1,
     .unreachable "registration time (user set-up), not traffic"⟩,
  ⟨"openapi3filter/req_resp_decoder.go", "UrlencodedBodyDecoder", .derefOptStruct, 1, .refsResolved⟩,
  ⟨"openapi3filter/req_resp_decoder.go", "UrlencodedBodyDecoder", .derefRefValue, 4, .refsResolved⟩,
  ⟨"openapi3filter/req_resp_decoder.go", "buildResObj", .derefRefValue, 12, .refsResolved⟩,
  ⟨"openapi3filter/req_resp_decoder.go", "buildResObj", .index, 1,
     .invariant "resultArr is made with len(arr) and i ranges over arr"⟩,
  ⟨"openapi3filter/req_resp_decoder.go", "decodeSchemaConstructs", .derefRefValue, 4, .refsResolved⟩,
  ⟨"openapi3filter/req_resp_decoder.go", "decodeValue", .derefRefValue, 11, .refsResolved⟩,
  ⟨"openapi3filter/req_resp_decoder.go", "defaultContentParameterDecoder", .derefRefValue, 1, .refsResolved⟩,
  ⟨"openapi3filter/req_resp_decoder.go", "parseArray", .derefRefValue, 1, .refsResolved⟩,
  ⟨"openapi3filter/req_resp_decoder.go", "parsePrimitive", .derefRefValue, 1, .refsResolved⟩,
  ⟨"openapi3filter/req_resp_decoder.go", "parsePrimitiveCase", .derefRefValue, 1, .refsResolved⟩,
  ⟨"openapi3filter/req_resp_decoder.go", "parsePrimitiveCase", .typeAssert, 4,
     .libraryContract "strconv.ParseInt/ParseFloat/ParseBool return *strconv.NumError"⟩,
  ⟨"openapi3filter/req_resp_decoder.go", "urlValuesDecoder.DecodeObject", .derefRefValue, 5, .refsResolved⟩,
  ⟨"openapi3filter/req_resp_decoder.go", "urlValuesDecoder.DecodeObject", .index, 3,
     .libraryContract "every element of regexp.FindAllStringSubmatch of a pattern with one group has two entries (m[0] the match, m[1] the group); url.Values entries are non-empty"⟩,
  ⟨"openapi3filter/req_resp_decoder.go", "urlValuesDecoder.DecodePrimitive", .derefRefValue, 2, .refsResolved⟩,
  ⟨"openapi3filter/req_resp_decoder.go", "urlValuesDecoder.parseArray", .derefRefValue, 1, .refsResolved⟩,
  ⟨"openapi3filter/req_resp_decoder.go", "urlValuesDecoder.parseValue", .derefRefValue, 7, .refsResolved⟩,
  -- request / response / encoder
  ⟨"openapi3filter/validate_request.go", "ValidateParameter", .derefRefValue, 2, .refsResolved⟩,
  ⟨"openapi3filter/validate_request.go", "ValidateRequest", .derefRefValue, 1, .refsResolved⟩,
  ⟨"openapi3filter/validate_response.go", "validateResponseHeader", .derefRefValue, 6, .refsResolved⟩,
  ⟨"openapi3filter/validation_error_encoder.go", "convertSchemaError", .derefOptStruct, 2,
     .invariant "a SchemaError with SchemaField = \"enum\" is only built by visitJSON with Schema: schema (non-nil receiver)"⟩ ]

end KinModel.PanicSites
