/-
Specification side of property C09, written from the property text (not from the routers' control flow):

  * a path template is a sequence of literal characters and `{name}` variables; a template *matches* a path when
    some assignment of non-empty, slash-free values to its variables, substituted into the template, gives exactly
    the path (`Fills`);
  * a request is *under a server* when the server URL (one trailing slash ignored), with values substituted for
    its variables (non-empty, slash-free, taken from the variable's `enum` when it has one), is a prefix of the
    request URL (relative server: of the request path) that ends at a segment boundary; what follows is the
    path the templates are matched against; a document without servers is matched on the whole path;
  * the servers of a path item are its own `servers` when it declares some, otherwise the document's;
  * candidates = (template, binding, server) triples: the template matches what remains of the request after that
    server, which is one of the servers of the template's path item; a returned route must name the template, the
    binding and *that server* (`Route.Server`), so that "server base path + filled template" is the request path;
      - no candidate                       → a not-found error is required;
      - a literal candidate declaring the method → that literal route is required ("a literal path wins");
      - otherwise some candidate declaring the method → one of those routes is required ("is routed");
      - candidates, none declaring the method → an error (either kind) is required.
The functions are executable: the driver evaluates them on each concrete case as the oracle.
-/
import KinModel.Router
namespace KinModel.Router

inductive STok
  | lit (c : Char)
  | var (name : Str)
  deriving DecidableEq, Repr

/-- own template reader of the spec: `{name}` is a variable, anything else is literal -/
def sparse : Nat → Str → List STok
  | 0, _ => []
  | _ + 1, [] => []
  | f + 1, c :: cs =>
    if c = '{' then
      match takeBrace cs with
      | some (name, rest) => STok.var name :: sparse f rest
      | none => STok.lit c :: sparse f cs
    else STok.lit c :: sparse f cs

def sparseS (s : Str) : List STok := sparse (s.length + 1) s

def svarNames : List STok → List Str
  | [] => []
  | .lit _ :: r => svarNames r
  | .var n :: r => n :: svarNames r

def isLiteralT (t : Str) : Bool := svarNames (sparseS t) = []

/-- substitution of values (in variable order) into a template -/
def ssubst : List STok → List Str → Option Str
  | [], [] => some []
  | [], _ :: _ => none
  | .lit c :: ts, vs => (ssubst ts vs).map (c :: ·)
  | .var _ :: _, [] => none
  | .var _ :: ts, v :: vs => (ssubst ts vs).map (v ++ ·)

/-- a variable value the property talks about: non-empty and slash-free -/
def GoodVal (v : Str) : Prop := v ≠ [] ∧ '/' ∉ v

instance (v : Str) : Decidable (GoodVal v) := by unfold GoodVal; exact inferInstance

/-- declarative: values `vs` fill the template to give `p ++ rest`-prefix `p` … here: exactly `s` minus a remainder -/
def Fills (toks : List STok) (vs : List Str) (s rest : Str) : Prop :=
  (∀ v ∈ vs, GoodVal v) ∧ ∃ p, ssubst toks vs = some p ∧ s = p ++ rest

/-- all non-empty slash-free prefixes of `s` with what follows them -/
def splitsFrom : Str → Str → List (Str × Str)
  | _, [] => []
  | acc, c :: cs => if c = '/' then [] else (acc ++ [c], cs) :: splitsFrom (acc ++ [c]) cs

def splits (s : Str) : List (Str × Str) := splitsFrom [] s

def consVal (v : Str) (p : List Str × Str) : List Str × Str := (v :: p.1, p.2)

/-- executable twin of `Fills`: every (values, remainder) such that the template filled with the values is a prefix -/
def smatchP : List STok → Str → List (List Str × Str)
  | [], s => [([], s)]
  | .lit _ :: _, [] => []
  | .lit c :: ts, d :: s => if c = d then smatchP ts s else []
  | .var _ :: ts, s => (splits s).flatMap (fun vr => (smatchP ts vr.2).map (consVal vr.1))

def dropOneSlash (s : Str) : Str := if s.getLast? = some '/' then s.dropLast else s

def enumOK (s : Server) (names : List Str) (vals : List Str) : Bool :=
  (names.zip vals).all (fun nv =>
    match findVar nv.1 s.vars with
    | none => true
    | some v => v.enum = [] || v.enum.contains nv.2)

def isRelativeURL (u : Str) : Bool := u = [] || u.head? = some '/'

/-- the request URL as one string: scheme://host/path -/
def fullURL (r : Req) : Str := r.scheme ++ "://".toList ++ r.host ++ r.path

/-- remaining paths of a request under one server (one per way of matching) -/
def specServerRems (enforceEnum : Bool) (s : Server) (r : Req) : List Str :=
  let url := dropOneSlash s.url
  let toks := sparseS url
  let target := if isRelativeURL url then r.path else fullURL r
  (smatchP toks target).filterMap (fun br =>
    if (br.2 = [] || br.2.head? = some '/') && (!enforceEnum || enumOK s (svarNames toks) br.1)
    then some br.2 else none)

structure Cand where
  template : Str
  params   : List (Str × Str)
  declares : Bool
  server   : SrvRef
  deriving DecidableEq, Repr

/-- candidates of one path item for one remaining path, found under the server `ref` -/
def candsFor (method rem : Str) (ref : SrvRef) (pd : PathDecl) : List Cand :=
  let toks := sparseS pd.template
  (smatchP toks rem).filterMap (fun br =>
    if br.2 = [] then some ⟨pd.template, (svarNames toks).zip br.1, pd.methods.contains method, ref⟩ else none)

def tagFrom (mk : Nat → SrvRef) : Nat → List Server → List (SrvRef × Server)
  | _, [] => []
  | i, s :: rest => (mk i, s) :: tagFrom mk (i + 1) rest

/-- the servers that apply to a path item: its own `servers` when it declares some, otherwise the document's -/
def effServers (d : Doc) (pd : PathDecl) : List (SrvRef × Server) :=
  if pd.servers = [] then tagFrom SrvRef.doc 0 d.servers else tagFrom (SrvRef.path pd.template) 0 pd.servers

def specCandsPath (enforceEnum : Bool) (d : Doc) (r : Req) (pd : PathDecl) : List Cand :=
  match effServers d pd with
  | [] => candsFor r.method r.path SrvRef.none pd
  | ss => ss.flatMap (fun rs => (specServerRems enforceEnum rs.2 r).flatMap (fun rem => candsFor r.method rem rs.1 pd))

def specCands (enforceEnum : Bool) (d : Doc) (r : Req) : List Cand :=
  d.paths.flatMap (specCandsPath enforceEnum d r)

inductive Must | route | notFound | error
  deriving DecidableEq, Repr

def specOutcome (enforceEnum : Bool) (d : Doc) (r : Req) : Must × List Cand :=
  let cs := specCands enforceEnum d r
  if cs = [] then (.notFound, [])
  else
    let lits := cs.filter (fun c => isLiteralT c.template && c.declares)
    if lits ≠ [] then (.route, lits)
    else
      let ok := cs.filter (·.declares)
      if ok = [] then (.error, []) else (.route, ok)

/-- does an outcome satisfy the property on this input? (restricting returned parameters to the template's own) -/
def paramsAgree (cand : List (Str × Str)) (got : List (Str × Str)) : Bool :=
  cand.all (fun kv => got.contains kv)

def specAccepts (d : Doc) (r : Req) (o : Outcome) : Bool :=
  match specOutcome true d r, o with
  | (.notFound, _), .notFound => true
  | (.error, _), .notFound => true
  | (.error, _), .methodNotAllowed => true
  | (.route, cs), .route t m ps sv =>
    m = r.method && cs.any (fun c => c.template = t && paramsAgree c.params ps && c.server = sv)
  | _, _ => false

/-- percent-encoded requests: "the request path" of the property is read either way — escaped (values are escaped strings)
    or decoded — and an outcome is accepted when it satisfies the property under one of the two readings -/
def specAcceptsW (d : Doc) (w : Wire) (o : Outcome) : Bool := specAccepts d w.raw o || specAccepts d w.req o

/-! ## exclusion predicates (known-finding classes) -/

inductive RouterKind | legacy | gorilla
  deriving DecidableEq, Repr

def slashTail (s : Str) : Nat := (s.reverse.takeWhile (· = '/')).length

/-- finding #14 (legacy): empty variable bindings (`/b` ↦ `/b/{x}`, `//`), trailing-slash normalisation of the
    request or of the stored template, empty remaining path turned into "/" -/
def exclLegacy14 (k : RouterKind) (d : Doc) (r : Req) : Bool :=
  k = .legacy &&
  match legacyServer d r with
  | none => false
  | some (_, sp, rem) =>
    sp.any (·.2 = []) ||
    (d.servers ≠ [] && rem = ['/'] && (rawURL r).getLast? ≠ some '/') ||
    (match legacyMatch d r.method rem with
     | none => false
     | some (key, vals) => vals.any (· = []) || slashTail rem ≠ slashTail key.template)

/-- finding #33 (both routers): a server variable's `enum` is not enforced -/
def exclSrvEnum33 (d : Doc) (r : Req) : Bool := specOutcome true d r ≠ specOutcome false d r

/-- finding #40 (gorillamux): a matching route that lacks the method hides a matching route that declares it
    (what "matches" for the router: server-variable enums are not consulted, see #33) -/
def exclGorillaShadow40 (k : RouterKind) (d : Doc) (r : Req) : Bool :=
  k = .gorilla && (specCands false d r).any (fun c => !c.declares) && (specCands false d r).any (·.declares)

def varThenLiteral : List STok → Bool
  | [] => false
  | .lit _ :: r => varThenLiteral r
  | .var _ :: r =>
    (match r with | [] => false | .lit c :: _ => c != '/' | .var _ :: _ => true) || varThenLiteral r

/-- documented limitation of the legacy router: a variable followed by more text in the same segment
    (`/books/{id}.json`) takes the whole segment -/
def exclLegacyVarThenLiteral (k : RouterKind) (d : Doc) : Bool :=
  k = .legacy && d.paths.any (fun p => varThenLiteral (sparseS p.template))

/-- legacy router matches server URLs against `req.URL.String()`: an absolute server never matches a server-style
    request (path-only URL), a relative server never matches an absolute request URL -/
def exclLegacyURLForm (k : RouterKind) (d : Doc) (r : Req) : Bool :=
  k = .legacy && d.servers.any (fun s => isRelativeURL s.url = r.abs)

/-- legacy router: `Servers.MatchURL` commits to the first server whose URL pattern matches; when the remaining path
    then fits no template the other matching servers are never tried -/
def exclLegacyFirstServer (k : RouterKind) (d : Doc) (r : Req) : Bool :=
  k = .legacy &&
  (d.servers.filter (fun s => (matchRawURL (s.url.length + 1) s.url (rawURL r) []).isSome)).length > 1

def dropPathServers (d : Doc) : Doc := ⟨d.paths.map (fun p => ⟨p.template, p.methods, []⟩), d.servers⟩

/-- legacy router: path-item level `servers` are ignored (the document's servers are used for every path) -/
def exclLegacyPathServers (k : RouterKind) (d : Doc) (r : Req) : Bool :=
  k = .legacy &&
  (specOutcome true d r ≠ specOutcome true (dropPathServers d) r ||
   specOutcome false d r ≠ specOutcome false (dropPathServers d) r)   -- (the router does not consult enums either, #33)

/-- legacy router: two declared keys share a trie node (`/a` and `/a/` with a common method); which of the two
    operations the node holds depends on the iteration order of a Go map -/
def exclLegacyKeyCollision (k : RouterKind) (d : Doc) : Bool :=
  k = .legacy && keyCollision (docKeys d)

/-- a server whose URL pattern matches the request only with a variable value that contains a dot -/
def serverMatchesWithDot (s : Server) (r : Req) : Bool :=
  let url := dropOneSlash s.url
  let toks := sparseS url
  let target := if isRelativeURL url then r.path else fullURL r
  (smatchP toks target).any (fun br => (br.2 = [] || br.2.head? = some '/') && br.1.any (fun v => v.contains '.'))

/-- both routers: a server variable never takes a value with the character that follows it in the server URL — for a host
    variable (`https://{tenant}.api.test`) a value with a dot (`a.b.api.test`): mux compiles host variables to `[^.]+`,
    `Server.MatchRawURL` ends a value at the next pattern character; the specification puts no such restriction on values.
    Stated coarsely on the request: some declared server matches it with a dotted value. -/
def exclSrvVarDot (d : Doc) (r : Req) : Bool :=
  d.servers.any (serverMatchesWithDot · r) || d.paths.any (fun p => p.servers.any (serverMatchesWithDot · r))

end KinModel.Router
