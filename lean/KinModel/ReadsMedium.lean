/-
C11 — what the library's own readers do with a location handed to `Loader.ReadFromURIFunc`
(openapi3/loader_uri_reader.go: ReadFromURIs, ReadFromHTTP, is_file, ReadFromFile; DefaultReadFromURI is
URIMapCache(ReadFromURIs(ReadFromHTTP(http.DefaultClient), ReadFromFile))).

The loader model (Reads.lean) ends at the location handed to the reader. The property speaks of the locations READ:
the reader must read the very location it is handed — a local file only for a location that names no host and has
the scheme "" or "file", and then the file at the location's path; a remote fetch only of the location itself.
Core-only.
-/
namespace KinModel.Reads

/-- a location as `url.URL` holds it (the three fields the readers look at) -/
structure RLoc where
  scheme : String
  host : String
  path : String
  deriving DecidableEq, Repr

/-- what a reader touches -/
inductive Medium where
  | http (u : RLoc)        -- GET of location.String() through the http.Client
  | file (path : String)   -- os.ReadFile(filepath.FromSlash(path))
  | unsupported            -- ErrURINotSupported from every reader: nothing is read
  deriving DecidableEq, Repr

/-- ReadFromHTTP: `if location.Scheme == "" || location.Host == "" { return nil, ErrURINotSupported }` -/
def readFromHTTP (l : RLoc) : Option Medium :=
  if l.scheme = "" ∨ l.host = "" then none else some (.http l)

/-- is_file: `location.Path != "" && location.Host == "" && (location.Scheme == "" || location.Scheme == "file")` -/
def isFile (l : RLoc) : Bool :=
  l.path != "" && l.host == "" && (l.scheme == "" || l.scheme == "file")

/-- ReadFromFile -/
def readFromFile (l : RLoc) : Option Medium :=
  if isFile l then some (.file l.path) else none

/-- ReadFromURIs: the first reader that supports the location -/
def readFromURIs (rs : List (RLoc → Option Medium)) (l : RLoc) : Medium :=
  match rs with
  | [] => .unsupported
  | r :: rest => match r l with
    | some m => m
    | none => readFromURIs rest l

/-- DefaultReadFromURI without its cache (the cache is `cacheFilter` of Reads.lean) -/
def defaultRead (l : RLoc) : Medium := readFromURIs [readFromHTTP, readFromFile] l

/-- SPEC (from the property text, not from the code): the medium touched IS the location handed over.
A local file stands for a location only if the location names no host and is scheme-less or `file:`, and it is the
file at the location's path; a remote fetch stands for a location only if it fetches that location and the location
names a scheme and a host; reading nothing is always allowed. -/
def Faithful (m : Medium) (l : RLoc) : Prop :=
  match m with
  | .unsupported => True
  | .file p => l.host = "" ∧ (l.scheme = "" ∨ l.scheme = "file") ∧ p = l.path ∧ p ≠ ""
  | .http u => u = l ∧ l.scheme ≠ "" ∧ l.host ≠ ""

def faithfulB (m : Medium) (l : RLoc) : Bool :=
  match m with
  | .unsupported => true
  | .file p => l.host == "" && (l.scheme == "" || l.scheme == "file") && p == l.path && p != ""
  | .http u => u == l && l.scheme != "" && l.host != ""

end KinModel.Reads
