/-
C13 — "n validations": iterating a validation step.  `iterN f n x` is `f` applied `n` times to `x` (a request, a
parameter store, a decoded body).  The two lemmas reduce "n validations = 1 validation" to "2 validations = 1".
-/
namespace KinModel.C13

def iterN {α : Type} (f : α → α) : Nat → α → α
  | 0, x => x
  | n + 1, x => iterN f n (f x)

theorem iterN_fixed {α : Type} (f : α → α) (y : α) (h : f y = y) : ∀ n, iterN f n y = y
  | 0 => rfl
  | n + 1 => by simp only [iterN, h]; exact iterN_fixed f y h n

/-- if a second application changes nothing, no further application does -/
theorem iterN_of_idem {α : Type} (f : α → α) (x : α) (h : f (f x) = f x) (n : Nat) : iterN f (n + 1) x = f x := by
  simp only [iterN]; exact iterN_fixed f (f x) h n

end KinModel.C13
